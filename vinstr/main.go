// vinstr rewrites Thanos (and selected dependency) source files so that their synchronisation operations go
// through verif/vsync. It works syntactically (go/ast), keeps all user types intact and fails loudly on any
// form it does not understand. Input (stdin, JSON): {repo, out, files:[path | {path, points:[regex],
// probes:[funcname], rangechan:[expr]}], overlay:{path:replacement}}; output (stdout, JSON): overlay
// entries {original path: instrumented copy}.
package main

import (
	"bytes"
	"encoding/json"
	"fmt"
	"go/ast"
	"go/format"
	"go/parser"
	"go/printer"
	"go/token"
	"os"
	"path/filepath"
	"regexp"
	"strconv"
	"strings"

	"golang.org/x/tools/go/ast/astutil"
)

type fileSpec struct {
	Path      string   `json:"path"`
	Points    []string `json:"points"`
	Probes    []string `json:"probes"`
	RangeChan []string `json:"rangechan"`
	// As: overlay key to register the result under (a virtual file, e.g. a copy of a dependency's file placed
	// in a new package directory under the repository) instead of Path.
	As string `json:"as"`
	// Imports rewrites import paths (old -> new).
	Imports map[string]string `json:"imports"`
	// NoSync: only insert probes / points, leave synchronisation operations alone.
	NoSync bool `json:"nosync"`
	// LoopTicks: functions ("F", "T.M" or "(*T).M") whose for/range bodies get a vsync.LoopTick("<func>#<k>").
	LoopTicks []string `json:"loopticks"`
	// FieldWrites: regular expressions on the printed left-hand side of assignments / inc-dec statements (index,
	// slice, star and parentheses stripped, e.g. `^q\.queue$`); a vsync.Point("w:<lhs>") is put before each
	// matching statement. This keeps the read-modify-write windows of shared state interruptible whether or not
	// the lock that is supposed to protect them is (still) taken.
	FieldWrites []string `json:"fieldwrites"`
}

type spec struct {
	Repo    string            `json:"repo"`
	Out     string            `json:"out"`
	Files   []json.RawMessage `json:"files"`
	Overlay map[string]string `json:"overlay"`
}

func fail(format string, a ...any) {
	fmt.Fprintf(os.Stderr, "vinstr: "+format+"\n", a...)
	os.Exit(1)
}

func main() {
	var sp spec
	if err := json.NewDecoder(os.Stdin).Decode(&sp); err != nil {
		fail("bad spec: %v", err)
	}
	out := map[string]string{}
	for i, raw := range sp.Files {
		var fs fileSpec
		if err := json.Unmarshal(raw, &fs); err != nil {
			var s string
			if err2 := json.Unmarshal(raw, &s); err2 != nil {
				fail("bad file entry %d", i)
			}
			fs.Path = s
		}
		orig := fs.Path
		if !filepath.IsAbs(orig) {
			orig = filepath.Join(sp.Repo, orig)
		}
		src := orig
		if r, ok := sp.Overlay[orig]; ok {
			src = r
		}
		b, err := os.ReadFile(src)
		if err != nil {
			fail("read %s: %v", src, err)
		}
		res, err := instrument(orig, b, &fs)
		if err != nil {
			fail("%s: %v", orig, err)
		}
		dst := filepath.Join(sp.Out, fmt.Sprintf("%02d_", i)+strings.ReplaceAll(strings.TrimPrefix(orig, "/"), "/", "__"))
		if err := os.WriteFile(dst, res, 0o644); err != nil {
			fail("write %s: %v", dst, err)
		}
		if fs.As != "" {
			as := fs.As
			if !filepath.IsAbs(as) {
				as = filepath.Join(sp.Repo, as)
			}
			out[as] = dst
		} else {
			out[orig] = dst
		}
	}
	json.NewEncoder(os.Stdout).Encode(out)
}

type inst struct {
	fset     *token.FileSet
	file     *ast.File
	fs       *fileSpec
	pkgSync  string // local name of "sync" import ("" if none)
	pkgTime  string
	pkgErrg  string
	tmp      int
	err      error
	points   []*regexp.Regexp
	fwrites  []*regexp.Regexp
	chanName map[string]bool // identifiers / field names known to be channels (for range)
	used     bool
}

func (in *inst) errorf(n ast.Node, format string, a ...any) {
	if in.err == nil {
		in.err = fmt.Errorf("%s: %s", in.fset.Position(n.Pos()), fmt.Sprintf(format, a...))
	}
}

func (in *inst) fresh(prefix string) *ast.Ident {
	in.tmp++
	return ast.NewIdent(fmt.Sprintf("_vs%s%d", prefix, in.tmp))
}

func importName(f *ast.File, path string) string {
	for _, im := range f.Imports {
		p, _ := strconv.Unquote(im.Path.Value)
		if p == path {
			if im.Name != nil {
				return im.Name.Name
			}
			return filepath.Base(path)
		}
	}
	return ""
}

func vs(name string) ast.Expr {
	return &ast.SelectorExpr{X: ast.NewIdent("vsync"), Sel: ast.NewIdent(name)}
}

func call(fun ast.Expr, args ...ast.Expr) *ast.CallExpr { return &ast.CallExpr{Fun: fun, Args: args} }

func str(s string) ast.Expr { return &ast.BasicLit{Kind: token.STRING, Value: strconv.Quote(s)} }

func (in *inst) exprString(e ast.Node) string {
	var b bytes.Buffer
	printer.Fprint(&b, in.fset, e)
	return b.String()
}

var syncMap = map[string]string{
	"Mutex": "Mutex", "RWMutex": "RWMutex", "Cond": "Cond", "WaitGroup": "WaitGroup", "Once": "Once",
	"NewCond": "NewCond", "Pool": "Pool", "Map": "Map", "Locker": "Locker",
}
var timeMap = map[string]string{
	"Now": "Now", "Since": "Since", "Until": "Until", "Sleep": "Sleep", "After": "After", "AfterFunc": "AfterFunc",
	"NewTimer": "NewTimer", "Timer": "Timer",
}
var timeUnsupported = map[string]bool{"NewTicker": true, "Tick": true, "Ticker": true}

func isSimple(e ast.Expr) bool {
	switch x := e.(type) {
	case *ast.Ident:
		return true
	case *ast.BasicLit:
		return true
	case *ast.SelectorExpr:
		return isSimple(x.X)
	case *ast.ParenExpr:
		return isSimple(x.X)
	case *ast.StarExpr:
		return isSimple(x.X)
	case *ast.CompositeLit:
		for _, el := range x.Elts {
			if kv, ok := el.(*ast.KeyValueExpr); ok {
				if !isSimple(kv.Value) {
					return false
				}
				continue
			}
			if !isSimple(el) {
				return false
			}
		}
		return true
	case *ast.UnaryExpr:
		return x.Op != token.ARROW && isSimple(x.X)
	case *ast.IndexExpr:
		return isSimple(x.X) && isSimple(x.Index)
	}
	return false
}

func isLiteralArg(e ast.Expr) bool {
	switch x := e.(type) {
	case *ast.BasicLit:
		return true
	case *ast.Ident:
		return x.Name == "nil" || x.Name == "true" || x.Name == "false"
	case *ast.UnaryExpr:
		return x.Op == token.SUB && isLiteralArg(x.X)
	}
	return false
}

func unparen(e ast.Expr) ast.Expr {
	for {
		p, ok := e.(*ast.ParenExpr)
		if !ok {
			return e
		}
		e = p.X
	}
}

func recvOperand(e ast.Expr) (ast.Expr, bool) {
	u, ok := unparen(e).(*ast.UnaryExpr)
	if !ok || u.Op != token.ARROW {
		return nil, false
	}
	return u.X, true
}

// collectChanNames finds identifiers and field names with a visible channel type.
func (in *inst) collectChanNames() {
	in.chanName = map[string]bool{}
	for _, s := range in.fs.RangeChan {
		in.chanName[s] = true
	}
	isChan := func(t ast.Expr) bool { _, ok := t.(*ast.ChanType); return ok }
	ast.Inspect(in.file, func(n ast.Node) bool {
		switch x := n.(type) {
		case *ast.Field:
			if x.Type != nil && isChan(x.Type) {
				for _, nm := range x.Names {
					in.chanName[nm.Name] = true
				}
			}
		case *ast.ValueSpec:
			if x.Type != nil && isChan(x.Type) {
				for _, nm := range x.Names {
					in.chanName[nm.Name] = true
				}
			}
			for i, v := range x.Values {
				if c, ok := v.(*ast.CallExpr); ok && len(c.Args) > 0 {
					if id, ok := c.Fun.(*ast.Ident); ok && id.Name == "make" && isChan(c.Args[0]) && i < len(x.Names) {
						in.chanName[x.Names[i].Name] = true
					}
				}
			}
		case *ast.AssignStmt:
			for i, v := range x.Rhs {
				if c, ok := v.(*ast.CallExpr); ok && len(c.Args) > 0 {
					if id, ok := c.Fun.(*ast.Ident); ok && id.Name == "make" && isChan(c.Args[0]) && i < len(x.Lhs) {
						in.chanName[in.exprString(x.Lhs[i])] = true
						if sel, ok := x.Lhs[i].(*ast.SelectorExpr); ok {
							in.chanName[sel.Sel.Name] = true
						}
					}
				}
			}
		}
		return true
	})
}

func (in *inst) isChanExpr(e ast.Expr) bool {
	switch x := unparen(e).(type) {
	case *ast.Ident:
		return in.chanName[x.Name]
	case *ast.SelectorExpr:
		return in.chanName[x.Sel.Name] || in.chanName[in.exprString(x)]
	}
	return in.chanName[in.exprString(e)]
}

func instrument(path string, src []byte, fs *fileSpec) ([]byte, error) {
	fset := token.NewFileSet()
	f, err := parser.ParseFile(fset, path, src, parser.ParseComments)
	if err != nil {
		return nil, err
	}
	in := &inst{fset: fset, file: f, fs: fs}
	in.pkgSync = importName(f, "sync")
	in.pkgTime = importName(f, "time")
	in.pkgErrg = importName(f, "golang.org/x/sync/errgroup")
	for _, p := range fs.Points {
		re, err := regexp.Compile(p)
		if err != nil {
			return nil, err
		}
		in.points = append(in.points, re)
	}
	for _, p := range fs.FieldWrites {
		re, err := regexp.Compile(p)
		if err != nil {
			return nil, err
		}
		in.fwrites = append(in.fwrites, re)
	}
	for _, im := range f.Imports {
		p, _ := strconv.Unquote(im.Path.Value)
		if np, ok := fs.Imports[p]; ok {
			if im.Name == nil {
				im.Name = ast.NewIdent(filepath.Base(p))
			}
			im.Path.Value = strconv.Quote(np)
		}
	}
	in.collectChanNames()

	// Drop comments attached inside rewritten regions: free-floating comments confuse the printer after
	// heavy rewriting. Keep only the file's doc/build constraints (leading comments before `package`).
	var keep []*ast.CommentGroup
	for _, cg := range f.Comments {
		if cg.End() < f.Package {
			keep = append(keep, cg)
		}
	}
	f.Comments = keep

	in.insertProbes()
	in.insertPoints()
	in.insertLoopTicks()

	astutil.Apply(f, nil, func(c *astutil.Cursor) bool {
		if in.err != nil || fs.NoSync {
			return false
		}
		switch n := c.Node().(type) {
		case *ast.SelectorExpr:
			if id, ok := n.X.(*ast.Ident); ok && id.Obj == nil {
				switch {
				case in.pkgSync != "" && id.Name == in.pkgSync:
					if m, ok := syncMap[n.Sel.Name]; ok {
						c.Replace(vs(m))
						in.used = true
					} else {
						in.errorf(n, "unsupported sync.%s", n.Sel.Name)
					}
				case in.pkgTime != "" && id.Name == in.pkgTime:
					if m, ok := timeMap[n.Sel.Name]; ok {
						c.Replace(vs(m))
						in.used = true
					} else if timeUnsupported[n.Sel.Name] {
						in.errorf(n, "unsupported time.%s", n.Sel.Name)
					}
				case in.pkgErrg != "" && id.Name == in.pkgErrg:
					switch n.Sel.Name {
					case "Group":
						c.Replace(vs("ErrGroup"))
						in.used = true
					case "WithContext":
						c.Replace(vs("ErrGroupWithContext"))
						in.used = true
					default:
						in.errorf(n, "unsupported errgroup.%s", n.Sel.Name)
					}
				}
			}
		case *ast.GoStmt:
			c.Replace(in.rewriteGo(n))
		case *ast.SendStmt:
			if _, inComm := c.Parent().(*ast.CommClause); inComm {
				return true
			}
			c.Replace(in.rewriteSend(n))
		case *ast.UnaryExpr:
			if n.Op == token.ARROW {
				// receives that are select comm clauses are handled by rewriteSelect
				switch p := c.Parent().(type) {
				case *ast.ExprStmt:
					_ = p
				}
				c.Replace(call(vs("Recv"), n.X))
				in.used = true
			}
		case *ast.AssignStmt:
			if len(n.Lhs) == 2 && len(n.Rhs) == 1 {
				if cl, ok := n.Rhs[0].(*ast.CallExpr); ok && isVS(cl.Fun, "Recv") {
					cl.Fun = vs("Recv2")
				}
			}
		case *ast.ValueSpec:
			if len(n.Names) == 2 && len(n.Values) == 1 {
				if cl, ok := n.Values[0].(*ast.CallExpr); ok && isVS(cl.Fun, "Recv") {
					cl.Fun = vs("Recv2")
				}
			}
		case *ast.CallExpr:
			if id, ok := n.Fun.(*ast.Ident); ok && id.Name == "close" && id.Obj == nil && len(n.Args) == 1 {
				c.Replace(call(vs("Close"), n.Args[0]))
				in.used = true
			}
		case *ast.RangeStmt:
			if in.isChanExpr(n.X) {
				n.X = call(vs("Range"), n.X)
				in.used = true
			}
		case *ast.SelectStmt:
			c.Replace(in.rewriteSelect(n, nil))
		case *ast.LabeledStmt:
			// label moved onto the switch by rewriteSelect's block: handled below
			if blk, ok := n.Stmt.(*ast.BlockStmt); ok && len(blk.List) > 0 {
				if sw, ok := blk.List[len(blk.List)-1].(*ast.SwitchStmt); ok && isVSSelectSwitch(sw) {
					blk.List[len(blk.List)-1] = &ast.LabeledStmt{Label: n.Label, Stmt: sw}
					c.Replace(blk)
				}
			}
		}
		return true
	})
	if in.err != nil {
		return nil, in.err
	}
	if in.used || len(fs.Probes) > 0 || len(fs.Points) > 0 || len(fs.LoopTicks) > 0 || len(fs.FieldWrites) > 0 {
		astutil.AddNamedImport(fset, f, "vsync", "verif/vsync")
	}
	for _, pk := range []struct{ name, path string }{{in.pkgSync, "sync"}, {in.pkgTime, "time"}, {in.pkgErrg, "golang.org/x/sync/errgroup"}} {
		if pk.name != "" && !usesPkg(f, pk.name) {
			if filepath.Base(pk.path) == pk.name {
				astutil.DeleteImport(fset, f, pk.path)
			} else {
				astutil.DeleteNamedImport(fset, f, pk.name, pk.path)
			}
		}
	}
	var buf bytes.Buffer
	if err := printer.Fprint(&buf, fset, f); err != nil {
		return nil, err
	}
	res, err := format.Source(buf.Bytes())
	if err != nil {
		return nil, fmt.Errorf("instrumented source does not format: %v\n%s", err, buf.String())
	}
	return res, nil
}

func isVS(e ast.Expr, name string) bool {
	s, ok := e.(*ast.SelectorExpr)
	if !ok {
		return false
	}
	id, ok := s.X.(*ast.Ident)
	return ok && id.Name == "vsync" && s.Sel.Name == name
}

func isVSSelectSwitch(sw *ast.SwitchStmt) bool {
	as, ok := sw.Init.(*ast.AssignStmt)
	if !ok || len(as.Rhs) != 1 {
		return false
	}
	cl, ok := as.Rhs[0].(*ast.CallExpr)
	return ok && isVS(cl.Fun, "Select")
}

func usesPkg(f *ast.File, name string) bool {
	used := false
	ast.Inspect(f, func(n ast.Node) bool {
		if s, ok := n.(*ast.SelectorExpr); ok {
			if id, ok := s.X.(*ast.Ident); ok && id.Name == name && id.Obj == nil {
				used = true
			}
		}
		return !used
	})
	return used
}

func (in *inst) rewriteGo(g *ast.GoStmt) ast.Stmt {
	in.used = true
	var pre []ast.Stmt
	args := make([]ast.Expr, len(g.Call.Args))
	for i, a := range g.Call.Args {
		if isLiteralArg(a) {
			args[i] = a
			continue
		}
		if _, isFn := a.(*ast.FuncLit); isFn {
			args[i] = a
			continue
		}
		t := in.fresh("a")
		pre = append(pre, &ast.AssignStmt{Lhs: []ast.Expr{t}, Tok: token.DEFINE, Rhs: []ast.Expr{a}})
		args[i] = t
	}
	inner := &ast.CallExpr{Fun: g.Call.Fun, Args: args, Ellipsis: g.Call.Ellipsis}
	if g.Call.Ellipsis.IsValid() {
		inner.Ellipsis = 1
	}
	fl := &ast.FuncLit{Type: &ast.FuncType{Params: &ast.FieldList{}}, Body: &ast.BlockStmt{List: []ast.Stmt{&ast.ExprStmt{X: inner}}}}
	st := &ast.ExprStmt{X: call(vs("Go"), fl)}
	if len(pre) == 0 {
		return st
	}
	return &ast.BlockStmt{List: append(pre, st)}
}

func (in *inst) rewriteSend(s *ast.SendStmt) ast.Stmt {
	in.used = true
	var list []ast.Stmt
	ch := s.Chan
	if !isSimple(ch) {
		t := in.fresh("c")
		list = append(list, &ast.AssignStmt{Lhs: []ast.Expr{t}, Tok: token.DEFINE, Rhs: []ast.Expr{ch}})
		ch = t
	}
	val := s.Value
	if !isSimple(val) && !isLiteralArg(val) {
		t := in.fresh("v")
		list = append(list, &ast.AssignStmt{Lhs: []ast.Expr{t}, Tok: token.DEFINE, Rhs: []ast.Expr{val}})
		val = t
	}
	tok := in.fresh("t")
	list = append(list,
		&ast.AssignStmt{Lhs: []ast.Expr{tok}, Tok: token.DEFINE, Rhs: []ast.Expr{call(vs("BeforeSend"), ch)}},
		&ast.SendStmt{Chan: ch, Value: val},
		&ast.ExprStmt{X: call(&ast.SelectorExpr{X: tok, Sel: ast.NewIdent("Done")})},
	)
	return &ast.BlockStmt{List: list}
}

// rewriteSelect: by the time astutil's post-order visit reaches the select statement its comm clauses have
// already had `<-ch` replaced by vsync.Recv(ch) (and Recv2); undo that inside the comm statements.
func (in *inst) rewriteSelect(s *ast.SelectStmt, label *ast.Ident) ast.Stmt {
	in.used = true
	var pre []ast.Stmt
	var selArgs []ast.Expr
	hasDefault := false
	sel := in.fresh("s")
	var clauses []ast.Stmt
	var origClauses []ast.Stmt
	idx := 0
	for _, cc0 := range s.Body.List {
		cc := cc0.(*ast.CommClause)
		if cc.Comm == nil {
			hasDefault = true
			clauses = append(clauses, &ast.CaseClause{List: []ast.Expr{&ast.UnaryExpr{Op: token.SUB, X: &ast.BasicLit{Kind: token.INT, Value: "1"}}}, Body: cc.Body})
			origClauses = append(origClauses, &ast.CommClause{Body: cc.Body})
			continue
		}
		done := &ast.ExprStmt{X: call(&ast.SelectorExpr{X: sel, Sel: ast.NewIdent("Done")})}
		caseLit := &ast.BasicLit{Kind: token.INT, Value: strconv.Itoa(idx)}
		idx++
		switch cm := cc.Comm.(type) {
		case *ast.SendStmt:
			ct := in.fresh("c")
			pre = append(pre, &ast.AssignStmt{Lhs: []ast.Expr{ct}, Tok: token.DEFINE, Rhs: []ast.Expr{cm.Chan}})
			val := cm.Value
			if !isSimple(val) && !isLiteralArg(val) {
				vt := in.fresh("v")
				pre = append(pre, &ast.AssignStmt{Lhs: []ast.Expr{vt}, Tok: token.DEFINE, Rhs: []ast.Expr{val}})
				val = vt
			}
			selArgs = append(selArgs, call(vs("SendCase"), ct))
			body := append([]ast.Stmt{&ast.SendStmt{Chan: ct, Value: val}, done}, cc.Body...)
			clauses = append(clauses, &ast.CaseClause{List: []ast.Expr{caseLit}, Body: body})
			origClauses = append(origClauses, &ast.CommClause{Comm: &ast.SendStmt{Chan: ct, Value: val}, Body: cc.Body})
		case *ast.ExprStmt:
			chx, ok := recvCallOperand(cm.X)
			if !ok {
				in.errorf(cm, "unsupported select comm expression")
				return s
			}
			ct := in.fresh("c")
			pre = append(pre, &ast.AssignStmt{Lhs: []ast.Expr{ct}, Tok: token.DEFINE, Rhs: []ast.Expr{chx}})
			selArgs = append(selArgs, call(vs("RecvCase"), ct))
			recv := &ast.ExprStmt{X: &ast.UnaryExpr{Op: token.ARROW, X: ct}}
			body := append([]ast.Stmt{recv, done}, cc.Body...)
			clauses = append(clauses, &ast.CaseClause{List: []ast.Expr{caseLit}, Body: body})
			origClauses = append(origClauses, &ast.CommClause{Comm: &ast.ExprStmt{X: &ast.UnaryExpr{Op: token.ARROW, X: ct}}, Body: cc.Body})
		case *ast.AssignStmt:
			if len(cm.Rhs) != 1 {
				in.errorf(cm, "unsupported select comm assignment")
				return s
			}
			chx, ok := recvCallOperand(cm.Rhs[0])
			if !ok {
				in.errorf(cm, "unsupported select comm assignment")
				return s
			}
			ct := in.fresh("c")
			pre = append(pre, &ast.AssignStmt{Lhs: []ast.Expr{ct}, Tok: token.DEFINE, Rhs: []ast.Expr{chx}})
			selArgs = append(selArgs, call(vs("RecvCase"), ct))
			mk := func() *ast.AssignStmt {
				return &ast.AssignStmt{Lhs: cm.Lhs, Tok: cm.Tok, Rhs: []ast.Expr{&ast.UnaryExpr{Op: token.ARROW, X: ct}}}
			}
			body := append([]ast.Stmt{mk(), done}, cc.Body...)
			clauses = append(clauses, &ast.CaseClause{List: []ast.Expr{caseLit}, Body: body})
			origClauses = append(origClauses, &ast.CommClause{Comm: mk(), Body: cc.Body})
		default:
			in.errorf(cc.Comm, "unsupported select comm statement")
			return s
		}
	}
	hd := ast.NewIdent("false")
	if hasDefault {
		hd = ast.NewIdent("true")
	}
	// fallback: no execution active -> the original select on the evaluated channels
	clauses = append(clauses, &ast.CaseClause{
		List: []ast.Expr{&ast.UnaryExpr{Op: token.SUB, X: &ast.BasicLit{Kind: token.INT, Value: "2"}}},
		Body: []ast.Stmt{&ast.SelectStmt{Body: &ast.BlockStmt{List: origClauses}}},
	})
	// default: keeps the switch a terminating statement when every select arm is one
	clauses = append(clauses, &ast.CaseClause{
		Body: []ast.Stmt{&ast.ExprStmt{X: call(ast.NewIdent("panic"), str("vsync: bad select index"))}},
	})
	sw := &ast.SwitchStmt{
		Init: &ast.AssignStmt{Lhs: []ast.Expr{sel}, Tok: token.DEFINE, Rhs: []ast.Expr{call(vs("Select"), append([]ast.Expr{hd}, selArgs...)...)}},
		Tag:  &ast.SelectorExpr{X: sel, Sel: ast.NewIdent("I")},
		Body: &ast.BlockStmt{List: clauses},
	}
	return &ast.BlockStmt{List: append(pre, sw)}
}

// recvCallOperand recognises vsync.Recv(x) / vsync.Recv2(x) (already rewritten) or a raw <-x.
func recvCallOperand(e ast.Expr) (ast.Expr, bool) {
	e = unparen(e)
	if cl, ok := e.(*ast.CallExpr); ok && (isVS(cl.Fun, "Recv") || isVS(cl.Fun, "Recv2")) && len(cl.Args) == 1 {
		return cl.Args[0], true
	}
	return recvOperand(e)
}

// insertPoints adds vsync.Point(site) before every simple statement that contains a call matching one of
// the configured regular expressions.
func (in *inst) insertPoints() {
	if len(in.points) == 0 && len(in.fwrites) == 0 {
		return
	}
	lhsMatch := func(e ast.Expr) string {
		for {
			switch x := e.(type) {
			case *ast.ParenExpr:
				e = x.X
				continue
			case *ast.IndexExpr:
				e = x.X
				continue
			case *ast.SliceExpr:
				e = x.X
				continue
			case *ast.StarExpr:
				e = x.X
				continue
			}
			break
		}
		if _, ok := e.(*ast.SelectorExpr); !ok {
			return ""
		}
		s := in.exprString(e)
		for _, re := range in.fwrites {
			if re.MatchString(s) {
				return "w:" + s
			}
		}
		return ""
	}
	matches := func(n ast.Node) string {
		found := ""
		ast.Inspect(n, func(x ast.Node) bool {
			if found != "" {
				return false
			}
			if _, isFn := x.(*ast.FuncLit); isFn {
				return false
			}
			if len(in.fwrites) > 0 {
				switch a := x.(type) {
				case *ast.AssignStmt:
					for _, l := range a.Lhs {
						if m := lhsMatch(l); m != "" {
							found = m
							return false
						}
					}
				case *ast.IncDecStmt:
					if m := lhsMatch(a.X); m != "" {
						found = m
						return false
					}
				}
			}
			if c, ok := x.(*ast.CallExpr); ok {
				s := in.exprString(c.Fun)
				for _, re := range in.points {
					if re.MatchString(s) {
						found = s
						return false
					}
				}
			}
			return true
		})
		return found
	}
	var doList func(list []ast.Stmt) []ast.Stmt
	header := func(s ast.Stmt) ast.Node {
		switch x := s.(type) {
		case *ast.IfStmt:
			return &ast.BlockStmt{List: []ast.Stmt{stmtOrEmpty(x.Init), &ast.ExprStmt{X: x.Cond}}}
		case *ast.ForStmt:
			var l []ast.Stmt
			l = append(l, stmtOrEmpty(x.Init))
			if x.Cond != nil {
				l = append(l, &ast.ExprStmt{X: x.Cond})
			}
			return &ast.BlockStmt{List: l}
		case *ast.SwitchStmt:
			var l []ast.Stmt
			l = append(l, stmtOrEmpty(x.Init))
			if x.Tag != nil {
				l = append(l, &ast.ExprStmt{X: x.Tag})
			}
			return &ast.BlockStmt{List: l}
		case *ast.RangeStmt:
			return &ast.ExprStmt{X: x.X}
		case *ast.BlockStmt, *ast.SelectStmt, *ast.TypeSwitchStmt, *ast.LabeledStmt, *ast.CaseClause, *ast.CommClause:
			return &ast.EmptyStmt{}
		}
		return s
	}
	doList = func(list []ast.Stmt) []ast.Stmt {
		var out []ast.Stmt
		for _, s := range list {
			if site := matches(header(s)); site != "" {
				out = append(out, &ast.ExprStmt{X: call(vs("Point"), str(site))})
				in.used = true
			}
			out = append(out, s)
		}
		return out
	}
	ast.Inspect(in.file, func(n ast.Node) bool {
		switch x := n.(type) {
		case *ast.BlockStmt:
			x.List = doList(x.List)
		case *ast.CaseClause:
			x.Body = doList(x.Body)
		case *ast.CommClause:
			x.Body = doList(x.Body)
		}
		return true
	})
}

func stmtOrEmpty(s ast.Stmt) ast.Stmt {
	if s == nil {
		return &ast.EmptyStmt{}
	}
	return s
}

// insertProbes adds vsync.Probe("Recv.Method", recv) at the entry of the named methods ("(*T).M" or "T.M")
// or functions ("F", probe value nil).
func (in *inst) insertProbes() {
	if len(in.fs.Probes) == 0 {
		return
	}
	want := map[string]bool{}
	for _, p := range in.fs.Probes {
		want[p] = true
	}
	for _, d := range in.file.Decls {
		fd, ok := d.(*ast.FuncDecl)
		if !ok || fd.Body == nil {
			continue
		}
		name := fd.Name.Name
		var recv ast.Expr = ast.NewIdent("nil")
		if fd.Recv != nil && len(fd.Recv.List) == 1 {
			name = in.exprString(fd.Recv.List[0].Type) + "." + name
			if strings.HasPrefix(name, "*") {
				name = "(" + in.exprString(fd.Recv.List[0].Type) + ")." + fd.Name.Name
			}
			if len(fd.Recv.List[0].Names) == 1 && fd.Recv.List[0].Names[0].Name != "_" {
				recv = ast.NewIdent(fd.Recv.List[0].Names[0].Name)
			}
		}
		if !want[name] {
			continue
		}
		delete(want, name)
		probe := &ast.ExprStmt{X: call(vs("Probe"), str(name), recv)}
		fd.Body.List = append([]ast.Stmt{probe}, fd.Body.List...)
		in.used = true
	}
	for w := range want {
		in.err = fmt.Errorf("probe target %s not found", w)
	}
}

// funcDeclName renders a function declaration's name the way probes and loop ticks are configured.
func (in *inst) funcDeclName(fd *ast.FuncDecl) string {
	name := fd.Name.Name
	if fd.Recv != nil && len(fd.Recv.List) == 1 {
		t := in.exprString(fd.Recv.List[0].Type)
		if strings.HasPrefix(t, "*") {
			return "(" + t + ")." + name
		}
		return t + "." + name
	}
	return name
}

// insertLoopTicks adds vsync.LoopTick("<func>#<k>") as the first statement of every for/range body of the
// configured functions (k = index of the loop in source order).
func (in *inst) insertLoopTicks() {
	if len(in.fs.LoopTicks) == 0 {
		return
	}
	want := map[string]bool{}
	for _, f := range in.fs.LoopTicks {
		want[f] = true
	}
	for _, d := range in.file.Decls {
		fd, ok := d.(*ast.FuncDecl)
		if !ok || fd.Body == nil {
			continue
		}
		name := in.funcDeclName(fd)
		if !want[name] {
			continue
		}
		delete(want, name)
		k := 0
		ast.Inspect(fd.Body, func(n ast.Node) bool {
			var body *ast.BlockStmt
			switch x := n.(type) {
			case *ast.ForStmt:
				body = x.Body
			case *ast.RangeStmt:
				body = x.Body
			}
			if body != nil {
				var key ast.Expr = ast.NewIdent("nil")
				if fd.Type.Params != nil && len(fd.Type.Params.List) > 0 && len(fd.Type.Params.List[0].Names) > 0 && fd.Type.Params.List[0].Names[0].Name != "_" {
					key = ast.NewIdent(fd.Type.Params.List[0].Names[0].Name)
				}
				tick := &ast.ExprStmt{X: call(vs("LoopTick"), str(fmt.Sprintf("%s#%d", name, k)), key)}
				body.List = append([]ast.Stmt{tick}, body.List...)
				k++
				in.used = true
			}
			return true
		})
	}
	for w := range want {
		in.err = fmt.Errorf("looptick target %s not found", w)
	}
}
