#!/bin/bash
# Offline setup: warm the Go build cache for Thanos (tags slicelabels) and pre-build every check binary.
set -u
cd "$(dirname "$0")"
export GOFLAGS=-mod=mod GOPROXY=off
unset GOSUMDB GOTOOLCHAIN GONOSUMDB
cp -f /repo/go.sum go.sum
mkdir -p .build evidence /var/tmp/verif-scratch
( cd /repo && go build -tags slicelabels ./pkg/... ) || echo "warm-up build reported errors (continuing; each check rebuilds what it needs)"
./check --build-all || echo "some check binaries failed to pre-build (each check rebuilds on demand)"
exit 0
