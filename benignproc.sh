#!/bin/bash
# benignproc.sh <ID>: take the two property-preserving changes produced in /tmp/benign-<ID>/BENIGN, store them under
# /verif/benign/<ID>/ and run the check against each (overlay, /repo untouched). Expected: exit 0 for both.
ID=$1
WT=/tmp/benign-$ID
export GOFLAGS=-mod=mod GOPROXY=off
mkdir -p /verif/benign/$ID
cp $WT/BENIGN/patch1.diff $WT/BENIGN/patch2.diff $WT/BENIGN/meta.json /verif/benign/$ID/ 2>/dev/null
cd /verif
for n in 1 2; do
  [ -s benign/$ID/patch$n.diff ] || { echo "patch$n missing"; continue; }
  ( cd $WT && git checkout -q -- . && git apply --check BENIGN/patch$n.diff ) || { echo "patch$n does not apply"; continue; }
  timeout 2400 ./check $ID --mutant benign/$ID/patch$n.diff > /var/tmp/benigncheck-$ID-$n.log 2>&1; C=$?
  SIGS=$(grep -o "signature=[^ ]*" /var/tmp/benigncheck-$ID-$n.log | sort -u | tr '\n' ' ')
  echo "$ID patch$n check_exit=$C $SIGS"
  [ $C -ne 0 ] && grep -E "HARNESS|signature=" /var/tmp/benigncheck-$ID-$n.log | cut -c1-500 | head -6
  echo "{\"property\": \"$ID\", \"patch\": $n, \"check_cmd\": \"./check $ID --mutant benign/$ID/patch$n.diff\", \"check_exit\": $C, \"signatures\": \"$SIGS\"}" > benign/$ID/result$n.json
  [ $C -eq 0 ] && rm -f /var/tmp/benigncheck-$ID-$n.log
done
