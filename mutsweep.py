#!/usr/bin/env python3
"""Run every mutant in mutants/<ID>/*.diff against its check (quick tier) and record the outcome in
mutants/RESULTS.json: caught (exit 1 + signatures), missed (exit 0), error (does not apply / harness error)."""
import glob, json, os, re, subprocess, sys
from concurrent.futures import ThreadPoolExecutor
HERE = os.path.dirname(os.path.abspath(__file__))
jobs = int(sys.argv[1]) if len(sys.argv) > 1 else 3
only = set(sys.argv[2:])
skip = set(filter(None, os.environ.get('MUTSWEEP_SKIP', '').split(',')))
items = []
for d in sorted(glob.glob(os.path.join(HERE, "mutants", "C*"))):
    cid = os.path.basename(d)
    if (only and cid not in only) or cid in skip:
        continue
    for m in sorted(glob.glob(os.path.join(d, "*.diff"))):
        items.append((cid, m))

def one(it):
    cid, m = it
    env = dict(os.environ); env["VERIF_SCRATCH"] = "/var/tmp/verif-scratch-sweep"; env["VERIF_DEADLINE_S"] = "240"
    p = subprocess.run([os.path.join(HERE, "check"), cid, "--mutant", m], cwd=HERE, capture_output=True, text=True, env=env)
    out = p.stdout + p.stderr
    sigs = sorted(set(re.findall(r"signature=(\S+)", out)))
    status = {0: "missed", 1: "caught"}.get(p.returncode, "error")
    note = ""
    if status == "error":
        note = out.strip().splitlines()[-1][:200] if out.strip() else ""
        if "does not apply" in out:
            status = "not-applicable"
    print(cid, os.path.basename(m), status, flush=True)
    return {"property": cid, "mutant": os.path.relpath(m, HERE), "status": status, "signatures": sigs, "note": note}

# mutants of one property share its build directory: run them one after the other, properties in parallel
groups = {}
for it in items:
    groups.setdefault(it[0], []).append(it)
prev = {}
rp = os.path.join(HERE, "mutants", "RESULTS.json")
if os.environ.get("MUTSWEEP_RETRY") and os.path.exists(rp):
    prev = {r["mutant"]: r for r in json.load(open(rp))}

def group(cid):
    out = []
    for it in groups[cid]:
        rel = os.path.relpath(it[1], HERE)
        if rel in prev and prev[rel]["status"] in ("caught", "missed", "not-applicable"):
            out.append(prev[rel])
            continue
        out.append(one(it))
    return out

with ThreadPoolExecutor(max_workers=jobs) as ex:
    res = [r for g in ex.map(group, sorted(groups)) for r in g]
# properties that were not part of this run keep their recorded results (as long as the diff still exists)
if os.path.exists(rp):
    for r in json.load(open(rp)):
        if r["property"] not in groups and os.path.exists(os.path.join(HERE, r["mutant"])):
            res.append(r)
res.sort(key=lambda r: (r["property"], r["mutant"]))
json.dump(res, open(os.path.join(HERE, "mutants", "RESULTS.json"), "w"), indent=1)
print("caught", sum(r["status"] == "caught" for r in res), "missed", sum(r["status"] == "missed" for r in res),
      "other", sum(r["status"] not in ("caught", "missed") for r in res))
