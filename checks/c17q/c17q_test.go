// C17 part 4: a shard matcher's pooled buffer is never used after it went back to the pool.
package c17q

import (
	"context"
	"encoding/json"
	"fmt"
	"strings"
	"testing"
	"time"

	"github.com/prometheus/prometheus/model/labels"

	"github.com/thanos-io/thanos/pkg/component"
	"github.com/thanos-io/thanos/pkg/store"
	"github.com/thanos-io/thanos/pkg/store/storepb"

	"verif/vexplore"
	"verif/vlib"
	"verif/vsync"
)

type Params struct {
	Stores [][]int `json:"stores"` // per store: label-set indices of its series (one frame each)
	Lazy   bool    `json:"lazy"`
	Limit  int     `json:"limit"`
	Buf    int     `json:"buf"`
}

func (p Params) name() string { b, _ := json.Marshal(p); return string(b) }

func scenario(p Params) *vexplore.Scenario {
	return &vexplore.Scenario{
		Name:     p.name(),
		MaxSteps: 20000,
		New: func() (func(e *vsync.Exec), func(), func(e *vsync.Exec) (string, string, string)) {
			clients := make([]store.Client, len(p.Stores))
			for i, ls := range p.Stores {
				sp := StoreSpec{}
				for j, l := range ls {
					sp.E = append(sp.E, Entry{L: l, C: []int{ChUniq + 8*i + j}})
				}
				clients[i] = &fakeStore{name: fmt.Sprintf("store-%d", i), spec: sp}
			}
			strategy := store.EagerRetrieval
			if p.Lazy {
				strategy = store.LazyRetrieval
			}
			px := store.NewProxyStore(nil, nil, func() []store.Client { return clients }, component.Query, labels.EmptyLabels(),
				0*time.Second, strategy, store.WithLazyRetrievalMaxBufferedResponsesForProxy(p.Buf))
			req := &storepb.SeriesRequest{
				MinTime: -1 << 63, MaxTime: 1<<63 - 1,
				Matchers:  []storepb.LabelMatcher{{Type: storepb.LabelMatcher_RE, Name: "x", Value: ".+"}},
				ShardInfo: &storepb.ShardInfo{TotalShards: 1, ShardIndex: 0, By: true, Labels: []string{"x"}},
				Limit:     int64(p.Limit),
			}
			srv := &collectServer{ctx: context.Background()}
			closed := map[any]bool{}
			var monitor []string
			var err error
			setup := func(e *vsync.Exec) {
				vsync.ProbeFn = func(site string, recv any) {
					if strings.HasSuffix(site, ".Close") {
						closed[recv] = true
						return
					}
					if closed[recv] {
						monitor = append(monitor, site+" on a shard matcher whose buffer was already returned to the pool")
					}
				}
			}
			body := func() { err = px.Series(req, srv) }
			check := func(e *vsync.Exec) (string, string, string) {
				vsync.ProbeFn = nil
				outcome := fmt.Sprintf("%s err=%v series=%d steps=%d", e.Outcome(), err != nil, len(srv.series), e.Steps)
				switch {
				case len(monitor) > 0:
					return "shard-buffer-used-after-return-to-pool", monitor[0], outcome
				case len(e.Panics) > 0:
					return "panic", strings.Join(e.Panics, "; "), outcome
				case e.Deadlock:
					return "deadlock", e.DeadlockMsg, outcome
				case e.Horizon:
					return "step-horizon-exceeded", "", outcome
				}
				return "", "", outcome
			}
			return setup, body, check
		},
	}
}

func TestCheck(t *testing.T) {
	r := vlib.New(t, "C17")
	defer r.Finish()
	r.Rule("sharded Series requests (stores without sharding support, 1-2 stores x 3-5 frames (the response deduplicator reads one frame ahead, so frames must remain after the limit is hit)) that stop at SeriesRequest.Limit while frames are still in flight, lazy (buffer 1-2) and eager, every schedule within the deviation bound; " +
		"distinct_nontrivial = distinct (scenario, outcome, number of series sent, execution length) observations")
	type sb struct {
		p Params
		b int
	}
	ps := []sb{
		{Params{Stores: [][]int{{0, 1, 2, 2, 2}}, Lazy: true, Limit: 1, Buf: 1}, 2},
		{Params{Stores: [][]int{{0, 1, 2, 2, 2}}, Lazy: false, Limit: 1}, 2},
		{Params{Stores: [][]int{{0, 2, 2, 2}, {1, 2, 2}}, Lazy: true, Limit: 1, Buf: 2}, 1},
	}
	if r.Thorough() {
		ps = []sb{
			{Params{Stores: [][]int{{0, 1, 2, 2, 2}}, Lazy: true, Limit: 1, Buf: 1}, 3},
			{Params{Stores: [][]int{{0, 1, 2, 2, 2}}, Lazy: false, Limit: 1}, 3},
			{Params{Stores: [][]int{{0, 2, 2, 2}, {1, 2, 2}}, Lazy: true, Limit: 1, Buf: 2}, 2},
			{Params{Stores: [][]int{{0, 2, 2, 2}, {1, 2, 2}}, Lazy: true, Limit: 2, Buf: 1}, 2},
			{Params{Stores: [][]int{{0, 1, 2, 2, 2}}, Lazy: true, Limit: 0, Buf: 1}, 2},
		}
	}
	var named []vexplore.Named
	for _, p := range ps {
		named = append(named, vexplore.Named{S: scenario(p.p), Params: p.p, Bound: p.b, UseBound: true})
	}
	vexplore.Drive(r, named, 2, func(c vexplore.Case) *vexplore.Scenario {
		var p Params
		if err := json.Unmarshal(c.Params, &p); err != nil {
			return nil
		}
		return scenario(p)
	})
}
