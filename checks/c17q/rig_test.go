// In-process rig for driving store.ProxyStore.Series: fake store.Clients that stream a scripted sequence
// of frames (optionally failing at a scripted point) and a collecting Store_SeriesServer.
// Everything is deterministic: no sleeps, no timers, no randomness. Real goroutines of the proxy decide
// the interleaving; nothing here depends on it.
package c17q

import (
	"context"
	"fmt"
	"io"
	"sync"
	"sync/atomic"

	"github.com/cespare/xxhash/v2"
	"github.com/pkg/errors"
	"github.com/prometheus/prometheus/model/labels"
	"github.com/prometheus/prometheus/tsdb/chunkenc"
	"google.golang.org/grpc"

	"verif/vsync"

	"github.com/thanos-io/thanos/pkg/info/infopb"
	"github.com/thanos-io/thanos/pkg/store/labelpb"
	"github.com/thanos-io/thanos/pkg/store/storepb"
)

// ---- label universe -------------------------------------------------------------------------------

// ReplicaLabel sorts before every other label name, so that removing it can reorder series.
const ReplicaLabel = "r"

// finalLabels are the label sets of the universe without the replica label, in labels.Compare order
// (L1 extends L0: a proper-prefix pair).
var finalLabels = [][]string{
	{"x", "1"},
	{"x", "1", "y", "1"},
	{"x", "2"},
}

// lset builds label set L with replica value R (0 = no replica label).
func lset(l, r int) labels.Labels {
	kv := append([]string(nil), finalLabels[l]...)
	if r > 0 {
		kv = append(kv, ReplicaLabel, fmt.Sprint(r))
	}
	return labels.FromStrings(kv...) // FromStrings sorts by name
}

// ---- chunk alphabet -------------------------------------------------------------------------------

const (
	ChC1  = 0 // raw [0,10]
	ChC1h = 1 // the same chunk as c1 (same bytes), Hash field populated by the store
	ChC2  = 2 // raw [11,20]
	ChC3  = 3 // raw [5,15], overlaps c1 and c2
	ChG   = 4 // aggregated (downsampled) chunk [0,10] with count and sum sub-chunks
	ChG2  = 5 // aggregated chunk [0,10]: the same count sub-chunk as g, a different sum (a distinct chunk)
	// ids >= ChUniq are raw chunks that are unique per id, window [1000+10*id, 1000+10*id+9]
	ChUniq = 100
)

func xorData(mint, maxt int64, salt float64) []byte {
	c := chunkenc.NewXORChunk()
	app, err := c.Appender()
	if err != nil {
		panic(err)
	}
	app.Append(mint, salt)
	app.Append(maxt, salt+0.5)
	return c.Bytes()
}

var (
	dataC1   = xorData(0, 10, 1)
	dataC2   = xorData(11, 20, 2)
	dataC3   = xorData(5, 15, 3)
	dataCnt  = xorData(0, 10, 4)
	dataSum  = xorData(0, 10, 5)
	dataSum2 = xorData(0, 10, 6)
)

func rawChunk(data []byte, hash bool) *storepb.Chunk {
	c := &storepb.Chunk{Type: storepb.Chunk_XOR, Data: data}
	if hash {
		c.Hash = xxhash.Sum64(data)
	}
	return c
}

// mkChunk builds a fresh AggrChunk for a chunk id (the byte slices are shared and never written).
func mkChunk(id int) storepb.AggrChunk {
	switch {
	case id == ChC1:
		return storepb.AggrChunk{MinTime: 0, MaxTime: 10, Raw: rawChunk(dataC1, false)}
	case id == ChC1h:
		return storepb.AggrChunk{MinTime: 0, MaxTime: 10, Raw: rawChunk(dataC1, true)}
	case id == ChC2:
		return storepb.AggrChunk{MinTime: 11, MaxTime: 20, Raw: rawChunk(dataC2, false)}
	case id == ChC3:
		return storepb.AggrChunk{MinTime: 5, MaxTime: 15, Raw: rawChunk(dataC3, false)}
	case id == ChG:
		return storepb.AggrChunk{MinTime: 0, MaxTime: 10, Count: rawChunk(dataCnt, false), Sum: rawChunk(dataSum, false)}
	case id == ChG2:
		return storepb.AggrChunk{MinTime: 0, MaxTime: 10, Count: rawChunk(dataCnt, false), Sum: rawChunk(dataSum2, false)}
	case id >= ChUniq:
		lo := int64(1000 + 10*id)
		return storepb.AggrChunk{MinTime: lo, MaxTime: lo + 9, Raw: rawChunk(xorData(lo, lo+9, float64(id)), false)}
	}
	panic(fmt.Sprintf("HARNESS-ERROR unknown chunk id %d", id))
}

// chunkIdentity is what makes two chunks "the same chunk": time range and the bytes of every
// sub-chunk. The Hash field is transport metadata and is ignored.
func chunkIdentity(c storepb.AggrChunk) string {
	s := fmt.Sprintf("[%d,%d]", c.MinTime, c.MaxTime)
	for i, f := range []*storepb.Chunk{c.Raw, c.Count, c.Sum, c.Min, c.Max, c.Counter} {
		if f != nil {
			s += fmt.Sprintf("|%d:%d:%x", i, f.Type, f.Data)
		}
	}
	return s
}

func isAggregate(c storepb.AggrChunk) bool { return c.Raw == nil }

// ---- scripted store -------------------------------------------------------------------------------

// Entry is one series message of a store's stream: label set L, replica value R, chunk ids C.
type Entry struct {
	L int   `json:"l"`
	R int   `json:"r"`
	C []int `json:"c"`
}

// StoreSpec scripts one store. E is the stream in the order the store sends it. F cuts it into frames:
// 0 = next entry as a single Series response, k>0 = next k entries in one Batch response; an empty F
// means every entry as a single Series response.
// Fault: "" none, "open" = Series() returns an error, "recv" = the At-th Recv (0-based) returns an error
// instead of a frame (At = number of frames: instead of EOF), "hang" = the At-th Recv never delivers: it
// blocks until the call's context is cancelled (by the proxy's frame timeout) and returns the context error,
// as a gRPC stream does. "hang" is only meaningful with a response timeout and inside testing/synctest.
type StoreSpec struct {
	E     []Entry `json:"e"`
	F     []int   `json:"f,omitempty"`
	NoWRL bool    `json:"nowrl,omitempty"` // store cannot strip replica labels
	Fault string  `json:"fault,omitempty"`
	At    int     `json:"at,omitempty"`
}

func (s StoreSpec) series(e Entry) *storepb.Series {
	ser := &storepb.Series{Labels: labelpb.ZLabelsFromPromLabels(lset(e.L, e.R))}
	for _, id := range e.C {
		ser.Chunks = append(ser.Chunks, mkChunk(id))
	}
	return ser
}

// frames builds fresh response objects (the proxy may modify them in place).
func (s StoreSpec) frames() []*storepb.SeriesResponse {
	var out []*storepb.SeriesResponse
	i := 0
	cut := s.F
	if len(cut) == 0 {
		cut = make([]int, len(s.E))
	}
	for _, k := range cut {
		if k == 0 {
			out = append(out, storepb.NewSeriesResponse(s.series(s.E[i])))
			i++
			continue
		}
		var b []*storepb.Series
		for j := 0; j < k; j++ {
			b = append(b, s.series(s.E[i]))
			i++
		}
		out = append(out, storepb.NewBatchResponse(b))
	}
	if i != len(s.E) {
		panic("HARNESS-ERROR frame cut does not cover the stream")
	}
	return out
}

func (c *fakeStore) lastCtx() context.Context {
	c.ctxMu.Lock()
	defer c.ctxMu.Unlock()
	return c.ctx
}

type fakeStore struct {
	name  string
	spec  StoreSpec
	asked atomic.Int32
	cancelled atomic.Bool // the call's context was cancelled while the stream was still being read
	ctxMu     sync.Mutex
	ctx       context.Context // context of the last Series call
}

func (c *fakeStore) LabelSets() []labels.Labels         { return nil }
func (c *fakeStore) TimeRange() (int64, int64)          { return -1 << 63, 1<<63 - 1 }
func (c *fakeStore) TSDBInfos() []infopb.TSDBInfo       { return nil }
func (c *fakeStore) SupportsSharding() bool             { return false } // the proxy applies the shard matcher itself
func (c *fakeStore) SupportsWithoutReplicaLabels() bool { return !c.spec.NoWRL }
func (c *fakeStore) String() string                     { return c.name }
func (c *fakeStore) Addr() (string, bool)               { return c.name, false }
func (c *fakeStore) Matches([]*labels.Matcher) bool     { return true }

func (c *fakeStore) errorf(what string) error {
	return errors.Errorf("injected %s failure of %s", what, c.name)
}

func (c *fakeStore) Series(ctx context.Context, _ *storepb.SeriesRequest, _ ...grpc.CallOption) (storepb.Store_SeriesClient, error) {
	c.asked.Add(1)
	c.ctxMu.Lock()
	c.ctx = ctx
	c.ctxMu.Unlock()
	if c.spec.Fault == "open" {
		return nil, c.errorf("open")
	}
	st := &stream{owner: c, ctx: ctx, frames: c.spec.frames(), failAt: -1, hangAt: -1}
	switch c.spec.Fault {
	case "recv":
		st.failAt = c.spec.At
		st.err = c.errorf("recv")
	case "hang":
		st.hangAt = c.spec.At
	case "":
	default:
		panic("HARNESS-ERROR unknown fault " + c.spec.Fault)
	}
	return st, nil
}
func (c *fakeStore) LabelNames(context.Context, *storepb.LabelNamesRequest, ...grpc.CallOption) (*storepb.LabelNamesResponse, error) {
	return &storepb.LabelNamesResponse{}, nil
}
func (c *fakeStore) LabelValues(context.Context, *storepb.LabelValuesRequest, ...grpc.CallOption) (*storepb.LabelValuesResponse, error) {
	return &storepb.LabelValuesResponse{}, nil
}

// stream is the Store_SeriesClient of one call. It is used by one receiver goroutine only.
type stream struct {
	grpc.ClientStream
	owner  *fakeStore
	ctx    context.Context
	frames []*storepb.SeriesResponse
	i      int
	failAt int
	hangAt int
	err    error
}

func (s *stream) Recv() (*storepb.SeriesResponse, error) {
	if err := s.ctx.Err(); err != nil {
		s.owner.cancelled.Store(true)
		return nil, err
	}
	if s.i >= len(s.frames) {
		vsync.Point("store-recv-eof")
		return nil, io.EOF
	}
	f := s.frames[s.i]
	s.i++
	// the frame is already on its way when the scheduling point is reached: like a gRPC stream, it is delivered even
	// if the call gets cancelled in the meantime
	vsync.Point("store-recv-deliver")
	return f, nil
}
func (s *stream) Context() context.Context { return s.ctx }
func (s *stream) CloseSend() error         { return nil }

// ---- collecting server ----------------------------------------------------------------------------

type collectServer struct {
	grpc.ServerStream
	ctx      context.Context
	series   []*storepb.Series
	warnings []string
	frames   []int // shape of what was sent: 0 single series, k batch of k, -1 warning, -2 other
}

func (s *collectServer) Context() context.Context { return s.ctx }
func (s *collectServer) Send(r *storepb.SeriesResponse) error {
	switch {
	case r.GetWarning() != "":
		s.warnings = append(s.warnings, r.GetWarning())
		s.frames = append(s.frames, -1)
	case r.GetSeries() != nil:
		s.series = append(s.series, r.GetSeries())
		s.frames = append(s.frames, 0)
	case r.GetBatch() != nil:
		s.series = append(s.series, r.GetBatch().Series...)
		s.frames = append(s.frames, len(r.GetBatch().Series))
	default:
		s.frames = append(s.frames, -2)
	}
	return nil
}
