package c32

import (
	"context"
	"math"
	"path/filepath"
	"testing"
	"testing/synctest"
	"time"

	"github.com/oklog/ulid/v2"
	"github.com/prometheus/prometheus/model/labels"
	"github.com/prometheus/prometheus/tsdb"
	"github.com/prometheus/prometheus/tsdb/chunkenc"
	"github.com/thanos-io/objstore"

	"github.com/thanos-io/thanos/pkg/block"
	"github.com/thanos-io/thanos/pkg/block/metadata"
	"github.com/thanos-io/thanos/pkg/compact"
	"github.com/thanos-io/thanos/pkg/testutil/e2eutil"
)

// TestReproRetentionMillisecondTruncation is the minimal stand-alone reproduction of the C32 finding, not part
// of the check (the driver runs only TestCheck):
//
//	cd /verif && go test -tags slicelabels,verif -vet=off -count=1 -run TestReproRetention -v ./checks/c32/
//
// A real TSDB block whose newest sample is 59m59.8s old is marked for deletion by a 1h raw retention.
func TestReproRetentionMillisecondTruncation(t *testing.T) {
	ctx := context.Background()
	// the synctest clock starts at 2000-01-01T00:00:00Z; the retention pass below runs 10.5 s later.
	now := time.Date(2000, 1, 1, 0, 0, 10, 500e6, time.UTC)
	retention := time.Hour
	newest := now.Add(-retention).Add(200 * time.Millisecond) // 59m59.8s old at `now`

	// real block: one series, one sample at `newest`, block range [newest, newest+1) as the TSDB head
	// compaction produces when the head is cut at its last sample (RangeHead.BlockMaxTime = maxt+1).
	dir := t.TempDir()
	id, err := e2eutil.CreateBlock(ctx, dir, []labels.Labels{labels.FromStrings("__name__", "m")}, 1,
		newest.UnixMilli(), newest.UnixMilli()+1, labels.FromStrings("cluster", "x"), 0, metadata.NoneFunc, nil)
	if err != nil {
		t.Fatal(err)
	}
	meta, err := metadata.ReadFromDir(filepath.Join(dir, id.String()))
	if err != nil {
		t.Fatal(err)
	}
	// newest sample really in the block
	blk, err := tsdb.OpenBlock(nil, filepath.Join(dir, id.String()), nil, nil)
	if err != nil {
		t.Fatal(err)
	}
	q, err := tsdb.NewBlockQuerier(blk, math.MinInt64, math.MaxInt64)
	if err != nil {
		t.Fatal(err)
	}
	maxTS := int64(math.MinInt64)
	ss := q.Select(ctx, false, nil, labels.MustNewMatcher(labels.MatchEqual, "__name__", "m"))
	for ss.Next() {
		it := ss.At().Iterator(nil)
		for it.Next() != chunkenc.ValNone {
			if ts := it.AtT(); ts > maxTS {
				maxTS = ts
			}
		}
	}
	q.Close()
	blk.Close()
	t.Logf("block %s: meta MaxTime=%d (exclusive), newest sample in the chunks=%d, retention=%v", id, meta.MaxTime, maxTS, retention)
	if maxTS != newest.UnixMilli() || meta.MaxTime != maxTS+1 {
		t.Fatalf("unexpected block shape")
	}

	bkt := objstore.NewInMemBucket()
	if err := block.Upload(ctx, logger, bkt, filepath.Join(dir, id.String()), metadata.NoneFunc); err != nil {
		t.Fatal(err)
	}
	synctest.Test(t, func(t *testing.T) {
		time.Sleep(10*time.Second + 500*time.Millisecond)
		if !time.Now().Equal(now) {
			t.Fatalf("virtual now is %v", time.Now())
		}
		err := compact.ApplyRetentionPolicyByResolution(ctx, logger, bkt, map[ulid.ULID]*metadata.Meta{id: meta},
			map[compact.ResolutionLevel]time.Duration{compact.ResolutionLevelRaw: retention}, counter())
		if err != nil {
			t.Fatal(err)
		}
		age := time.Now().Sub(time.UnixMilli(maxTS))
		_, marked := bkt.Objects()[id.String()+"/"+metadata.DeletionMarkFilename]
		t.Logf("now=%s newest sample age=%v retention=%v marked=%v", time.Now().UTC().Format("15:04:05.000"), age, retention, marked)
		if marked && !(age > retention) {
			t.Errorf("DEFECT: block marked for deletion although its newest sample (%v old) is not older than the retention (%v)", age, retention)
		}
	})
}
