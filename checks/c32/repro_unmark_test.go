package c32

import (
	"bytes"
	"context"
	"encoding/json"
	"testing"
	"time"

	"github.com/thanos-io/objstore"

	"github.com/thanos-io/thanos/pkg/block"
	"github.com/thanos-io/thanos/pkg/block/metadata"
	"github.com/thanos-io/thanos/pkg/compact"
)

// TestReproCleanerRemovesBlockWhoseDeletionMarkWasRemoved is the minimal stand-alone reproduction of the C32 finding
// `cleaner-removes-block-whose-deletion-mark-was-removed`, not part of the check (the driver runs only TestCheck):
//
//	cd /verif && go test -tags slicelabels,verif -vet=off -count=1 -run TestReproCleanerRemovesBlock -v ./checks/c32/
//
// Plain wall clock, no virtual time, wiring of cmd/thanos/compact.go (one IgnoreDeletionMarkFilter shared by the meta
// fetcher and the BlocksCleaner, delete delay 48h). A block is marked for deletion 49h ago, one sync of the running
// compactor sees the mark, the operator removes the mark (`thanos tools bucket mark --remove`), the compactor syncs
// again and runs the cleaner: the block, which has no deletion mark at all any more, is deleted.
func TestReproCleanerRemovesBlockWhoseDeletionMarkWasRemoved(t *testing.T) {
	ctx := context.Background()
	const deleteDelay = 48 * time.Hour
	bkt := objstore.NewInMemBucket()
	insBkt := objstore.WithNoopInstr(bkt)

	id := mkULID(time.Now().Add(-100*time.Hour), 7)
	if err := putMeta(ctx, bkt, id, time.Now().Add(-90*time.Hour).UnixMilli(), 0); err != nil {
		t.Fatal(err)
	}
	for _, n := range []string{"/index", "/chunks/000001"} {
		if err := put(ctx, bkt, id.String()+n); err != nil {
			t.Fatal(err)
		}
	}

	filter := block.NewIgnoreDeletionMarkFilter(logger, insBkt, deleteDelay/2, 4)
	fetcher, err := block.NewMetaFetcher(logger, 4, insBkt, block.NewConcurrentLister(logger, insBkt), "", nil, []block.MetadataFilter{filter})
	if err != nil {
		t.Fatal(err)
	}
	cleaner := compact.NewBlocksCleaner(logger, insBkt, filter, deleteDelay, counter(), counter())

	// 1. marked 49h ago (older than the delay), a sync of the long-running compactor reads the mark
	mark, _ := json.Marshal(metadata.DeletionMark{ID: id, DeletionTime: time.Now().Add(-49 * time.Hour).Unix(), Version: metadata.DeletionMarkVersion1})
	if err := bkt.Upload(ctx, id.String()+"/"+metadata.DeletionMarkFilename, bytes.NewReader(mark)); err != nil {
		t.Fatal(err)
	}
	if _, _, err := fetcher.Fetch(ctx); err != nil {
		t.Fatal(err)
	}
	// 2. the operator rescues the block: the deletion mark is removed
	if err := block.RemoveMark(ctx, logger, bkt, id, counter(), metadata.DeletionMarkFilename); err != nil {
		t.Fatal(err)
	}
	if _, ok := bkt.Objects()[id.String()+"/"+metadata.DeletionMarkFilename]; ok {
		t.Fatal("mark still there")
	}
	// 3. next iteration of the compactor: sync, then the cleaner (BucketCompactor.Compact does exactly this)
	if _, _, err := fetcher.Fetch(ctx); err != nil {
		t.Fatal(err)
	}
	deleted, err := cleaner.DeleteMarkedBlocks(ctx)
	if err != nil {
		t.Fatal(err)
	}
	t.Logf("filter still reports %d deletion mark(s); cleaner deleted %d block(s); objects left of the block: %v",
		len(filter.DeletionMarkBlocks()), len(deleted), blockObjects(bkt, id))
	if _, gone := deleted[id]; gone || len(blockObjects(bkt, id)) != 3 {
		t.Fatalf("block %s has no deletion mark in the bucket but was deleted by BlocksCleaner.DeleteMarkedBlocks", id)
	}
}
