// C32: blocks are deleted only when retention and delays allow it.
//
// Engine E4 (boundary enumeration), every case inside its own testing/synctest bubble so that time.Now /
// time.Since in the product code and the in-memory bucket's LastModified follow one virtual clock with
// millisecond-exact instants chosen by the case.
//
//	retention: real MetaFetcher -> Syncer.Metas() -> ApplyRetentionPolicyByResolution (wired as cmd/thanos/compact.go)
//	cleaner:   block.MarkForDeletion at a chosen sub-second phase, later real fetch + BlocksCleaner.DeleteMarkedBlocks
//	partial:   BestEffortCleanAbortedPartialUploads on partial blocks whose objects were written at chosen instants
//	partial-wired: the same through the compactor's wiring (Syncer.Partial(), IgnoreDeletionMarkFilter.DeletionMarkBlocks())
//	history:   ONE long-lived filter + syncer + cleaner (as a running compactor) and every bounded sequence of
//	           mark / re-mark / unmark / sync / sync+clean / advance-time on one block: a block may be removed only
//	           if the deletion mark that is in the bucket at that moment is older than the delete delay
//
// All ages sit at boundary + delta for delta in {-1001,-1000,-999,-1,0,+1,+999,+1000,+1001} ms.
package c32

import (
	"bytes"
	"context"
	"encoding/json"
	"fmt"
	"iter"
	"strings"
	"testing"
	"testing/synctest"
	"time"

	"github.com/go-kit/log"
	"github.com/oklog/ulid/v2"
	"github.com/prometheus/client_golang/prometheus"
	"github.com/prometheus/prometheus/tsdb"
	"github.com/thanos-io/objstore"

	"github.com/thanos-io/thanos/pkg/block"
	"github.com/thanos-io/thanos/pkg/block/metadata"
	"github.com/thanos-io/thanos/pkg/compact"

	"verif/vlib"
)

type Case struct {
	Part    string `json:"part"`           // retention | cleaner | partial | partial-wired | history
	PhaseMs int    `json:"phase_ms"`       // sub-second phase of the reference instant (retention: now; cleaner: instant of marking)
	DeltaMs int    `json:"delta_ms"`       // age = boundary + delta
	Res     int    `json:"res"`            // retention: index of the focus block's resolution (raw, 5m, 1h)
	RetCfg  int    `json:"ret_cfg"`        // retention: index into retCfgs
	Delay   int    `json:"delay"`          // cleaner: index into delays
	Pattern int    `json:"pattern"`        // partial: 0 all objects written together; 1 one object an hour older; 2 focus object old, another object touched 1h before the check
	InMap   bool   `json:"in_map"`         // partial: block is in the deletion-mark map handed to the function; partial-wired: deletion-mark.json object present
	UlidOld bool   `json:"ulid_old"`       // partial: ULID creation time 10 days in the past (else: now)
	Hist    string `json:"hist,omitempty"` // history: operations on one long-lived rig, see histOps; Delay indexes histDelays
	Abs     string `json:"abs,omitempty"`  // retention-abs | cleaner-abs | partial-abs: symbol of an absolute (extreme) instant, see extreme_test.go
}

// history alphabet (all on one block, one rig = one IgnoreDeletionMarkFilter + Syncer + BlocksCleaner for the whole history):
//
//	M  the block gets a deletion mark recording "now": block.MarkForDeletion if it has none, otherwise
//	   deletion-mark.json is rewritten with the newer deletion_time (same effect as unmark + mark at one instant)
//	U  block.RemoveMark (thanos tools bucket mark --remove)
//	S  Syncer.SyncMetas (any of the compactor's syncs; runs the deletion-mark filter)
//	C  Syncer.SyncMetas followed by BlocksCleaner.DeleteMarkedBlocks (the only way the product runs the cleaner)
//	A  time advances by deleteDelay/2 + 1s: one A is less than the delay, two are more
const histOps = "MUSCA"

var histDelays = []time.Duration{2 * time.Second, 48 * time.Hour, 0}

// histories yields every operation sequence of length <= maxLen that starts with M, ends with C and is canonical:
// U only on a marked block, M only if it would change the mark (no M directly after M/at the same instant),
// never two syncs in a row (S/C after S/C), at most two A in a row and four in total.
func histories(maxLen int) []string {
	var out []string
	var rec func(h []byte, marked, fresh bool, nA, consA int)
	rec = func(h []byte, marked, fresh bool, nA, consA int) {
		var last byte
		if len(h) > 0 {
			last = h[len(h)-1]
		}
		if last == 'C' {
			out = append(out, string(h))
		}
		if len(h) == maxLen {
			return
		}
		for i := 0; i < len(histOps); i++ {
			op := histOps[i]
			m, f, a, ca := marked, fresh, nA, 0
			switch op {
			case 'M':
				if marked && fresh {
					continue
				}
				m, f = true, true
			case 'U':
				if !marked {
					continue
				}
				m, f = false, false
			case 'S', 'C':
				if last == 'S' || last == 'C' {
					continue
				}
			case 'A':
				if consA >= 2 || nA >= 4 {
					continue
				}
				f, a, ca = false, nA+1, consA+1
			}
			if len(h) == 0 && op != 'M' {
				continue
			}
			rec(append(h[:len(h):len(h)], op), m, f, a, ca)
		}
	}
	rec(nil, false, false, 0, 0)
	return out
}

var deltas = []int{-1001, -1000, -999, -1, 0, 1, 999, 1000, 1001}
var phases = []int{0, 1, 2, 500, 999}
var resolutions = []int64{0, 300000, 3600000}
var baseRet = [3]time.Duration{time.Hour, 2 * time.Hour, 3 * time.Hour}
var delays = []time.Duration{0, 2 * time.Second, 1500 * time.Millisecond, 48 * time.Hour}

// retCfgs: every on/off mask over (1h, 2h, 3h) plus one configuration with sub-second parts.
var retCfgs = func() [][3]time.Duration {
	var out [][3]time.Duration
	for m := 0; m < 8; m++ {
		var c [3]time.Duration
		for i := 0; i < 3; i++ {
			if m&(1<<i) != 0 {
				c[i] = baseRet[i]
			}
		}
		out = append(out, c)
	}
	out = append(out, [3]time.Duration{time.Hour + 500*time.Millisecond, 2*time.Hour + time.Millisecond, 3*time.Hour + 999*time.Millisecond})
	// production-like values (thorough tier only)
	out = append(out, [3]time.Duration{30 * 24 * time.Hour, 120 * 24 * time.Hour, 365 * 24 * time.Hour})
	return out
}()

const quickRetCfgs = 9

func gen(r *vlib.R) iter.Seq[Case] {
	deltas, phases := deltas, phases
	if r.Thorough() {
		deltas = []int{-2000, -1002, -1001, -1000, -999, -998, -501, -500, -499, -2, -1, 0, 1, 2, 499, 500, 501, 998, 999, 1000, 1001, 1002, 2000}
		phases = []int{0, 1, 2, 3, 249, 250, 499, 500, 501, 750, 997, 998, 999}
	}
	return func(yield func(Case) bool) {
		if !genExtreme(r, yield) {
			return
		}
		for _, ph := range phases {
			for cfg := range retCfgs {
				if cfg >= quickRetCfgs && !r.Thorough() {
					continue
				}
				for res := 0; res < 3; res++ {
					for _, d := range deltas {
						if !yield(Case{Part: "retention", PhaseMs: ph, DeltaMs: d, Res: res, RetCfg: cfg}) {
							return
						}
					}
				}
			}
		}
		for _, ph := range phases {
			for di, delay := range delays {
				for _, d := range deltas {
					// the check runs at floor_s(mark instant) + delay + delta, which must not precede the marking
					if delay+time.Duration(d)*time.Millisecond < time.Duration(ph)*time.Millisecond {
						continue
					}
					if !yield(Case{Part: "cleaner", PhaseMs: ph, DeltaMs: d, Delay: di}) {
						return
					}
				}
			}
		}
		for pat := 0; pat < 3; pat++ {
			for _, inMap := range []bool{false, true} {
				for _, old := range []bool{false, true} {
					for _, d := range deltas {
						if !yield(Case{Part: "partial", DeltaMs: d, Pattern: pat, InMap: inMap, UlidOld: old}) {
							return
						}
					}
				}
			}
		}
		for _, marked := range []bool{false, true} {
			for _, d := range deltas {
				if !yield(Case{Part: "partial-wired", DeltaMs: d, InMap: marked}) {
					return
				}
			}
		}
		histPhases := []int{0}
		if r.Thorough() {
			histPhases = []int{0, 500}
		}
		for _, h := range histories(vlib.Pick(r, 7, 9)) {
			for di := range histDelays {
				for _, ph := range histPhases {
					if !yield(Case{Part: "history", PhaseMs: ph, Delay: di, Hist: h}) {
						return
					}
				}
			}
		}
	}
}

var logger = log.NewNopLogger()

func counter() prometheus.Counter { return prometheus.NewCounter(prometheus.CounterOpts{}) }

func mkULID(t time.Time, n byte) ulid.ULID {
	var e [10]byte
	for i := range e {
		e[i] = n
	}
	id, err := ulid.New(ulid.Timestamp(t), bytes.NewReader(e[:]))
	if err != nil {
		panic(err)
	}
	return id
}

func ms(d int) time.Duration { return time.Duration(d) * time.Millisecond }

// putMeta uploads a meta.json for a block whose newest sample is at newestMs (the block covers
// [minTime, newest+1), MaxTime being exclusive as in every TSDB block).
func putMeta(ctx context.Context, bkt objstore.Bucket, id ulid.ULID, newestMs int64, resolution int64) error {
	m := metadata.Meta{
		BlockMeta: tsdb.BlockMeta{
			ULID: id, MinTime: newestMs - 1000, MaxTime: newestMs + 1, Version: 1,
			Stats:      tsdb.BlockStats{NumSamples: 2, NumSeries: 1, NumChunks: 1},
			Compaction: tsdb.BlockMetaCompaction{Level: 1, Sources: []ulid.ULID{id}},
		},
		Thanos: metadata.Thanos{
			Labels:     map[string]string{"cluster": "x"},
			Downsample: metadata.ThanosDownsample{Resolution: resolution},
			Source:     metadata.TestSource,
		},
	}
	var buf bytes.Buffer
	if err := m.Write(&buf); err != nil {
		return err
	}
	return bkt.Upload(ctx, id.String()+"/"+block.MetaFilename, &buf)
}

func put(ctx context.Context, bkt objstore.Bucket, name string) error {
	return bkt.Upload(ctx, name, strings.NewReader("x"))
}

func blockObjects(bkt *objstore.InMemBucket, id ulid.ULID) []string {
	var out []string
	for n := range bkt.Objects() {
		if strings.HasPrefix(n, id.String()+"/") {
			out = append(out, n)
		}
	}
	return out
}

// rig is the part of cmd/thanos/compact.go that feeds retention, cleaner and partial-upload cleanup.
type rig struct {
	filter  *block.IgnoreDeletionMarkFilter
	syncer  *compact.Syncer
	cleaner *compact.BlocksCleaner
}

func newRig(bkt *objstore.InMemBucket, deleteDelay time.Duration) (*rig, error) {
	insBkt := objstore.WithNoopInstr(bkt)
	const conc = 4
	f := block.NewIgnoreDeletionMarkFilter(logger, insBkt, deleteDelay/2, conc)
	dup := block.NewDeduplicateFilter(conc)
	base, err := block.NewBaseFetcher(logger, conc, insBkt, block.NewConcurrentLister(logger, insBkt), "", nil)
	if err != nil {
		return nil, err
	}
	cf := base.NewMetaFetcher(nil, []block.MetadataFilter{f, dup})
	sy, err := compact.NewMetaSyncer(logger, nil, insBkt, cf, dup, f, counter(), counter(), 0)
	if err != nil {
		return nil, err
	}
	return &rig{filter: f, syncer: sy, cleaner: compact.NewBlocksCleaner(logger, insBkt, f, deleteDelay, counter(), counter())}, nil
}

type harnessErr struct{ msg string }

// readMark returns the deletion mark that is in the bucket for the block right now (nil if there is none).
func readMark(bkt *objstore.InMemBucket, id ulid.ULID) (*metadata.DeletionMark, error) {
	raw, ok := bkt.Objects()[id.String()+"/"+metadata.DeletionMarkFilename]
	if !ok {
		return nil, nil
	}
	dm := &metadata.DeletionMark{}
	if err := json.Unmarshal(raw, dm); err != nil {
		return nil, err
	}
	return dm, nil
}

func evalCase(r *vlib.R, c Case) (herr error) {
	defer func() {
		if p := recover(); p != nil {
			r.Violation("panic-in-code-under-test", fmt.Sprintf("panic: %v", p), c)
		}
	}()
	ctx := context.Background()
	bkt := objstore.NewInMemBucket()
	start := time.Now() // bubble start, a whole second
	must := func(err error) {
		if err != nil && herr == nil {
			herr = err
		}
	}
	switch c.Part {
	case "retention":
		if c.RetCfg < 0 || c.RetCfg >= len(retCfgs) || c.Res < 0 || c.Res > 2 {
			return fmt.Errorf("bad case")
		}
		cfg := retCfgs[c.RetCfg]
		time.Sleep(10*time.Second + ms(c.PhaseMs))
		now := time.Now()
		type blk struct {
			id     ulid.ULID
			res    int64
			newest int64
			ret    time.Duration
		}
		var blks []blk
		for i := 0; i < 3; i++ {
			ret := cfg[i]
			ref := ret
			if ref == 0 {
				ref = baseRet[i]
			}
			age := ref - 30*time.Minute // bystanders: well inside their own retention
			if i == c.Res {
				age = ref - ms(c.DeltaMs) // focus block: newest sample at now - retention + delta
			}
			blks = append(blks, blk{mkULID(start, byte(i+1)), resolutions[i], now.Add(-age).UnixMilli(), ret})
		}
		// a block of a resolution that has no retention configured at all, very old
		blks = append(blks, blk{mkULID(start, 9), 12345, now.Add(-100 * time.Hour).UnixMilli(), 0})
		for _, b := range blks {
			must(putMeta(ctx, bkt, b.id, b.newest, b.res))
		}
		rg, err := newRig(bkt, 48*time.Hour)
		if err != nil {
			return err
		}
		must(rg.syncer.SyncMetas(ctx))
		metas := rg.syncer.Metas()
		if len(metas) != len(blks) {
			return fmt.Errorf("fetcher returned %d metas, want %d", len(metas), len(blks))
		}
		must(compact.ApplyRetentionPolicyByResolution(ctx, logger, bkt, metas, map[compact.ResolutionLevel]time.Duration{
			compact.ResolutionLevelRaw: cfg[0], compact.ResolutionLevel5m: cfg[1], compact.ResolutionLevel1h: cfg[2],
		}, counter()))
		if !time.Now().Equal(now) {
			return fmt.Errorf("virtual clock moved during the case")
		}
		objs := bkt.Objects()
		for i, b := range blks {
			_, marked := objs[b.id.String()+"/"+metadata.DeletionMarkFilename]
			if !marked {
				continue
			}
			r.Nontrivial(fmt.Sprintf("retention/%d/%d/%d/%d/%d", c.PhaseMs, c.RetCfg, c.Res, c.DeltaMs, i))
			age := now.Sub(time.UnixMilli(b.newest))
			maxTime := b.newest + 1
			switch {
			case b.ret == 0:
				r.Violation("retention-marks-block-whose-resolution-has-no-retention",
					fmt.Sprintf("block with resolution %d marked although no retention is configured for it (cfg %v)", b.res, cfg), c)
			case !(age > b.ret) && maxTime%1000 != 0 && b.ret-age < time.Second:
				// narrow class: early by less than a second, MaxTime not on a second boundary
				r.Violation("retention-marks-block-early-by-less-than-1s-when-maxtime-has-millisecond-part",
					fmt.Sprintf("now=%s, block MaxTime=%d ms (exclusive), newest sample %d ms is %v old, retention %v: marked although not older than the retention (by %v)",
						now.UTC().Format("15:04:05.000"), maxTime, b.newest, age, b.ret, b.ret-age), c)
			case !(age > b.ret):
				r.Violation("retention-marks-block-not-older-than-its-retention",
					fmt.Sprintf("now=%s, block MaxTime=%d, resolution %d, newest sample %v old, retention of its resolution %v", now.UTC().Format("15:04:05.000"), maxTime, b.res, age, b.ret), c)
			}
		}
		r.Outcome(fmt.Sprintf("retention/focus-marked=%v", func() bool {
			_, ok := objs[blks[c.Res].id.String()+"/"+metadata.DeletionMarkFilename]
			return ok
		}()))

	case "cleaner":
		if c.Delay < 0 || c.Delay >= len(delays) {
			return fmt.Errorf("bad case")
		}
		delay := delays[c.Delay]
		time.Sleep(5*time.Second + ms(c.PhaseMs))
		markedAt := time.Now()
		id, other := mkULID(start, 1), mkULID(start, 2)
		for _, b := range []ulid.ULID{id, other} {
			must(putMeta(ctx, bkt, b, start.Add(-time.Hour).UnixMilli(), 0))
			must(put(ctx, bkt, b.String()+"/index"))
			must(put(ctx, bkt, b.String()+"/chunks/000001"))
		}
		must(block.MarkForDeletion(ctx, logger, bkt, id, "verif", counter()))
		var dm metadata.DeletionMark
		if err := json.Unmarshal(bkt.Objects()[id.String()+"/"+metadata.DeletionMarkFilename], &dm); err != nil {
			return err
		}
		markTime := time.Unix(dm.DeletionTime, 0) // what the mark itself records (second resolution)
		checkAt := markTime.Add(delay + ms(c.DeltaMs))
		if checkAt.Before(markedAt) {
			return fmt.Errorf("infeasible case: check instant before marking")
		}
		time.Sleep(checkAt.Sub(markedAt))
		now := time.Now()
		rg, err := newRig(bkt, delay)
		if err != nil {
			return err
		}
		must(rg.syncer.SyncMetas(ctx))
		_, err = rg.cleaner.DeleteMarkedBlocks(ctx)
		must(err)
		removed := len(blockObjects(bkt, id)) < 4
		if len(blockObjects(bkt, other)) != 3 {
			r.Violation("cleaner-removes-unmarked-block", fmt.Sprintf("objects of the unmarked block left: %v", blockObjects(bkt, other)), c)
		}
		r.Outcome(fmt.Sprintf("cleaner/removed=%v", removed))
		if removed {
			r.Nontrivial(fmt.Sprintf("cleaner/%d/%d/%d", c.PhaseMs, c.Delay, c.DeltaMs))
			if age := now.Sub(markTime); !(age > delay) {
				r.Violation("cleaner-removes-block-whose-mark-is-not-older-than-delay",
					fmt.Sprintf("mark deletion_time=%d, now-mark=%v, delete delay %v", dm.DeletionTime, age, delay), c)
			}
			// second-resolution observation, not asserted: age counted from the real instant of marking
			if real := now.Sub(markedAt); !(real > delay) {
				r.Add("cleaner_removed_within_delay_of_real_marking_instant", 1)
			}
		}

	case "partial", "partial-wired":
		thr := compact.PartialUploadThresholdAge
		ulidTime := start
		if c.UlidOld {
			ulidTime = start.Add(-240 * time.Hour)
		}
		id := mkULID(ulidTime, 3)
		time.Sleep(2 * time.Hour)
		if c.Part == "partial" && c.Pattern == 1 {
			must(put(ctx, bkt, id.String()+"/index"))
			time.Sleep(time.Hour)
			must(put(ctx, bkt, id.String()+"/chunks/000001"))
		} else {
			must(put(ctx, bkt, id.String()+"/index"))
			must(put(ctx, bkt, id.String()+"/chunks/000001"))
		}
		t0 := time.Now()
		if c.Part == "partial-wired" && c.InMap {
			b, _ := json.Marshal(metadata.DeletionMark{ID: id, DeletionTime: t0.Unix(), Version: metadata.DeletionMarkVersion1})
			must(bkt.Upload(ctx, id.String()+"/"+metadata.DeletionMarkFilename, bytes.NewReader(b)))
		}
		checkAt := t0.Add(thr + ms(c.DeltaMs))
		if c.Part == "partial" && c.Pattern == 2 {
			time.Sleep(checkAt.Add(-time.Hour).Sub(time.Now()))
			must(put(ctx, bkt, id.String()+"/chunks/000002")) // the upload is still going on
		}
		time.Sleep(checkAt.Sub(time.Now()))
		now := time.Now()
		var newest time.Time
		before := blockObjects(bkt, id)
		for _, n := range before {
			a, err := bkt.Attributes(ctx, n)
			must(err)
			if a.LastModified.After(newest) {
				newest = a.LastModified
			}
		}
		untouched := now.Sub(newest)
		inMap := false
		if c.Part == "partial" {
			marks := map[ulid.ULID]*metadata.DeletionMark{}
			if c.InMap {
				marks[id] = &metadata.DeletionMark{ID: id, DeletionTime: now.Add(-time.Hour).Unix(), Version: metadata.DeletionMarkVersion1}
				inMap = true
			}
			compact.BestEffortCleanAbortedPartialUploads(ctx, logger, map[ulid.ULID]error{id: block.ErrorSyncMetaNotFound}, bkt, counter(), counter(), counter(), marks)
		} else {
			rg, err := newRig(bkt, 48*time.Hour)
			if err != nil {
				return err
			}
			must(rg.syncer.SyncMetas(ctx))
			partial := rg.syncer.Partial()
			if _, ok := partial[id]; !ok {
				return fmt.Errorf("fetcher does not report the block as partial: %v", partial)
			}
			marks := rg.filter.DeletionMarkBlocks()
			_, inMap = marks[id]
			compact.BestEffortCleanAbortedPartialUploads(ctx, logger, partial, bkt, counter(), counter(), counter(), marks)
		}
		removed := len(blockObjects(bkt, id)) < len(before)
		r.Outcome(fmt.Sprintf("%s/removed=%v", c.Part, removed))
		if removed {
			r.Nontrivial(fmt.Sprintf("%s/%d/%d/%v/%v", c.Part, c.Pattern, c.DeltaMs, c.InMap, c.UlidOld))
			if !(untouched > thr) {
				r.Violation("partial-upload-removed-before-untouched-for-threshold",
					fmt.Sprintf("newest object modification %v ago, threshold %v, objects %v", untouched, thr, before), c)
			}
			if inMap {
				r.Violation("partial-upload-removed-although-scheduled-for-deletion",
					"the block is in the deletion-mark map given to BestEffortCleanAbortedPartialUploads and was removed", c)
			}
			if c.Part == "partial-wired" && c.InMap {
				// observation, outside the function-level reading of the statement
				r.Add("wired_partial_block_with_deletion_mark_object_removed", 1)
			}
		}
	case "history":
		if c.Delay < 0 || c.Delay >= len(histDelays) || len(c.Hist) == 0 || len(c.Hist) > 64 {
			return fmt.Errorf("bad case")
		}
		delay := histDelays[c.Delay]
		step := delay/2 + time.Second
		time.Sleep(5*time.Second + ms(c.PhaseMs))
		// focus: the block the history operates on; ctl: marked once at the start and never touched again;
		// other: never marked
		focus, ctl, other := mkULID(start, 1), mkULID(start, 2), mkULID(start, 3)
		for _, b := range []ulid.ULID{focus, ctl, other} {
			must(putMeta(ctx, bkt, b, start.Add(-time.Hour).UnixMilli(), 0))
			must(put(ctx, bkt, b.String()+"/index"))
			must(put(ctx, bkt, b.String()+"/chunks/000001"))
		}
		must(block.MarkForDeletion(ctx, logger, bkt, ctl, "verif ctl", counter()))
		rg, err := newRig(bkt, delay) // one filter, syncer and cleaner for the whole history
		if err != nil {
			return err
		}
		// deletion times of marks of the focus block that are no longer the current one (removed or rewritten)
		// but were in the bucket during some sync of the rig
		var pastSeen []int64
		var curSeen bool // the current mark has been in the bucket during a sync
		sync := func() {
			must(rg.syncer.SyncMetas(ctx))
			if dm, _ := readMark(bkt, focus); dm != nil {
				curSeen = true
			}
		}
		retire := func() {
			if dm, _ := readMark(bkt, focus); dm != nil && curSeen {
				pastSeen = append(pastSeen, dm.DeletionTime)
			}
			curSeen = false
		}
		alive := map[ulid.ULID]bool{focus: true, ctl: true, other: true}
	ops:
		for i := 0; i < len(c.Hist); i++ {
			switch c.Hist[i] {
			case 'M':
				cur, err := readMark(bkt, focus)
				must(err)
				if cur == nil {
					must(block.MarkForDeletion(ctx, logger, bkt, focus, "verif", counter()))
				} else if cur.DeletionTime != time.Now().Unix() {
					retire()
					b, _ := json.Marshal(metadata.DeletionMark{ID: focus, DeletionTime: time.Now().Unix(), Version: metadata.DeletionMarkVersion1, Details: "verif re-mark"})
					must(bkt.Upload(ctx, focus.String()+"/"+metadata.DeletionMarkFilename, bytes.NewReader(b)))
				}
			case 'U':
				retire()
				must(block.RemoveMark(ctx, logger, bkt, focus, counter(), metadata.DeletionMarkFilename))
			case 'S':
				sync()
			case 'A':
				time.Sleep(step)
			case 'C':
				sync()
				now := time.Now()
				before := map[ulid.ULID]int{}
				marks := map[ulid.ULID]*metadata.DeletionMark{}
				for b := range alive {
					before[b] = len(blockObjects(bkt, b))
					dm, err := readMark(bkt, b)
					must(err)
					marks[b] = dm
				}
				// pastOld: a mark that is no longer in the bucket, but was read by this filter, is older than the delay
				pastOld := false
				for _, pt := range pastSeen {
					if now.Sub(time.Unix(pt, 0)) > delay {
						pastOld = true
					}
				}
				if cur := marks[focus]; alive[focus] && pastOld && (cur == nil || !(now.Sub(time.Unix(cur.DeletionTime, 0)) > delay)) {
					// the discriminating situation: only a mark that is no longer in the bucket is old enough
					r.Add("history_clean_runs_where_only_a_removed_or_replaced_mark_is_older_than_the_delay", 1)
				}
				_, err := rg.cleaner.DeleteMarkedBlocks(ctx)
				must(err)
				if !time.Now().Equal(now) {
					return fmt.Errorf("virtual clock moved during DeleteMarkedBlocks")
				}
				for _, b := range []ulid.ULID{focus, ctl, other} {
					if !alive[b] || len(blockObjects(bkt, b)) == before[b] {
						continue
					}
					alive[b] = false
					name := map[ulid.ULID]string{focus: "focus", ctl: "ctl", other: "other"}[b]
					r.Nontrivial(fmt.Sprintf("history/%d/%d/%s/%d/%s", c.PhaseMs, c.Delay, c.Hist, i, name))
					cur := marks[b]
					at := fmt.Sprintf("history %q op %d (delay %v, step %v, now=%s)", c.Hist, i, delay, step, now.UTC().Format("2006-01-02T15:04:05.000"))
					switch {
					case cur == nil && b == other:
						r.Violation("cleaner-removes-unmarked-block", at+": the never-marked block was removed", c)
					case cur == nil && b == focus:
						r.Violation("cleaner-removes-block-whose-deletion-mark-was-removed",
							fmt.Sprintf("%s: the block has no deletion-mark.json in the bucket (it was removed with block.RemoveMark before the sync that preceded this cleaner run) and was removed; marks seen by earlier syncs of the same filter: deletion_time %v", at, pastSeen), c)
					case cur == nil:
						r.Violation("cleaner-removes-unmarked-block", at+": block "+name+" has no deletion mark and was removed", c)
					case !(now.Sub(time.Unix(cur.DeletionTime, 0)) > delay) && b == focus && pastOld:
						r.Violation("cleaner-judges-block-by-a-replaced-deletion-mark",
							fmt.Sprintf("%s: the deletion mark in the bucket records deletion_time=%d, i.e. %v ago, not older than the delete delay, yet the block was removed; marks seen by earlier syncs of the same filter and since removed/rewritten: deletion_time %v",
								at, cur.DeletionTime, now.Sub(time.Unix(cur.DeletionTime, 0)), pastSeen), c)
					case !(now.Sub(time.Unix(cur.DeletionTime, 0)) > delay):
						r.Violation("cleaner-removes-block-whose-mark-is-not-older-than-delay",
							fmt.Sprintf("%s: block %s, mark deletion_time=%d, now-mark=%v", at, name, cur.DeletionTime, now.Sub(time.Unix(cur.DeletionTime, 0))), c)
					}
				}
				if !alive[focus] {
					r.Outcome(fmt.Sprintf("history/focus-removed-at-op=%d", i))
					break ops
				}
			default:
				return fmt.Errorf("bad history op %q", c.Hist[i])
			}
		}
		if alive[focus] {
			r.Outcome("history/focus-kept")
		}
	case "retention-abs", "cleaner-abs", "partial-abs":
		must(evalExtreme(r, c, ctx, bkt, start))
	default:
		return fmt.Errorf("unknown part %q", c.Part)
	}
	return herr
}

func TestCheck(t *testing.T) {
	r := vlib.New(t, "C32")
	defer r.Finish()
	r.Rule("ages at boundary+delta, delta in {-1001,-1000,-999,-1,0,1,999,1000,1001} ms: " +
		"(thorough: 23 deltas incl. +-2, +-499..501, +-998, +-1002, +-2000 and 13 phases, one more retention configuration 30d/120d/1y). " +
		"retention: now at sub-second phase {0,1,2,500,999} ms x 9 retention configurations (every on/off mask of raw 1h / 5m 2h / 1h 3h, one with sub-second parts) x focus resolution, " +
		"newest sample of the focus block at now-retention+delta (MaxTime = newest+1), bystander blocks of the other resolutions and of an unconfigured one; " +
		"cleaner: block.MarkForDeletion at phase {0,1,2,500,999} ms, delete delay {0,2s,1.5s,48h}, check at mark time+delay+delta, plus an unmarked block; " +
		"partial uploads: newest object modification at threshold+delta x {objects together, one object older, another object touched 1h ago} x in deletion-mark map x ULID old/new, " +
		"and the same through the compactor wiring with/without a deletion-mark.json object; " +
		"history: ONE long-lived IgnoreDeletionMarkFilter+Syncer+BlocksCleaner (wired as compact.go) and every canonical operation sequence of length <= 7 (thorough 9) over " +
		"{M mark / rewrite the mark with deletion_time=now, U block.RemoveMark, S SyncMetas, C SyncMetas+DeleteMarkedBlocks, A advance delay/2+1s} starting with M and ending with C, " +
		"x delete delay {2s, 48h, 0} (thorough: x marking phase {0,500} ms), next to a block marked once and a never-marked block; at every C the deletion-mark.json that is in the bucket at that moment decides. " +
		"extreme instants (absolute, not near now): retention-abs = block MaxTime in {MaxInt64, -1, -1h, MaxInt64-retention{-1,0,+1,+1s}, -2 retention, MaxInt64-now(+1), MaxInt64/1000(+1), MaxInt64/1e6(+1,-retention,-retention+1), year 9999, " +
		"now+1h, now+1, now, now-retention{+1,0,-1,-1s}, 1, 0, -1, year 1900, MinInt64/1e6(-1), MinInt64/1000, MinInt64+retention{+1,0,-1}, MinInt64+1, MinInt64} ms for a block of EVERY resolution (and of an unconfigured one) at once " +
		"x retention {all on 1h/2h/3h, all off, 30d/120d/1y, 292y (max duration), only resolution r on, only resolution r off (r = raw, 5m, 1h)} x phase {0,999} ms (thorough 4 phases), through the real fetcher; " +
		"cleaner-abs = hand-written deletion-mark.json with deletion_time in {MaxInt64-62135596800 (largest time.Time), MaxInt64/1000, MaxInt64/1e6, year 9999, MaxInt64/1e9(+1,-delay,-delay+1), now+1h, now+1, now, 1, 0, -1, year 1900, " +
		"MinInt64/1e9(-1), MinInt64/1e6, MinInt64/1000, MinInt64+delay+1, MinInt64+1, MinInt64} s x delete delay {0, 2s, 48h, 292y}, plus two deletion_time values beyond the range of time.Time that are only observed; " +
		"partial-abs = an object store reporting LastModified in {largest time.Time, year 9999, 2262+1s, now+1h, now+1ms, 1970, 1900, 1677-1s, year 1 +1ns, smallest time.Unix} for all objects / for one object next to objects 49h old / next to objects 1h old. " +
		"non-trivial = distinct cases in which the real code marked / deleted / removed a block")
	r.Assume("virtual clock of testing/synctest (time.Now, time.Since, the in-memory bucket's LastModified all follow it); " +
		"a block's newest sample is MaxTime-1 ms (MaxTime is exclusive; this is what TSDB writes when a head is cut at its last sample); " +
		"extreme instants: a deletion_time is asserted only if time.Unix can represent it (up to MaxInt64-62135596800 s, year 292277026596); the oracle computes ages with math/big; " +
		"the age of a deletion mark is counted from the deletion_time it records (second resolution); " +
		"history part: the cleaner always runs right after a SyncMetas of the same rig (BucketCompactor.Compact and tools bucket cleanup do exactly this), no bucket change between that sync and the cleaner run")
	var rc Case
	run := func(c Case) {
		var herr error
		synctest.Test(t, func(t *testing.T) { herr = evalCase(r, c) })
		if herr != nil {
			t.Errorf("HARNESS-ERROR case %+v: %v", c, herr)
		}
		r.Sample(c)
		r.Eval(1)
	}
	if r.ReplayCase(&rc) {
		run(rc)
		return
	}
	si, sn := r.Shard()
	idx := 0
	for c := range gen(r) {
		idx++
		if sn > 1 && (idx-1)%sn != si {
			continue
		}
		if idx%32 == 0 && r.Expired("case enumeration stopped early") {
			break
		}
		run(c)
	}
}
