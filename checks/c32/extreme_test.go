// Extreme (absolute) instants, added for seed C32-r3.
//
// The boundary parts place every block / mark / object within a few hours of the virtual "now". The quantifier says
// "all block time ranges ... relative to the current time": here the instant is an ABSOLUTE value from a small alphabet
// that spans the whole int64 range of its unit (block MaxTime: ms; deletion_time: s; LastModified: time.Time), with one
// symbol next to every place where a conversion between units or an addition of the retention / delay can leave the
// range: math.MaxInt64, MaxInt64-retention(+-1), MaxInt64/1000 (us range), MaxInt64/1e6 (UnixNano range, year 2262),
// year 9999, now+1h, 0, -1, year 1900, MinInt64/1e6, MinInt64(+retention+-1). The oracle is the same statement,
// evaluated with math/big so that the check itself cannot overflow.
package c32

import (
	"bytes"
	"context"
	"encoding/json"
	"fmt"
	"math"
	"math/big"
	"strings"
	"time"

	"github.com/oklog/ulid/v2"
	"github.com/prometheus/prometheus/tsdb"
	"github.com/thanos-io/objstore"

	"github.com/thanos-io/thanos/pkg/block"
	"github.com/thanos-io/thanos/pkg/block/metadata"
	"github.com/thanos-io/thanos/pkg/compact"

	"verif/vlib"
)

const (
	maxI = int64(math.MaxInt64)
	minI = int64(math.MinInt64)
	// largest / smallest number of seconds since 1970 that time.Time can hold (its seconds counter starts in year 1)
	unixToInternal = int64((1969*365 + 1969/4 - 1969/100 + 1969/400) * 86400)
	tmaxS          = maxI - unixToInternal
)

const maxDur = time.Duration(math.MaxInt64) // ~292 years, the largest retention / delay that can be configured

// symbols for a block's MaxTime (ms). ret = retention (ms) of the block's own resolution (the reference value
// of that resolution when its retention is switched off), now = current time (ms).
var absRetSyms = []string{
	"max", "max-1", "max-1h", "max-ret-1", "max-ret", "max-ret+1", "max-ret+1s", "max-2ret", "max-now", "max-now+1",
	"maxus", "maxus+1", "maxns", "maxns+1", "maxns-ret", "maxns-ret+1", "y9999",
	"now+1h", "now+1", "now", "now-ret+1", "now-ret", "now-ret-1", "now-ret-1s",
	"1", "0", "-1", "y1900", "minns", "minns-1", "minus", "min+ret+1", "min+ret", "min+ret-1", "min+1", "min",
}

func absRetMs(sym string, now, ret int64) (int64, error) {
	switch sym {
	case "max":
		return maxI, nil
	case "max-1":
		return maxI - 1, nil
	case "max-1h":
		return maxI - 3600000, nil
	case "max-ret-1":
		return maxI - ret - 1, nil
	case "max-ret":
		return maxI - ret, nil
	case "max-ret+1":
		return maxI - ret + 1, nil
	case "max-ret+1s":
		return maxI - ret + 1000, nil
	case "max-2ret":
		return maxI - ret - ret, nil
	case "max-now":
		return maxI - now, nil
	case "max-now+1":
		return maxI - now + 1, nil
	case "maxus":
		return maxI / 1000, nil
	case "maxus+1":
		return maxI/1000 + 1, nil
	case "maxns":
		return maxI / 1000000, nil
	case "maxns+1":
		return maxI/1000000 + 1, nil
	case "maxns-ret":
		return maxI/1000000 - ret, nil
	case "maxns-ret+1":
		return maxI/1000000 - ret + 1, nil
	case "y9999":
		return 253402300799999, nil
	case "now+1h":
		return now + 3600000, nil
	case "now+1":
		return now + 1, nil
	case "now":
		return now, nil
	case "now-ret+1":
		return now - ret + 1, nil
	case "now-ret":
		return now - ret, nil
	case "now-ret-1":
		return now - ret - 1, nil
	case "now-ret-1s":
		return now - ret - 1000, nil
	case "1":
		return 1, nil
	case "0":
		return 0, nil
	case "-1":
		return -1, nil
	case "y1900":
		return -2208988800000, nil
	case "minns":
		return minI / 1000000, nil
	case "minns-1":
		return minI/1000000 - 1, nil
	case "minus":
		return minI / 1000, nil
	case "min+ret+1":
		return minI + ret + 1, nil
	case "min+ret":
		return minI + ret, nil
	case "min+ret-1":
		return minI + ret - 1, nil
	case "min+1":
		return minI + 1, nil
	case "min":
		return minI, nil
	}
	return 0, fmt.Errorf("unknown MaxTime symbol %q", sym)
}

// retention configurations of the extreme part, relative to the focus resolution.
const (
	arcAllOn = iota
	arcAllOff
	arcOnlyFocusOn
	arcOnlyFocusOff
	arcProduction
	arcHuge
	arcCount
)

func absRetCfg(mode, focus int) ([3]time.Duration, error) {
	var c [3]time.Duration
	switch mode {
	case arcAllOn:
		c = baseRet
	case arcAllOff:
	case arcOnlyFocusOn:
		c[focus] = baseRet[focus]
	case arcOnlyFocusOff:
		c = baseRet
		c[focus] = 0
	case arcProduction:
		c = [3]time.Duration{30 * 24 * time.Hour, 120 * 24 * time.Hour, 365 * 24 * time.Hour}
	case arcHuge:
		c = [3]time.Duration{maxDur, maxDur, maxDur}
	default:
		return c, fmt.Errorf("bad retention mode %d", mode)
	}
	return c, nil
}

// symbols for a deletion mark's deletion_time (s). d = delete delay (s), now = current time (s).
var absMarkSyms = []string{
	"tmax", "maxms", "maxus", "y9999", "maxns+1", "maxns", "maxns-d", "maxns-d+1", "now+1h", "now+1", "now",
	"1", "0", "-1", "y1900", "minns", "minns-1", "minus", "minms", "min+d+1", "min+1", "min",
	// not representable as a time.Time (time.Unix wraps around): observed, not asserted
	"tmax+1", "max",
}

func absMarkS(sym string, now, d int64) (v int64, representable bool, err error) {
	representable = true
	switch sym {
	case "tmax":
		v = tmaxS
	case "tmax+1":
		v, representable = tmaxS+1, false
	case "max":
		v, representable = maxI, false
	case "maxms":
		v = maxI / 1000
	case "maxus":
		v = maxI / 1000000
	case "y9999":
		v = 253402300799
	case "maxns+1":
		v = maxI/1000000000 + 1
	case "maxns":
		v = maxI / 1000000000
	case "maxns-d":
		v = maxI/1000000000 - d
	case "maxns-d+1":
		v = maxI/1000000000 - d + 1
	case "now+1h":
		v = now + 3600
	case "now+1":
		v = now + 1
	case "now":
		v = now
	case "1":
		v = 1
	case "0":
		v = 0
	case "-1":
		v = -1
	case "y1900":
		v = -2208988800
	case "minns":
		v = minI / 1000000000
	case "minns-1":
		v = minI/1000000000 - 1
	case "minus":
		v = minI / 1000000
	case "minms":
		v = minI / 1000
	case "min+d+1":
		v = minI + d + 1
	case "min+1":
		v = minI + 1
	case "min":
		v = minI
	default:
		err = fmt.Errorf("unknown deletion_time symbol %q", sym)
	}
	return
}

var absDelays = []time.Duration{0, 2 * time.Second, 48 * time.Hour, maxDur}

// symbols for the LastModified an object store reports for objects of a partial upload.
var absLMSyms = []string{"tmax", "y9999", "y2262+1s", "now+1h", "now+1ms", "unix0", "y1900", "y1677-1s", "y1+1ns", "tmin"}

func absLM(sym string, now time.Time) (time.Time, error) {
	switch sym {
	case "tmax":
		return time.Unix(tmaxS, 999999999), nil
	case "y9999":
		return time.Unix(253402300799, 0), nil
	case "y2262+1s":
		return time.Unix(maxI/1000000000+1, 0), nil
	case "now+1h":
		return now.Add(time.Hour), nil
	case "now+1ms":
		return now.Add(time.Millisecond), nil
	case "unix0":
		return time.Unix(0, 0), nil
	case "y1900":
		return time.Unix(-2208988800, 0), nil
	case "y1677-1s":
		return time.Unix(minI/1000000000-1, 0), nil
	case "y1+1ns":
		return time.Unix(-unixToInternal, 1), nil // one ns after the zero time (the zero time itself means "unknown")
	case "tmin":
		return time.Unix(minI, 0), nil
	}
	return time.Time{}, fmt.Errorf("unknown LastModified symbol %q", sym)
}

// olderThan reports now - instant > limit exactly; the instant is units*unitNs + extraNs nanoseconds since 1970.
func olderThan(now time.Time, units, unitNs, extraNs int64, limit time.Duration) bool {
	inst := new(big.Int).Mul(big.NewInt(units), big.NewInt(unitNs))
	inst.Add(inst, big.NewInt(extraNs))
	n := new(big.Int).Mul(big.NewInt(now.Unix()), big.NewInt(1000000000))
	n.Add(n, big.NewInt(int64(now.Nanosecond())))
	return n.Sub(n, inst).Cmp(big.NewInt(int64(limit))) > 0
}

// timeOlderThan: now - t > limit, exact for every time.Time.
func timeOlderThan(now, t time.Time, limit time.Duration) bool {
	return olderThan(now, t.Unix(), 1000000000, int64(t.Nanosecond()), limit)
}

func genExtreme(r *vlib.R, yield func(Case) bool) bool {
	phases := []int{0, 999}
	if r.Thorough() {
		phases = []int{0, 1, 500, 999}
	}
	for _, ph := range phases {
		for mode := 0; mode < arcCount; mode++ {
			for res := 0; res < 3; res++ {
				if res > 0 && mode != arcOnlyFocusOn && mode != arcOnlyFocusOff {
					continue // the configuration does not depend on the focus resolution: every case holds a block of each resolution
				}
				for _, s := range absRetSyms {
					if !yield(Case{Part: "retention-abs", PhaseMs: ph, Res: res, RetCfg: mode, Abs: s}) {
						return false
					}
				}
			}
		}
	}
	for di := range absDelays {
		for _, s := range absMarkSyms {
			if !yield(Case{Part: "cleaner-abs", PhaseMs: 500, Delay: di, Abs: s}) {
				return false
			}
		}
	}
	for pat := 0; pat < 3; pat++ {
		for _, s := range absLMSyms {
			if !yield(Case{Part: "partial-abs", Pattern: pat, Abs: s}) {
				return false
			}
		}
	}
	return true
}

func putMetaRange(ctx context.Context, bkt objstore.Bucket, id ulid.ULID, maxTime int64, resolution int64) error {
	minTime := minI
	if maxTime >= minI+1000 {
		minTime = maxTime - 1000
	}
	m := metadata.Meta{
		BlockMeta: tsdb.BlockMeta{
			ULID: id, MinTime: minTime, MaxTime: maxTime, Version: 1,
			Stats:      tsdb.BlockStats{NumSamples: 2, NumSeries: 1, NumChunks: 1},
			Compaction: tsdb.BlockMetaCompaction{Level: 1, Sources: []ulid.ULID{id}},
		},
		Thanos: metadata.Thanos{
			Labels:     map[string]string{"cluster": "x"},
			Downsample: metadata.ThanosDownsample{Resolution: resolution},
			Source:     metadata.TestSource,
		},
	}
	var buf bytes.Buffer
	if err := m.Write(&buf); err != nil {
		return err
	}
	return bkt.Upload(ctx, id.String()+"/"+block.MetaFilename, &buf)
}

// lmBucket is an object store that reports a chosen LastModified for some objects in listings.
type lmBucket struct {
	objstore.Bucket
	lm func(name string) (time.Time, bool)
}

func (b lmBucket) IterWithAttributes(ctx context.Context, dir string, f func(objstore.IterObjectAttributes) error, o ...objstore.IterOption) error {
	return b.Bucket.IterWithAttributes(ctx, dir, func(a objstore.IterObjectAttributes) error {
		if t, ok := b.lm(a.Name); ok {
			a.SetLastModified(t)
		}
		return f(a)
	}, o...)
}

func evalExtreme(r *vlib.R, c Case, ctx context.Context, bkt *objstore.InMemBucket, start time.Time) (herr error) {
	must := func(err error) {
		if err != nil && herr == nil {
			herr = err
		}
	}
	switch c.Part {
	case "retention-abs":
		if c.Res < 0 || c.Res > 2 {
			return fmt.Errorf("bad case")
		}
		cfg, err := absRetCfg(c.RetCfg, c.Res)
		if err != nil {
			return err
		}
		time.Sleep(10*time.Second + ms(c.PhaseMs))
		now := time.Now()
		type blk struct {
			id      ulid.ULID
			res     int64
			maxTime int64
			ret     time.Duration
		}
		var blks []blk
		for i := 0; i < 4; i++ {
			// one block per resolution (raw, 5m, 1h) and one of a resolution nobody configures, all at the same symbol
			var ret, ref time.Duration
			res := int64(12345)
			if i < 3 {
				ret, ref, res = cfg[i], cfg[i], resolutions[i]
			}
			if ref == 0 {
				ref = baseRet[i%3]
			}
			mt, err := absRetMs(c.Abs, now.UnixMilli(), ref.Milliseconds())
			if err != nil {
				return err
			}
			blks = append(blks, blk{mkULID(start, byte(i+1)), res, mt, ret})
		}
		for _, b := range blks {
			must(putMetaRange(ctx, bkt, b.id, b.maxTime, b.res))
		}
		rg, err := newRig(bkt, 48*time.Hour)
		if err != nil {
			return err
		}
		must(rg.syncer.SyncMetas(ctx))
		metas := rg.syncer.Metas()
		if len(metas) != len(blks) {
			return fmt.Errorf("fetcher returned %d metas, want %d", len(metas), len(blks))
		}
		for _, b := range blks {
			if m := metas[b.id]; m == nil || m.MaxTime != b.maxTime || m.Thanos.Downsample.Resolution != b.res {
				return fmt.Errorf("meta of block %s did not survive the fetch: %+v", b.id, m)
			}
		}
		must(compact.ApplyRetentionPolicyByResolution(ctx, logger, bkt, metas, map[compact.ResolutionLevel]time.Duration{
			compact.ResolutionLevelRaw: cfg[0], compact.ResolutionLevel5m: cfg[1], compact.ResolutionLevel1h: cfg[2],
		}, counter()))
		if !time.Now().Equal(now) {
			return fmt.Errorf("virtual clock moved during the case")
		}
		objs := bkt.Objects()
		focusMarked := false
		for i, b := range blks {
			// newest sample = MaxTime-1 ms (for MaxTime = MinInt64 that is below the range: big arithmetic)
			older := b.ret > 0 && olderThan(now, b.maxTime, 1000000, -1000000, b.ret)
			future := !olderThan(now, b.maxTime, 1000000, -1000000, -1) // newest sample later than now
			if future && b.ret > 0 {
				r.Add("retention_abs_blocks_with_newest_sample_not_in_the_past_under_a_configured_retention", 1)
			}
			if _, marked := objs[b.id.String()+"/"+metadata.DeletionMarkFilename]; !marked {
				continue
			}
			if i == c.Res {
				focusMarked = true
			}
			r.Nontrivial(fmt.Sprintf("retention-abs/%d/%d/%d/%s/%d", c.PhaseMs, c.RetCfg, c.Res, c.Abs, i))
			at := fmt.Sprintf("now=%s (%d ms), block MaxTime=%d ms (symbol %q), resolution %d, retention of that resolution %v",
				now.UTC().Format("2006-01-02T15:04:05.000"), now.UnixMilli(), b.maxTime, c.Abs, b.res, b.ret)
			switch {
			case b.ret == 0:
				r.Violation("retention-marks-block-whose-resolution-has-no-retention", at+": marked although no retention is configured for it", c)
			case future:
				r.Violation("retention-marks-block-whose-newest-sample-is-in-the-future", at+": marked although its newest sample is not in the past at all", c)
			case !older:
				r.Violation("retention-marks-block-not-older-than-its-retention", at+": marked although its newest sample is not older than the retention", c)
			}
		}
		r.Outcome(fmt.Sprintf("retention-abs/focus-marked=%v", focusMarked))

	case "cleaner-abs":
		if c.Delay < 0 || c.Delay >= len(absDelays) {
			return fmt.Errorf("bad case")
		}
		delay := absDelays[c.Delay]
		time.Sleep(5*time.Second + ms(c.PhaseMs))
		now := time.Now()
		dt, representable, err := absMarkS(c.Abs, now.Unix(), int64(delay/time.Second))
		if err != nil {
			return err
		}
		id, other := mkULID(start, 1), mkULID(start, 2)
		for _, b := range []ulid.ULID{id, other} {
			must(putMeta(ctx, bkt, b, start.Add(-time.Hour).UnixMilli(), 0))
			must(put(ctx, bkt, b.String()+"/index"))
			must(put(ctx, bkt, b.String()+"/chunks/000001"))
		}
		raw, _ := json.Marshal(metadata.DeletionMark{ID: id, DeletionTime: dt, Version: metadata.DeletionMarkVersion1, Details: "verif extreme"})
		must(bkt.Upload(ctx, id.String()+"/"+metadata.DeletionMarkFilename, bytes.NewReader(raw)))
		if dm, err := readMark(bkt, id); err != nil || dm == nil || dm.DeletionTime != dt {
			return fmt.Errorf("deletion mark did not round-trip: %v %v", dm, err)
		}
		rg, err := newRig(bkt, delay)
		if err != nil {
			return err
		}
		must(rg.syncer.SyncMetas(ctx))
		_, err = rg.cleaner.DeleteMarkedBlocks(ctx)
		must(err)
		if !time.Now().Equal(now) {
			return fmt.Errorf("virtual clock moved during the case")
		}
		removed := len(blockObjects(bkt, id)) < 4
		if len(blockObjects(bkt, other)) != 3 {
			r.Violation("cleaner-removes-unmarked-block", fmt.Sprintf("objects of the unmarked block left: %v", blockObjects(bkt, other)), c)
		}
		r.Outcome(fmt.Sprintf("cleaner-abs/removed=%v", removed))
		older := olderThan(now, dt, 1000000000, 0, delay)
		if !older && representable {
			r.Add("cleaner_abs_marks_not_older_than_the_delay", 1)
		}
		if removed {
			r.Nontrivial(fmt.Sprintf("cleaner-abs/%d/%s", c.Delay, c.Abs))
			at := fmt.Sprintf("now=%d s, mark deletion_time=%d s (symbol %q), delete delay %v", now.Unix(), dt, c.Abs, delay)
			switch {
			case older:
			case !representable:
				// time.Unix(deletion_time, 0) is outside what time.Time can hold (beyond year 292277026596)
				r.Add("cleaner_abs_removed_block_whose_deletion_time_is_beyond_the_range_of_time.Time", 1)
			case dt > now.Unix():
				r.Violation("cleaner-removes-block-whose-deletion-time-is-in-the-future", at+": the block was removed", c)
			default:
				r.Violation("cleaner-removes-block-whose-mark-is-not-older-than-delay", at+": the block was removed", c)
			}
		}

	case "partial-abs":
		// Pattern 0: every object of the partial block reports the extreme LastModified;
		//         1: only <id>/index does, the other objects were written threshold+1h ago;
		//         2: only <id>/index does, the other objects were written 1h ago.
		thr := compact.PartialUploadThresholdAge
		if c.Pattern < 0 || c.Pattern > 2 {
			return fmt.Errorf("bad case")
		}
		id := mkULID(start, 3)
		time.Sleep(2 * time.Hour)
		must(put(ctx, bkt, id.String()+"/index"))
		must(put(ctx, bkt, id.String()+"/chunks/000001"))
		must(put(ctx, bkt, id.String()+"/chunks/000002"))
		if c.Pattern == 2 {
			time.Sleep(time.Hour)
		} else {
			time.Sleep(thr + time.Hour)
		}
		now := time.Now()
		ext, err := absLM(c.Abs, now)
		if err != nil {
			return err
		}
		lm := func(name string) (time.Time, bool) {
			if c.Pattern == 0 || strings.HasSuffix(name, "/index") {
				return ext, true
			}
			return time.Time{}, false
		}
		before := blockObjects(bkt, id)
		var newest time.Time
		for _, n := range before {
			t, ok := lm(n)
			if !ok {
				a, err := bkt.Attributes(ctx, n)
				must(err)
				t = a.LastModified
			}
			if newest.IsZero() || t.After(newest) {
				newest = t
			}
		}
		compact.BestEffortCleanAbortedPartialUploads(ctx, logger, map[ulid.ULID]error{id: block.ErrorSyncMetaNotFound},
			lmBucket{Bucket: bkt, lm: lm}, counter(), counter(), counter(), map[ulid.ULID]*metadata.DeletionMark{})
		if !time.Now().Equal(now) {
			return fmt.Errorf("virtual clock moved during the case")
		}
		removed := len(blockObjects(bkt, id)) < len(before)
		r.Outcome(fmt.Sprintf("partial-abs/removed=%v", removed))
		older := timeOlderThan(now, newest, thr)
		if !older {
			r.Add("partial_abs_uploads_not_untouched_for_the_threshold", 1)
		}
		if removed {
			r.Nontrivial(fmt.Sprintf("partial-abs/%d/%s", c.Pattern, c.Abs))
			if !older {
				sig := "partial-upload-removed-before-untouched-for-threshold"
				if newest.After(now) {
					sig = "partial-upload-removed-although-an-object-is-modified-in-the-future"
				}
				r.Violation(sig, fmt.Sprintf("now=%s, newest object modification reported by the object store %s (symbol %q, pattern %d), threshold %v, objects %v",
					now.UTC().Format(time.RFC3339Nano), newest.UTC().Format(time.RFC3339Nano), c.Abs, c.Pattern, thr, before), c)
			}
		}
	default:
		return fmt.Errorf("unknown part %q", c.Part)
	}
	return herr
}
