// C07: label-names / label-values calls cover every label name and value that the same store shows on the
// series of a Series call with the same selectors, time range and replica-label list.
//
// Engine E4: store topologies (TSDBStore over a tsdb.DB head, BucketStore over real blocks, ProxyStore in front of
// both) x external label sets x replica-label lists x selector sets x time ranges; for every case one Series call,
// one LabelNames call and one LabelValues call per label name seen on the series.
package c07

import (
	"context"
	"fmt"
	"iter"
	"math"
	"path/filepath"
	"sort"
	"sync/atomic"
	"testing"

	"github.com/prometheus/prometheus/model/labels"
	"github.com/prometheus/prometheus/tsdb"
	uatomic "go.uber.org/atomic"

	"github.com/thanos-io/thanos/pkg/component"
	"github.com/thanos-io/thanos/pkg/info/infopb"
	"github.com/thanos-io/thanos/pkg/store"
	"github.com/thanos-io/thanos/pkg/store/labelpb"
	"github.com/thanos-io/thanos/pkg/store/storepb"

	"verif/vlib"
)

var dense = []int64{0, 50, 100, 150, 200, 250}

// data held by the local TSDB (head)
var headData = []SeriesSpec{
	{L: []string{"a", "x"}, T: dense},
	{L: []string{"a", "x", "b", "p"}, T: []int64{150}},
	{L: []string{"a", "y", "e", "9"}, T: []int64{0}},             // e collides with external label sets
	{L: []string{"a", "y", "b", "q", "r", "5"}, T: []int64{250}}, // r collides with a replica label
	{L: []string{"c", "k"}, T: []int64{0, 250}},
}

// data held by the first bucket block [0,300)
var blockData = []SeriesSpec{
	{L: []string{"a", "x"}, T: dense},
	{L: []string{"a", "w", "b", "p"}, T: []int64{0}},
	{L: []string{"b", "q", "e", "9"}, T: []int64{150}},
	{L: []string{"a", "y", "r", "7"}, T: []int64{250}},
	{L: []string{"d", "m"}, T: []int64{150, 250}},
}

// second bucket block [300,600): label name f exists only here
var blockData2 = []SeriesSpec{
	{L: []string{"a", "x"}, T: []int64{300, 350}},
	{L: []string{"f", "n", "b", "p"}, T: []int64{400}},
}

type Topology struct {
	Name string
	// TSDBStore: external labels (nil = no TSDBStore)
	TSDB []string
	// BucketStore: external label set per block set (nil = none); the first set gets blockData+blockData2, others headData
	Bucket [][]string
	Lazy   int
	Proxy  bool
}

var topologies = []Topology{
	{Name: "tsdb-noext", TSDB: []string{}},
	{Name: "tsdb-e1", TSDB: []string{"e", "1"}},
	{Name: "tsdb-az", TSDB: []string{"a", "z"}},
	{Name: "tsdb-e1r0", TSDB: []string{"e", "1", "r", "0"}},
	{Name: "bucket-e1", Bucket: [][]string{{"e", "1"}}},
	{Name: "bucket-e1-lazy", Bucket: [][]string{{"e", "1"}}, Lazy: 2},
	{Name: "bucket-az", Bucket: [][]string{{"a", "z"}}},
	{Name: "bucket-az-lazy", Bucket: [][]string{{"a", "z"}}, Lazy: 2},
	{Name: "bucket-e1r0", Bucket: [][]string{{"e", "1", "r", "0"}}},
	{Name: "bucket-e1r0-lazy", Bucket: [][]string{{"e", "1", "r", "0"}}, Lazy: 2},
	{Name: "bucket-two-sets", Bucket: [][]string{{"e", "1"}, {"e", "2", "r", "0"}}},
	{Name: "proxy-replicas", Proxy: true, TSDB: []string{"e", "1", "r", "0"}, Bucket: [][]string{{"e", "1", "r", "1"}}},
	{Name: "proxy-az-two-sets", Proxy: true, TSDB: []string{"a", "z"}, Bucket: [][]string{{"e", "1"}, {"e", "2", "r", "0"}}},
	{Name: "proxy-noext-e1", Proxy: true, TSDB: []string{}, Bucket: [][]string{{"e", "1"}}, Lazy: 2},
}

func matcherAlphabet(thorough bool) []M {
	out := []M{
		{0, "a", "x"}, {1, "a", "x"}, {2, "a", "x|y"}, {2, "a", ".+"}, {0, "a", ""}, {2, "a", ".*"},
		{0, "b", "p"}, {0, "b", ""}, {0, "e", "1"}, {0, "e", "9"}, {0, "r", "0"}, {0, "f", "n"},
	}
	if thorough {
		out = append(out, M{1, "e", "1"}, M{2, "e", "1|2"}, M{1, "r", "0"}, M{0, "c", "k"}, M{2, "b", "p|q"}, M{0, "a", "z"}, M{1, "d", "m"})
	}
	return out
}

func selectorSets(thorough bool) [][]M {
	al := matcherAlphabet(thorough)
	var out [][]M
	for i := range al {
		out = append(out, []M{al[i]})
	}
	for i := range al {
		for j := i + 1; j < len(al); j++ {
			out = append(out, []M{al[i], al[j]})
		}
	}
	return out
}

var replicaLists = [][]string{{}, {"e"}, {"r"}, {"a"}, {"e", "r"}, {"b"}, {"e", "a"}}
var ranges = [][2]int64{{0, 1000}, {0, 0}, {150, 250}, {300, 400}, {150, 150}, {250, 250}, {251, 299}, {math.MinInt64, math.MaxInt64}}

type Case struct {
	Topo string   `json:"topo"`
	Drop []string `json:"drop"`
	Ms   []M      `json:"ms"`
	MinT int64    `json:"mint"`
	MaxT int64    `json:"maxt"`
}

// proxyClient is what the querier's endpoint set hands to the proxy: the store's own advertisement.
type proxyClient struct {
	storepb.StoreClient
	name    string
	lsets   func() []labels.Labels
	timeRng func() (int64, int64)
}

func (c proxyClient) LabelSets() []labels.Labels             { return c.lsets() }
func (c proxyClient) TimeRange() (int64, int64)              { return c.timeRng() }
func (c proxyClient) TSDBInfos() []infopb.TSDBInfo           { return nil }
func (c proxyClient) SupportsSharding() bool                 { return true }
func (c proxyClient) SupportsWithoutReplicaLabels() bool     { return true }
func (c proxyClient) String() string                         { return c.name }
func (c proxyClient) Addr() (string, bool)                   { return c.name, true }
func (c proxyClient) Matches(matches []*labels.Matcher) bool { return true }

type built struct {
	topo   Topology
	srv    storepb.StoreServer
	exts   []labels.Labels // every external label set behind this server
	kind   string
	closer func()
}

type env struct {
	r     *vlib.R
	topos map[string]*built

	calls, nonEmpty, errs, namesChecked, valuesChecked, extNames, withDrop atomic.Int64
}

func zsetsToLabels(zs []labelpb.ZLabelSet) []labels.Labels {
	var out []labels.Labels
	for _, z := range zs {
		out = append(out, z.PromLabels().Copy())
	}
	return out
}

func (e *env) gen(thorough bool) iter.Seq[Case] {
	sets := selectorSets(thorough)
	nd, nr := 5, 5
	if thorough {
		nd, nr = len(replicaLists), len(ranges)
	}
	return func(yield func(Case) bool) {
		for _, tp := range topologies {
			for _, drop := range replicaLists[:nd] {
				for _, ms := range sets {
					for _, rg := range ranges[:nr] {
						if !yield(Case{Topo: tp.Name, Drop: drop, Ms: ms, MinT: rg[0], MaxT: rg[1]}) {
							return
						}
					}
				}
			}
		}
	}
}

func (e *env) eval(c Case) {
	r := e.r
	ctx := context.Background()
	b, ok := e.topos[c.Topo]
	if !ok {
		panic("HARNESS-ERROR unknown topology " + c.Topo)
	}
	where := fmt.Sprintf("%s (external labels %v) selectors %v range [%d,%d] without replica labels %v", c.Topo, b.exts, c.Ms, c.MinT, c.MaxT, c.Drop)
	srv := &seriesServer{ctx: ctx}
	err := b.srv.Series(&storepb.SeriesRequest{MinTime: c.MinT, MaxTime: c.MaxT, Matchers: pbMatchers(c.Ms), WithoutReplicaLabels: c.Drop,
		PartialResponseStrategy: storepb.PartialResponseStrategy_ABORT}, srv)
	e.calls.Add(1)
	if err != nil {
		e.errs.Add(1) // e.g. "no matchers specified (excluding external labels)": nothing is returned, nothing to cover
		return
	}
	if len(srv.series) == 0 {
		return
	}
	e.nonEmpty.Add(1)
	// label name -> values seen on the returned series
	seen := map[string]map[string]struct{}{}
	for _, s := range srv.series {
		for _, l := range s.Labels {
			if seen[l.Name] == nil {
				seen[l.Name] = map[string]struct{}{}
			}
			seen[l.Name][l.Value] = struct{}{}
		}
	}
	class := func(name string) string {
		isExt := false
		for _, x := range b.exts {
			if x.Has(name) {
				isExt = true
			}
		}
		stored := false
		for _, d := range [][]SeriesSpec{headData, blockData, blockData2} {
			for _, s := range d {
				if lbls(s.L).Has(name) {
					stored = true
				}
			}
		}
		switch {
		case isExt && stored:
			return "external-label-colliding-with-a-stored-one"
		case isExt:
			return "external-label"
		}
		return "stored-label"
	}
	var names []string
	for n := range seen {
		names = append(names, n)
	}
	sort.Strings(names)

	ln, err := b.srv.LabelNames(ctx, &storepb.LabelNamesRequest{Start: c.MinT, End: c.MaxT, Matchers: pbMatchers(c.Ms), WithoutReplicaLabels: c.Drop,
		PartialResponseStrategy: storepb.PartialResponseStrategy_ABORT})
	e.calls.Add(1)
	if err != nil {
		r.Violation(b.kind+"-label-names-fails-where-series-succeeds", fmt.Sprintf("%s: Series returned %d series, LabelNames failed: %v", where, len(srv.series), err), c)
		return
	}
	got := map[string]struct{}{}
	for _, n := range ln.Names {
		got[n] = struct{}{}
	}
	for _, n := range names {
		e.namesChecked.Add(1)
		if cl := class(n); cl != "stored-label" {
			e.extNames.Add(1)
		}
		if _, ok := got[n]; !ok {
			r.Violation(fmt.Sprintf("%s-label-names-misses-%s", b.kind, class(n)),
				fmt.Sprintf("%s: Series shows label %q on its series, LabelNames returned %v", where, n, ln.Names), c)
			return
		}
	}
	for _, n := range names {
		lv, err := b.srv.LabelValues(ctx, &storepb.LabelValuesRequest{Label: n, Start: c.MinT, End: c.MaxT, Matchers: pbMatchers(c.Ms), WithoutReplicaLabels: c.Drop,
			PartialResponseStrategy: storepb.PartialResponseStrategy_ABORT})
		e.calls.Add(1)
		if err != nil {
			r.Violation(b.kind+"-label-values-fails-where-series-succeeds", fmt.Sprintf("%s: LabelValues(%q) failed: %v", where, n, err), c)
			return
		}
		gv := map[string]struct{}{}
		for _, v := range lv.Values {
			gv[v] = struct{}{}
		}
		var vals []string
		for v := range seen[n] {
			vals = append(vals, v)
		}
		sort.Strings(vals)
		for _, v := range vals {
			e.valuesChecked.Add(1)
			if _, ok := gv[v]; !ok {
				r.Violation(fmt.Sprintf("%s-label-values-misses-value-of-%s", b.kind, class(n)),
					fmt.Sprintf("%s: Series shows %s=%q, LabelValues(%q) returned %v", where, n, v, n, lv.Values), c)
				return
			}
		}
	}
	if len(c.Drop) > 0 {
		e.withDrop.Add(1)
	}
	r.Nontrivial(fmt.Sprintf("%s|%v|%v|%d|%d", c.Topo, c.Drop, c.Ms, c.MinT, c.MaxT))
}

func appendAll(ctx context.Context, db *tsdb.DB, data []SeriesSpec) error {
	tsSet := map[int64]bool{}
	for _, s := range data {
		for _, ts := range s.T {
			tsSet[ts] = true
		}
	}
	var tss []int64
	for ts := range tsSet {
		tss = append(tss, ts)
	}
	sort.Slice(tss, func(i, j int) bool { return tss[i] < tss[j] })
	for _, ts := range tss {
		app := db.Appender(ctx)
		for _, s := range data {
			for _, st := range s.T {
				if st == ts {
					if _, err := app.Append(0, lbls(s.L), ts, float64(lbls(s.L).Hash()%1000)+float64(ts)/7); err != nil {
						return err
					}
				}
			}
		}
		if err := app.Commit(); err != nil {
			return err
		}
	}
	return nil
}

func TestCheck(t *testing.T) {
	r := vlib.New(t, "C07")
	defer r.Finish()
	r.Rule("14 store topologies (TSDBStore over a tsdb.DB head with external labels {}, {e=1}, {a=z}, {e=1,r=0}; BucketStore over two adjacent blocks per external set {e=1}, {a=z}, {e=1,r=0}, " +
		"lazy postings off/on, and over two block sets; ProxyStore over TSDBStore+BucketStore as replicas, with colliding external labels and with an unlabelled TSDB) " +
		"x replica-label lists x all sets of <=2 matchers x time ranges; stored label names e, r, a collide with external/replica labels; " +
		"per case: Series, LabelNames and one LabelValues per label name seen; non-trivial = distinct cases whose Series answer is non-empty")
	r.Assume("oracle: names(Series) subset of LabelNames and values(Series, n) subset of LabelValues(n) for identical matchers, range and WithoutReplicaLabels; nothing is asserted about extra names/values",
		"a Series call that fails (e.g. no matcher besides external ones) returns nothing and is skipped; label calls without any matcher have no equal-selector Series call and are not compared",
		"proxy calls use the ABORT partial response strategy so that a failing store is an error, not a silent omission",
		"the proxy's clients advertise the stores' own LabelSet()/TimeRange(), as the endpoint set does from the Info API")
	ctx := context.Background()
	root := t.TempDir()
	e := &env{r: r, topos: map[string]*built{}}

	opts := tsdb.DefaultOptions()
	opts.MinBlockDuration = 100
	opts.MaxBlockDuration = 100
	opts.RetentionDuration = 0
	db, err := tsdb.Open(filepath.Join(root, "db"), nil, nil, opts, nil)
	if err != nil {
		t.Fatalf("HARNESS-ERROR %v", err)
	}
	db.DisableCompactions()
	defer db.Close()
	if err := appendAll(ctx, db, headData); err != nil {
		t.Fatalf("HARNESS-ERROR %v", err)
	}

	unis := map[string]*universe{}
	for _, tp := range topologies {
		b := &built{topo: tp}
		var tsdbStore *store.TSDBStore
		var gw *gateway
		if tp.TSDB != nil {
			tsdbStore = store.NewTSDBStore(nil, db, component.Receive, lbls(tp.TSDB))
			b.exts = append(b.exts, lbls(tp.TSDB))
		}
		if tp.Bucket != nil {
			key := fmt.Sprint(tp.Bucket)
			u, ok := unis[key]
			if !ok {
				var specs []BlockSpec
				for i, x := range tp.Bucket {
					if i == 0 {
						specs = append(specs, BlockSpec{Ext: x, MinT: 0, MaxT: 300, ChunkRange: 100, Series: blockData},
							BlockSpec{Ext: x, MinT: 300, MaxT: 600, ChunkRange: 100, Series: blockData2})
					} else {
						specs = append(specs, BlockSpec{Ext: x, MinT: 0, MaxT: 300, ChunkRange: 100, Series: headData})
					}
				}
				u, err = buildUniverse(ctx, root, fmt.Sprintf("u%d", len(unis)), specs)
				if err != nil {
					t.Fatalf("HARNESS-ERROR %v", err)
				}
				defer u.close()
				unis[key] = u
			}
			gw, err = newGateway(ctx, u, Config{Sampling: 32, Lazy: tp.Lazy, Est: 1, Batch: 2, Gap: 1}, nil, filepath.Join(root, "hdr-"+u.name), nil)
			if err != nil {
				t.Fatalf("HARNESS-ERROR %v", err)
			}
			defer gw.close()
			for _, x := range tp.Bucket {
				b.exts = append(b.exts, lbls(x))
			}
		}
		switch {
		case tp.Proxy:
			b.kind = "proxy"
			ts, g := tsdbStore, gw
			clients := []store.Client{
				proxyClient{StoreClient: storepb.ServerAsClient(ts, *uatomic.NewBool(false)), name: "tsdb",
					lsets: func() []labels.Labels { return zsetsToLabels(ts.LabelSet()) }, timeRng: ts.TimeRange},
				proxyClient{StoreClient: storepb.ServerAsClient(g.st, *uatomic.NewBool(false)), name: "bucket",
					lsets: func() []labels.Labels { return zsetsToLabels(g.st.LabelSet()) }, timeRng: g.st.TimeRange},
			}
			b.srv = store.NewProxyStore(nil, nil, func() []store.Client { return clients }, component.Query, labels.EmptyLabels(), 0, store.EagerRetrieval)
		case tsdbStore != nil:
			b.kind = "tsdb"
			b.srv = tsdbStore
		default:
			b.kind = "bucket"
			b.srv = gw.st
		}
		e.topos[tp.Name] = b
	}

	vlib.ForEach(r, e.gen(r.Thorough()), func(c Case) {
		r.Sample(c)
		e.eval(c)
	})
	r.Set("store_calls", e.calls.Load())
	r.Set("series_calls_with_an_answer", e.nonEmpty.Load())
	r.Set("series_calls_failed", e.errs.Load())
	r.Set("label_names_checked", e.namesChecked.Load())
	r.Set("label_values_checked", e.valuesChecked.Load())
	r.Set("external_label_names_checked", e.extNames.Load())
	r.Set("answers_with_replica_labels_dropped", e.withDrop.Load())
	if !r.Replaying() && (e.nonEmpty.Load() == 0 || e.extNames.Load() == 0 || e.withDrop.Load() == 0) {
		r.Cap("a class of cases was never observed (see counters)")
	}
}
