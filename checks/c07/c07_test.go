// C07: label-names / label-values calls cover every label name and value that the same store shows on the
// series of a Series call with the same selectors, time range and replica-label list.
//
// Engine E4: store topologies (TSDBStore over a tsdb.DB head, BucketStore over real blocks, ProxyStore in front of
// both) x external label sets x replica-label lists x selector sets x time ranges; for every case one Series call,
// one LabelNames call and one LabelValues call per label name seen on the series.
//
// The external label sets of a store are not fixed at construction: a running TSDBStore gets new ones with
// SetExtLset (receive, hashring reload) and a running BucketStore gets new ones when a SyncBlocks finds blocks of another
// block set. The topologies therefore include HISTORIES of external label sets: the requests of a case are made under
// every configuration of the history, on one store instance, in order.
package c07

import (
	"context"
	"fmt"
	"iter"
	"math"
	"path/filepath"
	"sort"
	"strings"
	"sync/atomic"
	"testing"

	"github.com/prometheus/prometheus/model/labels"
	"github.com/prometheus/prometheus/tsdb"
	uatomic "go.uber.org/atomic"

	"github.com/thanos-io/thanos/pkg/component"
	"github.com/thanos-io/thanos/pkg/info/infopb"
	"github.com/thanos-io/thanos/pkg/store"
	"github.com/thanos-io/thanos/pkg/store/labelpb"
	"github.com/thanos-io/thanos/pkg/store/storepb"

	"verif/vlib"
)

var dense = []int64{0, 50, 100, 150, 200, 250}

// data held by the local TSDB (head)
var headData = []SeriesSpec{
	{L: []string{"a", "x"}, T: dense},
	{L: []string{"a", "x", "b", "p"}, T: []int64{150}},
	{L: []string{"a", "y", "e", "9"}, T: []int64{0}},             // e collides with external label sets
	{L: []string{"a", "y", "b", "q", "r", "5"}, T: []int64{250}}, // r collides with a replica label
	{L: []string{"c", "k"}, T: []int64{0, 250}},
}

// data held by the first bucket block [0,300)
var blockData = []SeriesSpec{
	{L: []string{"a", "x"}, T: dense},
	{L: []string{"a", "w", "b", "p"}, T: []int64{0}},
	{L: []string{"b", "q", "e", "9"}, T: []int64{150}},
	{L: []string{"a", "y", "r", "7"}, T: []int64{250}},
	{L: []string{"d", "m"}, T: []int64{150, 250}},
}

// second bucket block [300,600): label name f exists only here
var blockData2 = []SeriesSpec{
	{L: []string{"a", "x"}, T: []int64{300, 350}},
	{L: []string{"f", "n", "b", "p"}, T: []int64{400}},
}

type Topology struct {
	Name string
	// TSDBStore: external labels (nil = no TSDBStore)
	TSDB []string
	// history of the TSDBStore: external label sets installed one after the other with SetExtLset on the running
	// store. A topology with such a history gets ONE NEW TSDBStore (and proxy) PER CASE: the requests of the case are
	// made under TSDB, then under every element of TSDBThen, so whatever a store keeps from construction or from its
	// first answers is in place when the labels change.
	TSDBThen [][]string
	// BucketStore: external label set per block set (nil = none); the first set gets blockData+blockData2, others headData
	Bucket [][]string
	// history of the BucketStore: block sets that are uploaded only after the store has synced and answered every
	// request of the enumeration once (stage 1); then SyncBlocks runs again and every request is made again (stage 2).
	BucketThen [][]string
	Lazy       int
	Proxy      bool
}

func (tp Topology) tsdbPhases() [][]string {
	if tp.TSDB == nil {
		return [][]string{nil}
	}
	return append([][]string{tp.TSDB}, tp.TSDBThen...)
}

func extName(x []string) string {
	if len(x) == 0 {
		return "noext"
	}
	return strings.Join(x, "")
}

// external label sets a TSDBStore moves between: none, a plain one, one whose name is also a stored label name, one
// with a replica label
var extAlphabet = [][]string{{}, {"e", "1"}, {"a", "z"}, {"e", "1", "r", "0"}}

// historyTopologies: every ordered pair of distinct external label sets of extAlphabet on a TSDBStore, a change of
// the value only (plain and replica label), a change that is taken back, TSDB histories behind the proxy, and
// bucket stores whose second block set arrives after the first sync (alone and behind the proxy).
func historyTopologies() []Topology {
	var out []Topology
	for _, a := range extAlphabet {
		for _, b := range extAlphabet {
			if extName(a) != extName(b) {
				out = append(out, Topology{Name: "tsdb-" + extName(a) + "-then-" + extName(b), TSDB: a, TSDBThen: [][]string{b}})
			}
		}
	}
	out = append(out,
		Topology{Name: "tsdb-e1-then-e2", TSDB: []string{"e", "1"}, TSDBThen: [][]string{{"e", "2"}}},
		Topology{Name: "tsdb-e1r0-then-e1r1", TSDB: []string{"e", "1", "r", "0"}, TSDBThen: [][]string{{"e", "1", "r", "1"}}},
		Topology{Name: "tsdb-e1-then-az-then-e1", TSDB: []string{"e", "1"}, TSDBThen: [][]string{{"a", "z"}, {"e", "1"}}},
		Topology{Name: "proxy-replicas-tsdb-e1-then-e1r0", Proxy: true, TSDB: []string{"e", "1"}, TSDBThen: [][]string{{"e", "1", "r", "0"}}, Bucket: [][]string{{"e", "1", "r", "1"}}},
		Topology{Name: "proxy-tsdb-noext-then-az-e1", Proxy: true, TSDB: []string{}, TSDBThen: [][]string{{"a", "z"}}, Bucket: [][]string{{"e", "1"}}, Lazy: 2},
		Topology{Name: "bucket-e1-then-e2r0", Bucket: [][]string{{"e", "1"}}, BucketThen: [][]string{{"e", "2", "r", "0"}}},
		Topology{Name: "bucket-e1r0-then-az-lazy", Bucket: [][]string{{"e", "1", "r", "0"}}, BucketThen: [][]string{{"a", "z"}}, Lazy: 2},
		Topology{Name: "proxy-az-bucket-e1-then-e2r0", Proxy: true, TSDB: []string{"a", "z"}, Bucket: [][]string{{"e", "1"}}, BucketThen: [][]string{{"e", "2", "r", "0"}}},
	)
	return out
}

func allTopologies() []Topology {
	return append(append([]Topology(nil), topologies...), historyTopologies()...)
}

var topologies = []Topology{
	{Name: "tsdb-noext", TSDB: []string{}},
	{Name: "tsdb-e1", TSDB: []string{"e", "1"}},
	{Name: "tsdb-az", TSDB: []string{"a", "z"}},
	{Name: "tsdb-e1r0", TSDB: []string{"e", "1", "r", "0"}},
	{Name: "bucket-e1", Bucket: [][]string{{"e", "1"}}},
	{Name: "bucket-e1-lazy", Bucket: [][]string{{"e", "1"}}, Lazy: 2},
	{Name: "bucket-az", Bucket: [][]string{{"a", "z"}}},
	{Name: "bucket-az-lazy", Bucket: [][]string{{"a", "z"}}, Lazy: 2},
	{Name: "bucket-e1r0", Bucket: [][]string{{"e", "1", "r", "0"}}},
	{Name: "bucket-e1r0-lazy", Bucket: [][]string{{"e", "1", "r", "0"}}, Lazy: 2},
	{Name: "bucket-two-sets", Bucket: [][]string{{"e", "1"}, {"e", "2", "r", "0"}}},
	{Name: "proxy-replicas", Proxy: true, TSDB: []string{"e", "1", "r", "0"}, Bucket: [][]string{{"e", "1", "r", "1"}}},
	{Name: "proxy-az-two-sets", Proxy: true, TSDB: []string{"a", "z"}, Bucket: [][]string{{"e", "1"}, {"e", "2", "r", "0"}}},
	{Name: "proxy-noext-e1", Proxy: true, TSDB: []string{}, Bucket: [][]string{{"e", "1"}}, Lazy: 2},
}

func matcherAlphabet(thorough bool) []M {
	out := []M{
		{0, "a", "x"}, {1, "a", "x"}, {2, "a", "x|y"}, {2, "a", ".+"}, {0, "a", ""}, {2, "a", ".*"},
		{0, "b", "p"}, {0, "b", ""}, {0, "e", "1"}, {0, "e", "9"}, {0, "r", "0"}, {0, "f", "n"},
	}
	if thorough {
		out = append(out, M{1, "e", "1"}, M{2, "e", "1|2"}, M{1, "r", "0"}, M{0, "c", "k"}, M{2, "b", "p|q"}, M{0, "a", "z"}, M{1, "d", "m"})
	}
	return out
}

func selectorSets(thorough bool) [][]M {
	al := matcherAlphabet(thorough)
	var out [][]M
	for i := range al {
		out = append(out, []M{al[i]})
	}
	for i := range al {
		for j := i + 1; j < len(al); j++ {
			out = append(out, []M{al[i], al[j]})
		}
	}
	return out
}

var replicaLists = [][]string{{}, {"e"}, {"r"}, {"a"}, {"e", "r"}, {"b"}, {"e", "a"}}
var ranges = [][2]int64{{0, 1000}, {0, 0}, {150, 250}, {300, 400}, {150, 150}, {250, 250}, {251, 299}, {math.MinInt64, math.MaxInt64}}

type Case struct {
	Topo string   `json:"topo"`
	Drop []string `json:"drop"`
	Ms   []M      `json:"ms"`
	MinT int64    `json:"mint"`
	MaxT int64    `json:"maxt"`
	// only for topologies with a BucketThen history: 0 = the requests are made before the later block sets exist,
	// 1 = they are made before (stage 1) and again after the later block sets were uploaded and synced (stage 2).
	// Topologies with a TSDBThen history run all their phases inside the one case.
	Phase int `json:"phase,omitempty"`
}

// proxyClient is what the querier's endpoint set hands to the proxy: the store's own advertisement.
type proxyClient struct {
	storepb.StoreClient
	name    string
	lsets   func() []labels.Labels
	timeRng func() (int64, int64)
}

func (c proxyClient) LabelSets() []labels.Labels             { return c.lsets() }
func (c proxyClient) TimeRange() (int64, int64)              { return c.timeRng() }
func (c proxyClient) TSDBInfos() []infopb.TSDBInfo           { return nil }
func (c proxyClient) SupportsSharding() bool                 { return true }
func (c proxyClient) SupportsWithoutReplicaLabels() bool     { return true }
func (c proxyClient) String() string                         { return c.name }
func (c proxyClient) Addr() (string, bool)                   { return c.name, true }
func (c proxyClient) Matches(matches []*labels.Matcher) bool { return true }

type built struct {
	topo Topology
	kind string
	u    *universe
	gw   *gateway // shared by all cases of the topology
	// the server shared by all cases (topologies without a TSDBThen history); nil otherwise: one instance per case
	shared *instance
}

type instance struct {
	srv  storepb.StoreServer
	tsdb *store.TSDBStore
}

type env struct {
	r     *vlib.R
	db    *tsdb.DB
	order []Topology
	topos map[string]*built

	calls, nonEmpty, errs, namesChecked, valuesChecked, extNames, withDrop atomic.Int64
	changedAnswers, newExtNames, newExtValues                              atomic.Int64
}

func zsetsToLabels(zs []labelpb.ZLabelSet) []labels.Labels {
	var out []labels.Labels
	for _, z := range zs {
		out = append(out, z.PromLabels().Copy())
	}
	return out
}

// instantiate builds the servers of a topology in their INITIAL configuration (cheap: structs over the shared
// tsdb.DB and the shared, already synced BucketStore).
func (e *env) instantiate(b *built) *instance {
	in := &instance{}
	tp := b.topo
	if tp.TSDB != nil {
		in.tsdb = store.NewTSDBStore(nil, e.db, component.Receive, lbls(tp.TSDB))
	}
	switch {
	case tp.Proxy:
		ts, g := in.tsdb, b.gw
		clients := []store.Client{
			proxyClient{StoreClient: storepb.ServerAsClient(ts, *uatomic.NewBool(false)), name: "tsdb",
				lsets: func() []labels.Labels { return zsetsToLabels(ts.LabelSet()) }, timeRng: ts.TimeRange},
			proxyClient{StoreClient: storepb.ServerAsClient(g.st, *uatomic.NewBool(false)), name: "bucket",
				lsets: func() []labels.Labels { return zsetsToLabels(g.st.LabelSet()) }, timeRng: g.st.TimeRange},
		}
		in.srv = store.NewProxyStore(nil, nil, func() []store.Client { return clients }, component.Query, labels.EmptyLabels(), 0, store.EagerRetrieval)
	case in.tsdb != nil:
		in.srv = in.tsdb
	default:
		in.srv = b.gw.st
	}
	return in
}

func (e *env) gen(thorough bool, stage int) iter.Seq[Case] {
	sets := selectorSets(thorough)
	nd, nr := 5, 5
	if thorough {
		nd, nr = len(replicaLists), len(ranges)
	}
	return func(yield func(Case) bool) {
		for _, tp := range e.order {
			grows := len(tp.BucketThen) > 0
			if stage == 1 && !grows {
				continue
			}
			phase := 0
			if stage == 2 && grows {
				phase = 1
			}
			for _, drop := range replicaLists[:nd] {
				for _, ms := range sets {
					for _, rg := range ranges[:nr] {
						if !yield(Case{Topo: tp.Name, Drop: drop, Ms: ms, MinT: rg[0], MaxT: rg[1], Phase: phase}) {
							return
						}
					}
				}
			}
		}
	}
}

// phase is one configuration of a history: the external label sets in force and how the store got there.
type phase struct {
	key     string          // distinguishes the phases of one case
	exts    []labels.Labels // every external label set behind the server now
	first   []labels.Labels // ... in the initial configuration
	desc    string          // how the store got here
	sigTail string          // "" in the initial configuration
}

// eval: stage 1 runs before, stage 2 after the later block sets of the BucketThen topologies were uploaded and synced.
func (e *env) eval(c Case, stage int) {
	b, ok := e.topos[c.Topo]
	if !ok {
		panic("HARNESS-ERROR unknown topology " + c.Topo)
	}
	tp := b.topo
	grows := len(tp.BucketThen) > 0
	if stage == 1 {
		if !grows {
			return
		}
		c.Phase = 0 // also when a phase-1 case is replayed: its requests were made before the change, too
	} else if grows && c.Phase == 0 {
		return // replay of a stage-1 case
	}
	in := b.shared
	if in == nil {
		in = e.instantiate(b)
	}
	var bucketExts, bucketFirst []labels.Labels
	bucketDesc, bucketTail := "", ""
	for _, x := range tp.Bucket {
		bucketExts = append(bucketExts, lbls(x))
		bucketFirst = append(bucketFirst, lbls(x))
	}
	if grows {
		bucketDesc = fmt.Sprintf("; BucketStore synced with block sets %v only", tp.Bucket)
		if stage == 2 {
			for _, x := range tp.BucketThen {
				bucketExts = append(bucketExts, lbls(x))
			}
			bucketDesc = fmt.Sprintf("; BucketStore synced with block sets %v, answered the same requests, then blocks of sets %v were uploaded and SyncBlocks ran again", tp.Bucket, tp.BucketThen)
			bucketTail = "-after-sync-of-another-block-set"
		}
	}
	tsdbDesc := ""
	for i, ext := range tp.tsdbPhases() {
		ph := phase{key: fmt.Sprintf("%d.%d", stage, i), sigTail: bucketTail, desc: bucketDesc}
		if tp.TSDB != nil {
			ph.exts, ph.first = append(ph.exts, lbls(ext)), append(ph.first, lbls(tp.TSDB))
			if len(tp.TSDBThen) > 0 {
				if i == 0 {
					tsdbDesc = fmt.Sprintf("; TSDBStore built with %v", lbls(ext))
				} else {
					in.tsdb.SetExtLset(lbls(ext))
					tsdbDesc += fmt.Sprintf(", answered the same requests, then SetExtLset(%v)", lbls(ext))
					ph.sigTail = "-after-set-ext-lset" + bucketTail
				}
			}
		}
		ph.exts, ph.first = append(ph.exts, bucketExts...), append(ph.first, bucketFirst...)
		ph.desc = tsdbDesc + bucketDesc
		if !e.check(c, b.kind, in.srv, ph) {
			return
		}
	}
}

func hasName(sets []labels.Labels, name string) bool {
	for _, x := range sets {
		if x.Has(name) {
			return true
		}
	}
	return false
}

func hasPair(sets []labels.Labels, name, value string) bool {
	for _, x := range sets {
		if x.Get(name) == value {
			return true
		}
	}
	return false
}

// check makes the Series call and the label calls of case c on srv and compares them; false = a violation was reported.
func (e *env) check(c Case, kind string, srv storepb.StoreServer, ph phase) (held bool) {
	r := e.r
	ctx := context.Background()
	where := fmt.Sprintf("%s (external labels %v%s) selectors %v range [%d,%d] without replica labels %v", c.Topo, ph.exts, ph.desc, c.Ms, c.MinT, c.MaxT, c.Drop)
	defer func() {
		if p := recover(); p != nil {
			r.Violation(kind+"-panics"+ph.sigTail, fmt.Sprintf("%s: the store panicked: %v", where, p), c)
			held = false
		}
	}()
	ss := &seriesServer{ctx: ctx}
	err := srv.Series(&storepb.SeriesRequest{MinTime: c.MinT, MaxTime: c.MaxT, Matchers: pbMatchers(c.Ms), WithoutReplicaLabels: c.Drop,
		PartialResponseStrategy: storepb.PartialResponseStrategy_ABORT}, ss)
	e.calls.Add(1)
	if err != nil {
		e.errs.Add(1) // e.g. "no matchers specified (excluding external labels)": nothing is returned, nothing to cover
		return true
	}
	if len(ss.series) == 0 {
		return true
	}
	e.nonEmpty.Add(1)
	changed := ph.sigTail != ""
	if changed {
		e.changedAnswers.Add(1)
	}
	// label name -> values seen on the returned series
	seen := map[string]map[string]struct{}{}
	for _, s := range ss.series {
		for _, l := range s.Labels {
			if seen[l.Name] == nil {
				seen[l.Name] = map[string]struct{}{}
			}
			seen[l.Name][l.Value] = struct{}{}
		}
	}
	class := func(name string) string {
		isExt := hasName(ph.exts, name)
		stored := false
		for _, d := range [][]SeriesSpec{headData, blockData, blockData2} {
			for _, s := range d {
				if lbls(s.L).Has(name) {
					stored = true
				}
			}
		}
		switch {
		case isExt && stored:
			return "external-label-colliding-with-a-stored-one"
		case isExt:
			return "external-label"
		}
		return "stored-label"
	}
	var names []string
	for n := range seen {
		names = append(names, n)
	}
	sort.Strings(names)

	ln, err := srv.LabelNames(ctx, &storepb.LabelNamesRequest{Start: c.MinT, End: c.MaxT, Matchers: pbMatchers(c.Ms), WithoutReplicaLabels: c.Drop,
		PartialResponseStrategy: storepb.PartialResponseStrategy_ABORT})
	e.calls.Add(1)
	if err != nil {
		r.Violation(kind+"-label-names-fails-where-series-succeeds"+ph.sigTail, fmt.Sprintf("%s: Series returned %d series, LabelNames failed: %v", where, len(ss.series), err), c)
		return false
	}
	got := map[string]struct{}{}
	for _, n := range ln.Names {
		got[n] = struct{}{}
	}
	for _, n := range names {
		e.namesChecked.Add(1)
		if cl := class(n); cl != "stored-label" {
			e.extNames.Add(1)
			if changed && !hasName(ph.first, n) {
				e.newExtNames.Add(1)
			}
		}
		if _, ok := got[n]; !ok {
			r.Violation(fmt.Sprintf("%s-label-names-misses-%s%s", kind, class(n), ph.sigTail),
				fmt.Sprintf("%s: Series shows label %q on its series, LabelNames returned %v", where, n, ln.Names), c)
			return false
		}
	}
	for _, n := range names {
		lv, err := srv.LabelValues(ctx, &storepb.LabelValuesRequest{Label: n, Start: c.MinT, End: c.MaxT, Matchers: pbMatchers(c.Ms), WithoutReplicaLabels: c.Drop,
			PartialResponseStrategy: storepb.PartialResponseStrategy_ABORT})
		e.calls.Add(1)
		if err != nil {
			r.Violation(kind+"-label-values-fails-where-series-succeeds"+ph.sigTail, fmt.Sprintf("%s: LabelValues(%q) failed: %v", where, n, err), c)
			return false
		}
		gv := map[string]struct{}{}
		for _, v := range lv.Values {
			gv[v] = struct{}{}
		}
		var vals []string
		for v := range seen[n] {
			vals = append(vals, v)
		}
		sort.Strings(vals)
		for _, v := range vals {
			e.valuesChecked.Add(1)
			if changed && hasPair(ph.exts, n, v) && !hasPair(ph.first, n, v) {
				e.newExtValues.Add(1)
			}
			if _, ok := gv[v]; !ok {
				r.Violation(fmt.Sprintf("%s-label-values-misses-value-of-%s%s", kind, class(n), ph.sigTail),
					fmt.Sprintf("%s: Series shows %s=%q, LabelValues(%q) returned %v", where, n, v, n, lv.Values), c)
				return false
			}
		}
	}
	if len(c.Drop) > 0 {
		e.withDrop.Add(1)
	}
	r.Nontrivial(fmt.Sprintf("%s|%s|%v|%v|%d|%d", c.Topo, ph.key, c.Drop, c.Ms, c.MinT, c.MaxT))
	return true
}

func appendAll(ctx context.Context, db *tsdb.DB, data []SeriesSpec) error {
	tsSet := map[int64]bool{}
	for _, s := range data {
		for _, ts := range s.T {
			tsSet[ts] = true
		}
	}
	var tss []int64
	for ts := range tsSet {
		tss = append(tss, ts)
	}
	sort.Slice(tss, func(i, j int) bool { return tss[i] < tss[j] })
	for _, ts := range tss {
		app := db.Appender(ctx)
		for _, s := range data {
			for _, st := range s.T {
				if st == ts {
					if _, err := app.Append(0, lbls(s.L), ts, float64(lbls(s.L).Hash()%1000)+float64(ts)/7); err != nil {
						return err
					}
				}
			}
		}
		if err := app.Commit(); err != nil {
			return err
		}
	}
	return nil
}

func TestCheck(t *testing.T) {
	r := vlib.New(t, "C07")
	defer r.Finish()
	r.Rule("14 store topologies with fixed external labels (TSDBStore over a tsdb.DB head with external labels {}, {e=1}, {a=z}, {e=1,r=0}; BucketStore over two adjacent blocks per external set {e=1}, {a=z}, {e=1,r=0}, " +
		"lazy postings off/on, and over two block sets; ProxyStore over TSDBStore+BucketStore as replicas, with colliding external labels and with an unlabelled TSDB) " +
		"+ 20 topologies with a HISTORY of external labels (TSDBStore: every ordered pair of distinct sets of {}, {e=1}, {a=z}, {e=1,r=0} installed with SetExtLset on the running store, value-only changes e=1->e=2 and r=0->r=1, " +
		"a change taken back, two such stores behind the proxy; BucketStore: a second block set {e=2,r=0} / {a=z} uploaded and synced after the store served the first one, alone and behind the proxy) " +
		"x replica-label lists x all sets of <=2 matchers x time ranges; stored label names e, r, a collide with external/replica labels; " +
		"per case and per configuration of the history: Series, LabelNames and one LabelValues per label name seen; non-trivial = distinct (case, configuration) whose Series answer is non-empty")
	r.Assume("oracle: names(Series) subset of LabelNames and values(Series, n) subset of LabelValues(n) for identical matchers, range and WithoutReplicaLabels, all three calls made under the same configuration of the store; nothing is asserted about extra names/values",
		"a Series call that fails (e.g. no matcher besides external ones) returns nothing and is skipped; label calls without any matcher have no equal-selector Series call and are not compared",
		"proxy calls use the ABORT partial response strategy so that a failing store is an error, not a silent omission",
		"the proxy's clients advertise the stores' own current LabelSet()/TimeRange(), as the endpoint set does from the Info API after its next update",
		"configuration changes happen between requests, never during one (no request is in flight when SetExtLset / SyncBlocks runs)")
	ctx := context.Background()
	root := t.TempDir()
	e := &env{r: r, topos: map[string]*built{}, order: allTopologies()}

	opts := tsdb.DefaultOptions()
	opts.MinBlockDuration = 100
	opts.MaxBlockDuration = 100
	opts.RetentionDuration = 0
	db, err := tsdb.Open(filepath.Join(root, "db"), nil, nil, opts, nil)
	if err != nil {
		t.Fatalf("HARNESS-ERROR %v", err)
	}
	db.DisableCompactions()
	defer db.Close()
	if err := appendAll(ctx, db, headData); err != nil {
		t.Fatalf("HARNESS-ERROR %v", err)
	}
	e.db = db

	unis := map[string]*universe{}
	later := map[*universe][]BlockSpec{} // block sets that arrive between stage 1 and stage 2
	for _, tp := range e.order {
		b := &built{topo: tp}
		if tp.Bucket != nil {
			key := fmt.Sprint(tp.Bucket, " then ", tp.BucketThen)
			u, ok := unis[key]
			if !ok {
				var specs []BlockSpec
				for i, x := range tp.Bucket {
					if i == 0 {
						specs = append(specs, BlockSpec{Ext: x, MinT: 0, MaxT: 300, ChunkRange: 100, Series: blockData},
							BlockSpec{Ext: x, MinT: 300, MaxT: 600, ChunkRange: 100, Series: blockData2})
					} else {
						specs = append(specs, BlockSpec{Ext: x, MinT: 0, MaxT: 300, ChunkRange: 100, Series: headData})
					}
				}
				u, err = buildUniverse(ctx, root, fmt.Sprintf("u%d", len(unis)), specs)
				if err != nil {
					t.Fatalf("HARNESS-ERROR %v", err)
				}
				defer u.close()
				unis[key] = u
				for _, x := range tp.BucketThen {
					later[u] = append(later[u], BlockSpec{Ext: x, MinT: 0, MaxT: 300, ChunkRange: 100, Series: headData})
				}
			}
			b.u = u
			b.gw, err = newGateway(ctx, u, Config{Sampling: 32, Lazy: tp.Lazy, Est: 1, Batch: 2, Gap: 1}, nil, filepath.Join(root, "hdr-"+u.name), nil)
			if err != nil {
				t.Fatalf("HARNESS-ERROR %v", err)
			}
			defer b.gw.close()
		}
		switch {
		case tp.Proxy:
			b.kind = "proxy"
		case tp.TSDB != nil:
			b.kind = "tsdb"
		default:
			b.kind = "bucket"
		}
		if len(tp.TSDBThen) == 0 {
			b.shared = e.instantiate(b)
		}
		e.topos[tp.Name] = b
	}

	// stage 1: the stores whose block sets will grow answer every request in their first configuration
	var rc Case
	if r.ReplayCase(&rc) && rc.Phase == 1 {
		// replay of a stage-2 counter-example: the shared store's history before the change is every stage-1 request
		// of that topology (of the tier in use), not only the requests of the replayed case
		for c := range e.gen(r.Thorough(), 1) {
			if c.Topo == rc.Topo {
				e.eval(c, 1)
			}
		}
	} else {
		vlib.ForEach(r, e.gen(r.Thorough(), 1), func(c Case) {
			r.Sample(c)
			e.eval(c, 1)
		})
	}
	// the later block sets arrive; every store over such a bucket syncs again
	for u, specs := range later {
		for _, sp := range specs {
			if err := u.add(ctx, root, sp); err != nil {
				t.Fatalf("HARNESS-ERROR %v", err)
			}
		}
	}
	for _, tp := range e.order {
		if b := e.topos[tp.Name]; len(tp.BucketThen) > 0 {
			if err := b.gw.st.SyncBlocks(ctx); err != nil {
				t.Fatalf("HARNESS-ERROR SyncBlocks after upload: %v", err)
			}
		}
	}
	// stage 2: every topology (the grown ones in their second configuration)
	vlib.ForEach(r, e.gen(r.Thorough(), 2), func(c Case) {
		r.Sample(c)
		e.eval(c, 2)
	})
	r.Set("store_calls", e.calls.Load())
	r.Set("series_calls_with_an_answer", e.nonEmpty.Load())
	r.Set("series_calls_failed", e.errs.Load())
	r.Set("label_names_checked", e.namesChecked.Load())
	r.Set("label_values_checked", e.valuesChecked.Load())
	r.Set("external_label_names_checked", e.extNames.Load())
	r.Set("answers_with_replica_labels_dropped", e.withDrop.Load())
	r.Set("answers_after_a_change_of_external_labels", e.changedAnswers.Load())
	r.Set("external_label_names_checked_that_the_first_configuration_did_not_have", e.newExtNames.Load())
	r.Set("external_label_values_checked_that_the_first_configuration_did_not_have", e.newExtValues.Load())
	if !r.Replaying() && (e.nonEmpty.Load() == 0 || e.extNames.Load() == 0 || e.withDrop.Load() == 0 ||
		e.changedAnswers.Load() == 0 || e.newExtNames.Load() == 0 || e.newExtValues.Load() == 0) {
		r.Cap("a class of cases was never observed (see counters)")
	}
}
