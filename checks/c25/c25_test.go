//go:build verif

// C25: encoding a (multi-tenant) write request for Cap'n Proto replication and decoding it on the peer yields,
// per tenant, the same series: labels, float samples, native histograms, exemplars.
//
// Engine E4: every request over small component alphabets (label lists, sample lists, histogram lists, exemplar
// lists, tenant names) is encoded exactly like writecapnp.RemoteWriteClient does (BuildInto per tenant with one
// shared symbol builder, marshalSymbols), serialised, parsed again and read like CapNProtoHandler/CapNProtoWriter
// do (NewRequest / NewSingleTenantRequest, Next, At into ONE reused Series).
package c25

import (
	"fmt"
	"iter"
	"math"
	"strings"
	"testing"

	"capnproto.org/go/capnp/v3"
	"github.com/prometheus/prometheus/model/histogram"
	"github.com/prometheus/prometheus/model/labels"

	"github.com/thanos-io/thanos/pkg/receive/writecapnp"
	"github.com/thanos-io/thanos/pkg/store/labelpb"
	"github.com/thanos-io/thanos/pkg/store/storepb/prompb"
	"github.com/thanos-io/thanos/pkg/symboltable"

	"verif/vlib"
)

// ---- component alphabets ----

var long300 = strings.Repeat("L", 300)

func manyLabels() []labelpb.ZLabel {
	var out []labelpb.ZLabel
	for i := 0; i < 300; i++ { // > 256 symbols: leaves the smallest bucket of the decoder's symbol pool
		out = append(out, labelpb.ZLabel{Name: fmt.Sprintf("n%03d", i), Value: fmt.Sprintf("v%03d", i)})
	}
	return out
}

var labelKinds = [][]labelpb.ZLabel{
	0: {},
	1: {{Name: "a", Value: "b"}},
	2: {{Name: "", Value: ""}},                                  // empty symbol
	3: {{Name: "shared", Value: "shared"}},                      // one symbol used twice
	4: {{Name: "__name__", Value: "m"}, {Name: "a", Value: ""}}, // empty symbol after non-empty ones
	5: {{Name: "é✓", Value: "\xff\x00z"}},                       // multi-byte and non UTF-8 bytes
	6: {{Name: "long", Value: long300}},
	7: {{Name: "z", Value: "1"}, {Name: "a", Value: "2"}, {Name: "a", Value: "3"}}, // unsorted, duplicate name: order must be kept
	8: {{Name: "a", Value: "a"}, {Name: "b", Value: "a"}, {Name: "shared", Value: "b"}},
	9: manyLabels(),
}

var staleNaN = math.Float64frombits(0x7ff0000000000002)

var sampleKinds = [][]prompb.Sample{
	0: {},
	1: {{Timestamp: 1, Value: 1.5}},
	2: {{Timestamp: 0, Value: 0}, {Timestamp: math.MaxInt64, Value: math.Copysign(0, -1)}},
	3: {{Timestamp: math.MinInt64, Value: math.NaN()}, {Timestamp: -1, Value: staleNaN}},
	4: {{Timestamp: 7, Value: math.Inf(1)}, {Timestamp: 8, Value: math.Inf(-1)}, {Timestamp: 9, Value: math.MaxFloat64}},
}

func intHist(ts int64) prompb.Histogram {
	return prompb.Histogram{
		Count: &prompb.Histogram_CountInt{CountInt: 12}, Sum: 18.4, Schema: 1, ZeroThreshold: 0.001,
		ZeroCount:     &prompb.Histogram_ZeroCountInt{ZeroCountInt: 2},
		NegativeSpans: []prompb.BucketSpan{{Offset: 0, Length: 2}, {Offset: 1, Length: 2}}, NegativeDeltas: []int64{1, 1, -1, 0},
		PositiveSpans: []prompb.BucketSpan{{Offset: -3, Length: 1}}, PositiveDeltas: []int64{math.MinInt64},
		ResetHint: prompb.Histogram_NO, Timestamp: ts,
	}
}

func floatHist(ts int64) prompb.Histogram {
	return prompb.Histogram{
		Count: &prompb.Histogram_CountFloat{CountFloat: 12.5}, Sum: math.Inf(-1), Schema: -4, ZeroThreshold: math.SmallestNonzeroFloat64,
		ZeroCount:     &prompb.Histogram_ZeroCountFloat{ZeroCountFloat: staleNaN},
		NegativeSpans: []prompb.BucketSpan{{Offset: math.MinInt32, Length: math.MaxUint32}}, NegativeCounts: []float64{0.5, math.Copysign(0, -1)},
		PositiveSpans: []prompb.BucketSpan{{Offset: 0, Length: 1}, {Offset: math.MaxInt32, Length: 0}}, PositiveCounts: []float64{math.NaN()},
		ResetHint: prompb.Histogram_GAUGE, Timestamp: ts,
	}
}

var histKinds = [][]prompb.Histogram{
	0: {},
	1: {intHist(5)},
	2: {floatHist(math.MaxInt64)},
	3: {{Count: &prompb.Histogram_CountInt{CountInt: math.MaxUint64}, ZeroCount: &prompb.Histogram_ZeroCountInt{ZeroCountInt: math.MaxUint64},
		Sum: math.Copysign(0, -1), Schema: math.MinInt32, ResetHint: prompb.Histogram_YES, Timestamp: math.MinInt64}}, // no spans, no buckets
	4: {{Count: &prompb.Histogram_CountFloat{CountFloat: 0}, ZeroCount: &prompb.Histogram_ZeroCountFloat{ZeroCountFloat: 0}, Schema: 8}}, // float histogram, everything zero
	// 5: nothing set at all (decodes as the zero integer histogram on the protobuf path)
	5: {{}},
	6: {intHist(1), floatHist(2)},
	7: {floatHist(3), intHist(4)},
	8: {{Count: &prompb.Histogram_CountInt{CountInt: 3}, ZeroCount: &prompb.Histogram_ZeroCountInt{ZeroCountInt: 0}, Sum: 6, Schema: histogram.CustomBucketsSchema,
		PositiveSpans: []prompb.BucketSpan{{Offset: 0, Length: 2}}, PositiveDeltas: []int64{1, 1}, CustomValues: []float64{0.5, 10}, Timestamp: 9}}, // custom-bucket native histogram (NHCB)
	9: {{Count: &prompb.Histogram_CountFloat{CountFloat: 3}, ZeroCount: &prompb.Histogram_ZeroCountFloat{ZeroCountFloat: 0}, Sum: 6, Schema: histogram.CustomBucketsSchema,
		PositiveSpans: []prompb.BucketSpan{{Offset: 0, Length: 2}}, PositiveCounts: []float64{1, 2}, CustomValues: []float64{0.5, math.Inf(1)}, Timestamp: 9}},
}

var exemplarKinds = [][]prompb.Exemplar{
	0: {},
	1: {{Value: 1, Timestamp: 2}}, // no labels
	2: {{Labels: []labelpb.ZLabel{{Name: "trace_id", Value: "abc"}}, Value: math.NaN(), Timestamp: math.MaxInt64}},
	3: {{Labels: []labelpb.ZLabel{{Name: "a", Value: "shared"}, {Name: "", Value: ""}}, Value: math.Copysign(0, -1), Timestamp: -1}}, // symbols shared with series labels
	4: {{Labels: []labelpb.ZLabel{{Name: "x", Value: "y"}}, Value: 1, Timestamp: 1}, {Labels: []labelpb.ZLabel{{Name: "y", Value: "x"}, {Name: "b", Value: "a"}}, Value: staleNaN, Timestamp: math.MinInt64}},
}

var tenantNames = []string{"a", "b", "", "tenant-é", "a"} // index 4 repeats "a": two tuples for the same tenant

// ---- cases ----

type SeriesK struct {
	L int `json:"l"`
	S int `json:"s"`
	H int `json:"h"`
	E int `json:"e"`
}

type TenantK struct {
	Name   int       `json:"name"`
	Series []SeriesK `json:"series"`
}

const (
	modeMulti   = 0 // RemoteWriteClient multi-tenant path: BuildInto per tenant + marshalSymbols, NewRequest
	modeMarshal = 1 // writecapnp.Marshal (Build): one tenant
	modePacked  = 2 // writecapnp.MarshalPacked: one tenant
	modeSingle  = 3 // deprecated single-tenant layout: BuildIntoSingleTenantWriteRequest, NewSingleTenantRequest
)

type Case struct {
	Mode    int       `json:"mode"`
	Tenants []TenantK `json:"tenants"`
}

func allSeriesKinds(nl, ns, nh, ne []int) []SeriesK {
	var out []SeriesK
	for _, l := range nl {
		for _, s := range ns {
			for _, h := range nh {
				for _, e := range ne {
					out = append(out, SeriesK{l, s, h, e})
				}
			}
		}
	}
	return out
}

func rng(n int) []int {
	out := make([]int, n)
	for i := range out {
		out[i] = i
	}
	return out
}

func gen(r *vlib.R) iter.Seq[Case] {
	return func(yield func(Case) bool) {
		full := allSeriesKinds(rng(len(labelKinds)), rng(len(sampleKinds)), rng(len(histKinds)), rng(len(exemplarKinds)))
		// F1: one tenant, one series: full cross product of the component alphabets, every encoding path.
		for mode := 0; mode < 4; mode++ {
			for _, k := range full {
				if !yield(Case{Mode: mode, Tenants: []TenantK{{Name: 0, Series: []SeriesK{k}}}}) {
					return
				}
			}
			for name := range tenantNames {
				for _, n := range []int{0, 1} {
					c := Case{Mode: mode, Tenants: []TenantK{{Name: name, Series: make([]SeriesK, n)}}}
					if !yield(c) {
						return
					}
				}
			}
		}
		// F2: one tenant, two series (symbol sharing between series; the decoder reuses one Series value):
		// every ordered pair that differs in one component, the others fixed ...
		base := SeriesK{1, 1, 1, 2}
		for comp := 0; comp < 4; comp++ {
			n := []int{len(labelKinds), len(sampleKinds), len(histKinds), len(exemplarKinds)}[comp]
			for i := 0; i < n; i++ {
				for j := 0; j < n; j++ {
					a, b := base, base
					switch comp {
					case 0:
						a.L, b.L = i, j
					case 1:
						a.S, b.S = i, j
					case 2:
						a.H, b.H = i, j
					case 3:
						a.E, b.E = i, j
					}
					for _, mode := range []int{modeMulti, modeSingle} {
						if !yield(Case{Mode: mode, Tenants: []TenantK{{Name: 0, Series: []SeriesK{a, b}}}}) {
							return
						}
					}
				}
			}
		}
		// ... and every ordered pair (thorough: triple) over a reduced cross product.
		red := allSeriesKinds([]int{0, 3, 8}, []int{0, 2}, []int{0, 6, 8}, []int{0, 3, 4})
		if r.Thorough() {
			red = allSeriesKinds([]int{0, 2, 3, 7, 8}, []int{0, 1, 3}, []int{0, 1, 2, 6, 7, 8}, []int{0, 1, 3, 4})
		}
		for _, a := range red {
			for _, b := range red {
				if !yield(Case{Mode: modeMulti, Tenants: []TenantK{{Name: 0, Series: []SeriesK{a, b}}}}) {
					return
				}
			}
		}
		// F3: two and three tenants sharing one symbol table, 0..2 series each.
		small := []SeriesK{{1, 1, 0, 0}, {3, 0, 1, 3}, {8, 2, 2, 4}, {0, 0, 0, 0}, {2, 3, 8, 1}, {7, 4, 6, 2}}
		var lists [][]SeriesK
		lists = append(lists, nil)
		for _, a := range small {
			lists = append(lists, []SeriesK{a})
		}
		for _, a := range small {
			for _, b := range small {
				lists = append(lists, []SeriesK{a, b})
			}
		}
		for _, names := range [][2]int{{0, 1}, {0, 4}, {2, 3}} {
			for _, la := range lists {
				for _, lb := range lists {
					if !yield(Case{Mode: modeMulti, Tenants: []TenantK{{Name: names[0], Series: la}, {Name: names[1], Series: lb}}}) {
						return
					}
				}
			}
		}
		for _, la := range lists[:7] {
			for _, lb := range lists[:7] {
				for _, lc := range lists[:7] {
					if !yield(Case{Mode: modeMulti, Tenants: []TenantK{{Name: 0, Series: la}, {Name: 1, Series: lb}, {Name: 3, Series: lc}}}) {
						return
					}
				}
			}
		}
	}
}

// ---- encode / decode exactly like the product ----

type tenantData struct {
	tenant string
	series []prompb.TimeSeries
}

func build(c Case) []tenantData {
	var out []tenantData
	for _, t := range c.Tenants {
		td := tenantData{tenant: tenantNames[t.Name]}
		for _, k := range t.Series {
			td.series = append(td.series, prompb.TimeSeries{
				Labels:     labelKinds[k.L],
				Samples:    sampleKinds[k.S],
				Histograms: histKinds[k.H],
				Exemplars:  exemplarKinds[k.E],
			})
		}
		out = append(out, td)
	}
	return out
}

func encode(mode int, in []tenantData) ([]byte, error) {
	switch mode {
	case modeMarshal:
		return writecapnp.Marshal(in[0].tenant, in[0].series)
	case modePacked:
		return writecapnp.MarshalPacked(in[0].tenant, in[0].series)
	}
	_, seg, err := capnp.NewMessage(capnp.SingleSegment(nil))
	if err != nil {
		return nil, err
	}
	wr, err := writecapnp.NewRootWriteRequest(seg)
	if err != nil {
		return nil, err
	}
	if mode == modeSingle {
		if err := writecapnp.BuildIntoSingleTenantWriteRequest(wr, in[0].tenant, in[0].series); err != nil {
			return nil, err
		}
		return wr.Message().Marshal()
	}
	// client.go, writeWithReconnect, multi-tenant branch
	sym, err := wr.NewSymbols()
	if err != nil {
		return nil, err
	}
	tl, err := writecapnp.NewTimeSeriesTenantTuple_List(wr.Segment(), int32(len(in)))
	if err != nil {
		return nil, err
	}
	builder := symboltable.NewBuilder()
	for i, d := range in {
		ttl := tl.At(i)
		if err := writecapnp.BuildInto(&ttl, d.tenant, d.series, builder); err != nil {
			return nil, err
		}
	}
	if err := writecapnp.VerifMarshalSymbols(builder, sym); err != nil {
		return nil, err
	}
	if err := wr.SetData(tl); err != nil {
		return nil, err
	}
	return wr.Message().Marshal()
}

type decSeries struct {
	labels [][2]string
	s      writecapnp.Series // deep copy (labels field unused)
}

type decTenant struct {
	tenant string
	series []decSeries
}

func copyOut(s *writecapnp.Series) decSeries {
	var d decSeries
	s.Labels.Range(func(l labels.Label) {
		d.labels = append(d.labels, [2]string{strings.Clone(l.Name), strings.Clone(l.Value)})
	})
	d.s.Samples = append([]writecapnp.FloatSample(nil), s.Samples...)
	for _, h := range s.Histograms {
		c := writecapnp.HistogramSample{Timestamp: h.Timestamp}
		if h.Histogram != nil {
			c.Histogram = h.Histogram.Copy()
		}
		if h.FloatHistogram != nil {
			c.FloatHistogram = h.FloatHistogram.Copy()
		}
		d.s.Histograms = append(d.s.Histograms, c)
	}
	for _, e := range s.Exemplars {
		c := e
		var ls [][2]string
		e.Labels.Range(func(l labels.Label) { ls = append(ls, [2]string{strings.Clone(l.Name), strings.Clone(l.Value)}) })
		b := labels.NewScratchBuilder(len(ls))
		for _, l := range ls {
			b.Add(l[0], l[1])
		}
		c.Labels = b.Labels()
		d.s.Exemplars = append(d.s.Exemplars, c)
	}
	return d
}

func readAll(req *writecapnp.Request) ([]decSeries, error) {
	var (
		out    []decSeries
		series writecapnp.Series // reused for every At, like CapNProtoWriter.Write
	)
	for req.Next() {
		if err := req.At(&series); err != nil {
			return nil, err
		}
		out = append(out, copyOut(&series))
	}
	return out, req.Close()
}

func decode(mode int, b []byte) (out []decTenant, err error) {
	defer func() {
		if p := recover(); p != nil {
			err = fmt.Errorf("panic: %v", p)
		}
	}()
	var msg *capnp.Message
	if mode == modePacked {
		msg, err = capnp.UnmarshalPacked(b)
	} else {
		msg, err = capnp.Unmarshal(b)
	}
	if err != nil {
		return nil, err
	}
	wr, err := writecapnp.ReadRootWriteRequest(msg)
	if err != nil {
		return nil, err
	}
	// capnp_server.go, CapNProtoHandler.Write
	if wr.HasTimeSeries() {
		t, err := wr.Tenant()
		if err != nil {
			return nil, err
		}
		req, err := writecapnp.NewSingleTenantRequest(wr, t)
		if err != nil {
			return nil, err
		}
		ss, err := readAll(req)
		if err != nil {
			return nil, err
		}
		return []decTenant{{tenant: t, series: ss}}, nil
	}
	data, err := wr.Data()
	if err != nil {
		return nil, err
	}
	symTable, err := wr.Symbols()
	if err != nil {
		return nil, err
	}
	for i := 0; i < data.Len(); i++ {
		d := data.At(i)
		tenant, err := d.Tenant()
		if err != nil {
			return nil, err
		}
		req, err := writecapnp.NewRequest(d, symTable, tenant)
		if err != nil {
			return nil, err
		}
		ss, err := readAll(req)
		if err != nil {
			return nil, err
		}
		out = append(out, decTenant{tenant: tenant, series: ss})
	}
	return out, nil
}

// ---- comparison (bitwise on floats) ----

func feq(a, b float64) bool { return math.Float64bits(a) == math.Float64bits(b) }

func fseq(a, b []float64) bool {
	if len(a) != len(b) {
		return false
	}
	for i := range a {
		if !feq(a[i], b[i]) {
			return false
		}
	}
	return true
}

func iseq(a, b []int64) bool {
	if len(a) != len(b) {
		return false
	}
	for i := range a {
		if a[i] != b[i] {
			return false
		}
	}
	return true
}

func spaneq(a, b []histogram.Span) bool {
	if len(a) != len(b) {
		return false
	}
	for i := range a {
		if a[i] != b[i] {
			return false
		}
	}
	return true
}

// histDiff names the first field in which the decoded histogram differs from what the protobuf path would ingest.
func histDiff(in prompb.Histogram, got writecapnp.HistogramSample) string {
	if got.Timestamp != in.Timestamp {
		return "timestamp"
	}
	if in.IsFloatHistogram() {
		want := prompb.FloatHistogramProtoToFloatHistogram(in)
		g := got.FloatHistogram
		switch {
		case g == nil || got.Histogram != nil:
			return "kind (float expected)"
		case g.CounterResetHint != want.CounterResetHint:
			return "reset-hint"
		case g.Schema != want.Schema:
			return "schema"
		case !feq(g.ZeroThreshold, want.ZeroThreshold):
			return "zero-threshold"
		case !feq(g.ZeroCount, want.ZeroCount):
			return "zero-count"
		case !feq(g.Count, want.Count):
			return "count"
		case !feq(g.Sum, want.Sum):
			return "sum"
		case !spaneq(g.PositiveSpans, want.PositiveSpans):
			return "positive-spans"
		case !spaneq(g.NegativeSpans, want.NegativeSpans):
			return "negative-spans"
		case !fseq(g.PositiveBuckets, want.PositiveBuckets):
			return "positive-buckets"
		case !fseq(g.NegativeBuckets, want.NegativeBuckets):
			return "negative-buckets"
		case !fseq(g.CustomValues, want.CustomValues):
			return "custom-values"
		}
		return ""
	}
	want := prompb.HistogramProtoToHistogram(in)
	g := got.Histogram
	switch {
	case g == nil || got.FloatHistogram != nil:
		return "kind (integer expected)"
	case g.CounterResetHint != want.CounterResetHint:
		return "reset-hint"
	case g.Schema != want.Schema:
		return "schema"
	case !feq(g.ZeroThreshold, want.ZeroThreshold):
		return "zero-threshold"
	case g.ZeroCount != want.ZeroCount:
		return "zero-count"
	case g.Count != want.Count:
		return "count"
	case !feq(g.Sum, want.Sum):
		return "sum"
	case !spaneq(g.PositiveSpans, want.PositiveSpans):
		return "positive-spans"
	case !spaneq(g.NegativeSpans, want.NegativeSpans):
		return "negative-spans"
	case !iseq(g.PositiveBuckets, want.PositiveBuckets):
		return "positive-buckets"
	case !iseq(g.NegativeBuckets, want.NegativeBuckets):
		return "negative-buckets"
	case !fseq(g.CustomValues, want.CustomValues):
		return "custom-values"
	}
	return ""
}

func labelsEq(in []labelpb.ZLabel, got [][2]string) bool {
	if len(in) != len(got) {
		return false
	}
	for i := range in {
		if in[i].Name != got[i][0] || in[i].Value != got[i][1] {
			return false
		}
	}
	return true
}

// seriesDiff returns (signature, description) of the first difference, or "".
func seriesDiff(in prompb.TimeSeries, got decSeries) (string, string) {
	if !labelsEq(in.Labels, got.labels) {
		return "series-labels-changed", fmt.Sprintf("labels %q decoded as %q", fmt.Sprint(in.Labels), fmt.Sprint(got.labels))
	}
	if len(in.Samples) != len(got.s.Samples) {
		return "sample-count-changed", fmt.Sprintf("%d samples decoded as %d", len(in.Samples), len(got.s.Samples))
	}
	for i, s := range in.Samples {
		g := got.s.Samples[i]
		if s.Timestamp != g.Timestamp || !feq(s.Value, g.Value) {
			return "sample-changed", fmt.Sprintf("sample %d (%d, %x) decoded as (%d, %x)", i, s.Timestamp, math.Float64bits(s.Value), g.Timestamp, math.Float64bits(g.Value))
		}
	}
	if len(in.Histograms) != len(got.s.Histograms) {
		return "histogram-count-changed", fmt.Sprintf("%d histograms decoded as %d", len(in.Histograms), len(got.s.Histograms))
	}
	for i, h := range in.Histograms {
		if d := histDiff(h, got.s.Histograms[i]); d != "" {
			sig := "histogram-field-changed"
			if d == "custom-values" {
				sig = "histogram-custom-values-lost"
			}
			dec := "nothing"
			if g := got.s.Histograms[i]; g.Histogram != nil {
				dec = fmt.Sprintf("integer histogram %+v", *g.Histogram) // the value has no String method (it would panic on missing custom bounds)
			} else if g.FloatHistogram != nil {
				dec = fmt.Sprintf("float histogram %+v", *g.FloatHistogram)
			}
			return sig, fmt.Sprintf("histogram %d differs in %s: sent %+v, decoded %s", i, d, h, dec)
		}
	}
	if len(in.Exemplars) != len(got.s.Exemplars) {
		return "exemplar-count-changed", fmt.Sprintf("%d exemplars decoded as %d", len(in.Exemplars), len(got.s.Exemplars))
	}
	for i, e := range in.Exemplars {
		g := got.s.Exemplars[i]
		var gl [][2]string
		g.Labels.Range(func(l labels.Label) { gl = append(gl, [2]string{l.Name, l.Value}) })
		if !labelsEq(e.Labels, gl) {
			return "exemplar-labels-changed", fmt.Sprintf("exemplar %d labels %q decoded as %q", i, fmt.Sprint(e.Labels), fmt.Sprint(gl))
		}
		if e.Timestamp != g.Ts || !feq(e.Value, g.Value) {
			return "exemplar-changed", fmt.Sprintf("exemplar %d (%d, %x) decoded as (%d, %x)", i, e.Timestamp, math.Float64bits(e.Value), g.Ts, math.Float64bits(g.Value))
		}
	}
	return "", ""
}

func TestCheck(t *testing.T) {
	r := vlib.New(t, "C25")
	defer r.Finish()
	r.Rule(fmt.Sprintf("requests built from %d label lists x %d sample lists x %d histogram lists x %d exemplar lists (boundary values, shared/empty/non-UTF-8/300-byte symbols, "+
		">256 symbols, int/float/unset/custom-bucket histograms); 1 tenant x 1 series: full cross product on 4 encoding paths; 1 tenant x 2 series: all pairs per component + all pairs "+
		"of a reduced cross product; 2-3 tenants x 0..2 series sharing one symbol table; non-trivial = distinct case with >= 2 series in total (symbol table and decoder state shared between series)",
		len(labelKinds), len(sampleKinds), len(histKinds), len(exemplarKinds)))
	r.Assume("reference for a histogram = what the protobuf replication path ingests (prompb.HistogramProtoToHistogram / FloatHistogramProtoToFloatHistogram); floats compared bitwise; nil and empty lists are the same",
		"label order is part of the series (the slicelabels build keeps wire order)",
		"histograms whose count and zero-count kinds disagree (malformed oneof combination) are outside the enumerated space; probed once and reported as a note")
	vlib.ForEach(r, gen(r), func(c Case) {
		r.Sample(c)
		in := build(c)
		nser := 0
		for _, td := range in {
			nser += len(td.series)
		}
		if nser >= 2 {
			r.Nontrivial(fmt.Sprint(c))
		}
		b, err := encode(c.Mode, in)
		if err != nil {
			r.Violation("encode-error", err.Error(), c)
			return
		}
		got, err := decode(c.Mode, b)
		if err != nil {
			r.Violation("decode-error", err.Error(), c)
			return
		}
		if len(got) != len(in) {
			r.Violation("tenant-count-changed", fmt.Sprintf("%d tenant tuples decoded as %d", len(in), len(got)), c)
			return
		}
		for i := range in {
			if got[i].tenant != in[i].tenant {
				r.Violation("tenant-name-changed", fmt.Sprintf("tenant %q decoded as %q", in[i].tenant, got[i].tenant), c)
				return
			}
			if len(got[i].series) != len(in[i].series) {
				r.Violation("series-count-changed", fmt.Sprintf("tenant %q: %d series decoded as %d", in[i].tenant, len(in[i].series), len(got[i].series)), c)
				return
			}
			for j := range in[i].series {
				if sig, d := seriesDiff(in[i].series[j], got[i].series[j]); sig != "" {
					r.Violation(sig, fmt.Sprintf("tenant %q series %d: %s", in[i].tenant, j, d), c)
					return
				}
			}
		}
	})
	if !r.Replaying() {
		// outside the statement: malformed histogram with integer count but float zero-count
		h := intHist(1)
		h.ZeroCount = &prompb.Histogram_ZeroCountFloat{ZeroCountFloat: 1}
		b, err := encode(modeMulti, []tenantData{{tenant: "a", series: []prompb.TimeSeries{{Labels: labelKinds[1], Histograms: []prompb.Histogram{h}}}}})
		if err == nil {
			if _, err = decode(modeMulti, b); err != nil {
				r.Note("not asserted (malformed input): a histogram with integer count and float zero-count makes Request.At fail with %q on the receiving peer; the protobuf path ingests it with zero-count 0", err.Error())
			}
		}
	}
}
