//go:build verif

// C23: HTTP status of a failed replicated write: 409 only if conflicts alone make quorum impossible, 503 while a
// retry can still succeed, never 500 for failures made of conflicts and unavailable replicas, same for every
// order of replica replies.
//
// Engine E4 on the real Handler through its HTTP entry point (rig of C22: ../c22/rig): one series, RF 1..6,
// every per-replica outcome vector over {ok, conflict, unavailable, peer-in-back-off} x every arrival order.
package c23

import (
	"fmt"
	"iter"
	"sort"
	"testing"

	"verif/checks/c22/rig"
	"verif/vlib"
)

// Case: either one per-replica outcome vector (all arrival orders are run), or one multiset of outcomes (all
// distinct arrival sequences are run; replicas are interchangeable when the handler is not a ring member).
type Case struct {
	RF     int   `json:"rf"`
	Local  int   `json:"local"`            // -1: handler outside the ring; 0: handler is replica 0 of the series
	Vector []int `json:"vector,omitempty"` // outcome of replica i (rig.OK, rig.Conflict, rig.Unavailable, rig.Backoff)
	Counts []int `json:"counts,omitempty"` // multiset: number of ok, conflict, unavailable, back-off replicas
}

var symbols = []int{rig.OK, rig.Conflict, rig.Unavailable, rig.Backoff}

func refQuorum(rf int) int {
	if rf == 2 {
		return 1 // documented exception (Handler.writeQuorum)
	}
	return rf/2 + 1
}

func gen(r *vlib.R) iter.Seq[Case] {
	return func(yield func(Case) bool) {
		maxVec := vlib.Pick(r, 5, 6)
		for rf := 1; rf <= maxVec; rf++ {
			for _, local := range []int{-1, 0} {
				nsym := 4
				if rf == 6 {
					nsym = 3 // no back-off symbol at RF 6 (budget)
				}
				for v := range vlib.Tuples(rf, nsym) {
					vec := make([]int, rf)
					for i, x := range v {
						vec[i] = symbols[x]
					}
					if local == 0 && vec[0] == rig.Backoff {
						continue // the handler never puts itself into back-off
					}
					if !yield(Case{RF: rf, Local: local, Vector: vec}) {
						return
					}
				}
			}
		}
		if !r.Thorough() {
			// RF 6, handler outside the ring: replicas are interchangeable, so every multiset x every order =
			// every distinct arrival sequence.
			for cnt := range vlib.Tuples(4, 7) {
				if cnt[0]+cnt[1]+cnt[2]+cnt[3] != 6 {
					continue
				}
				if !yield(Case{RF: 6, Local: -1, Counts: cnt}) {
					return
				}
			}
		}
	}
}

// arrangements lists the distinct sequences having the given symbol counts.
func arrangements(counts []int) [][]int {
	n := 0
	for _, c := range counts {
		n += c
	}
	var out [][]int
	cur := make([]int, 0, n)
	left := append([]int(nil), counts...)
	var rec func()
	rec = func() {
		if len(cur) == n {
			out = append(out, append([]int(nil), cur...))
			return
		}
		for s := range left {
			if left[s] > 0 {
				left[s]--
				cur = append(cur, symbols[s])
				rec()
				cur = cur[:len(cur)-1]
				left[s]++
			}
		}
	}
	rec()
	return out
}

type obs struct {
	status int
	plan   rig.Plan
}

func TestCheck(t *testing.T) {
	r := vlib.New(t, "C23")
	defer r.Finish()
	r.Rule("one series, RF 1..5 (thorough: 1..6), handler outside the ring and handler = replica 0: every outcome vector over " +
		"{ok, conflict, unavailable, peer in back-off} per replica x every arrival order (a case = one vector, all its orders); quick tier RF 6: every " +
		"multiset x every distinct arrival sequence; non-trivial = distinct case whose request fails with at least one conflict and one unavailable replica")
	r.Assume("write quorum q = floor(RF/2)+1, 1 for RF 2; conflicts are permanent, unavailable replicas may succeed on a retry: a retry can still reach quorum iff conflicts <= RF-q",
		"conflict = gRPC AlreadyExists from a peer / storage.ErrOutOfOrderSample from the local TSDB; unavailable = gRPC Unavailable from a peer / "+
			"tsdb.ErrNotReady locally / peer in back-off (errUnavailable from getConnection, always the first reply)",
		"when conflicts alone make quorum impossible both 409 and 503 are accepted (the statement only says '409 only if'); such 503 are counted in extra",
		"arrival order = release order of the stubs under testing/synctest (see checks/c22/rig)")
	vlib.ForEach(r, gen(r), func(c Case) {
		r.Sample(c)
		var vectors [][]int
		allOrders := c.Vector != nil
		if allOrders {
			vectors = [][]int{c.Vector}
		} else {
			vectors = arrangements(c.Counts)
		}
		q := refQuorum(c.RF)
		f := c.RF - q + 1 // failures that make quorum impossible
		var seen []obs
		runs := int64(0)
		for _, vec := range vectors {
			nOK, nC, nU := 0, 0, 0
			var live []int
			for i, o := range vec {
				switch o {
				case rig.OK:
					nOK++
				case rig.Conflict:
					nC++
				default:
					nU++
				}
				if o != rig.Backoff {
					live = append(live, i)
				}
			}
			for perm := range vlib.Perms(len(live)) {
				if r.Expired("orders of a case") {
					return
				}
				order := make([]int, len(live))
				for i, p := range perm {
					order[i] = live[p]
				}
				plan := rig.Plan{Top: rig.Topology{RF: c.RF, Nodes: c.RF, Local: c.Local}, Homes: []int{0}, Outcomes: vec, Order: order}
				tr := rig.Run(t, plan)
				runs++
				if tr.HarnessErr != "" {
					t.Errorf("HARNESS-ERROR %s plan=%+v", tr.HarnessErr, plan)
					return
				}
				st := tr.Resp.Status
				if tr.Resp.Panic != "" {
					st = -1
				}
				r.Outcome(fmt.Sprintf("rf=%d ok=%d conflict=%d unavailable=%d -> %d", c.RF, nOK, nC, nU, st))
				seen = append(seen, obs{st, plan})
				class := "rf-odd"
				if c.RF%2 == 0 {
					class = "rf-even"
				}
				desc := func(what string) string {
					return fmt.Sprintf("%s: RF %d (quorum %d, %d conflicts make quorum impossible), replica outcomes %v arriving in order %v -> HTTP %d %q",
						what, c.RF, q, f, names(vec), order, st, trim(tr.Resp.Body))
				}
				switch {
				case st == -1:
					r.Violation("request-handling-panicked", desc("panic "+tr.Resp.Panic), c)
				case st >= 200 && st < 300:
					// acknowledged: C22's business
				case st == 500:
					r.Violation("500-for-failure-made-of-conflicts-and-unavailable-"+class, desc("internal server error for a write that failed only because of conflicts/unavailable replicas"), c)
				case st == 409 && nC < f:
					r.Violation("409-although-a-retry-can-reach-quorum-"+class, desc("conflict status although only "+fmt.Sprint(nC)+" replica(s) conflicted"), c)
				case nC < f && st != 503:
					r.Violation("retryable-failure-not-reported-as-503-"+class, desc("retryable failure"), c)
				case nC >= f && st != 409 && st != 503:
					r.Add("permanent_failure_reported_as_other_status", 1) // not covered by the statement: reported only
				case nC >= f && st == 503:
					r.Add("permanent_conflict_failure_reported_as_503", 1)
				}
				if (st < 200 || st >= 300) && nC > 0 && nU > 0 {
					r.Nontrivial(fmt.Sprint(c))
				}
				if !allOrders {
					break // multiset mode: the arrangement itself (identity order) is the arrival sequence
				}
			}
		}
		r.AddTraces(runs)
		r.AddStates(runs)
		r.AddTransitions(runs)
		// order independence
		byStatus := map[int]obs{}
		for _, o := range seen {
			if _, ok := byStatus[o.status]; !ok {
				byStatus[o.status] = o
			}
		}
		if len(byStatus) > 1 {
			var sts []int
			for s := range byStatus {
				sts = append(sts, s)
			}
			sort.Ints(sts)
			d := fmt.Sprintf("RF %d: the same replica outcomes give different statuses depending on arrival order:", c.RF)
			for _, s := range sts {
				o := byStatus[s]
				d += fmt.Sprintf(" [%d for outcomes %v order %v]", s, names(o.plan.Outcomes), o.plan.Order)
			}
			class := "rf-odd"
			if c.RF%2 == 0 {
				class = "rf-even"
			}
			r.Violation("status-depends-on-reply-order-"+class, d, c)
		}
	})
}

func names(v []int) []string {
	out := make([]string, len(v))
	for i, x := range v {
		out[i] = rig.OutcomeNames[x]
	}
	return out
}

func trim(s string) string {
	if len(s) > 160 {
		return s[:160] + "..."
	}
	return s
}
