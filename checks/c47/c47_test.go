// C47: the config reloader applies the latest configuration.
//
// Engine E3: explicit-state breadth-first search over event histories (write / remove configuration files,
// apply rounds with a reload endpoint that succeeds, fails once, or fails until the watch interval expires).
// Every transition replays the whole history on a FRESH reloader.Reloader over a wiped directory and runs the
// real Reloader.apply (through a thin in-package adapter) inside a testing/synctest bubble (virtual clock for the
// retry ticker and the apply deadline). States are deduplicated on (input files, output files, the reloader's
// carried-over fields, reference-model memory).
package c47

import (
	"bytes"
	"compress/gzip"
	"context"
	"errors"
	"fmt"
	"net/url"
	"os"
	"path/filepath"
	"sort"
	"strings"
	"testing"
	"testing/synctest"
	"time"

	"github.com/thanos-io/thanos/pkg/reloader"

	"verif/vlib"
)

const (
	watchInterval = 10 * time.Second
	retryInterval = 3 * time.Second
)

// Event alphabet.
type Event struct {
	Op      string `json:"op"`             // "w" write, "rm" remove, "apply"
	File    string `json:"file,omitempty"` // logical file name: cfg, d1/a, d1/b, d2/a, w/f, w/sub/f
	Content int    `json:"c,omitempty"`    // index into contents (write)
	Mode    int    `json:"mode,omitempty"` // apply: 0 endpoint ok, 1 first reload request fails, 2 every request fails
}

func (e Event) String() string {
	switch e.Op {
	case "w":
		return fmt.Sprintf("write(%s,%s)", e.File, contentNames[e.Content])
	case "rm":
		return fmt.Sprintf("rm(%s)", e.File)
	default:
		return fmt.Sprintf("apply(%s)", []string{"ok", "fail-once", "fail-always"}[e.Mode])
	}
}

var contentNames = []string{"x", "y", "$(V)", "a-$(V)-b", "gz(x)", "gz($(V))", "empty",
	// environment VALUE dimension: E is SET to the empty string, W is set to a value with leading/trailing blanks and
	// regexp-template metacharacters; V is "1" or unset (per configuration) as before.
	"$(E)", "a-$(E)-b", "$(E)$(V)", "gz(k: $(E))", "$(W)", "$(V)$(E)$(W)"}

// wValue is the value of variable W: it must be inserted byte for byte (no trimming, no template expansion).
const wValue = " $1 ${0} $(Q) "

// env is the environment of one shard: three variables with shard-unique names (the process environment is global
// and the shards run in parallel).
type env struct {
	V, E, W string // variable names
	VUnset  bool   // V is unset (otherwise "1"); E is always set to "", W always to wValue
}

func envOf(ci int) env {
	return env{V: fmt.Sprintf("VC47_%d", ci), E: fmt.Sprintf("VC47E_%d", ci), W: fmt.Sprintf("VC47W_%d", ci), VUnset: configs()[ci].EnvUnset}
}

// install puts the shard's variables into the process environment.
func (e env) install() {
	if e.VUnset {
		os.Unsetenv(e.V)
	} else {
		os.Setenv(e.V, "1")
	}
	os.Setenv(e.E, "")
	os.Setenv(e.W, wValue)
	if v, ok := os.LookupEnv(e.E); !ok || v != "" {
		panic("HARNESS-ERROR: could not set a variable to the empty string")
	}
}

// Config is one reloader configuration (one shard of the search).
type Config struct {
	Name     string
	CfgFile  bool // cfg file configured (initially present with content "x", like d1/a and w/f)
	CfgOut   bool // with output file
	Dirs     int  // number of cfgDirs (d1, d2), each with an output dir
	Watched  bool // one watched dir (w), searched recursively
	EnvUnset bool // the variable V is unset and TolerateEnvVarExpansionErrors is on; otherwise V=1
	Tolerate bool // TolerateEnvVarExpansionErrors on although every referenced variable is set
	Events   []Event
}

func writes(file string, cs ...int) []Event {
	var out []Event
	for _, c := range cs {
		out = append(out, Event{Op: "w", File: file, Content: c})
	}
	return out
}

func applies() []Event {
	return []Event{{Op: "apply", Mode: 0}, {Op: "apply", Mode: 1}, {Op: "apply", Mode: 2}}
}

func cat(ev ...[]Event) []Event {
	var out []Event
	for _, e := range ev {
		out = append(out, e...)
	}
	return out
}

func configs() []Config {
	rm := func(f string) []Event { return []Event{{Op: "rm", File: f}} }
	return []Config{
		{Name: "cfg+out", CfgFile: true, CfgOut: true,
			Events: cat(writes("cfg", 0, 1, 2, 3, 4, 5, 6), rm("cfg"), applies())},
		{Name: "cfg+out,env-unset-tolerated", CfgFile: true, CfgOut: true, EnvUnset: true,
			Events: cat(writes("cfg", 0, 2, 5), rm("cfg"), applies())},
		{Name: "cfg-without-out", CfgFile: true,
			Events: cat(writes("cfg", 0, 1, 4), rm("cfg"), applies())},
		{Name: "dir", Dirs: 1,
			Events: cat(writes("d1/a", 0, 2, 4), writes("d1/b", 0, 2, 4), rm("d1/a"), rm("d1/b"), applies())},
		{Name: "dir,env-unset-tolerated", Dirs: 1, EnvUnset: true,
			Events: cat(writes("d1/a", 0, 2), writes("d1/b", 0, 2), rm("d1/a"), rm("d1/b"), applies())},
		{Name: "cfg+dir+watched", CfgFile: true, CfgOut: true, Dirs: 1, Watched: true,
			Events: cat(writes("cfg", 0, 1), writes("d1/a", 0, 1), rm("d1/a"), writes("w/f", 0, 1), rm("w/f"), applies())},
		{Name: "two-dirs", Dirs: 2,
			Events: cat(writes("d1/a", 0, 1), writes("d2/a", 0, 1), rm("d1/a"), rm("d2/a"), applies())},
		{Name: "watched-only", Watched: true,
			Events: cat(writes("w/f", 0, 1), writes("w/sub/f", 0, 1), rm("w/f"), rm("w/sub/f"), applies())},
		// ---- environment VALUE dimension (appended: indices of the shards above stay valid for old replays) ----
		// a variable SET to the empty string / to a value with blanks and metacharacters, tolerance off and on,
		// referenced from the main config file and from files of a config directory, alone and next to a non-empty
		// or an unset(+tolerated) variable.
		{Name: "cfg+out,env-empty", CfgFile: true, CfgOut: true,
			Events: cat(writes("cfg", 0, 7, 8, 9, 10, 11, 12), rm("cfg"), applies())},
		{Name: "cfg+out,env-empty,tolerant", CfgFile: true, CfgOut: true, Tolerate: true,
			Events: cat(writes("cfg", 0, 7, 9, 10, 11), rm("cfg"), applies())},
		{Name: "cfg+out,env-empty,V-unset-tolerated", CfgFile: true, CfgOut: true, EnvUnset: true,
			Events: cat(writes("cfg", 0, 7, 9, 12), rm("cfg"), applies())},
		{Name: "dir,env-empty", Dirs: 1,
			Events: cat(writes("d1/a", 0, 7, 9, 11), writes("d1/b", 0, 7), rm("d1/a"), rm("d1/b"), applies())},
		{Name: "dir,env-empty,tolerant", Dirs: 1, Tolerate: true,
			Events: cat(writes("d1/a", 0, 7, 10), writes("d1/b", 0, 8), rm("d1/a"), rm("d1/b"), applies())},
		{Name: "dir,env-empty,V-unset-tolerated", Dirs: 1, EnvUnset: true,
			Events: cat(writes("d1/a", 0, 7, 9), writes("d1/b", 0, 9), rm("d1/a"), rm("d1/b"), applies())},
		{Name: "cfg+dir,env-empty", CfgFile: true, CfgOut: true, Dirs: 1,
			Events: cat(writes("cfg", 0, 7, 9), writes("d1/a", 0, 7), rm("d1/a"), applies())},
	}
}

// Case is a replayable history.
type Case struct {
	Cfg  int   `json:"cfg"`  // index into configs()
	Hist []int `json:"hist"` // indices into the config's event alphabet
}

func (c Case) describe() string {
	cf := configs()[c.Cfg]
	p := make([]string, len(c.Hist))
	for i, e := range c.Hist {
		p[i] = cf.Events[e].String()
	}
	return cf.Name + ": " + strings.Join(p, " ; ")
}

// fake reload endpoint.
type endpoint struct {
	mode     int
	calls    int
	lastOK   bool
	anyOK    bool
	failures int
}

func (e *endpoint) TriggerReload(context.Context) error {
	e.calls++
	fail := e.mode == 2 || (e.mode == 1 && e.calls == 1)
	if fail {
		e.failures++
		e.lastOK = false
		return errors.New("reload endpoint says no")
	}
	e.lastOK, e.anyOK = true, true
	return nil
}

func gz(s string) string {
	var b bytes.Buffer
	w := gzip.NewWriter(&b)
	_, _ = w.Write([]byte(s))
	_ = w.Close()
	return b.String()
}

// raw file bytes and expected output bytes of a content symbol.
func render(c int, e env) (raw, out string) {
	ref := "$(" + e.V + ")"
	val := "1"
	if e.VUnset {
		val = ref // tolerated: left as is
	}
	eref, wref := "$("+e.E+")", "$("+e.W+")"
	switch c {
	case 7:
		return eref, ""
	case 8:
		return "a-" + eref + "-b", "a--b"
	case 9:
		return eref + ref, val
	case 10:
		return gz("k: " + eref), "k: "
	case 11:
		return wref, wValue
	case 12:
		return ref + eref + wref, val + wValue
	case 0:
		return "x", "x"
	case 1:
		return "y", "y"
	case 2:
		return ref, val
	case 3:
		return "a-" + ref + "-b", "a-" + val + "-b"
	case 4:
		return gz("x"), "x"
	case 5:
		return gz(ref), val
	case 6:
		return "", ""
	default:
		panic(fmt.Sprintf("HARNESS-ERROR: unknown content symbol %d", c))
	}
}

// model memory.
type model struct {
	inputs      map[string]int // logical file -> content symbol
	haveSuccess bool
	lastRaw     string // descriptor of the raw inputs at the last successful reload
	lastOut     string // descriptor of the expanded inputs at the last successful reload
	pendingFail bool   // a reload request failed after the last successful one
}

func (m *model) descriptors(e env) (raw, out string) {
	names := make([]string, 0, len(m.inputs))
	for n := range m.inputs {
		names = append(names, n)
	}
	sort.Strings(names)
	var rb, ob strings.Builder
	for _, n := range names {
		r, o := render(m.inputs[n], e)
		fmt.Fprintf(&rb, "%s=%q;", n, r)
		fmt.Fprintf(&ob, "%s=%q;", n, o)
	}
	return rb.String(), ob.String()
}

func listDir(dir string) map[string]string {
	out := map[string]string{}
	entries, err := os.ReadDir(dir)
	if err != nil {
		return out
	}
	for _, e := range entries {
		if e.IsDir() {
			continue
		}
		b, _ := os.ReadFile(filepath.Join(dir, e.Name()))
		out[e.Name()] = string(b)
	}
	return out
}

type runResult struct {
	key string // state key after the history
}

// run replays the history on a fresh Reloader in the wiped directory root. Must be called inside a synctest bubble.
func run(r *vlib.R, c Case, root string, e env, report bool) runResult {
	cf := configs()[c.Cfg]
	// wipe: every directory the configuration uses exists and holds no file (same paths for every replay, so the
	// path-dependent hashes the reloader keeps are comparable across replays of one shard).
	dirs := []string{"in", "out"}
	for i := 1; i <= cf.Dirs; i++ {
		dirs = append(dirs, fmt.Sprintf("d%d", i), fmt.Sprintf("d%dout", i))
	}
	if cf.Watched {
		dirs = append(dirs, "w", "w/sub")
	}
	for _, d := range dirs {
		dp := filepath.Join(root, d)
		entries, err := os.ReadDir(dp)
		if err != nil {
			if err := os.MkdirAll(dp, 0o755); err != nil {
				r.T.Fatalf("HARNESS-ERROR mkdir: %v", err)
			}
			continue
		}
		for _, e := range entries {
			if e.IsDir() {
				continue
			}
			if err := os.Remove(filepath.Join(dp, e.Name())); err != nil {
				r.T.Fatalf("HARNESS-ERROR wipe: %v", err)
			}
		}
	}
	phys := func(logical string) string {
		if logical == "cfg" {
			return filepath.Join(root, "in", "cfg.yaml")
		}
		return filepath.Join(root, logical)
	}
	u, _ := url.Parse("http://127.0.0.1:1/-/reload")
	opts := &reloader.Options{ReloadURL: u, WatchInterval: watchInterval, RetryInterval: retryInterval, TolerateEnvVarExpansionErrors: cf.EnvUnset || cf.Tolerate}
	if cf.CfgFile {
		opts.CfgFile = phys("cfg")
		if cf.CfgOut {
			opts.CfgOutputFile = filepath.Join(root, "out", "cfg.yaml")
		}
	}
	for i := 1; i <= cf.Dirs; i++ {
		opts.CfgDirs = append(opts.CfgDirs, reloader.CfgDirOption{Dir: filepath.Join(root, fmt.Sprintf("d%d", i)), OutputDir: filepath.Join(root, fmt.Sprintf("d%dout", i))})
	}
	if cf.Watched {
		opts.WatchedDirs = []string{filepath.Join(root, "w")}
	}
	rl := reloader.New(nil, nil, opts)
	ep := &endpoint{}
	rl.VerifSetTriggerReloader(ep)

	m := &model{inputs: map[string]int{}}
	write := func(logical string, content int) {
		raw, _ := render(content, e)
		if err := os.WriteFile(phys(logical), []byte(raw), 0o644); err != nil {
			r.T.Fatalf("HARNESS-ERROR write: %v", err)
		}
		m.inputs[logical] = content
	}
	// initial inputs: the main config file and one file per directory kind exist with content "x".
	for _, f := range initialFiles(cf) {
		write(f, 0)
	}

	violation := func(sig, desc string) {
		if report {
			r.Violation(sig, desc+" | history: "+c.describe(), c)
		}
	}

	for step, ei := range c.Hist {
		ev := cf.Events[ei]
		last := step == len(c.Hist)-1
		switch ev.Op {
		case "w":
			write(ev.File, ev.Content)
		case "rm":
			if _, ok := m.inputs[ev.File]; ok {
				if err := os.Remove(phys(ev.File)); err != nil {
					r.T.Fatalf("HARNESS-ERROR remove: %v", err)
				}
				delete(m.inputs, ev.File)
			}
		case "apply":
			*ep = endpoint{mode: ev.Mode}
			ctx, cancel := context.WithTimeout(context.Background(), watchInterval)
			err, panicked := safeApply(rl, ctx)
			cancel()
			if panicked != "" {
				violation("apply-panics", "apply panicked: "+panicked)
				return runResult{key: "panic:" + panicked}
			}
			_, cfgPresent := m.inputs["cfg"]
			valid := !cf.CfgFile || cfgPresent
			raw, out := m.descriptors(e)
			// ---- oracle (only where the statement speaks: all configured inputs exist) ----
			if valid && last {
				if err != nil {
					violation("apply-fails-on-valid-inputs", fmt.Sprintf("apply returned %v although every configured input exists", err))
				} else {
					// outputs equal inputs with the environment substituted; outputs of vanished inputs are gone.
					if cf.CfgFile && cf.CfgOut {
						_, want := render(m.inputs["cfg"], e)
						got, rerr := os.ReadFile(opts.CfgOutputFile)
						if rerr != nil {
							violation("output-missing", fmt.Sprintf("config output file unreadable: %v", rerr))
						} else if string(got) != want {
							violation("output-differs-from-expanded-input", fmt.Sprintf("config output %q, want %q", got, want))
						}
					}
					for i := 1; i <= cf.Dirs; i++ {
						got := listDir(filepath.Join(root, fmt.Sprintf("d%dout", i)))
						prefix := fmt.Sprintf("d%d/", i)
						want := map[string]string{}
						for n, cs := range m.inputs {
							if strings.HasPrefix(n, prefix) {
								_, o := render(cs, e)
								want[strings.TrimPrefix(n, prefix)] = o
							}
						}
						for n, w := range want {
							g, ok := got[n]
							if !ok {
								violation("output-missing", fmt.Sprintf("output dir %d lacks %s", i, n))
							} else if g != w {
								violation("output-differs-from-expanded-input", fmt.Sprintf("output dir %d file %s is %q, want %q", i, n, g, w))
							}
						}
						for n := range got {
							if _, ok := want[n]; !ok {
								if strings.HasSuffix(n, ".tmp") {
									r.Note("temporary file %s left in output dir", n)
									continue
								}
								violation("output-of-removed-input-not-removed", fmt.Sprintf("output dir %d still has %s whose input disappeared", i, n))
							}
						}
					}
					// reload decisions.
					if m.haveSuccess {
						changedRaw, changedOut := raw != m.lastRaw, out != m.lastOut
						switch {
						case changedRaw && changedOut && ep.calls == 0:
							violation("reload-not-triggered-after-content-change", "content differs from the last successfully reloaded content but no reload was requested")
						case !changedRaw && !changedOut && !m.pendingFail && ep.calls > 0:
							violation("reload-triggered-without-content-change", fmt.Sprintf("content equals the last successfully reloaded content and no reload failed since, but %d reload request(s) were sent", ep.calls))
						}
					}
				}
			}
			// ---- model memory follows the observed endpoint traffic ----
			if ep.calls > 0 {
				if ep.lastOK {
					m.haveSuccess, m.lastRaw, m.lastOut, m.pendingFail = true, raw, out, false
				} else {
					m.pendingFail = true
				}
			}
		}
	}

	// state key: inputs, outputs, carried-over reloader fields, model memory.
	var kb strings.Builder
	raw, _ := m.descriptors(e)
	kb.WriteString(raw)
	kb.WriteString("|out:")
	if b, err := os.ReadFile(filepath.Join(root, "out", "cfg.yaml")); err == nil {
		fmt.Fprintf(&kb, "cfg=%q;", b)
	}
	for _, d := range []string{"d1out", "d2out"} {
		l := listDir(filepath.Join(root, d))
		names := make([]string, 0, len(l))
		for n := range l {
			names = append(names, n)
		}
		sort.Strings(names)
		for _, n := range names {
			fmt.Fprintf(&kb, "%s/%s=%q;", d, n, l[n])
		}
	}
	kb.WriteString("|rl:")
	kb.WriteString(rl.VerifInternalState())
	fmt.Fprintf(&kb, "|model:%v,%q,%v", m.haveSuccess, m.lastRaw, m.pendingFail)
	return runResult{key: kb.String()}
}

// safeApply runs one apply round and turns a panic of the code under test into a value.
func safeApply(rl *reloader.Reloader, ctx context.Context) (err error, panicked string) {
	defer func() {
		if p := recover(); p != nil {
			panicked = fmt.Sprint(p)
		}
	}()
	return rl.VerifApply(ctx), ""
}

// interesting reports whether the history exercises the property non-trivially: it contains an apply after a
// failed reload, or an apply after a removal/edit that follows a successful apply.
func interesting(cf Config, hist []int) bool {
	seenApply, editedAfter, failed := false, false, false
	for _, ei := range hist {
		ev := cf.Events[ei]
		if ev.Op == "apply" {
			if (seenApply && editedAfter) || failed {
				return true
			}
			seenApply, editedAfter = true, false
			if ev.Mode != 0 {
				failed = true
			}
		} else if seenApply {
			editedAfter = true
		}
	}
	return false
}

// initialFiles lists the inputs that exist (content "x") before the first event.
func initialFiles(cf Config) []string {
	var out []string
	if cf.CfgFile {
		out = append(out, "cfg")
	}
	if cf.Dirs >= 1 {
		out = append(out, "d1/a")
	}
	if cf.Watched {
		out = append(out, "w/f")
	}
	return out
}

// noop reports whether event ei leaves the inputs unchanged after history hist.
func noop(cf Config, hist []int, ei int) bool {
	ev := cf.Events[ei]
	if ev.Op == "apply" {
		return false
	}
	cur := map[string]int{}
	for _, f := range initialFiles(cf) {
		cur[f] = 0
	}
	for _, hi := range hist {
		switch e := cf.Events[hi]; e.Op {
		case "w":
			cur[e.File] = e.Content
		case "rm":
			delete(cur, e.File)
		}
	}
	c, ok := cur[ev.File]
	if ev.Op == "rm" {
		return !ok
	}
	return ok && c == ev.Content
}

func search(t *testing.T, r *vlib.R, ci int, root string, depth int) {
	cf := configs()[ci]
	envName := envOf(ci)
	envName.install()
	type node struct{ hist []int }
	started := time.Now()
	var nTrans, nStates int64 = 0, 1
	defer func() {
		// wall-clock only for the evidence file (never for a verdict); time.Now is virtual inside the bubble, so use the monotonic reading of the os clock via Since on a real timestamp taken outside is not available: report counts only.
		_ = started
		r.Set("shard:"+cf.Name, fmt.Sprintf("states=%d transitions=%d", nStates, nTrans))
	}()
	visited := map[string]bool{}
	init := run(r, Case{Cfg: ci}, root, envName, true)
	visited[init.key] = true
	r.AddStates(1)
	r.AddTraces(1)
	frontier := []node{{}}
	for d := 1; d <= depth && len(frontier) > 0; d++ {
		var next []node
		for _, n := range frontier {
			if r.Expired(fmt.Sprintf("BFS of config %q stopped at depth %d", cf.Name, d)) {
				return
			}
			for ei := range cf.Events {
				if noop(cf, n.hist, ei) {
					continue // writing the content a file already has / removing a missing file: same state, nothing to execute
				}
				h := append(append([]int(nil), n.hist...), ei)
				c := Case{Cfg: ci, Hist: h}
				res := run(r, c, root, envName, true)
				r.Eval(1)
				r.AddTransitions(1)
				nTrans++
				r.AddTraces(1)
				r.Depth(d)
				r.Sample(c)
				if interesting(cf, h) {
					r.Nontrivial(fmt.Sprint(ci, h))
				}
				if !visited[res.key] {
					visited[res.key] = true
					r.AddStates(1)
					nStates++
					next = append(next, node{hist: h})
				}
			}
		}
		frontier = next
	}
}

func TestCheck(t *testing.T) {
	r := vlib.New(t, "C47")
	defer r.Finish()
	r.Rule("explicit-state BFS over histories of events {write file with content in {x,y,$(V),a-$(V)-b,gz(x),gz($(V)),empty}, remove file, apply with reload endpoint ok / failing once / failing until the " +
		"watch interval expires} for 8 reloader configurations (config file with/without output, env set / unset+tolerated, one or two config dirs with output dirs, watched dirs, all three together) " +
		"plus 7 configurations of the environment VALUE dimension: contents {$(E), a-$(E)-b, $(E)$(V), gz(k: $(E)), $(W), $(V)$(E)$(W)} where E is SET to the empty string and W to a value with blanks and '$' metacharacters, " +
		"in the main config file and in config-dir files, with TolerateEnvVarExpansionErrors off / on / on with V unset; " +
		"every transition replays its history on a fresh Reloader and runs the real apply under a virtual clock. Non-trivial = distinct histories with an apply after a failed reload or after an edit that follows an earlier apply")
	r.Assume("apply rounds are invoked directly (what Watch does on each notification or watch-interval tick); fsnotify delivery and the delay timer are not part of the search",
		"the environment is fixed for the life of a reloader (a process cannot have its environment changed from outside); unset variables are only explored with TolerateEnvVarExpansionErrors",
		"a variable that is set (os.LookupEnv ok) is substituted by its value byte for byte, also when the value is the empty string or contains '$', blanks or text that looks like a reference (one substitution pass), with tolerance off and on",
		"reload decisions: a request is required when both the raw and the expanded content differ from the last successfully reloaded content, forbidden when both are equal and no request failed since; "+
			"the first round of a fresh reloader and a round after a failed request with content back at the last successful one may go either way",
		"the oracle is evaluated only in states where every configured input exists (a missing main config file makes apply fail, which the statement does not cover)")

	depth := vlib.Pick(r, 4, 7)
	base := t.TempDir()
	var rc Case
	if r.ReplayCase(&rc) {
		synctest.Test(t, func(t *testing.T) {
			envName := envOf(rc.Cfg)
			envName.install()
			// evaluate the oracle at every apply of the history (prefix by prefix)
			for i := 0; i <= len(rc.Hist); i++ {
				run(r, Case{Cfg: rc.Cfg, Hist: rc.Hist[:i]}, filepath.Join(base, "replay"), envName, true)
			}
			r.Eval(1)
		})
		return
	}
	t.Run("shards", func(t *testing.T) {
		for ci, cf := range configs() {
			t.Run(cf.Name, func(t *testing.T) {
				t.Parallel()
				synctest.Test(t, func(t *testing.T) {
					search(t, r, ci, filepath.Join(base, fmt.Sprintf("shard%d", ci)), depth)
				})
			})
		}
	})
}
