// C41: splitting a query by interval evaluates every step exactly once; label/series splits cover the range.
// Engine E4: every (start,end,step,interval) over a small millisecond grid, through the real splitQuery and
// through the real SplitByIntervalMiddleware (requests that reach the next handler).
package c41

import (
	"fmt"
	"iter"
	"sort"
	"testing"
	"time"

	"github.com/thanos-io/thanos/pkg/queryfrontend"

	"verif/vlib"
)

type Case struct {
	Kind     int   `json:"kind"` // 0 range query, 1 labels request, 2 series request
	Start    int64 `json:"start"`
	End      int64 `json:"end"`
	Step     int64 `json:"step"`     // range only (ms)
	Interval int64 `json:"interval"` // split interval (ms)
}

func gen(r *vlib.R) iter.Seq[Case] {
	lo := int64(-6)
	hi := vlib.Pick(r, int64(40), int64(100))
	// steps: 1, divisors and non-divisors of the intervals, == interval, interval+1, > every interval
	steps := vlib.Pick(r, []int64{1, 2, 3, 5, 7, 11, 24, 25}, []int64{1, 2, 3, 4, 5, 6, 7, 11, 12, 13, 24, 25, 48, 49, 61})
	ivs := vlib.Pick(r, []int64{6, 12, 24}, []int64{1, 5, 6, 12, 24, 60})
	return func(yield func(Case) bool) {
		for _, iv := range ivs {
			for s := lo; s <= hi; s++ {
				for e := s; e <= hi; e++ {
					for _, st := range steps {
						if !yield(Case{Kind: 0, Start: s, End: e, Step: st, Interval: iv}) {
							return
						}
					}
					for k := 1; k <= 2; k++ {
						if !yield(Case{Kind: k, Start: s, End: e, Step: 1, Interval: iv}) {
							return
						}
					}
				}
			}
		}
	}
}

func mkReq(c Case) any {
	switch c.Kind {
	case 0:
		return &queryfrontend.ThanosQueryRangeRequest{Path: "/api/v1/query_range", Start: c.Start, End: c.End, Step: c.Step, Query: "foo", Dedup: true}
	case 1:
		return &queryfrontend.ThanosLabelsRequest{Path: "/api/v1/labels", Start: c.Start, End: c.End}
	default:
		return &queryfrontend.ThanosSeriesRequest{Path: "/api/v1/series", Start: c.Start, End: c.End, Dedup: true}
	}
}

// judge applies the statement to one list of sub-requests.
func judge(r *vlib.R, c Case, via string, subs []queryfrontend.VerifC41Sub) {
	if c.Kind == 0 {
		want := map[int64]int{}
		for t := c.Start; t <= c.End; t += c.Step {
			want[t] = 0
		}
		for _, s := range subs {
			if s.Step != c.Step {
				r.Violation("sub-query-step-changed", fmt.Sprintf("%s: sub-query [%d,%d] has step %d, original %d", via, s.Start, s.End, s.Step, c.Step), c)
				return
			}
			if (s.Start-c.Start)%c.Step != 0 {
				r.Violation("sub-query-start-not-step-aligned", fmt.Sprintf("%s: sub-query start %d is not original start %d + k*%d", via, s.Start, c.Start, c.Step), c)
			}
			for t := s.Start; t <= s.End; t += s.Step {
				n, ok := want[t]
				if !ok {
					r.Violation("extra-step-not-in-original", fmt.Sprintf("%s: sub-query [%d,%d] evaluates t=%d which the original query does not; subs=%v", via, s.Start, s.End, t, subs), c)
					return
				}
				want[t] = n + 1
			}
		}
		for t, n := range want {
			if n == 0 {
				r.Violation("step-missing", fmt.Sprintf("%s: original timestamp %d is evaluated by no sub-query; subs=%v", via, t, subs), c)
				return
			}
			if n > 1 {
				r.Violation("step-evaluated-twice", fmt.Sprintf("%s: original timestamp %d is evaluated by %d sub-queries; subs=%v", via, t, n, subs), c)
				return
			}
		}
		return
	}
	// labels / series: the sub-ranges together cover every millisecond of [start,end].
	ss := append([]queryfrontend.VerifC41Sub(nil), subs...)
	sort.Slice(ss, func(i, j int) bool { return ss[i].Start < ss[j].Start })
	covered := c.Start - 1
	for _, s := range ss {
		if s.Start > covered+1 {
			break
		}
		if s.End > covered {
			covered = s.End
		}
	}
	if covered < c.End {
		sig := "metadata-range-not-covered"
		if c.Start == c.End {
			sig = "metadata-range-start-eq-end-not-covered"
		}
		r.Violation(sig, fmt.Sprintf("%s: [%d,%d] split by %dms gives %v: covered only up to %d", via, c.Start, c.End, c.Interval, subs, covered), c)
	}
}

func TestCheck(t *testing.T) {
	r := vlib.New(t, "C41")
	defer r.Finish()
	r.Rule("all start<=end on a ms grid (incl. negative, start==end) x steps (divisors/non-divisors of the interval, ==interval, >interval) x " +
		"intervals, for range, labels and series requests; each through splitQuery and through SplitByIntervalMiddleware. " +
		"non-trivial = distinct cases that produce >= 2 sub-requests")
	r.Assume("interval >= 1ms and step >= 1ms (the codec rejects step <= 0; the flag parser gives whole durations)",
		"arithmetic is exact int64, so results are invariant under shifting start/end by a multiple of the interval; grid values stand for any such shift")
	vlib.ForEach(r, gen(r), func(c Case) {
		r.Sample(c)
		iv := time.Duration(c.Interval) * time.Millisecond
		direct, err := queryfrontend.VerifC41SplitQuery(mkReq(c), iv)
		if err != nil {
			r.Violation("split-error", fmt.Sprintf("splitQuery: %v", err), c)
			return
		}
		judge(r, c, "splitQuery", direct)
		via, err := queryfrontend.VerifC41SplitThroughMiddleware(mkReq(c), iv)
		if err != nil {
			r.Violation("split-error", fmt.Sprintf("middleware: %v", err), c)
			return
		}
		judge(r, c, "middleware", via)
		if len(direct) >= 2 {
			r.Nontrivial(fmt.Sprint(c))
			r.Add("multi_subrequest_cases", 1)
		}
		if c.Kind == 0 {
			if c.Step > c.Interval {
				r.Add("range_step_gt_interval", 1)
			}
			if c.Start%c.Step != 0 {
				r.Add("range_unaligned_start", 1)
			}
			if (c.End-c.Start)%c.Step != 0 {
				r.Add("range_end_not_on_step", 1)
			}
		}
		if c.Start == c.End {
			r.Add("start_eq_end", 1)
		}
	})
}
