package c35

import (
	"context"
	"fmt"
	"io"
	"os"
	"path/filepath"
	"syscall"

	"github.com/go-kit/log"
	"github.com/oklog/ulid/v2"
	"github.com/prometheus/prometheus/model/labels"
	"github.com/prometheus/prometheus/tsdb"

	"github.com/thanos-io/thanos/pkg/block/metadata"
	"github.com/thanos-io/thanos/pkg/testutil/e2eutil"
)

// buildBlock creates a tiny real TSDB block under dir with exactly segs chunk segment files.
// One segment: the block e2eutil.CreateBlock produces. More: that block re-written by the Prometheus
// LeveledCompactor with a small MaxBlockChunkSegmentSize (the only way to get several segment files
// without 512 MiB of chunks); the segment size is searched until the count matches.
func buildBlock(dir, scratch string, segs int, mint, maxt int64, ext labels.Labels) (ulid.ULID, error) {
	ctx := context.Background()
	var series []labels.Labels
	for i := 0; i < 6; i++ {
		series = append(series, labels.FromStrings("__name__", "m", "i", fmt.Sprint(i)))
	}
	if err := os.MkdirAll(dir, 0o755); err != nil {
		return ulid.ULID{}, err
	}
	target := dir
	if segs > 1 {
		target = scratch
		if err := os.MkdirAll(scratch, 0o755); err != nil {
			return ulid.ULID{}, err
		}
	}
	id, err := e2eutil.CreateBlock(ctx, target, series, 8, mint, maxt, ext, 0, metadata.NoneFunc, nil)
	if err != nil {
		return id, err
	}
	if segs == 1 {
		if n := countSegs(filepath.Join(dir, id.String())); n != 1 {
			return id, fmt.Errorf("expected 1 segment, got %d", n)
		}
		return id, nil
	}
	blk, err := tsdb.OpenBlock(nil, filepath.Join(scratch, id.String()), nil, nil)
	if err != nil {
		return id, err
	}
	defer blk.Close()
	fi, err := os.Stat(filepath.Join(scratch, id.String(), "chunks", "000001"))
	if err != nil {
		return id, err
	}
	// the number of segment files is monotonically non-increasing in the segment size: binary search,
	// after one educated first guess (a segment size of size/segs plus some slack usually gives segs files;
	// tiny segment sizes are expensive: every cut allocates an 8 MiB write buffer).
	lo, hi := int64(1), fi.Size()+16
	guess := fi.Size()/int64(segs) + 24
	for first := true; lo <= hi; first = false {
		sz := (lo + hi) / 2
		if first && guess > lo && guess < hi {
			sz = guess
		}
		c, err := tsdb.NewLeveledCompactorWithOptions(ctx, nil, nil, []int64{maxt - mint}, nil,
			tsdb.LeveledCompactorOptions{MaxBlockChunkSegmentSize: sz, EnableOverlappingCompaction: true})
		if err != nil {
			return id, err
		}
		ids, err := c.Write(dir, blk, mint, maxt, nil)
		if err != nil {
			return id, err
		}
		if len(ids) != 1 {
			return id, fmt.Errorf("compactor wrote %d blocks", len(ids))
		}
		bdir := filepath.Join(dir, ids[0].String())
		n := countSegs(bdir)
		if n == segs {
			if _, err := metadata.InjectThanos(log.NewNopLogger(), bdir, metadata.Thanos{
				Labels:     ext.Map(),
				Downsample: metadata.ThanosDownsample{Resolution: 0},
				Source:     metadata.TestSource,
			}, nil); err != nil {
				return id, err
			}
			return ids[0], nil
		}
		if err := os.RemoveAll(bdir); err != nil {
			return id, err
		}
		if n > segs {
			lo = sz + 1
		} else {
			hi = sz - 1
		}
	}
	return id, fmt.Errorf("no segment size gives %d segment files", segs)
}

func countSegs(bdir string) int {
	es, err := os.ReadDir(filepath.Join(bdir, "chunks"))
	if err != nil {
		return -1
	}
	return len(es)
}

// copyDir replicates a directory tree (regular files and directories only). Immutable block files are hard
// linked to the source (what the shipper itself does), every other file gets a new inode with the same
// content; files of the source tree that are hard links of each other stay hard links of each other in the
// copy (a killed process leaves the upload directory's links behind as they were).
func copyDir(src, dst string) error {
	linked := map[uint64]string{}
	return filepath.Walk(src, func(p string, info os.FileInfo, err error) error {
		if err != nil {
			return err
		}
		rel, err := filepath.Rel(src, p)
		if err != nil {
			return err
		}
		to := filepath.Join(dst, rel)
		if info.IsDir() {
			return os.MkdirAll(to, 0o755)
		}
		if info.Name() == "index" || info.Name() == "tombstones" || filepath.Base(filepath.Dir(p)) == "chunks" {
			if err := os.Link(p, to); err == nil {
				return nil
			}
		}
		if st, ok := info.Sys().(*syscall.Stat_t); ok && st.Nlink > 1 {
			if first, ok := linked[st.Ino]; ok {
				if err := os.Link(first, to); err == nil {
					return nil
				}
			}
			linked[st.Ino] = to
		}
		in, err := os.Open(p)
		if err != nil {
			return err
		}
		defer in.Close()
		out, err := os.Create(to)
		if err != nil {
			return err
		}
		if _, err := io.Copy(out, in); err != nil {
			out.Close()
			return err
		}
		return out.Close()
	})
}

// readTree reads every regular file under dir: slash-separated relative path -> content (and its FileInfo).
// A file that IS a known file (same inode - the harness hard-links the immutable block files from the
// template into every local directory - with the size and modification time recorded for it) is not read
// again: its recorded content is returned.
func readTree(dir string, known map[string]os.FileInfo, content map[string][]byte) (map[string][]byte, map[string]os.FileInfo, error) {
	out, infos := map[string][]byte{}, map[string]os.FileInfo{}
	err := filepath.Walk(dir, func(p string, info os.FileInfo, err error) error {
		if err != nil {
			return err
		}
		if info.IsDir() {
			return nil
		}
		rel, err := filepath.Rel(dir, p)
		if err != nil {
			return err
		}
		rel = filepath.ToSlash(rel)
		infos[rel] = info
		if k, ok := known[rel]; ok && os.SameFile(k, info) && k.Size() == info.Size() && k.ModTime().Equal(info.ModTime()) {
			if b, ok := content[rel]; ok {
				out[rel] = b
				return nil
			}
		}
		b, err := os.ReadFile(p)
		if err != nil {
			return err
		}
		out[rel] = b
		return nil
	})
	return out, infos, err
}

// setLevel rewrites the compaction level of a local block's meta.json (what a locally compacted
// Prometheus block looks like to the shipper, which only reads the meta).
func setLevel(bdir string, level int) error {
	m, err := metadata.ReadFromDir(bdir)
	if err != nil {
		return err
	}
	m.Compaction.Level = level
	return m.WriteToDir(log.NewNopLogger(), bdir)
}
