// C35: the shipper uploads every eligible block completely, at least once.
//
// Engine E2 (crash-point enumeration on the real Shipper.Sync with a real local TSDB directory).
// A history is: an optional first complete Sync with the oldest `pre` blocks, the remaining blocks appear,
// a Sync that is killed at mutating bucket operation k (the local directory is copied at that very instant,
// the bucket keeps what was applied before k), a restart of a *fresh* Shipper on both (with
// thanos.shipper.json as found | removed | truncated), optionally a second kill at operation k2, and Syncs
// until one returns nil. After every Sync that returns nil the first half of the statement is evaluated,
// after every Sync (and on every crash snapshot) the second half.
//
// External labels are part of a history: the first complete Sync runs with label set lsets[LC0], the faulted
// Sync with the base set lsets[0], everything after it with lsets[LC] (a label name removed / added, a value
// changed). One Shipper object lives as long as the simulated process does (it is
// re-created only at a kill), its label getter returns the set in force (what the sidecar's reloader and
// receive's SetLabels do). The label oracle compares the meta.json in the bucket with the block's own
// (pristine) labels overlaid with the set that was in force when that meta.json was uploaded; the local
// block directories are compared byte for byte with the blocks as the TSDB wrote them after every Sync and
// in every crash snapshot (the local directory is one real directory tree on one filesystem, so the
// shipper's hard links really share inodes with the local block).
package c35

import (
	"bytes"
	"context"
	"errors"
	"fmt"
	"io"
	"iter"
	"os"
	"path/filepath"
	"regexp"
	"sort"
	"strings"
	"sync"
	"testing"
	"time"

	"github.com/go-kit/log"
	"github.com/oklog/ulid/v2"
	"github.com/prometheus/prometheus/model/labels"
	"github.com/thanos-io/objstore"

	"github.com/thanos-io/thanos/pkg/block"
	"github.com/thanos-io/thanos/pkg/block/metadata"
	"github.com/thanos-io/thanos/pkg/shipper"
	"github.com/thanos-io/thanos/pkg/testutil/e2eutil"

	"verif/vcrash"
	"verif/vlib"
)

// block kinds (one symbol per branch of Sync's loop)
const (
	kindL1    = 0 // level 1, non-empty, 2 chunk segment files, no Thanos labels in the local meta (plain Prometheus block)
	kindL2    = 1 // level 2 (compacted), non-empty, 1 segment, stale external labels {replica=old} in the local meta
	kindEmpty = 2 // level 1, no samples
	nKinds    = 3
)

type Case struct {
	Blocks  []int `json:"blocks"`   // kinds of the local blocks in time order (oldest first)
	UC      bool  `json:"uc"`       // uploadCompacted
	OOO     bool  `json:"ooo"`      // allowOutOfOrderUploads
	Pre     int   `json:"pre"`      // the oldest Pre blocks exist during a first, uninterrupted Sync; the rest appear afterwards
	DieAt   int   `json:"die_at"`   // kill at this mutating bucket op of the second Sync (1-based; 0 = not killed)
	FileVar int   `json:"file_var"` // thanos.shipper.json at each restart: 0 as found, 1 removed, 2 truncated to half
	DieAt2  int   `json:"die_at2"`  // kill at this mutating op of the first Sync after the restart (0 = none)
	Fault   int   `json:"fault"`    // what happens at op DieAt: 0 = the process is killed, 1 = only that (mutating) operation fails (transient error), the process lives on, 2 = the DieAt-th READ operation (exists/iter/get) of that Sync fails transiently, the process lives on
	LC      int   `json:"lc"`       // external label set (index into lsets) in force after the faulted Sync; 0 = unchanged
	LC0     int   `json:"lc0"`      // external label set in force during the first, uninterrupted Sync (Pre > 0); 0 = the same as during the faulted Sync
}

// external label sets; the faulted Sync always runs with lsets[0].
var lsets = []labels.Labels{
	labels.FromStrings("cluster", "x", "replica", "a"),
	labels.FromStrings("cluster", "x"),                              // a label name disappears
	labels.FromStrings("cluster", "x", "replica", "a", "zone", "z"), // a label name appears
	labels.FromStrings("cluster", "x", "replica", "b"),              // a value changes
	// (no empty set: block.Upload refuses a block without any external label, so no Sync could succeed)
}

// number of label sets other than the base
const nLC = 3

type templates struct {
	base  string
	dir   [3][nKinds]string // [position][kind] directory holding exactly one block
	id    [3][nKinds]ulid.ULID
	meta  [3][nKinds]*metadata.Meta         // the block's meta.json as the TSDB wrote it
	files [3][nKinds]map[string][]byte      // every file of the block directory (slash-separated relative path -> content)
	infos [3][nKinds]map[string]os.FileInfo // their inode identity, size and mtime when the template was built
	mu    sync.Mutex
	n     int
}

func buildTemplates(t *testing.T) *templates {
	tp := &templates{base: t.TempDir()}
	var wg sync.WaitGroup
	var errs [3][nKinds]error
	for pos := 0; pos < 3; pos++ {
		for kind := 0; kind < nKinds; kind++ {
			wg.Add(1)
			go func() {
				defer wg.Done()
				mint, maxt := int64(1000*pos), int64(1000*(pos+1))
				d := filepath.Join(tp.base, fmt.Sprintf("tpl-%d-%d", pos, kind))
				var id ulid.ULID
				var err error
				switch kind {
				case kindL1:
					id, err = buildBlock(d, d+"-scratch", 2, mint, maxt, labels.EmptyLabels())
				case kindL2:
					id, err = buildBlock(d, "", 1, mint, maxt, labels.FromStrings("replica", "old"))
					if err == nil {
						err = setLevel(filepath.Join(d, id.String()), 2)
					}
				case kindEmpty:
					if err = os.MkdirAll(d, 0o755); err == nil {
						id, err = e2eutil.CreateEmptyBlock(d, mint, maxt, labels.EmptyLabels(), 0)
					}
				}
				tp.dir[pos][kind], tp.id[pos][kind] = d, id
				if err == nil {
					tp.meta[pos][kind], err = metadata.ReadFromDir(filepath.Join(d, id.String()))
				}
				if err == nil {
					tp.files[pos][kind], tp.infos[pos][kind], err = readTree(filepath.Join(d, id.String()), nil, nil)
				}
				errs[pos][kind] = err
			}()
		}
	}
	wg.Wait()
	seen := map[ulid.ULID]bool{}
	for pos := 0; pos < 3; pos++ {
		for kind := 0; kind < nKinds; kind++ {
			if errs[pos][kind] != nil {
				t.Fatalf("HARNESS-ERROR building template block pos %d kind %d: %v", pos, kind, errs[pos][kind])
			}
			if seen[tp.id[pos][kind]] {
				t.Fatalf("HARNESS-ERROR duplicate template block id %s", tp.id[pos][kind])
			}
			seen[tp.id[pos][kind]] = true
		}
	}
	return tp
}

func (tp *templates) tmp() string {
	tp.mu.Lock()
	tp.n++
	n := tp.n
	tp.mu.Unlock()
	return filepath.Join(tp.base, fmt.Sprintf("w%d", n))
}

// dyingBucket copies the local directory at the instant the injected crash happens: that copy is the
// disk state a killed process leaves behind (the in-process continuation - deferred cleanups, the meta
// file write - never happened). It also injects transient failures of one mutating operation and bounds
// the number of bucket operations one Sync may issue (step budget instead of a wall-clock hang detector).
type dyingBucket struct {
	*vcrash.Bucket
	once    sync.Once
	onDeath func()

	mu     sync.Mutex
	n      int // mutating operations seen
	failAt int // if >0: the failAt-th mutating operation is refused with a transient error (not applied)
	steps  int // bucket operations of the running Sync
	over   bool
}

var errTransient = errors.New("verif: injected transient write failure")
var errBudget = errors.New("verif: bucket operation budget of one Sync exhausted")

const stepBudget = 5000 // a Sync of <= 3 tiny blocks issues < 40 bucket operations

func (d *dyingBucket) step() error {
	d.mu.Lock()
	defer d.mu.Unlock()
	d.steps++
	if d.steps > stepBudget {
		d.over = true
		return errBudget
	}
	return nil
}

func (d *dyingBucket) transient() bool {
	d.mu.Lock()
	defer d.mu.Unlock()
	d.n++
	return d.failAt > 0 && d.n == d.failAt
}

func (d *dyingBucket) Upload(ctx context.Context, name string, r io.Reader, o ...objstore.ObjectUploadOption) error {
	if err := d.step(); err != nil {
		return err
	}
	if d.transient() {
		return errTransient
	}
	err := d.Bucket.Upload(ctx, name, r, o...)
	if errors.Is(err, vcrash.ErrCrashed) {
		d.once.Do(d.onDeath)
	}
	return err
}

func (d *dyingBucket) Delete(ctx context.Context, name string) error {
	if err := d.step(); err != nil {
		return err
	}
	if d.transient() {
		return errTransient
	}
	err := d.Bucket.Delete(ctx, name)
	if errors.Is(err, vcrash.ErrCrashed) {
		d.once.Do(d.onDeath)
	}
	return err
}

func (d *dyingBucket) Exists(ctx context.Context, name string) (bool, error) {
	if err := d.step(); err != nil {
		return false, err
	}
	return d.Bucket.Exists(ctx, name)
}

func (d *dyingBucket) Get(ctx context.Context, name string) (io.ReadCloser, error) {
	if err := d.step(); err != nil {
		return nil, err
	}
	return d.Bucket.Get(ctx, name)
}

func (d *dyingBucket) Iter(ctx context.Context, dir string, f func(string) error, o ...objstore.IterOption) error {
	if err := d.step(); err != nil {
		return err
	}
	return d.Bucket.Iter(ctx, dir, f, o...)
}

type world struct {
	r      *vlib.R
	c      Case
	report bool
	tp     *templates

	local string
	dirs  []string // every directory created, removed at the end
	bkt   *dyingBucket
	snap  string // local directory copy taken at the crash

	cur    int              // index into lsets of the external labels in force
	shp    *shipper.Shipper // the Shipper of the running process (nil = none yet / process was killed)
	nlocal int              // number of blocks (oldest first) that exist locally

	mu      sync.Mutex
	seen    map[string]bool // block ids observed complete in the bucket at some state
	uplAt   map[string]int  // block id -> label set in force when its meta.json was put into the bucket
	harness []string

	err     error // result of the faulted Sync (input of the continuation)
	aborted bool  // the first, fault-free Sync failed: nothing to continue
	forked  bool  // this world was forked from the state a kill left (local = crash snapshot, bucket = death snapshot)

	muts2, reads2, muts3 int // mutating / read ops of the (to be) faulted Sync; mutating ops of the first Sync after the restart
	successes            int
	neverSucceeds        bool
}

var logger = log.NewNopLogger()

var neverOnce sync.Once

func (w *world) violation(sig, desc string) {
	if w.report {
		w.r.Violation(sig, desc, w.c)
	}
}

func (w *world) harnessErr(s string) {
	w.mu.Lock()
	w.harness = append(w.harness, s)
	w.mu.Unlock()
}

// completeBlocks: ids whose meta.json is in objs and all files it lists are there with the recorded size.
func completeBlocks(objs map[string][]byte) map[string]*metadata.Meta {
	out := map[string]*metadata.Meta{}
	for name, content := range objs {
		i := strings.IndexByte(name, '/')
		if i < 0 || name[i+1:] != block.MetaFilename {
			continue
		}
		id := name[:i]
		if _, err := ulid.Parse(id); err != nil {
			continue
		}
		m, err := metadata.Read(io.NopCloser(bytes.NewReader(content)))
		if err != nil {
			continue
		}
		ok, listed := true, 0
		for _, f := range m.Thanos.Files {
			if f.RelPath == block.MetaFilename {
				continue
			}
			listed++
			got, present := objs[id+"/"+f.RelPath]
			if !present || int64(len(got)) != f.SizeBytes {
				ok = false
			}
		}
		if ok && listed >= 1 {
			out[id] = m
		}
	}
	return out
}

func (w *world) observe(objs map[string][]byte) {
	cb := completeBlocks(objs)
	w.mu.Lock()
	for id := range cb {
		w.seen[id] = true
	}
	w.mu.Unlock()
}

func (w *world) newBucket(objs map[string][]byte) {
	var b *vcrash.Bucket
	if objs == nil {
		b = vcrash.New()
	} else {
		b = vcrash.FromObjects(objs)
	}
	b.AfterMut = func(op vcrash.Op) {
		if w.report {
			w.r.AddTransitions(1)
		}
		if i := strings.IndexByte(op.Name, '/'); op.Kind == "upload" && i > 0 && op.Name[i+1:] == block.MetaFilename {
			w.mu.Lock()
			w.uplAt[op.Name[:i]] = w.cur
			w.mu.Unlock()
		}
		w.observe(b.Objects())
	}
	w.observe(b.Objects())
	d := &dyingBucket{Bucket: b}
	d.onDeath = func() {
		w.snap = w.tp.tmp()
		w.dirs = append(w.dirs, w.snap)
		if err := copyDir(w.local, w.snap); err != nil {
			w.harnessErr("snapshot of local dir: " + err.Error())
		}
	}
	w.bkt = d
}

func (w *world) addBlocks(from, to int) {
	for pos := from; pos < to; pos++ {
		if err := copyDir(w.tp.dir[pos][w.c.Blocks[pos]], w.local); err != nil {
			w.harnessErr("copy block: " + err.Error())
		}
	}
	if to > w.nlocal {
		w.nlocal = to
	}
}

// endProcess: the simulated process is gone (killed, or restarted); the next Sync builds a new Shipper.
func (w *world) endProcess() {
	if w.shp != nil {
		w.shp.Close()
		w.shp = nil
	}
}

// sync runs one Shipper.Sync of the current process. A panic of the code under test is a violation
// (and the end of that process); so is a Sync that does not stop issuing bucket operations.
func (w *world) sync() (err error) {
	if w.shp == nil {
		root, err := os.OpenRoot(w.local)
		if err != nil {
			w.harnessErr("open root: " + err.Error())
			return err
		}
		w.shp = shipper.New(w.bkt, root,
			shipper.WithLogger(logger),
			shipper.WithLabels(func() labels.Labels { return lsets[w.cur] }),
			shipper.WithSource(metadata.SidecarSource),
			shipper.WithUploadCompacted(w.c.UC),
			shipper.WithAllowOutOfOrderUploads(w.c.OOO))
	}
	w.bkt.mu.Lock()
	w.bkt.steps = 0
	w.bkt.mu.Unlock()
	defer func() {
		if p := recover(); p != nil {
			w.violation("shipper-sync-panicked", fmt.Sprintf("Shipper.Sync panicked: %v", p))
			w.endProcess()
			err = fmt.Errorf("panic in Sync: %v", p)
		}
		if w.bkt.over {
			w.violation("shipper-sync-exceeds-bucket-operation-budget", fmt.Sprintf("one Sync issued more than %d bucket operations", stepBudget))
		}
		if w.report {
			w.r.AddStates(1)
		}
	}()
	_, err = w.shp.Sync(context.Background())
	return err
}

// checkRecorded: second half of the statement, on the shipper meta file found in dir.
func (w *world) checkRecorded(dir, when string) {
	mf, err := shipper.ReadMetaFile(filepath.Join(dir, shipper.DefaultMetaFilename))
	if err != nil {
		return // absent or unreadable: records nothing
	}
	w.mu.Lock()
	defer w.mu.Unlock()
	for _, id := range mf.Uploaded {
		if !w.seen[id.String()] {
			w.violation("recorded-as-uploaded-but-never-complete-in-bucket-"+when,
				fmt.Sprintf("thanos.shipper.json lists %s, which was never observed complete in the bucket (objects now: %v)", id, objNames(w.bkt.Objects())))
		}
	}
}

// checkLocalBlocks: the blocks in the local TSDB directory are the subject of the statement ("every local
// block ... with all its files"); the shipper only reads them. Every file of every local block directory
// must be what the TSDB wrote (no file changed, added or removed).
func (w *world) checkLocalBlocks(dir, when string) {
	for pos := 0; pos < w.nlocal && pos < len(w.c.Blocks); pos++ {
		kind := w.c.Blocks[pos]
		id := w.tp.id[pos][kind].String()
		want := w.tp.files[pos][kind]
		got, _, err := readTree(filepath.Join(dir, id), w.tp.infos[pos][kind], want)
		if err != nil {
			w.violation("local-block-directory-modified-by-shipper",
				fmt.Sprintf("%s: local block %s (pos %d kind %d) cannot be read any more: %v", when, id, pos, kind, err))
			continue
		}
		var diffs []string
		for rel, b := range want {
			g, ok := got[rel]
			if !ok {
				diffs = append(diffs, rel+" removed")
			} else if !bytes.Equal(g, b) {
				diffs = append(diffs, fmt.Sprintf("%s changed (%d -> %d bytes)", rel, len(b), len(g)))
			}
		}
		for rel := range got {
			if _, ok := want[rel]; !ok {
				diffs = append(diffs, rel+" added")
			}
		}
		if len(diffs) > 0 {
			sort.Strings(diffs)
			desc := fmt.Sprintf("%s: local block %s (pos %d kind %d) differs from the block the TSDB wrote: %v", when, id, pos, kind, diffs)
			if g, ok := got[block.MetaFilename]; ok && !bytes.Equal(g, want[block.MetaFilename]) && len(g) < 1500 {
				desc += "; local meta.json now: " + string(g)
			}
			w.violation("local-block-directory-modified-by-shipper", desc)
		}
	}
}

// checkAfterSuccess: first half of the statement, after a Sync that returned nil. Reference = the blocks as
// the TSDB wrote them (the templates); that the local copies still equal them is checkLocalBlocks' job.
func (w *world) checkAfterSuccess(nblocks int) {
	objs := w.bkt.Objects()
	complete := completeBlocks(objs)
	for pos := 0; pos < nblocks; pos++ {
		kind := w.c.Blocks[pos]
		id := w.tp.id[pos][kind].String()
		lm := w.tp.meta[pos][kind]
		eligible := lm.Stats.NumSamples > 0 && (lm.Compaction.Level <= 1 || w.c.UC)
		if !eligible {
			continue
		}
		if _, ok := objs[id+"/"+block.MetaFilename]; !ok {
			w.violation("eligible-block-not-in-bucket-after-successful-sync",
				fmt.Sprintf("local block %s (pos %d kind %d) has no meta.json in the bucket after Sync returned nil; objects: %v", id, pos, kind, objNames(objs)))
			continue
		}
		m, ok := complete[id]
		if !ok {
			w.violation("eligible-block-incomplete-after-successful-sync",
				fmt.Sprintf("block %s has meta.json in the bucket but not all files it lists; objects: %v", id, objNames(objs)))
			continue
		}
		// all its files: every chunk segment and the index of the local block, byte for byte.
		for rel, want := range w.tp.files[pos][kind] {
			if rel != block.IndexFilename && !strings.HasPrefix(rel, block.ChunksDirname+"/") {
				continue
			}
			if got, ok := objs[id+"/"+rel]; !ok || !bytes.Equal(got, want) {
				w.violation("eligible-block-file-missing-or-different-after-successful-sync",
					fmt.Sprintf("block %s: %s in the bucket present=%v, differs from the local file", id, rel, ok))
			}
		}
		// the external labels that were current when the block's meta.json went into the bucket (a block that
		// is already in the bucket is not shipped again when the labels change later)
		w.mu.Lock()
		at, known := w.uplAt[id]
		w.mu.Unlock()
		if !known {
			w.harnessErr("no upload of " + id + "/meta.json was observed although it is in the bucket")
			continue
		}
		cur := lsets[at]
		lacks := false
		cur.Range(func(l labels.Label) {
			if m.Thanos.Labels[l.Name] != l.Value {
				lacks = true
			}
		})
		if lacks {
			w.violation("uploaded-block-lacks-current-external-label",
				fmt.Sprintf("block %s: bucket meta.json has labels %v, external labels at the time of its upload %s", id, m.Thanos.Labels, cur.String()))
			continue
		}
		// ... and nothing else: a label in the bucket meta that is neither a current external label nor a
		// label the block itself carried locally comes from somewhere else (an earlier attempt, an earlier
		// configuration) and makes the block part of a different stream.
		for name, v := range m.Thanos.Labels {
			if cur.Has(name) {
				continue
			}
			if own, ok := lm.Thanos.Labels[name]; ok && own == v {
				continue
			}
			w.violation("uploaded-block-carries-label-that-is-not-a-current-external-label",
				fmt.Sprintf("block %s: bucket meta.json has labels %v; %s=%q is neither in the external labels at the time of its upload (%s) nor in the block's own local meta.json (%v)",
					id, m.Thanos.Labels, name, v, cur.String(), lm.Thanos.Labels))
		}
	}
}

var ulidRe = regexp.MustCompile(`[0-9A-HJKMNP-TV-Z]{26}`)

// errClass: the error text without block ids, cut to a readable length (evidence counters only).
func errClass(err error) string {
	s := ulidRe.ReplaceAllString(err.Error(), "<id>")
	if len(s) > 120 {
		s = s[:120]
	}
	return s
}

func objNames(objs map[string][]byte) []string {
	out := make([]string, 0, len(objs))
	for n := range objs {
		out = append(out, n)
	}
	sort.Strings(out)
	return out
}

func (w *world) applyFileVar() {
	p := filepath.Join(w.local, shipper.DefaultMetaFilename)
	switch w.c.FileVar {
	case 1:
		os.Remove(p)
	case 2:
		if b, err := os.ReadFile(p); err == nil {
			os.WriteFile(p, b[:len(b)/2], 0o644)
		}
	}
}

func (w *world) cleanup() {
	w.endProcess()
	for _, d := range w.dirs {
		os.RemoveAll(d)
	}
	w.dirs = nil
}

// stem runs a history up to and including the faulted Sync (its result is w.err). The continuation
// (continueFrom) depends on FileVar, DieAt2 and LC only.
func stem(r *vlib.R, tp *templates, c Case, report bool) *world {
	w := &world{r: r, c: c, report: report, tp: tp, seen: map[string]bool{}, uplAt: map[string]int{}}
	w.local = tp.tmp()
	w.dirs = append(w.dirs, w.local)
	if err := os.MkdirAll(w.local, 0o755); err != nil {
		w.harnessErr(err.Error())
		return w
	}
	n := len(c.Blocks)
	w.newBucket(nil)
	if c.Pre > 0 {
		w.cur = c.LC0
		w.addBlocks(0, c.Pre)
		if err := w.sync(); err != nil {
			// never on the unchanged tree. The statement is conditional on a successful Sync: the history ends
			// here (a panic was already reported by sync); counted, and the run is vacuous if nothing succeeds.
			w.aborted = true
			if report {
				r.Add("first_fault_free_sync_failed: "+errClass(err), 1)
			}
			return w
		}
		w.successes++
		w.checkAfterSuccess(c.Pre)
		w.checkRecorded(w.local, "after-sync")
		w.checkLocalBlocks(w.local, "after the first Sync")
	}
	w.addBlocks(c.Pre, n)

	// the Sync that may be killed; the same process (Shipper), the base external labels
	w.cur = 0
	base, rbase := w.bkt.MutCount(), w.bkt.ReadCount()
	switch {
	case c.DieAt > 0 && c.Fault == 2:
		w.bkt.FailRead = rbase + c.DieAt
	case c.DieAt > 0 && c.Fault == 1:
		w.bkt.failAt = w.bkt.n + c.DieAt
	case c.DieAt > 0:
		w.bkt.DieAtMut = base + c.DieAt
	}
	w.err = w.sync()
	w.muts2 = w.bkt.MutCount() - base
	w.reads2 = w.bkt.ReadCount() - rbase
	return w
}

// fork: an independent copy of the state the faulted Sync left: if it was killed, the crash snapshot of
// the local directory and the objects that had reached the bucket; otherwise the live directory and bucket.
// Only used for continuations that start a new process (a new Shipper on the copied directory).
func (st *world) fork(c Case) *world {
	w := &world{r: st.r, c: c, report: st.report, tp: st.tp, seen: map[string]bool{}, uplAt: map[string]int{},
		cur: st.cur, nlocal: st.nlocal, err: st.err, muts2: st.muts2, reads2: st.reads2}
	st.mu.Lock()
	for k, v := range st.seen {
		w.seen[k] = v
	}
	for k, v := range st.uplAt {
		w.uplAt[k] = v
	}
	st.mu.Unlock()
	src, objs := st.local, st.bkt.Objects()
	if st.bkt.Dead() {
		w.forked = true
		src, objs = st.snap, st.bkt.DeathSnapshot()
		if src == "" {
			w.harnessErr("bucket died but no local snapshot was taken")
			src = st.local
		}
	}
	w.local = st.tp.tmp()
	w.dirs = append(w.dirs, w.local)
	if err := copyDir(src, w.local); err != nil {
		w.harnessErr("fork of local dir: " + err.Error())
	}
	if objs == nil {
		objs = map[string][]byte{}
	}
	w.newBucket(objs)
	return w
}

// continueFrom runs the rest of the history on the state the faulted Sync left.
func (w *world) continueFrom() {
	if len(w.harness) > 0 || w.bkt == nil || w.aborted {
		return
	}
	r, c, report := w.r, w.c, w.report
	n := len(c.Blocks)
	err := w.err
	w.cur = c.LC // the external labels change (or not) after the faulted Sync
	restarts := 0
	for attempt := 0; ; attempt++ {
		if w.forked || w.bkt.Dead() {
			if w.forked {
				w.forked = false // local directory and bucket already are the crash state
			} else {
				if w.snap == "" {
					w.harnessErr("bucket died but no local snapshot was taken")
					return
				}
				w.local, w.snap = w.snap, ""
				w.newBucket(w.bkt.DeathSnapshot())
			}
			w.endProcess()
			if report && len(w.bkt.Objects()) > 0 {
				r.Nontrivial(fmt.Sprintf("%v/%v/%v/%d/%d/%d/%d/%d/%d", c.Blocks, c.UC, c.OOO, c.Pre, c.DieAt, c.FileVar, c.DieAt2, c.LC, c.LC0))
			}
		} else if err == nil {
			w.successes++
			w.checkAfterSuccess(n)
			w.checkRecorded(w.local, "after-sync")
			w.checkLocalBlocks(w.local, "after a successful Sync")
			if restarts >= 1 || (c.DieAt == 0 && c.FileVar == 0 && c.LC == 0) {
				return
			}
			// a kill right after the Sync (meta-file step): same bucket, new process
			w.endProcess()
		} else {
			// Sync failed without an injected crash: the process lives on and syncs again
			w.checkRecorded(w.local, "after-failed-sync")
			w.checkLocalBlocks(w.local, "after a failed Sync")
			if report && c.Fault != 0 {
				r.Nontrivial(fmt.Sprintf("transient/%d/%v/%v/%v/%d/%d/%d/%d", c.Fault, c.Blocks, c.UC, c.OOO, c.Pre, c.DieAt, c.LC, c.LC0))
			}
			if attempt >= 3 {
				w.neverSucceeds = true
				if report {
					r.Add("histories_where_sync_never_succeeds_again", 1)
					r.Add("never_succeeds_again: "+errClass(err), 1)
					neverOnce.Do(func() {
						r.Note("outside the statement (it is conditional on a successful sync): in some histories no Sync succeeds any more after the crash; first example %+v: %v", c, err)
					})
				}
				return
			}
			err = w.sync()
			continue
		}
		// restart
		restarts++
		w.checkRecorded(w.local, "at-crash")
		w.checkLocalBlocks(w.local, "in the directory a killed process left")
		w.applyFileVar()
		if restarts == 1 && c.DieAt2 > 0 {
			w.bkt.DieAtMut = w.bkt.MutCount() + c.DieAt2
		}
		m0 := w.bkt.MutCount()
		err = w.sync()
		if restarts == 1 {
			w.muts3 = w.bkt.MutCount() - m0
		}
	}
}

// run evaluates one history from scratch.
func run(r *vlib.R, tp *templates, c Case, report bool) *world {
	w := stem(r, tp, c, report)
	w.continueFrom()
	w.cleanup()
	return w
}

// variants of a kill history that share the faulted Sync: what the restarted process finds
// (thanos.shipper.json as found / removed / truncated) x the external labels it runs with.
func variants(r *vlib.R, c Case) []Case {
	var out []Case
	for fv := 0; fv <= 2; fv++ {
		for lc := 0; lc <= nLC; lc++ {
			if fv != 0 && lc != 0 {
				continue
			}
			v := c
			v.FileVar, v.LC = fv, lc
			out = append(out, v)
		}
	}
	return out
}

func gen(r *vlib.R, tp *templates) iter.Seq[Case] {
	maxLen := vlib.Pick(r, 2, 3)
	return func(yield func(Case) bool) {
		for seq := range vlib.TuplesUpTo(1, maxLen, nKinds) {
			for _, uc := range []bool{false, true} {
				for _, ooo := range []bool{false, true} {
					for pre := 0; pre < len(seq); pre++ {
						for lc0 := 0; lc0 <= nLC; lc0++ {
							if lc0 != 0 && pre == 0 {
								continue // no first Sync: nothing ran with other labels
							}
							base := Case{Blocks: seq, UC: uc, OOO: ooo, Pre: pre, LC0: lc0}
							if lc0 != 0 && !r.Thorough() {
								// quick: labels changed between two complete Syncs of one process, no fault
								if !yield(base) {
									return
								}
								continue
							}
							bw := run(r, tp, base, false)
							nlc := nLC
							if lc0 != 0 {
								nlc = 0 // one label change per history: before the faulted Sync or after it
							}
							// the process lives on: one mutating / one read operation fails, the labels change (or not), Sync again
							for k := 1; k <= bw.muts2; k++ {
								for lc := 0; lc <= nlc; lc++ {
									c := base
									c.DieAt, c.Fault, c.LC = k, 1, lc
									if !yield(c) {
										return
									}
								}
							}
							for j := 1; j <= bw.reads2; j++ {
								for lc := 0; lc <= nlc; lc++ {
									c := base
									c.DieAt, c.Fault, c.LC = j, 2, lc
									if !yield(c) {
										return
									}
								}
							}
							// the process is killed at op k (0 = right after the Sync): one group per k, expanded by variants()
							for k := 0; k <= bw.muts2; k++ {
								c := base
								c.DieAt = k
								if !yield(c) {
									return
								}
							}
						}
					}
				}
			}
		}
	}
}

func validCase(c Case) bool {
	if len(c.Blocks) < 1 || len(c.Blocks) > 3 || c.Pre < 0 || c.Pre > len(c.Blocks) || c.LC < 0 || c.LC >= len(lsets) || c.LC0 < 0 || c.LC0 >= len(lsets) ||
		c.Fault < 0 || c.Fault > 2 || c.FileVar < 0 || c.FileVar > 2 || c.DieAt < 0 || c.DieAt2 < 0 {
		return false
	}
	for _, k := range c.Blocks {
		if k < 0 || k >= nKinds {
			return false
		}
	}
	return true
}

func TestCheck(t *testing.T) {
	r := vlib.New(t, "C35")
	defer r.Finish()
	r.Rule("local block sequences (time order) of length 1..2 (thorough 1..3) over {level-1 non-empty, level-2 non-empty, empty} x uploadCompacted x allowOutOfOrderUploads " +
		"x number of oldest blocks shipped by an earlier complete Sync x {kill at every mutating bucket op k of the next Sync (0 = none) x (thanos.shipper.json at restart {as found, removed, truncated} + external labels after the fault {name removed, name added, value changed}) " +
		"| transient failure of mutating op k or of read op j, process (same Shipper) lives x external labels after the fault {unchanged, name removed, name added, value changed}} " +
		"+ external labels {name added, name removed, value changed} between the earlier complete Sync and the next one (quick: without fault; thorough: with every kill / transient fault) " +
		"(thorough: x second kill at every op k2 of the restarted Sync, file as found, labels unchanged and - up to 2 blocks - changed); non-trivial = distinct histories whose crash leaves a non-empty bucket or whose faulted Sync fails")
	r.Assume("object PUT is atomic; the local directory a killed process leaves is the directory as copied at the instant the k-th operation is refused; " +
		"external labels change only between Syncs, 'current' labels of a block = those in force when its meta.json was put into the bucket (blocks already in the bucket are not re-labelled); " +
		"nobody else deletes blocks from the bucket; upload concurrency 1")
	t0 := time.Now()
	tp := buildTemplates(t)
	r.Set("template_build_s", time.Since(t0).Seconds())
	var harness sync.Map
	var succ, never, lchist int64
	var mu sync.Mutex
	account := func(w *world) {
		for _, h := range w.harness {
			harness.Store(h, w.c)
		}
		mu.Lock()
		succ += int64(w.successes)
		if w.neverSucceeds {
			never++
		}
		if w.c.LC != 0 || w.c.LC0 != 0 {
			lchist++
		}
		mu.Unlock()
	}
	forEach(r, gen(r, tp), func(c Case) {
		if !validCase(c) {
			t.Errorf("HARNESS-ERROR bad case %+v", c)
			return
		}
		if r.Replaying() || c.Fault != 0 || c.LC0 != 0 {
			// one history, one process as long as it is not killed
			account(run(r, tp, c, true))
			r.Sample(c)
			return
		}
		// kill family: the faulted Sync is run once, every continuation starts a new process on a copy of the
		// state it left (replaying one of these cases runs the same history from scratch)
		st := stem(r, tp, c, true)
		defer st.cleanup()
		account(st)
		if len(st.harness) > 0 || st.aborted {
			return
		}
		if !st.bkt.Dead() && st.err != nil {
			// the faulted Sync failed by itself: the process lives, no shared state; run every variant from scratch
			for i, v := range variants(r, c) {
				account(run(r, tp, v, true))
				r.Sample(v)
				if i > 0 {
					r.Eval(1)
				}
			}
			return
		}
		for i, v := range variants(r, c) {
			w := st.fork(v)
			w.continueFrom()
			w.cleanup()
			account(w)
			r.Sample(v)
			if i > 0 {
				r.Eval(1)
			}
			if r.Thorough() && c.DieAt > 0 && v.FileVar == 0 && c.LC0 == 0 && (v.LC == 0 || len(c.Blocks) <= 2) {
				// second level: kill the restarted Sync at each of its mutating operations
				for k2 := 1; k2 <= w.muts3; k2++ {
					v2 := v
					v2.DieAt2 = k2
					w2 := st.fork(v2)
					w2.continueFrom()
					w2.cleanup()
					account(w2)
					r.Eval(1)
					r.Sample(v2)
				}
			}
		}
	})
	r.Set("successful_syncs_checked", succ)
	r.Set("histories_with_label_change", lchist)
	harness.Range(func(k, v any) bool {
		t.Errorf("HARNESS-ERROR %v (case %+v)", k, v)
		return true
	})
	if !r.Replaying() && succ == 0 {
		t.Errorf("HARNESS-ERROR vacuous: no successful Sync was checked")
	}
}
