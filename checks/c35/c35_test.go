// C35: the shipper uploads every eligible block completely, at least once.
//
// Engine E2 (crash-point enumeration on the real Shipper.Sync with a real local TSDB directory).
// A history is: an optional first complete Sync with the oldest `pre` blocks, the remaining blocks appear,
// a Sync that is killed at mutating bucket operation k (the local directory is copied at that very instant,
// the bucket keeps what was applied before k), a restart of a *fresh* Shipper on both (with
// thanos.shipper.json as found | removed | truncated), optionally a second kill at operation k2, and Syncs
// until one returns nil. After every Sync that returns nil the first half of the statement is evaluated,
// after every Sync (and on every crash snapshot) the second half.
package c35

import (
	"bytes"
	"context"
	"errors"
	"fmt"
	"io"
	"iter"
	"os"
	"path/filepath"
	"sort"
	"strings"
	"sync"
	"testing"
	"time"

	"github.com/go-kit/log"
	"github.com/oklog/ulid/v2"
	"github.com/prometheus/prometheus/model/labels"
	"github.com/thanos-io/objstore"

	"github.com/thanos-io/thanos/pkg/block"
	"github.com/thanos-io/thanos/pkg/block/metadata"
	"github.com/thanos-io/thanos/pkg/shipper"
	"github.com/thanos-io/thanos/pkg/testutil/e2eutil"

	"verif/vcrash"
	"verif/vlib"
)

// block kinds (one symbol per branch of Sync's loop)
const (
	kindL1    = 0 // level 1, non-empty, 2 chunk segment files, no Thanos labels in the local meta (plain Prometheus block)
	kindL2    = 1 // level 2 (compacted), non-empty, 1 segment, stale external labels {replica=old} in the local meta
	kindEmpty = 2 // level 1, no samples
	nKinds    = 3
)

type Case struct {
	Blocks  []int `json:"blocks"`   // kinds of the local blocks in time order (oldest first)
	UC      bool  `json:"uc"`       // uploadCompacted
	OOO     bool  `json:"ooo"`      // allowOutOfOrderUploads
	Pre     int   `json:"pre"`      // the oldest Pre blocks exist during a first, uninterrupted Sync; the rest appear afterwards
	DieAt   int   `json:"die_at"`   // kill at this mutating bucket op of the second Sync (1-based; 0 = not killed)
	FileVar int   `json:"file_var"` // thanos.shipper.json at each restart: 0 as found, 1 removed, 2 truncated to half
	DieAt2  int   `json:"die_at2"`  // kill at this mutating op of the first Sync after the restart (0 = none)
	Fault   int   `json:"fault"`    // what happens at op DieAt: 0 = the process is killed, 1 = only that operation fails (transient error), the process lives on
}

var curLset = labels.FromStrings("cluster", "x", "replica", "a")

type templates struct {
	base string
	dir  [3][nKinds]string // [position][kind] directory holding exactly one block
	id   [3][nKinds]ulid.ULID
	mu   sync.Mutex
	n    int
}

func buildTemplates(t *testing.T) *templates {
	tp := &templates{base: t.TempDir()}
	var wg sync.WaitGroup
	var errs [3][nKinds]error
	for pos := 0; pos < 3; pos++ {
		for kind := 0; kind < nKinds; kind++ {
			wg.Add(1)
			go func() {
				defer wg.Done()
				mint, maxt := int64(1000*pos), int64(1000*(pos+1))
				d := filepath.Join(tp.base, fmt.Sprintf("tpl-%d-%d", pos, kind))
				var id ulid.ULID
				var err error
				switch kind {
				case kindL1:
					id, err = buildBlock(d, d+"-scratch", 2, mint, maxt, labels.EmptyLabels())
				case kindL2:
					id, err = buildBlock(d, "", 1, mint, maxt, labels.FromStrings("replica", "old"))
					if err == nil {
						err = setLevel(filepath.Join(d, id.String()), 2)
					}
				case kindEmpty:
					if err = os.MkdirAll(d, 0o755); err == nil {
						id, err = e2eutil.CreateEmptyBlock(d, mint, maxt, labels.EmptyLabels(), 0)
					}
				}
				errs[pos][kind] = err
				tp.dir[pos][kind], tp.id[pos][kind] = d, id
			}()
		}
	}
	wg.Wait()
	seen := map[ulid.ULID]bool{}
	for pos := 0; pos < 3; pos++ {
		for kind := 0; kind < nKinds; kind++ {
			if errs[pos][kind] != nil {
				t.Fatalf("HARNESS-ERROR building template block pos %d kind %d: %v", pos, kind, errs[pos][kind])
			}
			if seen[tp.id[pos][kind]] {
				t.Fatalf("HARNESS-ERROR duplicate template block id %s", tp.id[pos][kind])
			}
			seen[tp.id[pos][kind]] = true
		}
	}
	return tp
}

func (tp *templates) tmp() string {
	tp.mu.Lock()
	tp.n++
	n := tp.n
	tp.mu.Unlock()
	return filepath.Join(tp.base, fmt.Sprintf("w%d", n))
}

// dyingBucket copies the local directory at the instant the injected crash happens: that copy is the
// disk state a killed process leaves behind (the in-process continuation - deferred cleanups, the meta
// file write - never happened).
type dyingBucket struct {
	*vcrash.Bucket
	once    sync.Once
	onDeath func()

	mu     sync.Mutex
	n      int // mutating operations seen
	failAt int // if >0: the failAt-th mutating operation is refused with a transient error (not applied)
}

var errTransient = errors.New("verif: injected transient write failure")

func (d *dyingBucket) transient() bool {
	d.mu.Lock()
	defer d.mu.Unlock()
	d.n++
	return d.failAt > 0 && d.n == d.failAt
}

func (d *dyingBucket) Upload(ctx context.Context, name string, r io.Reader, o ...objstore.ObjectUploadOption) error {
	if d.transient() {
		return errTransient
	}
	err := d.Bucket.Upload(ctx, name, r, o...)
	if errors.Is(err, vcrash.ErrCrashed) {
		d.once.Do(d.onDeath)
	}
	return err
}

func (d *dyingBucket) Delete(ctx context.Context, name string) error {
	if d.transient() {
		return errTransient
	}
	err := d.Bucket.Delete(ctx, name)
	if errors.Is(err, vcrash.ErrCrashed) {
		d.once.Do(d.onDeath)
	}
	return err
}

type world struct {
	r      *vlib.R
	c      Case
	report bool
	tp     *templates

	local string
	dirs  []string // every directory created, removed at the end
	bkt   *dyingBucket
	snap  string // local directory copy taken at the crash

	mu      sync.Mutex
	seen    map[string]bool // block ids observed complete in the bucket at some state
	harness []string

	muts2, muts3  int // mutating ops attempted by the (to be) crashed Sync / by the first Sync after the restart
	successes     int
	neverSucceeds bool
}

var logger = log.NewNopLogger()

var neverOnce sync.Once

func (w *world) violation(sig, desc string) {
	if w.report {
		w.r.Violation(sig, desc, w.c)
	}
}

// completeBlocks: ids whose meta.json is in objs and all files it lists are there with the recorded size.
func completeBlocks(objs map[string][]byte) map[string]*metadata.Meta {
	out := map[string]*metadata.Meta{}
	for name, content := range objs {
		i := strings.IndexByte(name, '/')
		if i < 0 || name[i+1:] != block.MetaFilename {
			continue
		}
		id := name[:i]
		if _, err := ulid.Parse(id); err != nil {
			continue
		}
		m, err := metadata.Read(io.NopCloser(bytes.NewReader(content)))
		if err != nil {
			continue
		}
		ok, listed := true, 0
		for _, f := range m.Thanos.Files {
			if f.RelPath == block.MetaFilename {
				continue
			}
			listed++
			got, present := objs[id+"/"+f.RelPath]
			if !present || int64(len(got)) != f.SizeBytes {
				ok = false
			}
		}
		if ok && listed >= 1 {
			out[id] = m
		}
	}
	return out
}

func (w *world) observe(objs map[string][]byte) {
	cb := completeBlocks(objs)
	w.mu.Lock()
	for id := range cb {
		w.seen[id] = true
	}
	w.mu.Unlock()
}

func (w *world) newBucket(objs map[string][]byte) {
	var b *vcrash.Bucket
	if objs == nil {
		b = vcrash.New()
	} else {
		b = vcrash.FromObjects(objs)
	}
	b.AfterMut = func(op vcrash.Op) {
		if w.report {
			w.r.AddTransitions(1)
		}
		w.observe(b.Objects())
	}
	w.observe(b.Objects())
	d := &dyingBucket{Bucket: b}
	d.onDeath = func() {
		w.snap = w.tp.tmp()
		w.dirs = append(w.dirs, w.snap)
		if err := copyDir(w.local, w.snap); err != nil {
			w.harness = append(w.harness, "snapshot of local dir: "+err.Error())
		}
	}
	w.bkt = d
}

func (w *world) addBlocks(from, to int) {
	for pos := from; pos < to; pos++ {
		if err := copyDir(w.tp.dir[pos][w.c.Blocks[pos]], w.local); err != nil {
			w.harness = append(w.harness, "copy block: "+err.Error())
		}
	}
}

func (w *world) sync() error {
	root, err := os.OpenRoot(w.local)
	if err != nil {
		w.harness = append(w.harness, "open root: "+err.Error())
		return err
	}
	s := shipper.New(w.bkt, root,
		shipper.WithLogger(logger),
		shipper.WithLabels(func() labels.Labels { return curLset }),
		shipper.WithSource(metadata.SidecarSource),
		shipper.WithUploadCompacted(w.c.UC),
		shipper.WithAllowOutOfOrderUploads(w.c.OOO))
	defer s.Close()
	_, err = s.Sync(context.Background())
	if w.report {
		w.r.AddStates(1)
	}
	return err
}

// checkRecorded: second half of the statement, on the shipper meta file found in dir.
func (w *world) checkRecorded(dir, when string) {
	mf, err := shipper.ReadMetaFile(filepath.Join(dir, shipper.DefaultMetaFilename))
	if err != nil {
		return // absent or unreadable: records nothing
	}
	w.mu.Lock()
	defer w.mu.Unlock()
	for _, id := range mf.Uploaded {
		if !w.seen[id.String()] {
			w.violation("recorded-as-uploaded-but-never-complete-in-bucket-"+when,
				fmt.Sprintf("thanos.shipper.json lists %s, which was never observed complete in the bucket (objects now: %v)", id, objNames(w.bkt.Objects())))
		}
	}
}

// checkAfterSuccess: first half of the statement, after a Sync that returned nil.
func (w *world) checkAfterSuccess(nblocks int) {
	objs := w.bkt.Objects()
	complete := completeBlocks(objs)
	for pos := 0; pos < nblocks; pos++ {
		kind := w.c.Blocks[pos]
		id := w.tp.id[pos][kind].String()
		lm, err := metadata.ReadFromDir(filepath.Join(w.local, id))
		if err != nil {
			w.harness = append(w.harness, "local meta: "+err.Error())
			continue
		}
		eligible := lm.Stats.NumSamples > 0 && (lm.Compaction.Level <= 1 || w.c.UC)
		if !eligible {
			continue
		}
		if _, ok := objs[id+"/"+block.MetaFilename]; !ok {
			w.violation("eligible-block-not-in-bucket-after-successful-sync",
				fmt.Sprintf("local block %s (pos %d kind %d) has no meta.json in the bucket after Sync returned nil; objects: %v", id, pos, kind, objNames(objs)))
			continue
		}
		m, ok := complete[id]
		if !ok {
			w.violation("eligible-block-incomplete-after-successful-sync",
				fmt.Sprintf("block %s has meta.json in the bucket but not all files it lists; objects: %v", id, objNames(objs)))
			continue
		}
		// all its files: every chunk segment and the index of the local block, byte for byte.
		var rels []string
		es, _ := os.ReadDir(filepath.Join(w.local, id, block.ChunksDirname))
		for _, e := range es {
			rels = append(rels, block.ChunksDirname+"/"+e.Name())
		}
		rels = append(rels, block.IndexFilename)
		for _, rel := range rels {
			want, err := os.ReadFile(filepath.Join(w.local, id, rel))
			if err != nil {
				w.harness = append(w.harness, "read local file: "+err.Error())
				continue
			}
			if got, ok := objs[id+"/"+rel]; !ok || !bytes.Equal(got, want) {
				w.violation("eligible-block-file-missing-or-different-after-successful-sync",
					fmt.Sprintf("block %s: %s in the bucket present=%v, differs from the local file", id, rel, ok))
			}
		}
		curLset.Range(func(l labels.Label) {
			if m.Thanos.Labels[l.Name] != l.Value {
				w.violation("uploaded-block-lacks-current-external-label",
					fmt.Sprintf("block %s: bucket meta.json has labels %v, current external labels %s", id, m.Thanos.Labels, curLset.String()))
			}
		})
	}
}

func objNames(objs map[string][]byte) []string {
	out := make([]string, 0, len(objs))
	for n := range objs {
		out = append(out, n)
	}
	sort.Strings(out)
	return out
}

func (w *world) applyFileVar() {
	p := filepath.Join(w.local, shipper.DefaultMetaFilename)
	switch w.c.FileVar {
	case 1:
		os.Remove(p)
	case 2:
		if b, err := os.ReadFile(p); err == nil {
			os.WriteFile(p, b[:len(b)/2], 0o644)
		}
	}
}

func run(r *vlib.R, tp *templates, c Case, report bool) *world {
	w := &world{r: r, c: c, report: report, tp: tp, seen: map[string]bool{}}
	defer func() {
		for _, d := range w.dirs {
			os.RemoveAll(d)
		}
	}()
	w.local = tp.tmp()
	w.dirs = append(w.dirs, w.local)
	if err := os.MkdirAll(w.local, 0o755); err != nil {
		w.harness = append(w.harness, err.Error())
		return w
	}
	n := len(c.Blocks)
	w.newBucket(nil)
	if c.Pre > 0 {
		w.addBlocks(0, c.Pre)
		if err := w.sync(); err != nil {
			w.harness = append(w.harness, "first uninterrupted Sync failed: "+err.Error())
			return w
		}
		w.successes++
		w.checkAfterSuccess(c.Pre)
		w.checkRecorded(w.local, "after-sync")
	}
	w.addBlocks(c.Pre, n)

	// the Sync that may be killed
	base := w.bkt.MutCount()
	if c.DieAt > 0 && c.Fault == 1 {
		w.bkt.failAt = w.bkt.n + c.DieAt
	} else if c.DieAt > 0 {
		w.bkt.DieAtMut = base + c.DieAt
	}
	err := w.sync()
	w.muts2 = w.bkt.MutCount() - base
	restarts := 0
	for attempt := 0; ; attempt++ {
		if w.bkt.Dead() {
			if w.snap == "" {
				w.harness = append(w.harness, "bucket died but no local snapshot was taken")
				return w
			}
			if report && len(w.bkt.DeathSnapshot()) > 0 {
				r.Nontrivial(fmt.Sprintf("%v/%v/%v/%d/%d/%d/%d", c.Blocks, c.UC, c.OOO, c.Pre, c.DieAt, c.FileVar, c.DieAt2))
			}
			w.local, w.snap = w.snap, ""
			w.newBucket(w.bkt.DeathSnapshot())
		} else if err == nil {
			w.successes++
			w.checkAfterSuccess(n)
			w.checkRecorded(w.local, "after-sync")
			if restarts >= 1 || (c.DieAt == 0 && c.FileVar == 0) {
				return w
			}
			// a kill right after the Sync (meta-file step): same bucket, fresh shipper
		} else {
			// Sync failed without an injected crash
			w.checkRecorded(w.local, "after-failed-sync")
			if report && c.Fault == 1 {
				r.Nontrivial(fmt.Sprintf("transient/%v/%v/%v/%d/%d", c.Blocks, c.UC, c.OOO, c.Pre, c.DieAt))
			}
			if attempt >= 3 {
				w.neverSucceeds = true
				if report {
					r.Add("histories_where_sync_never_succeeds_again", 1)
					neverOnce.Do(func() {
						r.Note("outside the statement (it is conditional on a successful sync): in some histories no Sync succeeds any more after the crash; first example %+v: %v", c, err)
					})
				}
				return w
			}
			err = w.sync()
			continue
		}
		// restart
		restarts++
		w.checkRecorded(w.local, "at-crash")
		w.applyFileVar()
		if restarts == 1 && c.DieAt2 > 0 {
			w.bkt.DieAtMut = c.DieAt2
		}
		err = w.sync()
		if restarts == 1 {
			w.muts3 = w.bkt.MutCount()
		}
	}
}

func gen(r *vlib.R, tp *templates) iter.Seq[Case] {
	maxLen := vlib.Pick(r, 2, 3)
	return func(yield func(Case) bool) {
		for seq := range vlib.TuplesUpTo(1, maxLen, nKinds) {
			for _, uc := range []bool{false, true} {
				for _, ooo := range []bool{false, true} {
					for pre := 0; pre < len(seq); pre++ {
						base := Case{Blocks: seq, UC: uc, OOO: ooo, Pre: pre}
						nops := run(r, tp, base, false).muts2
						for k := 1; k <= nops; k++ {
							c := base
							c.DieAt, c.Fault = k, 1
							if !yield(c) {
								return
							}
						}
						for k := 0; k <= nops; k++ {
							for fv := 0; fv <= 2; fv++ {
								c := base
								c.DieAt, c.FileVar = k, fv
								if !yield(c) {
									return
								}
							}
						}
					}
				}
			}
		}
	}
}

func TestCheck(t *testing.T) {
	r := vlib.New(t, "C35")
	defer r.Finish()
	r.Rule("local block sequences (time order) of length 1..2 (thorough 1..3) over {level-1 non-empty, level-2 non-empty, empty} x uploadCompacted x allowOutOfOrderUploads " +
		"x number of oldest blocks shipped by an earlier complete Sync x {kill at every mutating bucket op k of the next Sync (0 = none) x thanos.shipper.json at restart {as found, removed, truncated} | transient failure of op k, process lives} " +
		"(thorough: x second kill at every op k2 of the restarted Sync, file as found); non-trivial = distinct histories whose crash leaves a non-empty bucket")
	r.Assume("object PUT is atomic; the local directory a killed process leaves is the directory as copied at the instant the k-th operation is refused; " +
		"external labels do not change between restarts; nobody else deletes blocks from the bucket; upload concurrency 1")
	t0 := time.Now()
	tp := buildTemplates(t)
	r.Set("template_build_s", time.Since(t0).Seconds())
	var harness sync.Map
	var succ, never int64
	var mu sync.Mutex
	forEach(r, gen(r, tp), func(c Case) {
		if len(c.Blocks) < 1 || len(c.Blocks) > 3 || c.Pre < 0 || c.Pre > len(c.Blocks) {
			t.Errorf("HARNESS-ERROR bad case %+v", c)
			return
		}
		for _, k := range c.Blocks {
			if k < 0 || k >= nKinds {
				t.Errorf("HARNESS-ERROR bad case %+v", c)
				return
			}
		}
		ws := []*world{run(r, tp, c, true)}
		r.Sample(c)
		if r.Thorough() && c.Fault == 0 && c.DieAt > 0 && c.FileVar == 0 && c.DieAt2 == 0 && !r.Replaying() {
			// second level: kill the restarted Sync at each of its mutating operations (count known from the run above)
			for k2 := 1; k2 <= ws[0].muts3; k2++ {
				c2 := c
				c2.DieAt2 = k2
				ws = append(ws, run(r, tp, c2, true))
				r.Eval(1)
				r.Sample(c2)
			}
		}
		for _, w := range ws {
			for _, h := range w.harness {
				harness.Store(h, w.c)
			}
			mu.Lock()
			succ += int64(w.successes)
			if w.neverSucceeds {
				never++
			}
			mu.Unlock()
		}
	})
	r.Set("successful_syncs_checked", succ)
	harness.Range(func(k, v any) bool {
		t.Errorf("HARNESS-ERROR %v (case %+v)", k, v)
		return true
	})
	if !r.Replaying() && succ == 0 {
		t.Errorf("HARNESS-ERROR vacuous: no successful Sync was checked")
	}
}
