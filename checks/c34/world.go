package c34

import (
	"bytes"
	"context"
	"encoding/binary"
	"encoding/json"
	"fmt"
	"io"
	"sort"
	"strings"
	"time"

	"github.com/go-kit/log"
	"github.com/oklog/ulid/v2"
	"github.com/prometheus/client_golang/prometheus"
	"github.com/prometheus/prometheus/model/labels"
	"github.com/prometheus/prometheus/model/relabel"
	"github.com/thanos-io/objstore"

	"github.com/thanos-io/thanos/pkg/block"
	"github.com/thanos-io/thanos/pkg/block/metadata"
	"github.com/thanos-io/thanos/pkg/compact"
	thanosmodel "github.com/thanos-io/thanos/pkg/model"
)

// block catalogue of Compaction.tla (Sources / Results / Src / JobIn / JobOut)
func modelBlocks(njobs int) []string {
	if njobs == 1 {
		return []string{"s1", "s2", "r"}
	}
	return []string{"s1", "s2", "s3", "r", "t"}
}

func modelSrc(b string) []string {
	switch b {
	case "r":
		return []string{"s1", "s2"}
	case "t":
		return []string{"s1", "s2", "s3"}
	}
	return []string{b}
}

func modelJobOut(job int) string {
	if job == 1 {
		return "r"
	}
	return "t"
}

func isSource(b string) bool { return strings.HasPrefix(b, "s") }

func initialState(p Params) MState {
	st := MState{Files: map[string]string{}, Mark: map[string]int{}, Job: 1, Phase: "data", GW: make([]GState, p.gateways())}
	for g := range st.GW {
		st.GW[g] = GState{View: []string{}, Pending: []string{}}
	}
	for _, b := range modelBlocks(p.NJobs) {
		st.Mark[b] = -1
		if isSource(b) {
			st.Files[b] = "complete"
			g := p.owner(b) - 1
			st.GW[g].View = append(st.GW[g].View, b)
		} else {
			st.Files[b] = "none"
		}
	}
	for g := range st.GW {
		sort.Strings(st.GW[g].View)
	}
	return st
}

// faultBucket lets the cleaner's deletions fail after meta.json (a crash in the middle of block.Delete).
type faultBucket struct {
	objstore.Bucket
	failNonMetaDeletes bool
}

func (f *faultBucket) Delete(ctx context.Context, name string) error {
	if f.failNonMetaDeletes && !strings.HasSuffix(name, "/"+block.MetaFilename) {
		return fmt.Errorf("injected: connection lost while deleting %s", name)
	}
	return f.Bucket.Delete(ctx, name)
}

// world is the real system: an object storage bucket, the store gateway's meta fetcher wired as in
// cmd/thanos/store.go, the compactor's fetcher + BlocksCleaner wired as in cmd/thanos/compact.go, and the
// gateway's installed / pending view.
type world struct {
	p      Params
	ctx    context.Context
	logger log.Logger
	mem    *objstore.InMemBucket
	fault  *faultBucket
	start  time.Time
	ticks  int64

	ids   map[string]ulid.ULID
	names map[ulid.ULID]string

	gateways  []*block.MetaFetcher // gateway g = gateways[g-1]
	compactor *block.MetaFetcher
	cleaner   *compact.BlocksCleaner
	markCnt   prometheus.Counter

	view, pending [][]string
	syncing       []bool
}

// Sharding of a gateway set as documented in docs/sharding.md: hashmod on the special label __block_id,
// every gateway keeps one residue.
const shardHashmodYAML = `
- action: hashmod
  source_labels: ["__block_id"]
  target_label: shard
  modulus: %d
`
const shardKeepYAML = `- action: keep
  source_labels: ["shard"]
  regex: "%d"
`

// shardRelabel is the --selector.relabel-config of gateway g (1-based) of a set of n gateways.
func shardRelabel(g, n int) ([]*relabel.Config, error) {
	return block.ParseRelabelConfig([]byte(fmt.Sprintf(shardHashmodYAML, n)+fmt.Sprintf(shardKeepYAML, g-1)), block.SelectorSupportedRelabelActions)
}

// shardOf tells which gateway of a set of n a block id hashes to (the same relabel step the gateways run).
func shardOf(id ulid.ULID, n int) (int, error) {
	cfg, err := block.ParseRelabelConfig([]byte(fmt.Sprintf(shardHashmodYAML, n)), block.SelectorSupportedRelabelActions)
	if err != nil {
		return 0, err
	}
	lset, keep := relabel.Process(labels.FromStrings(block.BlockIDLabel, id.String()), cfg...)
	if !keep {
		return 0, fmt.Errorf("hashmod step dropped the label set")
	}
	var k int
	if _, err := fmt.Sscanf(lset.Get("shard"), "%d", &k); err != nil || k < 0 || k >= n {
		return 0, fmt.Errorf("hashmod step produced shard=%q", lset.Get("shard"))
	}
	return k + 1, nil
}

// newULID makes the id of model block `name` with timestamp ts; in a sharded gateway set the entropy is
// searched until the id hashes to the gateway the model assigns the block to.
func newULID(p Params, name string, ts time.Time) (ulid.ULID, error) {
	for k := uint32(0); k < 4096; k++ {
		var ent [10]byte
		copy(ent[:6], "c34"+name)
		binary.BigEndian.PutUint32(ent[6:], k)
		id, err := ulid.New(ulid.Timestamp(ts), bytes.NewReader(ent[:]))
		if err != nil {
			return id, err
		}
		if p.gateways() == 1 {
			return id, nil
		}
		g, err := shardOf(id, p.gateways())
		if err != nil {
			return id, err
		}
		if g == p.owner(name) {
			return id, nil
		}
	}
	return ulid.ULID{}, fmt.Errorf("no id for block %s hashes to gateway %d", name, p.owner(name))
}

// sourceAge: the level-1 blocks exist for a long time when the model starts (older than any consistency delay).
const sourceAge = 1000 * time.Hour

// storeFilters builds the gateway's filter chain in the order written in cmd/thanos/store.go.
func storeFilters(w Wiring, logger log.Logger, bkt objstore.InstrumentedBucketReader, ignore *block.IgnoreDeletionMarkFilter, conc int, relabelConfig []*relabel.Config, consistency time.Duration) ([]block.MetadataFilter, error) {
	var out []block.MetadataFilter
	for _, item := range w.StoreChain {
		switch {
		case item == "parquetConvertedBlocksFilter":
			f, err := block.NewIgnoreParquetConvertedBlocksFilter(logger, nil, conc, nil)
			if err != nil {
				return nil, err
			}
			out = append(out, f)
		case strings.HasPrefix(item, "block.NewTimePartitionMetaFilter("):
			var lo, hi thanosmodel.TimeOrDurationValue
			if err := lo.Set(w.StoreMinTime); err != nil {
				return nil, err
			}
			if err := hi.Set(w.StoreMaxTime); err != nil {
				return nil, err
			}
			out = append(out, block.NewTimePartitionMetaFilter(lo, hi))
		case strings.HasPrefix(item, "block.NewLabelShardedMetaFilter("):
			out = append(out, block.NewLabelShardedMetaFilter(relabelConfig))
		case strings.HasPrefix(item, "block.NewConsistencyDelayMetaFilter("):
			out = append(out, block.NewConsistencyDelayMetaFilter(logger, consistency, nil))
		case item == "ignoreDeletionMarkFilter":
			out = append(out, ignore)
		case strings.HasPrefix(item, "block.NewDeduplicateFilter("):
			out = append(out, block.NewDeduplicateFilter(conc))
		default:
			return nil, fmt.Errorf("store.go filter chain entry %q is unknown to the harness", item)
		}
	}
	return out, nil
}

const fetchConc = 4

func newWorld(p Params, w Wiring) (*world, error) {
	wd := &world{p: p, ctx: context.Background(), logger: log.NewNopLogger(), mem: objstore.NewInMemBucket(),
		ids: map[string]ulid.ULID{}, names: map[ulid.ULID]string{}, start: time.Now(),
		markCnt: prometheus.NewCounter(prometheus.CounterOpts{Name: "c34_marked"})}
	wd.fault = &faultBucket{Bucket: wd.mem}
	ins := objstore.WithNoopInstr(wd.mem)

	// store gateways (cmd/thanos/store.go), each with its own fetcher and filter instances
	ng := p.gateways()
	wd.view, wd.pending, wd.syncing = make([][]string, ng), make([][]string, ng), make([]bool, ng)
	var err error
	for g := 1; g <= ng; g++ {
		var relabelConfig []*relabel.Config
		if ng > 1 {
			if relabelConfig, err = shardRelabel(g, ng); err != nil {
				return nil, err
			}
		}
		gwIgnore := block.NewIgnoreDeletionMarkFilter(wd.logger, ins, time.Duration(p.IgnoreMarksDelayS)*time.Second, fetchConc)
		filters, err := storeFilters(w, wd.logger, ins, gwIgnore, fetchConc, relabelConfig, time.Duration(p.GwConsistencyS)*time.Second)
		if err != nil {
			return nil, err
		}
		f, err := block.NewMetaFetcher(wd.logger, fetchConc, ins, block.NewConcurrentLister(wd.logger, ins), "", nil, filters)
		if err != nil {
			return nil, err
		}
		wd.gateways = append(wd.gateways, f)
	}

	// compactor (cmd/thanos/compact.go): fetcher filters up to the duplicate filter, and the cleaner
	deleteDelay := time.Duration(p.DeleteDelayS) * time.Second
	cIgnore := block.NewIgnoreDeletionMarkFilter(wd.logger, ins, deleteDelay/time.Duration(p.CompactIgnoreDiv), fetchConc)
	var lo, hi thanosmodel.TimeOrDurationValue
	_ = lo.Set("0000-01-01T00:00:00Z")
	_ = hi.Set("9999-12-31T23:59:59Z")
	var replicaLabels []string
	if p.Repl {
		replicaLabels = []string{"replica"}
	}
	cFilters := []block.MetadataFilter{
		block.NewTimePartitionMetaFilter(lo, hi),
		block.NewLabelShardedMetaFilter(nil, replicaLabels...),
		block.NewConsistencyDelayMetaFilter(wd.logger, w.CompactConsistency, nil),
		cIgnore,
		block.NewReplicaLabelRemover(wd.logger, replicaLabels),
		block.NewDeduplicateFilter(fetchConc),
	}
	wd.compactor, err = block.NewMetaFetcher(wd.logger, fetchConc, ins, block.NewConcurrentLister(wd.logger, ins), "", nil, cFilters)
	if err != nil {
		return nil, err
	}
	cnt := prometheus.NewCounter(prometheus.CounterOpts{Name: "c34_cleaned"})
	wd.cleaner = compact.NewBlocksCleaner(wd.logger, wd.fault, cIgnore, deleteDelay, cnt, cnt)

	// initial bucket: every source complete; every gateway has synced once
	for _, b := range modelBlocks(p.NJobs) {
		if !isSource(b) {
			continue
		}
		if err := wd.assignID(b, time.Now().Add(-sourceAge)); err != nil {
			return nil, err
		}
		if err := wd.uploadData(b); err != nil {
			return nil, err
		}
		if err := wd.uploadMeta(b); err != nil {
			return nil, err
		}
	}
	for g := range wd.gateways {
		if err := wd.syncBegin(g); err != nil {
			return nil, err
		}
		wd.syncEnd(g)
	}
	return wd, nil
}

func (wd *world) assignID(b string, ts time.Time) error {
	id, err := newULID(wd.p, b, ts)
	if err != nil {
		return err
	}
	wd.ids[b] = id
	wd.names[id] = b
	return nil
}

func (wd *world) uploadData(b string) error {
	id := wd.ids[b].String()
	if err := wd.mem.Upload(wd.ctx, id+"/"+block.ChunksDirname+"/000001", strings.NewReader("chunks-of-"+b)); err != nil {
		return err
	}
	return wd.mem.Upload(wd.ctx, id+"/"+block.IndexFilename, strings.NewReader("index-of-"+b))
}

func (wd *world) uploadMeta(b string) error {
	m := metadata.Meta{}
	m.ULID = wd.ids[b]
	m.Version = metadata.TSDBVersion1
	m.MinTime, m.MaxTime = 0, 7200000
	m.Stats.NumSamples, m.Stats.NumSeries, m.Stats.NumChunks = 10, 1, 1
	for _, s := range modelSrc(b) {
		m.Compaction.Sources = append(m.Compaction.Sources, wd.ids[s])
	}
	sort.Slice(m.Compaction.Sources, func(i, j int) bool { return m.Compaction.Sources[i].Compare(m.Compaction.Sources[j]) < 0 })
	m.Compaction.Level = 1
	m.Thanos.Version = metadata.ThanosVersion1
	m.Thanos.Labels = map[string]string{"cluster": "one"}
	if wd.p.Repl && isSource(b) {
		// what a sidecar of an HA pair uploads; the compactor (--deduplication.replica-label=replica) writes
		// its results without the label
		m.Thanos.Labels["replica"] = "a"
		if b == "s2" {
			m.Thanos.Labels["replica"] = "b"
		}
	}
	m.Thanos.Source = metadata.SidecarSource
	if !isSource(b) {
		m.Compaction.Level = 2
		if b == "t" {
			m.Compaction.Level = 3
		}
		m.Thanos.Source = metadata.CompactorSource
		for _, in := range modelSrc(b) {
			m.Compaction.Parents = append(m.Compaction.Parents, tsdbBlockDesc(wd.ids[in]))
		}
	}
	var buf bytes.Buffer
	if err := m.Write(&buf); err != nil {
		return err
	}
	return wd.mem.Upload(wd.ctx, wd.ids[b].String()+"/"+block.MetaFilename, &buf)
}

// do executes one model action on the real system. from/to are the model states around the edge (the
// parameters of UploadData/UploadMeta/MarkSource are read from them).
func (wd *world) do(act string, from, to MState) error {
	switch act {
	case "UploadData":
		b := modelJobOut(from.Job)
		if err := wd.assignID(b, time.Now()); err != nil {
			return err
		}
		return wd.uploadData(b)
	case "UploadMeta":
		return wd.uploadMeta(modelJobOut(from.Job))
	case "MarkSource":
		var which string
		for b, a := range from.Mark {
			if a == -1 && to.Mark[b] == 0 {
				if which != "" {
					return fmt.Errorf("harness: MarkSource edge marks more than one block")
				}
				which = b
			}
		}
		if which == "" {
			return fmt.Errorf("harness: MarkSource edge marks no block")
		}
		return block.MarkForDeletion(wd.ctx, wd.logger, wd.mem, wd.ids[which], "source of compacted block", wd.markCnt)
	case "Clean", "CleanCrash":
		// what the compactor's cleanup does: sync metas (this fills the deletion-mark map of its
		// IgnoreDeletionMarkFilter), then delete the blocks whose mark is old enough
		if _, _, err := wd.compactor.Fetch(wd.ctx); err != nil {
			return fmt.Errorf("compactor fetch: %v", err)
		}
		wd.fault.failNonMetaDeletes = act == "CleanCrash"
		_, err := wd.cleaner.DeleteMarkedBlocks(wd.ctx)
		wd.fault.failNonMetaDeletes = false
		if act == "CleanCrash" {
			if err == nil {
				return fmt.Errorf("DeleteMarkedBlocks did not report the injected delete failure")
			}
			return nil
		}
		return err
	case "SyncBegin", "SyncEnd":
		// the gateway whose sync starts / ends on this edge
		which := -1
		for g := range from.GW {
			if g < len(to.GW) && from.GW[g].Syncing != to.GW[g].Syncing {
				if which >= 0 {
					return fmt.Errorf("harness: %s edge changes more than one gateway", act)
				}
				which = g
			}
		}
		if which < 0 || which >= len(wd.gateways) {
			return fmt.Errorf("harness: %s edge changes no gateway", act)
		}
		if act == "SyncBegin" {
			return wd.syncBegin(which)
		}
		wd.syncEnd(which)
		return nil
	case "Tick":
		time.Sleep(time.Duration(wd.p.TickS) * time.Second)
		wd.ticks++
		return nil
	}
	return fmt.Errorf("harness: unknown action %q", act)
}

func (wd *world) syncBegin(g int) error {
	metas, _, err := wd.gateways[g].Fetch(wd.ctx)
	if err != nil {
		return fmt.Errorf("gateway %d fetch: %v", g+1, err)
	}
	wd.pending[g] = wd.pending[g][:0]
	for id := range metas {
		n, ok := wd.names[id]
		if !ok {
			return fmt.Errorf("gateway %d fetch returned unknown block %s", g+1, id)
		}
		wd.pending[g] = append(wd.pending[g], n)
	}
	sort.Strings(wd.pending[g])
	wd.syncing[g] = true
	return nil
}

func (wd *world) syncEnd(g int) {
	wd.view[g] = append([]string(nil), wd.pending[g]...)
	wd.pending[g] = wd.pending[g][:0]
	wd.syncing[g] = false
}

// observed is the abstraction of the real state onto the model's variables (the compactor's program
// counter and the scheduling counters have no real counterpart).
type observed struct {
	Files   map[string]string `json:"files"` // none | partial | complete | meta-only
	Mark    map[string]int    `json:"mark"`
	View    [][]string        `json:"view"`    // per gateway
	Pending [][]string        `json:"pending"` // per gateway
	Syncing []bool            `json:"syncing"` // per gateway
}

func (o observed) String() string {
	b, _ := json.Marshal(o)
	return string(b)
}

func abstractModel(st MState) observed {
	o := observed{Files: map[string]string{}, Mark: map[string]int{}}
	for _, g := range st.GW {
		o.View = append(o.View, append([]string{}, g.View...))
		o.Pending = append(o.Pending, append([]string{}, g.Pending...))
		o.Syncing = append(o.Syncing, g.Syncing)
	}
	for b, f := range st.Files {
		if f == "data" || f == "nometa" {
			f = "partial"
		}
		o.Files[b] = f
		o.Mark[b] = st.Mark[b]
	}
	return o
}

func (wd *world) observe() (observed, error) {
	o := observed{Files: map[string]string{}, Mark: map[string]int{}}
	for g := range wd.gateways {
		o.View = append(o.View, append([]string{}, wd.view[g]...))
		o.Pending = append(o.Pending, append([]string{}, wd.pending[g]...))
		o.Syncing = append(o.Syncing, wd.syncing[g])
	}
	// virtual time must be exactly on a tick boundary: nothing in the real code may have slept
	if el := time.Since(wd.start); el != time.Duration(wd.ticks*wd.p.TickS)*time.Second {
		return o, fmt.Errorf("harness: virtual clock drifted: %v elapsed after %d ticks of %ds", el, wd.ticks, wd.p.TickS)
	}
	type has struct{ meta, data, mark bool }
	seen := map[string]*has{}
	for _, b := range modelBlocks(wd.p.NJobs) {
		seen[b] = &has{}
	}
	for name := range wd.mem.Objects() {
		parts := strings.SplitN(name, "/", 2)
		id, err := ulid.Parse(parts[0])
		if err != nil || len(parts) != 2 {
			return o, fmt.Errorf("unexpected object %q in the bucket", name)
		}
		b, ok := wd.names[id]
		if !ok {
			return o, fmt.Errorf("object %q of an unknown block in the bucket", name)
		}
		switch parts[1] {
		case block.MetaFilename:
			seen[b].meta = true
		case metadata.DeletionMarkFilename:
			seen[b].mark = true
		case block.IndexFilename, block.ChunksDirname + "/000001":
			seen[b].data = true
		default:
			return o, fmt.Errorf("unexpected object %q in the bucket", name)
		}
	}
	capAge := wd.p.D
	if wd.p.I > capAge {
		capAge = wd.p.I
	}
	capAge++
	now := time.Now().Unix()
	for b, h := range seen {
		switch {
		case h.meta && h.data:
			o.Files[b] = "complete"
		case h.data:
			o.Files[b] = "partial"
		case h.meta:
			o.Files[b] = "meta-only"
		default:
			o.Files[b] = "none"
		}
		o.Mark[b] = -1
		if h.mark {
			rc, err := wd.mem.Get(wd.ctx, wd.ids[b].String()+"/"+metadata.DeletionMarkFilename)
			if err != nil {
				return o, err
			}
			raw, _ := io.ReadAll(rc)
			rc.Close()
			var dm metadata.DeletionMark
			if err := json.Unmarshal(raw, &dm); err != nil {
				return o, fmt.Errorf("deletion mark of %s unreadable: %v", b, err)
			}
			age := now - dm.DeletionTime
			if age < 0 || age%wd.p.TickS != 0 {
				return o, fmt.Errorf("deletion mark of %s has age %ds, not a whole number of ticks", b, age)
			}
			a := int(age / wd.p.TickS)
			if a > capAge {
				a = capAge
			}
			o.Mark[b] = a
		}
	}
	return o, nil
}
