// C34: compactor and store-gateway delays keep data queryable (model).
//
// Engine E5. Compaction.tla (this directory) is model checked by TLC with constants derived at run time
// from the flag defaults in cmd/thanos/compact.go and cmd/thanos/store.go; TLC dumps the complete state
// graph; a set of traces from the initial state that covers EVERY edge is replayed against the real code
// (block.MarkForDeletion, compact.BlocksCleaner.DeleteMarkedBlocks behind the compactor's meta fetcher,
// a real block.MetaFetcher with the store gateway's filter chain in the order written in store.go, uploads
// of real meta.json files, virtual clock of testing/synctest) and after every step the abstraction of the
// real bucket / gateway view is compared with the model's target state. The program order of the model's
// Compactor process is bound to the real compactor by order_test.go.
package c34

import (
	"fmt"
	"os"
	"path/filepath"
	"reflect"
	"runtime"
	"strings"
	"sync"
	"sync/atomic"
	"testing"
	"testing/synctest"
	"time"

	"github.com/oklog/ulid/v2"
	"github.com/prometheus/prometheus/tsdb"

	"verif/vlib"
)

func tsdbBlockDesc(id ulid.ULID) tsdb.BlockDesc {
	return tsdb.BlockDesc{ULID: id, MinTime: 0, MaxTime: 7200000}
}

type Step struct {
	Act string `json:"act"`
	To  MState `json:"to"`
}

// Case is a replayable artefact: a trace of model actions with the expected model state after each
// ("path"), the constants of a TLC run whose invariant failed ("tlc"), or the constants of a model whose
// Compactor process the real compactor's operation order does not follow ("order").
type Case struct {
	Kind  string `json:"kind"`
	P     Params `json:"p"`
	Steps []Step `json:"steps,omitempty"`
	// Kind "order": the abstracted action sequence of the real compactor up to the failing action (informational;
	// the replay runs the real compactor again)
	Real []string `json:"real,omitempty"`
}

func envOr(k, def string) string {
	if v := os.Getenv(k); v != "" {
		return v
	}
	return def
}

// replayPath runs one trace on a fresh real system (must be called inside a synctest bubble). fresh(i)
// is called for every step that conformed.
func replayPath(r *vlib.R, w Wiring, c Case, conformed func(i int, changed bool)) {
	wd, err := newWorld(c.P, w)
	if err != nil {
		r.T.Errorf("HARNESS-ERROR cannot build the real system: %v", err)
		return
	}
	cur := initialState(c.P)
	got, err := wd.observe()
	if err != nil || !reflect.DeepEqual(got, abstractModel(cur)) {
		r.Violation("conformance-initial-state", fmt.Sprintf("real initial state %v (err %v) differs from the model's %v", got, err, abstractModel(cur)), Case{Kind: "path", P: c.P})
		return
	}
	for i, st := range c.Steps {
		fail := func(sig, desc string) {
			r.Violation(sig, fmt.Sprintf("step %d (%s) from model state %v: %s", i+1, st.Act, cur, desc), Case{Kind: "path", P: c.P, Steps: c.Steps[:i+1]})
		}
		if err := wd.do(st.Act, cur, st.To); err != nil {
			fail("real-operation-failed-"+st.Act, err.Error())
			return
		}
		got, err := wd.observe()
		if err != nil {
			fail("real-state-not-abstractable-after-"+st.Act, err.Error())
			return
		}
		want := abstractModel(st.To)
		if !reflect.DeepEqual(got, want) {
			field := "syncing"
			switch {
			case !reflect.DeepEqual(got.Files, want.Files):
				field = "files"
			case !reflect.DeepEqual(got.Mark, want.Mark):
				field = "marks"
			case !reflect.DeepEqual(got.Pending, want.Pending):
				field = "listing"
			case !reflect.DeepEqual(got.View, want.View):
				field = "view"
			}
			fail("conformance-"+st.Act+"-"+field, fmt.Sprintf("real system is in %v, the model expects %v", got, want))
			return
		}
		if conformed != nil {
			conformed(i, !reflect.DeepEqual(abstractModel(cur), want))
		}
		cur = st.To
	}
}

type modelCfg struct {
	ticksPerMax, njobs int
	replica            bool
	owner2             []string // non-empty: two gateways sharded by hashmod(__block_id), these blocks hash to the second
}

func flowName(p Params) string {
	flow := "plain"
	if p.Repl {
		flow = "replica-label"
	}
	if p.gateways() > 1 {
		var first []string
		for _, b := range modelBlocks(p.NJobs) {
			if p.owner(b) == 1 {
				first = append(first, b)
			}
		}
		flow += fmt.Sprintf("/sharded(%s|%s)", strings.Join(first, ","), strings.Join(p.Owner2, ","))
	}
	return flow
}

func TestCheck(t *testing.T) {
	r := vlib.New(t, "C34")
	defer r.Finish()
	repo := envOr("VERIF_REPO", "/repo")
	specPath := filepath.Join(envOr("VERIF_DIR", "/verif"), "checks", "c34", "Compaction.tla")
	w, err := extractWiring(repo)
	if err != nil {
		t.Fatalf("HARNESS-ERROR reading the wiring from %s: %v", repo, err)
	}
	r.Rule("TLC explores every reachable state of Compaction.tla for constants scaled from the flag defaults, the gateway filter chain in the order of cmd/thanos/store.go, one gateway and a two-gateway set sharded by hashmod(__block_id); every edge of the dumped state graph is replayed on the real code " +
		"inside traces from the initial state (each step compared); per model configuration the real compactor runs one fault-free main-loop iteration per tick on real blocks isomorphic to the model's catalogue and its " +
		"mutating bucket operations, abstracted into UploadData/UploadMeta/MarkSource/Clean, must be the projection of a path of the state graph (program order of the Compactor process); " +
		"non-trivial = distinct graph edges replayed on the real code whose action changed the bucket, a mark age, the listing or the view, plus every real compactor action validated against the graph")
	r.Assume(
		"the protocol is the model Compaction.tla: a fixed compaction schedule (s1+s2 -> r, then r+s3 -> t), the cleaner may run at any time, the gateway syncs at least every L ticks and a sync takes at most one tick; " +
			"the order of the compactor's steps (data, then meta.json, then the marks of the sources; Clean only of blocks marked for longer than the delete delay) is NOT assumed: it is checked on the real compactor's operation log of fault-free iterations (checks/c29/rig wiring of runCompact, drift-checked; downsampling is a no-op for the small blocks)",
		"one tick = max(delete-delay, ignore-deletion-marks-delay)/N; delete-delay and ignore-deletion-marks-delay are exact in ticks (floor is exact for 'age > delay' on whole-tick ages), the sync period 15m is rounded UP to one tick",
		"conformance is checked on traces of the model executed on the real components with a virtual clock, and on the real compactor's fault-free cycles (where retention, BestEffortCleanAbortedPartialUploads, garbage collection and the planner run and must not produce any operation the model does not have); compactor crashes and faulty iterations are not part of the model; installing a listing as the gateway's view is done by the harness (BucketStore.SyncBlocks is not driven)",
		"the real components get the real flag durations; every gateway's filter chain is built in the order parsed from cmd/thanos/store.go (the same order is the model's constant Chain); fetch concurrency 4 instead of 32",
		"sharded gateway sets: two gateways with the relabel config 'hashmod __block_id % 2 -> keep own residue' (docs/sharding.md), block ids chosen so that the real hashmod assigns them as the model's Owner2 says, store --consistency-delay 30m (model: that filter keeps every block of the catalogue - results are compactor-made and exempt, sources are 1000h old); only assignments that separate a source from its replacement; quick tier (and the two-job set of the thorough tier): TLC explores the whole graph, the real code replays the edges reachable when no sync spans a tick boundary",
	)
	r.Set("wiring", fmt.Sprintf("%+v", w))

	var rc Case
	if r.ReplayCase(&rc) {
		r.Eval(1)
		if rc.Kind == "tlc" {
			// the constants are derived again from the source tree being checked
			p, err := scale(w, rc.P.N, rc.P.NJobs, rc.P.Repl, rc.P.Owner2)
			if err != nil {
				t.Fatalf("HARNESS-ERROR %v", err)
			}
			res, err := runTLC(specPath, t.TempDir(), p, false, 4)
			if err != nil {
				t.Fatalf("HARNESS-ERROR %v", err)
			}
			if res.Violated != "" {
				r.Violation("protocol-invariant-"+res.Violated+"-violated", res.Trace, Case{Kind: "tlc", P: p})
			}
			return
		}
		if rc.Kind == "order" {
			p, err := scale(w, rc.P.N, rc.P.NJobs, rc.P.Repl, nil)
			if err != nil {
				t.Fatalf("HARNESS-ERROR %v", err)
			}
			dir := t.TempDir()
			res, err := runTLC(specPath, dir, p, true, 4)
			if err != nil {
				t.Fatalf("HARNESS-ERROR %v", err)
			}
			if res.Violated != "" {
				r.Violation("protocol-invariant-"+res.Violated+"-violated", res.Trace, Case{Kind: "tlc", P: p})
				return
			}
			g, err := parseDot(filepath.Join(dir, "graph.dot"))
			if err != nil {
				t.Fatalf("HARNESS-ERROR parsing TLC's state graph: %v", err)
			}
			tmp := t.TempDir()
			sets := startOrderSets(t, []modelCfg{{p.N, p.NJobs, p.Repl, nil}}, tmp)
			checkProgramOrder(t, r, w, sets, p, g, tmp)
			return
		}
		synctest.Test(t, func(t *testing.T) { replayPath(r, w, rc, nil) })
		return
	}

	// the deadline is watched outside the synctest bubbles (inside them time.Now is the virtual clock)
	var expired atomic.Bool
	stopWatch := make(chan struct{})
	defer close(stopWatch)
	go func() {
		for {
			select {
			case <-stopWatch:
				return
			case <-time.After(time.Second):
				if r.Expired("trace replay stopped early") {
					expired.Store(true)
					return
				}
			}
		}
	}()

	// gateway sets: one gateway (as before), and two gateways sharded by hashmod on __block_id with the two
	// assignments of {s1, s2, r} that separate a source from its replacement (s1 and s2 are interchangeable in the
	// plain flow; all blocks on one gateway is the unsharded model plus an idle gateway)
	// (quick: s1 | s2,r - one gateway relies on the deletion mark only, the other one on the duplicate filter too)
	shardR, shardS1 := []string{"r"}, []string{"s1"}
	cfgs := vlib.Pick(r,
		[]modelCfg{{8, 1, false, nil}, {8, 1, true, nil}, {4, 1, false, shardS1}},
		[]modelCfg{{8, 1, false, nil}, {8, 1, true, nil}, {4, 1, false, shardS1}, {4, 1, false, shardR}, {4, 2, false, nil}, {4, 2, true, nil}, {6, 2, false, nil}, {6, 2, true, nil},
			{8, 1, false, shardS1}, {8, 1, false, shardR}, {4, 2, false, []string{"s1", "t"}}})
	// all TLC runs side by side: per configuration the flag-default constants (with state graph), the
	// detection demo (smallest sync period beyond the bound: must violate an invariant) and, for the plain
	// flow, L = D-I for the record.
	type tlcRun struct {
		p                  Params
		main, demo, info   TLCResult
		mainErr, demoErr   error
		infoErr            error
		mainDir            string
		bound              int
		hasInfo            bool
		demoP, infoP       Params
	}
	runs := make([]*tlcRun, len(cfgs))
	// the real blocks of the program-order conformance are built while TLC runs
	orderTmp := t.TempDir()
	oSets := startOrderSets(t, cfgs, orderTmp)
	defer oSets.wait()
	var wg sync.WaitGroup
	for i, mc := range cfgs {
		p, err := scale(w, mc.ticksPerMax, mc.njobs, mc.replica, mc.owner2)
		if err != nil {
			t.Fatalf("HARNESS-ERROR scaling the flag defaults: %v", err)
		}
		tr := &tlcRun{p: p, mainDir: t.TempDir()}
		runs[i] = tr
		// Served / NoDangling need the staleness of the view, L+S, to stay within D when the duplicate filter
		// hides replaced blocks (plain flow) and within D-I when only the deletion mark hides them (replica flow)
		// and, in a sharded set, additionally within I (the gateway owning the replacement must list it before the
		// gateway owning the marked source stops listing the source)
		tr.bound = p.D
		if p.Repl || p.gateways() > 1 {
			tr.bound = p.D - p.I
		}
		if p.gateways() > 1 && p.I < tr.bound {
			tr.bound = p.I
		}
		tr.demoP = p
		tr.demoP.L = tr.bound - p.S + 1
		if tr.demoP.L < 1 {
			tr.demoP.L = 1
		}
		tr.infoP = p
		tr.infoP.L = p.D - p.I
		tr.hasInfo = r.Thorough() && !p.Repl && p.gateways() == 1 && tr.infoP.L >= 1 && tr.infoP.L != p.L && tr.infoP.L != tr.demoP.L
		demoDir, infoDir := t.TempDir(), t.TempDir()
		wg.Add(2)
		go func() { defer wg.Done(); tr.main, tr.mainErr = runTLC(specPath, tr.mainDir, tr.p, true, 4) }()
		go func() { defer wg.Done(); tr.demo, tr.demoErr = runTLC(specPath, demoDir, tr.demoP, false, 2) }()
		if tr.hasInfo {
			wg.Add(1)
			go func() { defer wg.Done(); tr.info, tr.infoErr = runTLC(specPath, infoDir, tr.infoP, false, 2) }()
		}
	}
	wg.Wait()

	for _, tr := range runs {
		p := tr.p
		flow := flowName(p)
		r.Note("model %d job(s), %s flow: tick=%ds D=%d I=%d L=%d S=%d (delete-delay=%ds ignore-deletion-marks-delay=%ds sync-block-duration=%ds store consistency-delay=%ds) gateways=%d chain=%v", p.NJobs, flow, p.TickS, p.D, p.I, p.L, p.S, p.DeleteDelayS, p.IgnoreMarksDelayS, p.SyncIntervalS, p.GwConsistencyS, p.gateways(), p.Chain)
		mainRes, mainDir := tr.main, tr.mainDir
		r.Note("TLC cost (%d job(s), %s flow): flag defaults %.0fs CPU / %.0fs wall, detection demo %.0fs CPU / %.0fs wall", p.NJobs, flow, tr.main.CPU, tr.main.Wall, tr.demo.CPU, tr.demo.Wall)
		if tr.mainErr != nil {
			t.Fatalf("HARNESS-ERROR TLC (flag defaults): %v", tr.mainErr)
		}
		if tr.demoErr != nil {
			t.Fatalf("HARNESS-ERROR TLC (detection demo): %v", tr.demoErr)
		}
		if mainRes.Violated != "" {
			r.Violation("protocol-invariant-"+mainRes.Violated+"-violated", fmt.Sprintf("TLC with the constants of the flag defaults (%+v):\n%s", p, mainRes.Trace), Case{Kind: "tlc", P: p})
			continue
		}
		if p.L+p.S <= tr.bound {
			// self-validation: the model is able to fail
			if tr.demo.Violated != "Served" && tr.demo.Violated != "NoDangling" {
				t.Fatalf("HARNESS-ERROR detection demo: TLC with L=%d (L+S > %d) did not report a violated invariant (got %q); the model cannot detect anything", tr.demoP.L, tr.bound, tr.demo.Violated)
			}
			rel := "L+S > D"
			if p.Repl {
				rel = "L = D-I, i.e. L+S > D-I"
			}
			if p.gateways() > 1 {
				rel = "L+S > min(I, D-I)"
			}
			r.Note("detection demo (%d job(s), %s flow): with L=%d (%s) TLC reports invariant %s violated after %d distinct states", p.NJobs, flow, tr.demoP.L, rel, tr.demo.Violated, tr.demo.Distinct)
			r.Add("demo_runs_violating", 1)
		}
		if tr.hasInfo && tr.infoErr == nil {
			r.Note("for the record (%d job(s), plain flow): with L=D-I=%d TLC reports violated=%q (%d distinct states): in the plain flow the duplicate filter hides the sources as soon as the result is listed, the ignore-deletion-marks delay never decides visibility and the bound is L+S<=D", p.NJobs, tr.infoP.L, tr.info.Violated, tr.info.Distinct)
		}

		g, err := parseDot(filepath.Join(mainDir, "graph.dot"))
		if err != nil {
			t.Fatalf("HARNESS-ERROR parsing TLC's state graph: %v", err)
		}
		if int64(len(g.States)) != mainRes.Distinct {
			t.Fatalf("HARNESS-ERROR state graph has %d states, TLC reported %d distinct states", len(g.States), mainRes.Distinct)
		}
		if !reflect.DeepEqual(abstractModel(g.States[g.Init]), abstractModel(initialState(p))) {
			t.Fatalf("HARNESS-ERROR initial state of the graph %v is not the harness' %v", g.States[g.Init], initialState(p))
		}
		// program order of the real compactor (order_test.go): before the edge replay, it is cheap. The Compactor
		// process does not depend on the gateway set: it is bound once per flow and job list, on the one-gateway model.
		if p.gateways() == 1 {
			t0 := time.Now()
			or := checkProgramOrder(t, r, w, oSets, p, g, orderTmp)
			r.AddTraces(int64(or.actions))
			r.Add("real_compactor_cycles", 1)
			r.Add("real_compactor_actions_validated", int64(or.actions))
			r.Add("real_compactor_bucket_ops_abstracted", int64(or.ops))
			r.Note("program order (%d job(s), %s flow, N=%d): real compactor ran %d main-loop iterations (one per tick), %d mutating bucket operations abstracted into %d compactor actions, all steps of the model's Compactor process=%v, %.1fs: %s",
				p.NJobs, flow, p.N, or.ticks+1, or.ops, or.actions, !or.violated, time.Since(t0).Seconds(), strings.Join(or.seq, " "))
		}

		// sharded gateway sets in the quick tier (and the two-job one of the thorough tier): TLC has explored the complete
		// graph; the real code replays every edge of the part in which no sync spans a tick boundary (syncs spanning a
		// tick are replayed in the one-gateway flows and, in the thorough tier, in the one-job sharded sets)
		fullEdges := len(g.Edges)
		if p.gateways() > 1 && (!r.Thorough() || p.NJobs > 1) {
			g = syncsWithinTick(g)
			r.Note("edge replay (%d job(s), %s flow): restricted to the %d states / %d edges (of %d / %d) reachable when no sync spans a tick boundary", p.NJobs, flow, len(g.States), len(g.Edges), mainRes.Distinct, fullEdges)
		}
		paths := coverPaths(g, 400)
		covered := make([]bool, len(g.Edges))
		for _, pa := range paths {
			for _, ei := range pa.Edges {
				covered[ei] = true
			}
		}
		for ei, c := range covered {
			if !c {
				t.Fatalf("HARNESS-ERROR edge %d not covered by the generated traces", ei)
			}
		}
		for _, pa := range paths {
			cur := g.Init
			for _, ei := range pa.Edges {
				if g.Edges[ei].From != cur {
					t.Fatalf("HARNESS-ERROR generated trace is not a path of the state graph")
				}
				cur = g.Edges[ei].To
			}
		}
		r.AddStates(mainRes.Distinct)
		r.AddTransitions(int64(fullEdges))
		r.Depth(int(mainRes.Depth))
		r.Add("tlc_states_generated", mainRes.Generated)
		r.Add("traces", int64(len(paths)))

		replayed := make([]atomic.Bool, len(g.Edges))
		var next atomic.Int64
		var steps atomic.Int64
		workers := runtime.GOMAXPROCS(0)
		if workers > 12 {
			workers = 12
		}
		t.Run(fmt.Sprintf("replay-%djobs-%s", p.NJobs, flow), func(t *testing.T) {
			for wk := 0; wk < workers; wk++ {
				t.Run(fmt.Sprintf("w%d", wk), func(t *testing.T) {
					t.Parallel()
					synctest.Test(t, func(t *testing.T) {
						for {
							i := int(next.Add(1) - 1)
							if i >= len(paths) || expired.Load() {
								return
							}
							pa := paths[i]
							c := Case{Kind: "path", P: p, Steps: make([]Step, len(pa.Edges))}
							for k, ei := range pa.Edges {
								c.Steps[k] = Step{Act: g.Edges[ei].Act, To: g.States[g.Edges[ei].To]}
							}
							if i < 3 {
								r.Sample(c)
							}
							replayPath(r, w, c, func(k int, changed bool) {
								steps.Add(1)
								ei := pa.Edges[k]
								if !replayed[ei].Swap(true) && changed {
									r.Nontrivial(fmt.Sprintf("%d/%s/%d", p.NJobs, flow, ei))
								}
							})
							r.Eval(1)
						}
					})
				})
			}
		})
		var n, shardListings, shardSplit int64
		for i := range replayed {
			if replayed[i].Load() {
				n++
				// sharded sets: listings taken on the real gateways, and those taken while the bucket holds a complete
				// replacement whose sources are (partly) owned by the other gateway - where the order of the shard filter
				// and the duplicate filter decides
				if e := g.Edges[i]; p.gateways() > 1 && e.Act == "SyncBegin" {
					shardListings++
					st := g.States[e.To]
					split := false
					for _, b := range modelBlocks(p.NJobs) {
						if isSource(b) || st.Files[b] != "complete" {
							continue
						}
						for _, src := range modelSrc(b) {
							if p.owner(src) != p.owner(b) && st.Files[src] == "complete" {
								split = true
							}
						}
					}
					if split {
						shardSplit++
					}
				}
			}
		}
		if p.gateways() > 1 {
			r.Add("sharded_listings_replayed", shardListings)
			r.Add("sharded_listings_replayed_with_replacement_on_other_gateway", shardSplit)
		}
		r.AddTraces(n)
		r.Add("real_steps_executed", steps.Load())
		if n != int64(len(g.Edges)) && !r.Violated() {
			r.Cap(fmt.Sprintf("%d of %d edges replayed", n, len(g.Edges)))
		}
	}
}
