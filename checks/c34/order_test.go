// Binding of the model's compactor PROGRAM ORDER to the real compactor.
//
// The edge replay (c34_test.go) executes model actions on the real components one by one; it cannot notice
// that the real compactor performs its bucket operations in another order than the Compactor process of
// Compaction.tla. This file closes that gap: the real compactor (checks/c29/rig: fetcher, syncer, grouper,
// planner, BucketCompactor.Compact, BlocksCleaner, retention, partial-upload cleanup wired as
// cmd/thanos/compact.go:runCompact) runs fault-free main-loop iterations on tiny real TSDB blocks that are
// isomorphic to the model's block catalogue, on a bucket that logs every mutating operation, under the virtual
// clock of testing/synctest with one iteration per model tick. The log is abstracted into the model's compactor
// actions and the abstracted, timed sequence must be the projection of a path of TLC's state graph.
package c34

import (
	"context"
	"encoding/json"
	"fmt"
	"io"
	"os"
	"path/filepath"
	"reflect"
	"sort"
	"strings"
	"sync"
	"testing"
	"time"

	"github.com/go-kit/log"
	"github.com/oklog/ulid/v2"

	"github.com/thanos-io/thanos/pkg/block"
	"github.com/thanos-io/thanos/pkg/block/metadata"

	"verif/checks/c29/rig"
	"verif/vcrash"
	"verif/vlib"
)

const orderSig = "conformance-compactor-program-order"

const msPerHour = int64(3600 * 1000)

// ---------------------------------------------------------------------------------------------------
// Real block sets isomorphic to the model's catalogue (Sources / JobIn / JobOut of Compaction.tla).

func orderSeries(name string, ts []int64) rig.SeriesSpec {
	s := rig.SeriesSpec{Labels: map[string]string{"__name__": "m", "s": name}}
	for _, t := range ts {
		// the value depends on (series, timestamp) only: replicas carry identical samples
		s.Samples = append(s.Samples, rig.Sample{T: t, V: float64(t%100000)/8 + float64(len(name))})
	}
	return s
}

func orderBlock(name string, t0, fromH, toH int64, ext map[string]string) rig.BlockSpec {
	mint, maxt := t0+fromH*msPerHour, t0+toH*msPerHour
	return rig.BlockSpec{Name: name, MinT: mint, MaxT: maxt, Ext: ext, Series: []rig.SeriesSpec{
		orderSeries("x", []int64{mint, mint + 30*60000, mint + 75*60000}),
		orderSeries("y", []int64{mint + 15000, mint + 30*60000 + 15000}),
	}}
}

// orderSpecs: the blocks whose fault-free compaction is the model's job list. Blocks named x* are not part of
// the model: they only make the planner consider the older ranges closed (it never selects the newest block, and
// it compacts a range only when it is full or ends before the start of the newest remaining block); the
// compactor must not touch them.
//
//	plain, 1 job:    s1 [0h,2h) s2 [2h,4h)              x1 [8h,10h) x2 [10h,12h)   => s1+s2 -> r (8h level)
//	plain, 2 jobs:   s1 [0h,2h) s2 [2h,4h) s3 [8h,10h)  x1 [48h,50h) x2 [50h,52h)  => s1+s2 -> r (8h level), r+s3 -> t (2d level)
//	replica, 1 job:  s1 [0h,2h) replica a, s2 [0h,2h) replica b                    => s1+s2 -> r (vertical, replica label stripped)
//	replica, 2 jobs: ... s3 [2h,4h) replica a           x1 [8h,10h) x2 [10h,12h)   => s1+s2 -> r (vertical), r+s3 -> t (8h level)
func orderSpecs(njobs int, repl bool, t0 int64) []rig.BlockSpec {
	one := map[string]string{"cluster": "one"}
	ra := map[string]string{"cluster": "one", "replica": "a"}
	rb := map[string]string{"cluster": "one", "replica": "b"}
	switch {
	case !repl && njobs == 1:
		return []rig.BlockSpec{orderBlock("s1", t0, 0, 2, one), orderBlock("s2", t0, 2, 4, one), orderBlock("x1", t0, 8, 10, one), orderBlock("x2", t0, 10, 12, one)}
	case !repl:
		return []rig.BlockSpec{orderBlock("s1", t0, 0, 2, one), orderBlock("s2", t0, 2, 4, one), orderBlock("s3", t0, 8, 10, one), orderBlock("x1", t0, 48, 50, one), orderBlock("x2", t0, 50, 52, one)}
	case njobs == 1:
		return []rig.BlockSpec{orderBlock("s1", t0, 0, 2, ra), orderBlock("s2", t0, 0, 2, rb)}
	default:
		return []rig.BlockSpec{orderBlock("s1", t0, 0, 2, ra), orderBlock("s2", t0, 0, 2, rb), orderBlock("s3", t0, 2, 4, ra), orderBlock("x1", t0, 8, 10, ra), orderBlock("x2", t0, 10, 12, ra)}
	}
}

type orderSet struct {
	njobs int
	repl  bool
	objs  rig.Objects
	roles map[string]string // ULID -> model name (s1..) or x*
	err   error
}

func buildOrderSet(t *testing.T, njobs int, repl bool, tmp string) *orderSet {
	s := &orderSet{njobs: njobs, repl: repl, objs: rig.Objects{}, roles: map[string]string{}}
	rig.Bubble(t, func(t *testing.T) {
		// the bubble starts at 2000-01-01T00:00:00Z: the blocks are 11 days old, aligned to the 2d compaction range
		t0 := time.Now().UnixMilli() - 11*24*msPerHour
		if t0%(48*msPerHour) != 0 {
			s.err = fmt.Errorf("base time %d not aligned to 2d", t0)
			return
		}
		for _, spec := range orderSpecs(njobs, repl, t0) {
			id, objs, err := rig.BuildBlock(context.Background(), tmp, spec)
			if err != nil {
				s.err = fmt.Errorf("build block %s: %v", spec.Name, err)
				return
			}
			for k, v := range objs {
				s.objs[k] = v
			}
			s.roles[id.String()] = spec.Name
			time.Sleep(time.Millisecond) // ULID order = build order
		}
	})
	return s
}

// orderSets builds the block sets of several model configurations side by side (building a real block costs
// 0.3-3 s); get waits for one.
type orderSets struct {
	mu   sync.Mutex
	sets map[string]*orderSet
	done map[string]chan struct{}
}

func orderKey(njobs int, repl bool) string { return fmt.Sprintf("%d/%v", njobs, repl) }

func startOrderSets(t *testing.T, cfgs []modelCfg, tmp string) *orderSets {
	os_ := &orderSets{sets: map[string]*orderSet{}, done: map[string]chan struct{}{}}
	for _, mc := range cfgs {
		k := orderKey(mc.njobs, mc.replica)
		if _, ok := os_.done[k]; ok {
			continue
		}
		ch := make(chan struct{})
		os_.done[k] = ch
		dir := filepath.Join(tmp, "build-"+strings.ReplaceAll(k, "/", "-"))
		go func() {
			defer close(ch)
			var s *orderSet
			if err := os.MkdirAll(dir, 0o755); err != nil {
				s = &orderSet{err: err}
			} else {
				s = buildOrderSet(t, mc.njobs, mc.replica, dir)
			}
			os_.mu.Lock()
			os_.sets[k] = s
			os_.mu.Unlock()
		}()
	}
	return os_
}

func (o *orderSets) get(njobs int, repl bool) *orderSet {
	k := orderKey(njobs, repl)
	ch, ok := o.done[k]
	if !ok {
		return &orderSet{err: fmt.Errorf("no block set for %s", k)}
	}
	<-ch
	o.mu.Lock()
	defer o.mu.Unlock()
	return o.sets[k]
}

func (o *orderSets) wait() {
	for _, ch := range o.done {
		<-ch
	}
}

// ---------------------------------------------------------------------------------------------------
// One fault-free cycle of the real compactor: one main-loop iteration per model tick, ticks 0 .. Cap+1.

type realOp struct {
	Kind string // upload | delete
	Name string
	Tick int            // iteration (= model tick) the operation belongs to
	At   time.Duration  // virtual time since tick 0
	Meta *metadata.Meta // content, for uploads of a meta.json
}

type realCycle struct {
	ops      []realOp
	iterErrs []string
	ticks    int // last tick an iteration ran at
	drift    string
	err      error // harness problem
	// the cycle did not run to its end: the code under test panicked, blocked for ever (every goroutine of the
	// bubble blocked) or kept issuing bucket operations beyond opBudget
	aborted string
}

// opBudget bounds the mutating bucket operations of one real cycle (a fault-free cycle of the catalogue needs a few
// dozen). Beyond it every further mutating operation blocks for ever: the bubble ends with synctest's "all
// goroutines are blocked" panic, which is recovered, instead of the cycle running until the deadline. (Cancelling the
// context or failing the operation instead would send the code under test down error paths on which
// block.ConcurrentLister can panic in a goroutine of its own.)
const opBudget = 60

func orderCap(p Params) int {
	if p.I > p.D {
		return p.I + 1
	}
	return p.D + 1
}

func runRealCycle(t *testing.T, cw Wiring, set *orderSet, p Params, dir string) (rc *realCycle) {
	rc = &realCycle{}
	wi := rig.CheckWiring(t)
	// the delays of the source tree under test (the build overlay of a mutant / fix is honoured by extractWiring)
	wi.DeleteDelay = time.Duration(p.DeleteDelayS) * time.Second
	wi.StoreIgnoreDelay = time.Duration(p.IgnoreMarksDelayS) * time.Second
	wi.CompactConsistency = cw.CompactConsistency
	cfg := rig.Config{}
	if p.Repl {
		cfg.ReplicaLabels = []string{"replica"}
	}
	tick := time.Duration(p.TickS) * time.Second
	defer func() {
		if pv := recover(); pv != nil {
			msg := fmt.Sprint(pv)
			if len(msg) > 600 {
				msg = msg[:600]
			}
			if rc.aborted == "" {
				rc.aborted = "panic in the real compactor cycle: " + msg
			}
		}
	}()
	rig.Bubble(t, func(t *testing.T) {
		ctx := context.Background()
		never := make(chan struct{})
		// same virtual instant as the one the blocks were built at: step past the compactor's consistency delay
		time.Sleep(cw.CompactConsistency.Truncate(time.Second) + time.Hour)
		b := vcrash.FromObjects(set.objs)
		bkt := rig.NewBkt(b)
		bkt.SerialiseDeletes = true
		bkt.HoldExistsDuringListing = true
		start := time.Now()
		cur := 0
		var mu sync.Mutex
		bkt.After = func(op vcrash.Op) {
			ro := realOp{Kind: op.Kind, Name: op.Name, Tick: cur, At: time.Since(start)}
			if op.Kind == "upload" && strings.HasSuffix(op.Name, "/"+block.MetaFilename) {
				if rd, err := b.Inner().Get(ctx, op.Name); err == nil {
					raw, _ := io.ReadAll(rd)
					_ = rd.Close()
					var m metadata.Meta
					if json.Unmarshal(raw, &m) == nil {
						ro.Meta = &m
					}
				}
			}
			mu.Lock()
			over := len(rc.ops) >= opBudget
			if !over {
				rc.ops = append(rc.ops, ro)
			} else if rc.aborted == "" {
				rc.aborted = fmt.Sprintf("more than %d mutating bucket operations in one cycle (tick %d): the compactor does not come to rest", opBudget, cur)
			}
			mu.Unlock()
			if over {
				<-never
			}
		}
		var logger log.Logger
		if os.Getenv("VERIF_RIG_LOG") != "" {
			logger = log.NewLogfmtLogger(os.Stderr)
		}
		comp, err := rig.NewCompactor(wi, cfg, bkt, dir, logger)
		if err != nil {
			rc.err = fmt.Errorf("create compactor: %v", err)
			return
		}
		last := orderCap(p) + 1
		for k := 0; k <= last; k++ {
			if k > 0 {
				time.Sleep(tick)
			}
			cur = k
			rc.ticks = k
			if err := comp.Iteration(ctx); err != nil {
				if strings.Contains(err.Error(), "HARNESS-ERROR") {
					rc.err = err
					return
				}
				rc.iterErrs = append(rc.iterErrs, fmt.Sprintf("tick %d: %v", k, err))
			}
			if el := time.Since(start); el != time.Duration(k)*tick && rc.drift == "" {
				rc.drift = fmt.Sprintf("after the iteration of tick %d the virtual clock shows %v instead of %v: the real compactor slept", k, el, time.Duration(k)*tick)
			}
		}
	})
	return rc
}

// ---------------------------------------------------------------------------------------------------
// Abstraction of the operation log into timed compactor actions of the model.

// cstate is the compactor-visible part of a model state.
type cstate struct {
	Files map[string]string
	Mark  map[string]int
}

func (c cstate) String() string {
	var ks []string
	for k := range c.Files {
		ks = append(ks, k)
	}
	sort.Strings(ks)
	var sb strings.Builder
	for i, k := range ks {
		if i > 0 {
			sb.WriteByte(' ')
		}
		fmt.Fprintf(&sb, "%s:%s", k, c.Files[k])
		if c.Mark[k] >= 0 {
			fmt.Fprintf(&sb, "(marked,age %d)", c.Mark[k])
		}
	}
	return sb.String()
}

type item struct {
	Act  string // Tick | UploadData | UploadMeta | MarkSource | Clean | CleanCrash | outside-model
	Desc string // e.g. MarkSource(s1)
	Post cstate // abstraction of the real bucket after the action
	Tick int
	Ops  []string // canonical real operations abstracted into this action
}

type abstractor struct {
	p      Params
	names  map[string]string // ULID -> model / extra name
	objs   map[string]bool
	metaUp map[string]bool // ULIDs whose meta.json was uploaded by the compactor or was there initially
	markAt map[string]int  // model name -> tick of the deletion mark upload
	now    int
	ids    map[string]string // model name -> ULID
}

func splitObj(name string) (id, rest string) {
	if i := strings.IndexByte(name, '/'); i >= 0 {
		id, rest = name[:i], name[i+1:]
	} else {
		id = name
	}
	if _, err := ulid.Parse(id); err != nil {
		return "", name
	}
	return id, rest
}

func sameSet(a, b []string) bool {
	a, b = append([]string(nil), a...), append([]string(nil), b...)
	sort.Strings(a)
	sort.Strings(b)
	return reflect.DeepEqual(a, b)
}

// resolveNames names the blocks the compactor created: a new block whose meta.json names as parents exactly
// the inputs of model job j and as Compaction.Sources exactly Src(JobOut(j)) is JobOut(j).
func (a *abstractor) resolveNames(ops []realOp) {
	unknown := 0
	for _, op := range ops {
		id, rest := splitObj(op.Name)
		if id == "" || a.names[id] != "" || op.Kind != "upload" || rest != block.MetaFilename || op.Meta == nil {
			continue
		}
		var parents, sources []string
		for _, pd := range op.Meta.Compaction.Parents {
			parents = append(parents, a.nameOrULID(pd.ULID.String()))
		}
		for _, s := range op.Meta.Compaction.Sources {
			sources = append(sources, a.nameOrULID(s.String()))
		}
		name := ""
		for j := 1; j <= a.p.NJobs; j++ {
			in := []string{"s1", "s2"}
			if j == 2 {
				in = []string{"r", "s3"}
			}
			out := modelJobOut(j)
			if _, used := a.ids[out]; !used && sameSet(parents, in) && sameSet(sources, modelSrc(out)) {
				name = out
			}
		}
		if name == "" {
			unknown++
			sort.Strings(parents)
			sort.Strings(sources)
			name = fmt.Sprintf("?%d[parents=%s sources=%s]", unknown, strings.Join(parents, "+"), strings.Join(sources, "+"))
		}
		a.names[id] = name
		a.ids[name] = id
	}
	for _, op := range ops {
		if id, _ := splitObj(op.Name); id != "" && a.names[id] == "" {
			unknown++
			a.names[id] = fmt.Sprintf("?%d[no meta.json uploaded]", unknown)
		}
	}
}

func (a *abstractor) nameOrULID(id string) string {
	if n := a.names[id]; n != "" {
		return n
	}
	return id
}

func (a *abstractor) canon(name string) string {
	id, rest := splitObj(name)
	if id == "" {
		return name
	}
	return a.names[id] + "/" + rest
}

func (a *abstractor) inModel(name string) bool {
	for _, b := range modelBlocks(a.p.NJobs) {
		if b == name {
			return true
		}
	}
	return false
}

// state abstracts the tracked bucket content onto the model's files / mark variables.
func (a *abstractor) state() cstate {
	c := cstate{Files: map[string]string{}, Mark: map[string]int{}}
	cp := orderCap(a.p)
	for _, b := range modelBlocks(a.p.NJobs) {
		c.Files[b], c.Mark[b] = "none", -1
		id, ok := a.ids[b]
		if !ok {
			continue
		}
		var meta, index, chunks, mark, other bool
		for n := range a.objs {
			oid, rest := splitObj(n)
			if oid != id {
				continue
			}
			switch {
			case rest == block.MetaFilename:
				meta = true
			case rest == metadata.DeletionMarkFilename:
				mark = true
			case rest == block.IndexFilename:
				index = true
			case strings.HasPrefix(rest, block.ChunksDirname+"/"):
				chunks = true
			default:
				other = true
			}
		}
		switch {
		case other:
			c.Files[b] = "unexpected-objects"
		case meta && index && chunks:
			c.Files[b] = "complete"
		case meta:
			c.Files[b] = "meta-without-data"
		case (index || chunks) && a.metaUp[id]:
			c.Files[b] = "nometa"
		case index || chunks:
			c.Files[b] = "data"
		case mark:
			c.Files[b] = "mark-only"
		}
		if mark {
			age := a.now - a.markAt[b]
			if age > cp {
				age = cp
			}
			c.Mark[b] = age
		}
	}
	return c
}

// abstract turns the log into the timed action sequence. Uploads of further data objects of a block that is
// already in state "data" are stuttering steps of the model (no action).
func abstractOps(p Params, set *orderSet, rc *realCycle) ([]item, *abstractor) {
	a := &abstractor{p: p, names: map[string]string{}, objs: map[string]bool{}, metaUp: map[string]bool{}, markAt: map[string]int{}, ids: map[string]string{}}
	for id, n := range set.roles {
		a.names[id] = n
		a.ids[n] = id
		a.metaUp[id] = true
	}
	for n := range set.objs {
		a.objs[n] = true
	}
	a.resolveNames(rc.ops)
	var items []item
	i := 0
	for k := 0; k <= rc.ticks; k++ {
		if k > 0 {
			a.now = k
			items = append(items, item{Act: "Tick", Desc: "Tick", Post: a.state(), Tick: k})
		}
		for i < len(rc.ops) && rc.ops[i].Tick == k {
			op := rc.ops[i]
			id, rest := splitObj(op.Name)
			name := a.names[id]
			cn := op.Kind + " " + a.canon(op.Name)
			if id == "" || !a.inModel(name) {
				a.apply(op)
				items = append(items, item{Act: "outside-model", Desc: "operation on an object outside the model: " + cn, Post: a.state(), Tick: k, Ops: []string{cn}})
				i++
				continue
			}
			if op.Kind == "delete" {
				// a maximal run of deletes is one run of the cleaner
				touched := map[string]bool{}
				var ops []string
				for i < len(rc.ops) && rc.ops[i].Tick == k && rc.ops[i].Kind == "delete" {
					did, _ := splitObj(rc.ops[i].Name)
					if did == "" || !a.inModel(a.names[did]) {
						break
					}
					touched[a.names[did]] = true
					ops = append(ops, "delete "+a.canon(rc.ops[i].Name))
					a.apply(rc.ops[i])
					i++
				}
				post := a.state()
				var bs []string
				act := "Clean"
				for b := range touched {
					bs = append(bs, b)
					if post.Files[b] == "nometa" {
						act = "CleanCrash"
					}
				}
				sort.Strings(bs)
				items = append(items, item{Act: act, Desc: act + "{" + strings.Join(bs, ",") + "}", Post: post, Tick: k, Ops: ops})
				continue
			}
			before := a.state()
			a.apply(op)
			post := a.state()
			i++
			switch {
			case rest == block.MetaFilename:
				items = append(items, item{Act: "UploadMeta", Desc: "UploadMeta(" + name + ")", Post: post, Tick: k, Ops: []string{cn}})
			case rest == metadata.DeletionMarkFilename:
				items = append(items, item{Act: "MarkSource", Desc: "MarkSource(" + name + ")", Post: post, Tick: k, Ops: []string{cn}})
			case rest == block.IndexFilename || strings.HasPrefix(rest, block.ChunksDirname+"/"):
				if before.Files[name] == "data" && post.Files[name] == "data" {
					if n := len(items); n > 0 && items[n-1].Act == "UploadData" {
						items[n-1].Ops = append(items[n-1].Ops, cn)
					}
					continue // stuttering step
				}
				items = append(items, item{Act: "UploadData", Desc: "UploadData(" + name + ")", Post: post, Tick: k, Ops: []string{cn}})
			default:
				items = append(items, item{Act: "outside-model", Desc: "upload of an object the model does not have: " + cn, Post: post, Tick: k, Ops: []string{cn}})
			}
		}
	}
	return items, a
}

func (a *abstractor) apply(op realOp) {
	id, rest := splitObj(op.Name)
	switch op.Kind {
	case "upload":
		a.objs[op.Name] = true
		if id != "" && rest == block.MetaFilename {
			a.metaUp[id] = true
		}
		if id != "" && rest == metadata.DeletionMarkFilename {
			a.markAt[a.names[id]] = op.Tick
		}
	case "delete":
		delete(a.objs, op.Name)
	}
}

// ---------------------------------------------------------------------------------------------------
// Language inclusion: the timed action sequence must be the projection of a path of TLC's state graph onto
// the compactor actions and Tick (the gateway's SyncBegin / SyncEnd steps are free).

func matches(st MState, c cstate) bool {
	return reflect.DeepEqual(st.Files, c.Files) && reflect.DeepEqual(st.Mark, c.Mark)
}

func syncClosure(g *Graph, front map[int]bool) map[int]bool {
	stack := make([]int, 0, len(front))
	for s := range front {
		stack = append(stack, s)
	}
	for len(stack) > 0 {
		s := stack[len(stack)-1]
		stack = stack[:len(stack)-1]
		for _, ei := range g.Out[s] {
			e := g.Edges[ei]
			if (e.Act == "SyncBegin" || e.Act == "SyncEnd") && !front[e.To] {
				front[e.To] = true
				stack = append(stack, e.To)
			}
		}
	}
	return front
}

func stepItem(g *Graph, front map[int]bool, it item) map[int]bool {
	next := map[int]bool{}
	for s := range front {
		for _, ei := range g.Out[s] {
			e := g.Edges[ei]
			if e.Act == it.Act && matches(g.States[e.To], it.Post) {
				next[e.To] = true
			}
		}
	}
	return syncClosure(g, next)
}

// describeFront lists the distinct compactor states of the frontier and the compactor actions the model
// enables there.
func describeFront(g *Graph, front map[int]bool) string {
	type pc struct {
		job   int
		phase string
		c     string
	}
	seen := map[pc]map[string]bool{}
	for s := range front {
		st := g.States[s]
		k := pc{st.Job, st.Phase, cstate{st.Files, st.Mark}.String()}
		if seen[k] == nil {
			seen[k] = map[string]bool{}
		}
		for _, ei := range g.Out[s] {
			e := g.Edges[ei]
			to := g.States[e.To]
			switch e.Act {
			case "SyncBegin", "SyncEnd", "Tick":
				continue
			case "Clean", "CleanCrash":
				if reflect.DeepEqual(to.Files, st.Files) {
					continue // cleaner run that finds nothing to delete
				}
				var bs []string
				for b := range to.Files {
					if to.Files[b] != st.Files[b] {
						bs = append(bs, b)
					}
				}
				sort.Strings(bs)
				seen[k][e.Act+"{"+strings.Join(bs, ",")+"}"] = true
			case "MarkSource":
				for b := range to.Mark {
					if st.Mark[b] == -1 && to.Mark[b] == 0 {
						seen[k]["MarkSource("+b+")"] = true
					}
				}
			default:
				seen[k][e.Act+"("+modelJobOut(st.Job)+")"] = true
			}
		}
	}
	var out []string
	for k, acts := range seen {
		var as []string
		for a := range acts {
			as = append(as, a)
		}
		sort.Strings(as)
		if len(as) == 0 {
			as = []string{"none (only a cleaner run that deletes nothing, or time passing)"}
		}
		out = append(out, fmt.Sprintf("[job %d phase %s | %s | enabled: %s]", k.job, k.phase, k.c, strings.Join(as, ", ")))
	}
	sort.Strings(out)
	if len(out) > 4 {
		out = append(out[:4], fmt.Sprintf("... %d more", len(out)-4))
	}
	return strings.Join(out, " ")
}

type orderResult struct {
	actions  int // real compactor actions validated (without Tick)
	ops      int // real mutating bucket operations abstracted
	ticks    int
	seq      []string
	violated bool
}

// checkProgramOrder runs the real cycle for p and validates it against g.
func checkProgramOrder(t *testing.T, r *vlib.R, cw Wiring, sets *orderSets, p Params, g *Graph, tmp string) orderResult {
	var res orderResult
	flow := "plain"
	if p.Repl {
		flow = "replica-label"
	}
	set := sets.get(p.NJobs, p.Repl)
	if set.err != nil {
		t.Errorf("HARNESS-ERROR building the real blocks for the %d-job %s flow: %v", p.NJobs, flow, set.err)
		return res
	}
	dir, err := os.MkdirTemp(tmp, "order-")
	if err != nil {
		t.Errorf("HARNESS-ERROR %v", err)
		return res
	}
	defer os.RemoveAll(dir)
	rc := runRealCycle(t, cw, set, p, dir)
	if rc.err != nil {
		t.Errorf("HARNESS-ERROR real compactor cycle (%d job(s), %s flow): %v", p.NJobs, flow, rc.err)
		return res
	}
	items, a := abstractOps(p, set, rc)
	res.ops = len(rc.ops)
	res.ticks = rc.ticks

	// the initial real bucket must be the model's initial state
	ia := &abstractor{p: p, names: a.names, objs: map[string]bool{}, metaUp: a.metaUp, markAt: map[string]int{}, ids: a.ids}
	for n := range set.objs {
		ia.objs[n] = true
	}
	c := Case{Kind: "order", P: p}
	front := map[int]bool{}
	if matches(g.States[g.Init], ia.state()) {
		front[g.Init] = true
	}
	front = syncClosure(g, front)
	if len(front) == 0 {
		t.Errorf("HARNESS-ERROR the real initial bucket %v is not the model's initial state %v", ia.state(), cstate{g.States[g.Init].Files, g.States[g.Init].Mark})
		return res
	}
	for i, it := range items {
		if it.Act != "Tick" {
			res.seq = append(res.seq, fmt.Sprintf("t%d:%s", it.Tick, it.Desc))
		}
		next := stepItem(g, front, it)
		if len(next) == 0 {
			c.Real = res.seq
			why := ""
			switch it.Act {
			case "MarkSource":
				b := strings.TrimSuffix(strings.TrimPrefix(it.Desc, "MarkSource("), ")")
				covered := false
				for _, o := range modelBlocks(p.NJobs) {
					if o == b || it.Post.Files[o] != "complete" {
						continue
					}
					for _, s := range modelSrc(o) {
						if s == b {
							covered = true
						}
					}
				}
				if !covered {
					why = fmt.Sprintf(" - %s gets its deletion mark while the bucket holds no complete block whose Compaction.Sources contain it (the result's meta.json is not uploaded yet): if the compactor stops here, %s is hidden after the ignore-deletion-marks delay and deleted after the delete delay with nothing replacing it", b, b)
				}
			case "Tick":
				why = " - the model cannot let this tick pass in any of these states"
			case "Clean", "CleanCrash":
				why = " - the model's cleaner deletes exactly the complete blocks whose deletion mark is older than the delete delay"
			}
			r.Violation(orderSig, fmt.Sprintf("%d job(s), %s flow (D=%d I=%d ticks of %ds): real compactor action #%d %s at tick %d (bucket operations: %s) is not a step of the model's Compactor process%s. Real bucket after it: %s. Model before it: %s. Real action sequence so far: %s%s",
				p.NJobs, flow, p.D, p.I, p.TickS, len(res.seq), it.Desc, it.Tick, strings.Join(it.Ops, "; "), why, it.Post, describeFront(g, front), strings.Join(res.seq, " "), iterErrNote(rc)), c)
			res.violated = true
			return res
		}
		front = next
		if it.Act != "Tick" {
			res.actions++
			r.Nontrivial(fmt.Sprintf("order/%d/%s/%d/%d:%s", p.NJobs, flow, p.N, i, it.Desc))
		}
	}
	if rc.aborted != "" {
		c.Real = res.seq
		r.Violation("conformance-compactor-cycle-aborted", fmt.Sprintf("%d job(s), %s flow (D=%d I=%d ticks of %ds): the real compactor's fault-free cycle did not run to its end: %s. Real action sequence so far: %s%s",
			p.NJobs, flow, p.D, p.I, p.TickS, rc.aborted, strings.Join(res.seq, " "), iterErrNote(rc)), c)
		res.violated = true
		return res
	}
	// vacuity: the cycle must contain every compactor action of the model
	need := map[string]int{"UploadData": p.NJobs, "UploadMeta": p.NJobs, "MarkSource": 2 * p.NJobs, "Clean": 1}
	for _, it := range items {
		need[it.Act]--
	}
	var missing []string
	for _, act := range []string{"UploadData", "UploadMeta", "MarkSource", "Clean"} {
		if need[act] > 0 {
			missing = append(missing, fmt.Sprintf("%d x %s", need[act], act))
		}
	}
	if len(missing) > 0 {
		r.Cap(fmt.Sprintf("program-order conformance, %d job(s) %s flow: the real cycle lacks %s (sequence: %s%s)", p.NJobs, flow, strings.Join(missing, ", "), strings.Join(res.seq, " "), iterErrNote(rc)))
	}
	if rc.drift != "" {
		r.Note("program-order conformance, %d job(s) %s flow: %s", p.NJobs, flow, rc.drift)
	}
	return res
}

func iterErrNote(rc *realCycle) string {
	if len(rc.iterErrs) == 0 {
		return ""
	}
	return "; iteration errors: " + strings.Join(rc.iterErrs, " | ")
}
