package c34

import (
	"encoding/json"
	"fmt"
	"os"
	"path/filepath"
	"regexp"
	"strconv"
	"strings"
	"time"

	commonmodel "github.com/prometheus/common/model"
)

// Wiring is what the harness reads from cmd/thanos/compact.go and cmd/thanos/store.go at run time.
type Wiring struct {
	DeleteDelay        time.Duration // compact --delete-delay default
	CompactIgnoreDiv   int64         // compactor's own IgnoreDeletionMarkFilter uses deleteDelay/<this>
	CompactConsistency time.Duration // compact --consistency-delay default
	IgnoreMarksDelay   time.Duration // store --ignore-deletion-marks-delay default
	SyncInterval       time.Duration // store --sync-block-duration default
	StoreConsistency   time.Duration // store --consistency-delay default
	StoreMinTime       string
	StoreMaxTime       string
	StoreChain         []string // the filter chain handed to block.NewMetaFetcher in store.go, in order
}

func flagDefault(src, name string) (string, error) {
	i := strings.Index(src, `cmd.Flag("`+name+`"`)
	if i < 0 {
		return "", fmt.Errorf("flag %q not found", name)
	}
	rest := src[i+len(`cmd.Flag("`):]
	if j := strings.Index(rest, "cmd.Flag("); j >= 0 {
		rest = rest[:j]
	}
	m := regexp.MustCompile(`Default\("([^"]*)"\)`).FindStringSubmatch(rest)
	if m == nil {
		return "", fmt.Errorf("flag %q has no Default(\"..\")", name)
	}
	return m[1], nil
}

func flagDuration(src, name string) (time.Duration, error) {
	s, err := flagDefault(src, name)
	if err != nil {
		return 0, err
	}
	d, err := commonmodel.ParseDuration(s)
	if err != nil {
		return 0, fmt.Errorf("flag %q default %q: %v", name, s, err)
	}
	return time.Duration(d), nil
}

// readSource reads a file of the source tree the check binary was built from: the driver builds with
// `go test -c -overlay <dir of the binary>/overlay.json` (mutants / proposed fixes replace files without
// touching the repository; runs with --mutant have a private build directory), so a replacement listed in the
// overlay file next to the running binary wins over the file in the repository.
func readSource(repo, rel string) ([]byte, error) {
	p := filepath.Join(repo, rel)
	if exe, err := os.Executable(); err == nil {
		if b, err := os.ReadFile(filepath.Join(filepath.Dir(exe), "overlay.json")); err == nil {
			var ov struct{ Replace map[string]string }
			if err := json.Unmarshal(b, &ov); err != nil {
				return nil, fmt.Errorf("build overlay next to the check binary is unreadable: %v", err)
			}
			if r, ok := ov.Replace[p]; ok && r != "" {
				p = r
			}
		}
	}
	return os.ReadFile(p)
}

func extractWiring(repo string) (Wiring, error) {
	var w Wiring
	cb, err := readSource(repo, "cmd/thanos/compact.go")
	if err != nil {
		return w, err
	}
	sb, err := readSource(repo, "cmd/thanos/store.go")
	if err != nil {
		return w, err
	}
	cs, ss := string(cb), string(sb)
	if w.DeleteDelay, err = flagDuration(cs, "delete-delay"); err != nil {
		return w, err
	}
	if w.CompactConsistency, err = flagDuration(cs, "consistency-delay"); err != nil {
		return w, err
	}
	if w.IgnoreMarksDelay, err = flagDuration(ss, "ignore-deletion-marks-delay"); err != nil {
		return w, err
	}
	if w.SyncInterval, err = flagDuration(ss, "sync-block-duration"); err != nil {
		return w, err
	}
	if w.StoreConsistency, err = flagDuration(ss, "consistency-delay"); err != nil {
		return w, err
	}
	if w.StoreMinTime, err = flagDefault(ss, "min-time"); err != nil {
		return w, err
	}
	if w.StoreMaxTime, err = flagDefault(ss, "max-time"); err != nil {
		return w, err
	}
	// compactor: the flag value is used unchanged for the cleaner, divided for its own fetch filter
	if !regexp.MustCompile(`deleteDelay := time\.Duration\(conf\.deleteDelay\)`).MatchString(cs) {
		return w, fmt.Errorf("compact.go: deleteDelay is no longer time.Duration(conf.deleteDelay); adapt the harness")
	}
	if !regexp.MustCompile(`compact\.NewBlocksCleaner\(logger, insBkt, ignoreDeletionMarkFilter, deleteDelay,`).MatchString(cs) {
		return w, fmt.Errorf("compact.go: NewBlocksCleaner wiring not recognised; adapt the harness")
	}
	m := regexp.MustCompile(`ignoreDeletionMarkFilter := block\.NewIgnoreDeletionMarkFilter\(logger, insBkt, deleteDelay/(\d+), `).FindStringSubmatch(cs)
	if m == nil {
		return w, fmt.Errorf("compact.go: deleteDelay/N expression of the compactor's IgnoreDeletionMarkFilter not recognised; adapt the harness")
	}
	w.CompactIgnoreDiv, _ = strconv.ParseInt(m[1], 10, 64)
	if w.CompactIgnoreDiv <= 0 {
		return w, fmt.Errorf("compact.go: deleteDelay/%s", m[1])
	}
	// store: delay passed unchanged, and the filter chain
	if !regexp.MustCompile(`ignoreDeletionMarkFilter := block\.NewIgnoreDeletionMarkFilter\(logger, insBkt, time\.Duration\(conf\.ignoreDeletionMarksDelay\), `).MatchString(ss) {
		return w, fmt.Errorf("store.go: IgnoreDeletionMarkFilter wiring not recognised; adapt the harness")
	}
	i := strings.Index(ss, "block.NewMetaFetcher(")
	if i < 0 {
		return w, fmt.Errorf("store.go: block.NewMetaFetcher( not found")
	}
	rest := ss[i:]
	j := strings.Index(rest, "[]block.MetadataFilter{")
	if j < 0 {
		return w, fmt.Errorf("store.go: filter chain literal not found")
	}
	rest = rest[j+len("[]block.MetadataFilter{"):]
	depth := 0
	end := -1
	for k, c := range rest {
		if c == '(' || c == '{' {
			depth++
		}
		if c == ')' {
			depth--
		}
		if c == '}' {
			if depth == 0 {
				end = k
				break
			}
			depth--
		}
	}
	if end < 0 {
		return w, fmt.Errorf("store.go: unterminated filter chain literal")
	}
	for _, line := range strings.Split(rest[:end], "\n") {
		line = strings.TrimSuffix(strings.TrimSpace(line), ",")
		if line == "" || strings.HasPrefix(line, "//") {
			continue
		}
		w.StoreChain = append(w.StoreChain, line)
	}
	if len(w.StoreChain) == 0 {
		return w, fmt.Errorf("store.go: empty filter chain")
	}
	return w, nil
}

// Params are the model constants (ticks) plus the real durations the real components are configured with.
type Params struct {
	D     int   `json:"D"`
	I     int   `json:"I"`
	L     int   `json:"L"`
	S     int   `json:"S"`
	NJobs int   `json:"njobs"`
	Repl  bool  `json:"replica"` // compaction with replica-label deduplication (sources and results in different gateway groups)
	TickS int64 `json:"tick_s"` // one tick in seconds (deletion marks have 1s resolution)
	N     int   `json:"ticks_per_longest_delay"`

	DeleteDelayS      int64 `json:"delete_delay_s"`
	IgnoreMarksDelayS int64 `json:"ignore_marks_delay_s"`
	SyncIntervalS     int64 `json:"sync_interval_s"`
	CompactIgnoreDiv  int64 `json:"compact_ignore_div"`

	// store gateway set: one gateway, or (Owner2 != nil) two gateways sharded by hashmod(__block_id) % 2 where the
	// ids of the blocks in Owner2 hash to the second one
	Owner2 []string `json:"owner2,omitempty"`
	// the model's view of the filter chain of cmd/thanos/store.go, in order (see chainNames)
	Chain []string `json:"chain"`
	// store --consistency-delay the real gateways run with (seconds)
	GwConsistencyS int64 `json:"gw_consistency_delay_s"`
}

func (p Params) gateways() int {
	if len(p.Owner2) > 0 {
		return 2
	}
	return 1
}

// owner is the gateway (1-based) that model block b hashes to.
func (p Params) owner(b string) int {
	for _, o := range p.Owner2 {
		if o == b {
			return 2
		}
	}
	return 1
}

// shardedConsistencyDelay: the sharded gateway sets run with a non-zero --consistency-delay (the compactor's
// default); a larger store default wins.
const shardedConsistencyDelay = 30 * time.Minute

// chainNames abstracts the filter chain parsed from cmd/thanos/store.go into the names Compaction.tla knows:
// "shard", "mark", "dedup" are modelled; "parquet", "time" (default range) and "consistency" (results are
// compactor-made and exempt, sources are older than the delay) keep every block of the model's catalogue.
func chainNames(w Wiring) ([]string, error) {
	var out []string
	for _, item := range w.StoreChain {
		switch {
		case item == "parquetConvertedBlocksFilter":
			out = append(out, "parquet")
		case strings.HasPrefix(item, "block.NewTimePartitionMetaFilter("):
			out = append(out, "time")
		case strings.HasPrefix(item, "block.NewLabelShardedMetaFilter("):
			out = append(out, "shard")
		case strings.HasPrefix(item, "block.NewConsistencyDelayMetaFilter("):
			out = append(out, "consistency")
		case item == "ignoreDeletionMarkFilter":
			out = append(out, "mark")
		case strings.HasPrefix(item, "block.NewDeduplicateFilter("):
			out = append(out, "dedup")
		default:
			return nil, fmt.Errorf("store.go filter chain entry %q is unknown to the harness", item)
		}
	}
	return out, nil
}

// scale turns the flag defaults into ticks: one tick = max(deleteDelay, ignoreDelay)/ticksPerMax (whole
// seconds). The real comparisons are "age > delay" on whole-tick ages, so floor(delay/tick) is exact for D
// and I; the sync period is rounded up (more lag than in production); a sync takes at most one tick.
func scale(w Wiring, ticksPerMax, njobs int, replica bool, owner2 []string) (Params, error) {
	p := Params{NJobs: njobs, Repl: replica, S: 1, N: ticksPerMax, CompactIgnoreDiv: w.CompactIgnoreDiv,
		DeleteDelayS: int64(w.DeleteDelay / time.Second), IgnoreMarksDelayS: int64(w.IgnoreMarksDelay / time.Second), SyncIntervalS: int64(w.SyncInterval / time.Second),
		Owner2: append([]string(nil), owner2...), GwConsistencyS: int64(w.StoreConsistency / time.Second)}
	if w.DeleteDelay%time.Second != 0 || w.IgnoreMarksDelay%time.Second != 0 || w.StoreConsistency%time.Second != 0 {
		return p, fmt.Errorf("delays with sub-second parts are not supported by the harness")
	}
	var err error
	if p.Chain, err = chainNames(w); err != nil {
		return p, err
	}
	if p.gateways() > 1 && w.StoreConsistency < shardedConsistencyDelay {
		p.GwConsistencyS = int64(shardedConsistencyDelay / time.Second)
	}
	if time.Duration(p.GwConsistencyS)*time.Second >= sourceAge {
		return p, fmt.Errorf("store consistency delay %ds is not below the age of the model's source blocks", p.GwConsistencyS)
	}
	longest := p.DeleteDelayS
	if p.IgnoreMarksDelayS > longest {
		longest = p.IgnoreMarksDelayS
	}
	p.TickS = longest / int64(ticksPerMax)
	if p.TickS < 1 {
		p.TickS = 1
	}
	p.D = int(p.DeleteDelayS / p.TickS)
	p.I = int(p.IgnoreMarksDelayS / p.TickS)
	p.L = int((p.SyncIntervalS + p.TickS - 1) / p.TickS)
	if p.L < 1 {
		p.L = 1
	}
	if p.L > p.D+2 {
		// any period above D already lets the gateway serve a deleted block; a smaller period has fewer
		// behaviours, so a violation found with the clamped value is one of the real configuration too
		p.L = p.D + 2
	}
	if p.D > 2*ticksPerMax || p.I > 2*ticksPerMax {
		return p, fmt.Errorf("scaled constants too large (D=%d I=%d ticks of %ds)", p.D, p.I, p.TickS)
	}
	return p, nil
}
