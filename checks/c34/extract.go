package c34

import (
	"encoding/json"
	"fmt"
	"os"
	"path/filepath"
	"regexp"
	"strconv"
	"strings"
	"time"

	commonmodel "github.com/prometheus/common/model"
)

// Wiring is what the harness reads from cmd/thanos/compact.go and cmd/thanos/store.go at run time.
type Wiring struct {
	DeleteDelay        time.Duration // compact --delete-delay default
	CompactIgnoreDiv   int64         // compactor's own IgnoreDeletionMarkFilter uses deleteDelay/<this>
	CompactConsistency time.Duration // compact --consistency-delay default
	IgnoreMarksDelay   time.Duration // store --ignore-deletion-marks-delay default
	SyncInterval       time.Duration // store --sync-block-duration default
	StoreConsistency   time.Duration // store --consistency-delay default
	StoreMinTime       string
	StoreMaxTime       string
	StoreChain         []string // the filter chain handed to block.NewMetaFetcher in store.go, in order
}

func flagDefault(src, name string) (string, error) {
	i := strings.Index(src, `cmd.Flag("`+name+`"`)
	if i < 0 {
		return "", fmt.Errorf("flag %q not found", name)
	}
	rest := src[i+len(`cmd.Flag("`):]
	if j := strings.Index(rest, "cmd.Flag("); j >= 0 {
		rest = rest[:j]
	}
	m := regexp.MustCompile(`Default\("([^"]*)"\)`).FindStringSubmatch(rest)
	if m == nil {
		return "", fmt.Errorf("flag %q has no Default(\"..\")", name)
	}
	return m[1], nil
}

func flagDuration(src, name string) (time.Duration, error) {
	s, err := flagDefault(src, name)
	if err != nil {
		return 0, err
	}
	d, err := commonmodel.ParseDuration(s)
	if err != nil {
		return 0, fmt.Errorf("flag %q default %q: %v", name, s, err)
	}
	return time.Duration(d), nil
}

// readSource reads a file of the source tree the check binary was built from: the driver builds with
// `go build -overlay` (mutants / proposed fixes replace files without touching the repository), so a
// replacement listed in the build's overlay file wins over the file in the repository.
func readSource(repo, rel string) ([]byte, error) {
	p := filepath.Join(repo, rel)
	dir := os.Getenv("VERIF_DIR")
	if dir == "" {
		dir = "/verif"
	}
	if b, err := os.ReadFile(filepath.Join(dir, ".build", "c34", "overlay.json")); err == nil {
		var ov struct{ Replace map[string]string }
		if json.Unmarshal(b, &ov) == nil {
			if r, ok := ov.Replace[p]; ok && r != "" {
				p = r
			}
		}
	}
	return os.ReadFile(p)
}

func extractWiring(repo string) (Wiring, error) {
	var w Wiring
	cb, err := readSource(repo, "cmd/thanos/compact.go")
	if err != nil {
		return w, err
	}
	sb, err := readSource(repo, "cmd/thanos/store.go")
	if err != nil {
		return w, err
	}
	cs, ss := string(cb), string(sb)
	if w.DeleteDelay, err = flagDuration(cs, "delete-delay"); err != nil {
		return w, err
	}
	if w.CompactConsistency, err = flagDuration(cs, "consistency-delay"); err != nil {
		return w, err
	}
	if w.IgnoreMarksDelay, err = flagDuration(ss, "ignore-deletion-marks-delay"); err != nil {
		return w, err
	}
	if w.SyncInterval, err = flagDuration(ss, "sync-block-duration"); err != nil {
		return w, err
	}
	if w.StoreConsistency, err = flagDuration(ss, "consistency-delay"); err != nil {
		return w, err
	}
	if w.StoreMinTime, err = flagDefault(ss, "min-time"); err != nil {
		return w, err
	}
	if w.StoreMaxTime, err = flagDefault(ss, "max-time"); err != nil {
		return w, err
	}
	// compactor: the flag value is used unchanged for the cleaner, divided for its own fetch filter
	if !regexp.MustCompile(`deleteDelay := time\.Duration\(conf\.deleteDelay\)`).MatchString(cs) {
		return w, fmt.Errorf("compact.go: deleteDelay is no longer time.Duration(conf.deleteDelay); adapt the harness")
	}
	if !regexp.MustCompile(`compact\.NewBlocksCleaner\(logger, insBkt, ignoreDeletionMarkFilter, deleteDelay,`).MatchString(cs) {
		return w, fmt.Errorf("compact.go: NewBlocksCleaner wiring not recognised; adapt the harness")
	}
	m := regexp.MustCompile(`ignoreDeletionMarkFilter := block\.NewIgnoreDeletionMarkFilter\(logger, insBkt, deleteDelay/(\d+), `).FindStringSubmatch(cs)
	if m == nil {
		return w, fmt.Errorf("compact.go: deleteDelay/N expression of the compactor's IgnoreDeletionMarkFilter not recognised; adapt the harness")
	}
	w.CompactIgnoreDiv, _ = strconv.ParseInt(m[1], 10, 64)
	if w.CompactIgnoreDiv <= 0 {
		return w, fmt.Errorf("compact.go: deleteDelay/%s", m[1])
	}
	// store: delay passed unchanged, and the filter chain
	if !regexp.MustCompile(`ignoreDeletionMarkFilter := block\.NewIgnoreDeletionMarkFilter\(logger, insBkt, time\.Duration\(conf\.ignoreDeletionMarksDelay\), `).MatchString(ss) {
		return w, fmt.Errorf("store.go: IgnoreDeletionMarkFilter wiring not recognised; adapt the harness")
	}
	i := strings.Index(ss, "block.NewMetaFetcher(")
	if i < 0 {
		return w, fmt.Errorf("store.go: block.NewMetaFetcher( not found")
	}
	rest := ss[i:]
	j := strings.Index(rest, "[]block.MetadataFilter{")
	if j < 0 {
		return w, fmt.Errorf("store.go: filter chain literal not found")
	}
	rest = rest[j+len("[]block.MetadataFilter{"):]
	depth := 0
	end := -1
	for k, c := range rest {
		if c == '(' || c == '{' {
			depth++
		}
		if c == ')' {
			depth--
		}
		if c == '}' {
			if depth == 0 {
				end = k
				break
			}
			depth--
		}
	}
	if end < 0 {
		return w, fmt.Errorf("store.go: unterminated filter chain literal")
	}
	for _, line := range strings.Split(rest[:end], "\n") {
		line = strings.TrimSuffix(strings.TrimSpace(line), ",")
		if line == "" || strings.HasPrefix(line, "//") {
			continue
		}
		w.StoreChain = append(w.StoreChain, line)
	}
	if len(w.StoreChain) == 0 {
		return w, fmt.Errorf("store.go: empty filter chain")
	}
	return w, nil
}

// Params are the model constants (ticks) plus the real durations the real components are configured with.
type Params struct {
	D     int   `json:"D"`
	I     int   `json:"I"`
	L     int   `json:"L"`
	S     int   `json:"S"`
	NJobs int   `json:"njobs"`
	Repl  bool  `json:"replica"` // compaction with replica-label deduplication (sources and results in different gateway groups)
	TickS int64 `json:"tick_s"` // one tick in seconds (deletion marks have 1s resolution)
	N     int   `json:"ticks_per_longest_delay"`

	DeleteDelayS      int64 `json:"delete_delay_s"`
	IgnoreMarksDelayS int64 `json:"ignore_marks_delay_s"`
	SyncIntervalS     int64 `json:"sync_interval_s"`
	CompactIgnoreDiv  int64 `json:"compact_ignore_div"`
}

// scale turns the flag defaults into ticks: one tick = max(deleteDelay, ignoreDelay)/ticksPerMax (whole
// seconds). The real comparisons are "age > delay" on whole-tick ages, so floor(delay/tick) is exact for D
// and I; the sync period is rounded up (more lag than in production); a sync takes at most one tick.
func scale(w Wiring, ticksPerMax, njobs int, replica bool) (Params, error) {
	p := Params{NJobs: njobs, Repl: replica, S: 1, N: ticksPerMax, CompactIgnoreDiv: w.CompactIgnoreDiv,
		DeleteDelayS: int64(w.DeleteDelay / time.Second), IgnoreMarksDelayS: int64(w.IgnoreMarksDelay / time.Second), SyncIntervalS: int64(w.SyncInterval / time.Second)}
	if w.DeleteDelay%time.Second != 0 || w.IgnoreMarksDelay%time.Second != 0 {
		return p, fmt.Errorf("delays with sub-second parts are not supported by the harness")
	}
	longest := p.DeleteDelayS
	if p.IgnoreMarksDelayS > longest {
		longest = p.IgnoreMarksDelayS
	}
	p.TickS = longest / int64(ticksPerMax)
	if p.TickS < 1 {
		p.TickS = 1
	}
	p.D = int(p.DeleteDelayS / p.TickS)
	p.I = int(p.IgnoreMarksDelayS / p.TickS)
	p.L = int((p.SyncIntervalS + p.TickS - 1) / p.TickS)
	if p.L < 1 {
		p.L = 1
	}
	if p.L > p.D+2 {
		// any period above D already lets the gateway serve a deleted block; a smaller period has fewer
		// behaviours, so a violation found with the clamped value is one of the real configuration too
		p.L = p.D + 2
	}
	if p.D > 2*ticksPerMax || p.I > 2*ticksPerMax {
		return p, fmt.Errorf("scaled constants too large (D=%d I=%d ticks of %ds)", p.D, p.I, p.TickS)
	}
	return p, nil
}
