package c34

import (
	"bufio"
	"bytes"
	"encoding/json"
	"fmt"
	"os"
	"os/exec"
	"path/filepath"
	"regexp"
	"sort"
	"strconv"
	"strings"
	"time"
)

// GState is the state of one store gateway in Compaction.tla.
type GState struct {
	View       []string `json:"view"`
	Pending    []string `json:"pending"`
	Syncing    bool     `json:"syncing"`
	SinceBegin int      `json:"since_begin"`
	SyncTicks  int      `json:"sync_ticks"`
}

// MState is one state of Compaction.tla (GW[g-1] = gateway g).
type MState struct {
	Files map[string]string `json:"files"`
	Mark  map[string]int    `json:"mark"`
	Job   int               `json:"job"`
	Phase string            `json:"phase"`
	GW    []GState          `json:"gw"`
}

func (s MState) String() string {
	b, _ := json.Marshal(s)
	return string(b)
}

type Edge struct {
	Act  string
	From int
	To   int
}

type Graph struct {
	States []MState
	IDs    []string
	Out    [][]int // state -> indices into Edges
	Edges  []Edge
	Init   int
}

type TLCResult struct {
	Generated int64  // "states generated" (= transitions examined)
	Distinct  int64  // distinct states
	Depth     int64  // depth of the state graph
	Violated  string // name of the violated invariant, "" if none
	Trace     string // TLC's error trace
	Output    string
	CPU       float64 // user+system seconds of the TLC process
	Wall      float64
}

func cfgText(p Params) string {
	repl := "FALSE"
	if p.Repl {
		repl = "TRUE"
	}
	return fmt.Sprintf("SPECIFICATION Spec\nCONSTANTS\n  D = %d\n  I = %d\n  L = %d\n  S = %d\n  NJobs = %d\n  Replica = %s\n  NG = %d\n  Owner2 <- Owner2V\n  Chain <- ChainV\nINVARIANTS TypeOK Served NoDangling\n",
		p.D, p.I, p.L, p.S, p.NJobs, repl, p.gateways())
}

func tlaStrings(xs []string) string {
	q := make([]string, len(xs))
	for i, x := range xs {
		q[i] = strconv.Quote(x)
	}
	return strings.Join(q, ", ")
}

// mcText is the module TLC runs: Compaction.tla plus the two constants that are not plain values (the
// shard assignment and the filter chain read from cmd/thanos/store.go).
func mcText(p Params) string {
	return fmt.Sprintf("---- MODULE MC ----\nEXTENDS Compaction\nOwner2V == {%s}\nChainV == <<%s>>\n====\n", tlaStrings(p.Owner2), tlaStrings(p.Chain))
}

// runTLC model checks Compaction.tla with the constants of p inside dir; with dump the state graph is
// written to dir/graph.dot.
func runTLC(specPath, dir string, p Params, dump bool, workers int) (TLCResult, error) {
	var res TLCResult
	spec, err := os.ReadFile(specPath)
	if err != nil {
		return res, err
	}
	if err := os.MkdirAll(dir, 0o755); err != nil {
		return res, err
	}
	if err := os.WriteFile(filepath.Join(dir, "Compaction.tla"), spec, 0o644); err != nil {
		return res, err
	}
	if err := os.WriteFile(filepath.Join(dir, "MC.tla"), []byte(mcText(p)), 0o644); err != nil {
		return res, err
	}
	if err := os.WriteFile(filepath.Join(dir, "MC.cfg"), []byte(cfgText(p)), 0o644); err != nil {
		return res, err
	}
	args := []string{"-deadlock", "-workers", strconv.Itoa(workers), "-metadir", filepath.Join(dir, "states")}
	if dump {
		args = append(args, "-dump", "dot,actionlabels", filepath.Join(dir, "graph.dot"))
	}
	args = append(args, "MC.tla")
	cmd := exec.Command("tlc", args...)
	cmd.Dir = dir
	// the models are small and the machine is shared: the JVM's optimising compiler and a GC thread per core cost
	// more CPU than they save
	cmd.Env = append(os.Environ(), "JAVA_TOOL_OPTIONS=-XX:TieredStopAtLevel=1 -XX:ParallelGCThreads=2 -XX:-UsePerfData -Xms64m -Djava.io.tmpdir="+dir)
	var out bytes.Buffer
	cmd.Stdout, cmd.Stderr = &out, &out
	t0 := time.Now()
	runErr := cmd.Run()
	res.Wall = time.Since(t0).Seconds()
	if cmd.ProcessState != nil {
		res.CPU = (cmd.ProcessState.UserTime() + cmd.ProcessState.SystemTime()).Seconds()
	}
	res.Output = out.String()
	if m := regexp.MustCompile(`(\d+) states generated, (\d+) distinct states found`).FindAllStringSubmatch(res.Output, -1); len(m) > 0 {
		last := m[len(m)-1]
		res.Generated, _ = strconv.ParseInt(last[1], 10, 64)
		res.Distinct, _ = strconv.ParseInt(last[2], 10, 64)
	}
	if m := regexp.MustCompile(`The depth of the complete state graph search is (\d+)`).FindStringSubmatch(res.Output); m != nil {
		res.Depth, _ = strconv.ParseInt(m[1], 10, 64)
	}
	if m := regexp.MustCompile(`Error: Invariant (\w+) is violated`).FindStringSubmatch(res.Output); m != nil {
		res.Violated = m[1]
		if i := strings.Index(res.Output, "Error: The behavior up to this point is:"); i >= 0 {
			tr := res.Output[i:]
			if j := strings.Index(tr, "states generated"); j >= 0 {
				tr = tr[:j]
				if k := strings.LastIndex(tr, "\n"); k >= 0 {
					tr = tr[:k]
				}
			}
			res.Trace = tr
		}
		return res, nil
	}
	if strings.Contains(res.Output, "Model checking completed. No error has been found.") {
		return res, nil
	}
	return res, fmt.Errorf("tlc did not finish normally (%v); output tail:\n%s", runErr, tail(res.Output, 3000))
}

func tail(s string, n int) string {
	if len(s) > n {
		return s[len(s)-n:]
	}
	return s
}

var (
	reRecStr = regexp.MustCompile(`(\w+) \|-> "([^"]*)"`)
	reRecInt = regexp.MustCompile(`(\w+) \|-> (-?\d+)`)
	reStr    = regexp.MustCompile(`"([^"]*)"`)
)

var reSet = regexp.MustCompile(`\{([^}]*)\}`)

// tupleItems splits the value of a per-gateway variable: TLC prints a function over 1..NG as <<v1, v2>>.
func tupleItems(val string, sets bool) ([]string, error) {
	val = strings.TrimSpace(val)
	if !strings.HasPrefix(val, "<<") || !strings.HasSuffix(val, ">>") {
		return nil, fmt.Errorf("per-gateway value %q is not a tuple", val)
	}
	val = strings.TrimSpace(val[2 : len(val)-2])
	var out []string
	if sets {
		for _, m := range reSet.FindAllStringSubmatch(val, -1) {
			out = append(out, m[1])
		}
		return out, nil
	}
	for _, it := range strings.Split(val, ",") {
		out = append(out, strings.TrimSpace(it))
	}
	return out, nil
}

func parseState(label string) (MState, error) {
	st := MState{Files: map[string]string{}, Mark: map[string]int{}}
	seen := 0
	gw := func(n int) error {
		if st.GW == nil {
			st.GW = make([]GState, n)
			for i := range st.GW {
				st.GW[i] = GState{View: []string{}, Pending: []string{}}
			}
		}
		if n != len(st.GW) || n == 0 {
			return fmt.Errorf("per-gateway variables of different lengths in state label %q", label)
		}
		return nil
	}
	// one conjunct per variable; TLC breaks long values over several lines
	for _, line := range strings.Split("\n"+label, "\n/\\ ") {
		line = strings.Join(strings.Fields(line), " ")
		i := strings.Index(line, " = ")
		if i < 0 {
			continue
		}
		name, val := line[:i], line[i+3:]
		seen++
		switch name {
		case "files":
			for _, m := range reRecStr.FindAllStringSubmatch(val, -1) {
				st.Files[m[1]] = m[2]
			}
		case "mark":
			for _, m := range reRecInt.FindAllStringSubmatch(val, -1) {
				st.Mark[m[1]], _ = strconv.Atoi(m[2])
			}
		case "view", "pending":
			items, err := tupleItems(val, true)
			if err != nil {
				return st, err
			}
			if err := gw(len(items)); err != nil {
				return st, err
			}
			for g, it := range items {
				set := []string{}
				for _, m := range reStr.FindAllStringSubmatch(it, -1) {
					set = append(set, m[1])
				}
				sort.Strings(set)
				if name == "view" {
					st.GW[g].View = set
				} else {
					st.GW[g].Pending = set
				}
			}
		case "job":
			st.Job, _ = strconv.Atoi(val)
		case "phase":
			st.Phase = strings.Trim(val, `"`)
		case "syncing", "sinceBegin", "syncTicks":
			items, err := tupleItems(val, false)
			if err != nil {
				return st, err
			}
			if err := gw(len(items)); err != nil {
				return st, err
			}
			for g, it := range items {
				switch name {
				case "syncing":
					if it != "TRUE" && it != "FALSE" {
						return st, fmt.Errorf("syncing value %q", it)
					}
					st.GW[g].Syncing = it == "TRUE"
				case "sinceBegin":
					n, err := strconv.Atoi(it)
					if err != nil {
						return st, err
					}
					st.GW[g].SinceBegin = n
				default:
					n, err := strconv.Atoi(it)
					if err != nil {
						return st, err
					}
					st.GW[g].SyncTicks = n
				}
			}
		default:
			return st, fmt.Errorf("unknown variable %q in state label", name)
		}
	}
	if seen != 9 || len(st.Files) == 0 || len(st.Files) != len(st.Mark) || len(st.GW) == 0 {
		return st, fmt.Errorf("state label not understood (%d variables): %q", seen, label)
	}
	return st, nil
}

func unescapeDot(s string) string {
	var sb strings.Builder
	for i := 0; i < len(s); i++ {
		if s[i] == '\\' && i+1 < len(s) {
			i++
			switch s[i] {
			case 'n':
				sb.WriteByte('\n')
			default:
				sb.WriteByte(s[i])
			}
			continue
		}
		sb.WriteByte(s[i])
	}
	return sb.String()
}

// parseDot reads TLC's `-dump dot,actionlabels` output.
func parseDot(path string) (*Graph, error) {
	f, err := os.Open(path)
	if err != nil {
		return nil, err
	}
	defer f.Close()
	g := &Graph{Init: -1}
	idx := map[string]int{}
	type rawEdge struct{ from, to, act string }
	var raw []rawEdge
	reEdge := regexp.MustCompile(`^(-?\d+) -> (-?\d+) \[label="([^"]*)"`)
	reNode := regexp.MustCompile(`^(-?\d+) \[label="`)
	sc := bufio.NewScanner(f)
	sc.Buffer(make([]byte, 1<<20), 1<<26)
	for sc.Scan() {
		line := sc.Text()
		if m := reEdge.FindStringSubmatch(line); m != nil {
			raw = append(raw, rawEdge{m[1], m[2], m[3]})
			continue
		}
		m := reNode.FindStringSubmatch(line)
		if m == nil {
			continue
		}
		rest := line[len(m[0]):]
		end := -1
		for i := 0; i < len(rest); i++ {
			if rest[i] == '\\' {
				i++
				continue
			}
			if rest[i] == '"' {
				end = i
				break
			}
		}
		if end < 0 {
			return nil, fmt.Errorf("unterminated label: %.200s", line)
		}
		if _, dup := idx[m[1]]; dup {
			continue
		}
		st, err := parseState(unescapeDot(rest[:end]))
		if err != nil {
			return nil, err
		}
		idx[m[1]] = len(g.States)
		g.States = append(g.States, st)
		g.IDs = append(g.IDs, m[1])
		if strings.Contains(rest[end:], "style = filled") {
			if g.Init >= 0 {
				return nil, fmt.Errorf("more than one initial state")
			}
			g.Init = len(g.States) - 1
		}
	}
	if err := sc.Err(); err != nil {
		return nil, err
	}
	if g.Init < 0 {
		return nil, fmt.Errorf("no initial state in dump")
	}
	g.Out = make([][]int, len(g.States))
	seen := map[[3]string]bool{}
	for _, e := range raw {
		k := [3]string{e.from, e.to, e.act}
		if seen[k] {
			continue
		}
		seen[k] = true
		fi, ok1 := idx[e.from]
		ti, ok2 := idx[e.to]
		if !ok1 || !ok2 {
			return nil, fmt.Errorf("edge %s -> %s names an unknown state", e.from, e.to)
		}
		g.Out[fi] = append(g.Out[fi], len(g.Edges))
		g.Edges = append(g.Edges, Edge{Act: e.act, From: fi, To: ti})
	}
	return g, nil
}

// syncsWithinTick returns the part of the graph that is reachable when no Tick happens while a gateway is
// between SyncBegin and SyncEnd (the model with S = 0: syncs still interleave with everything else, they just
// do not span a tick boundary). States and edges keep their content; indices are renumbered.
func syncsWithinTick(g *Graph) *Graph {
	allowed := func(e Edge) bool {
		if e.Act != "Tick" {
			return true
		}
		for _, gw := range g.States[e.From].GW {
			if gw.Syncing {
				return false
			}
		}
		return true
	}
	idx := map[int]int{g.Init: 0}
	order := []int{g.Init}
	for q := 0; q < len(order); q++ {
		for _, ei := range g.Out[order[q]] {
			e := g.Edges[ei]
			if !allowed(e) {
				continue
			}
			if _, ok := idx[e.To]; !ok {
				idx[e.To] = len(order)
				order = append(order, e.To)
			}
		}
	}
	sub := &Graph{Init: 0, States: make([]MState, len(order)), IDs: make([]string, len(order)), Out: make([][]int, len(order))}
	for ni, oi := range order {
		sub.States[ni], sub.IDs[ni] = g.States[oi], g.IDs[oi]
		for _, ei := range g.Out[oi] {
			e := g.Edges[ei]
			if !allowed(e) {
				continue
			}
			sub.Out[ni] = append(sub.Out[ni], len(sub.Edges))
			sub.Edges = append(sub.Edges, Edge{Act: e.Act, From: ni, To: idx[e.To]})
		}
	}
	return sub
}

// Path is one trace from the initial state; Fresh[i] tells whether step i is an edge no earlier path covered.
type Path struct {
	Edges []int
}

// coverPaths returns traces from the initial state that together traverse every edge of the graph: each
// starts with the shortest path to a state that still has an untraversed outgoing edge and then keeps
// following untraversed edges; when the current state has none left the trace moves on (over edges already
// traversed) to the nearest state that has, instead of starting over from the initial state. A trace ends
// when no such state can be reached or it has maxLen steps.
func coverPaths(g *Graph, maxLen int) []Path {
	parent := make([]int, len(g.States)) // edge index that first reached the state
	for i := range parent {
		parent[i] = -1
	}
	order := []int{g.Init}
	seen := make([]bool, len(g.States))
	seen[g.Init] = true
	for q := 0; q < len(order); q++ {
		u := order[q]
		for _, ei := range g.Out[u] {
			v := g.Edges[ei].To
			if !seen[v] {
				seen[v] = true
				parent[v] = ei
				order = append(order, v)
			}
		}
	}
	prefix := func(u int) []int {
		var rev []int
		for u != g.Init {
			ei := parent[u]
			rev = append(rev, ei)
			u = g.Edges[ei].From
		}
		for i, j := 0, len(rev)-1; i < j; i, j = i+1, j-1 {
			rev[i], rev[j] = rev[j], rev[i]
		}
		return rev
	}
	done := make([]bool, len(g.Edges))
	next := make([]int, len(g.States)) // per state: position in Out of the first possibly untraversed edge
	hasFresh := func(u int) bool {
		for next[u] < len(g.Out[u]) && done[g.Out[u][next[u]]] {
			next[u]++
		}
		return next[u] < len(g.Out[u])
	}
	// breadth-first search from u for the nearest state with an untraversed edge
	stamp := make([]int, len(g.States))
	via := make([]int, len(g.States))
	gen := 0
	hop := func(u int) []int {
		gen++
		stamp[u] = gen
		level := []int{u}
		for len(level) > 0 {
			var nl []int
			for _, x := range level {
				for _, ei := range g.Out[x] {
					v := g.Edges[ei].To
					if stamp[v] == gen {
						continue
					}
					stamp[v] = gen
					via[v] = ei
					if hasFresh(v) {
						var rev []int
						for v != u {
							rev = append(rev, via[v])
							v = g.Edges[via[v]].From
						}
						for i, j := 0, len(rev)-1; i < j; i, j = i+1, j-1 {
							rev[i], rev[j] = rev[j], rev[i]
						}
						return rev
					}
					nl = append(nl, v)
				}
			}
			level = nl
		}
		return nil
	}
	var paths []Path
	for _, u := range order {
		for hasFresh(u) {
			p := Path{Edges: prefix(u)}
			for _, ei := range p.Edges {
				done[ei] = true
			}
			cur := u
			for first := true; first || len(p.Edges) < maxLen; first = false {
				if hasFresh(cur) {
					ei := g.Out[cur][next[cur]]
					done[ei] = true
					p.Edges = append(p.Edges, ei)
					cur = g.Edges[ei].To
					continue
				}
				h := hop(cur)
				if h == nil || len(p.Edges)+len(h) >= maxLen {
					break
				}
				p.Edges = append(p.Edges, h...)
				cur = g.Edges[h[len(h)-1]].To
			}
			paths = append(paths, p)
		}
	}
	return paths
}
