---------------------------- MODULE Compaction ----------------------------
(***************************************************************************)
(* Compactor / store-gateway protocol of Thanos around block replacement.  *)
(*                                                                         *)
(* The compactor replaces blocks: it uploads the result (data objects      *)
(* first, meta.json last), then marks the sources for deletion, and a      *)
(* cleaner deletes a marked block once its mark is older than D.  A store  *)
(* gateway periodically lists the bucket: it serves the blocks that have a *)
(* meta.json, minus blocks whose deletion mark is older than I, minus      *)
(* blocks whose sources are all contained in another such block.           *)
(*                                                                         *)
(* Time is discrete.  All constants are in ticks and are generated from    *)
(* the flag defaults of cmd/thanos/compact.go and cmd/thanos/store.go by   *)
(* the Go harness (checks/c34), which also replays every edge of the state *)
(* graph of this specification against the real code.                      *)
(***************************************************************************)
EXTENDS Integers, FiniteSets

CONSTANTS D,      \* compactor --delete-delay: a marked block is deleted when its mark age > D
          I,      \* store --ignore-deletion-marks-delay: a marked block is hidden when its mark age > I
          L,      \* store --sync-block-duration: at most L ticks between the starts of two syncs
          S,      \* a sync (listing .. installing the new view) lasts at most S ticks
          NJobs,  \* 1: s1+s2 -> r          2: additionally r+s3 -> t
          Replica \* FALSE: plain compaction, all blocks in one compaction group.
                  \* TRUE: compaction with --deduplication.replica-label: the sources carry a replica label
                  \* (s1, s3: replica a; s2: replica b), the results do not, so for the store gateway (which
                  \* does not strip replica labels) sources and results are in different compaction groups

ASSUME D \in Nat /\ I \in Nat /\ L \in Nat \ {0} /\ S \in Nat /\ NJobs \in {1, 2} /\ Replica \in BOOLEAN

Sources == IF NJobs = 1 THEN {"s1", "s2"} ELSE {"s1", "s2", "s3"}
Results == IF NJobs = 1 THEN {"r"} ELSE {"r", "t"}
Blocks  == Sources \cup Results

\* the level-1 blocks a block was built from (meta.json Compaction.Sources)
Src(b)    == CASE b = "r" -> {"s1", "s2"} [] b = "t" -> {"s1", "s2", "s3"} [] OTHER -> {b}
JobIn(j)  == IF j = 1 THEN {"s1", "s2"} ELSE {"r", "s3"}
JobOut(j) == IF j = 1 THEN "r" ELSE "t"

\* compaction group as the store gateway sees it (resolution + external labels of the block)
Group(b) == IF Replica /\ b \in Sources THEN (IF b = "s2" THEN "replica-b" ELSE "replica-a") ELSE "no-replica-label"

\* largest mark age that is told apart: one more than both delays
Cap == (IF I > D THEN I ELSE D) + 1

VARIABLES
  files,       \* bucket content per block: "none", "data" (no meta.json yet), "complete", "nometa" (meta.json deleted, rest still there)
  mark,        \* age of deletion-mark.json in ticks, -1 = not marked; ages above Cap are not distinguished
  job, phase,  \* compactor program counter: phase \in {"data", "meta", "mark", "done"}
  view,        \* blocks the gateway serves
  pending,     \* result of the listing of a sync in progress
  syncing,     \* a sync is in progress
  sinceBegin,  \* ticks since the last sync started
  syncTicks    \* ticks the sync in progress has taken so far

vars == <<files, mark, job, phase, view, pending, syncing, sinceBegin, syncTicks>>

\* What a gateway listing yields now (fetcher + IgnoreDeletionMarkFilter + DeduplicateFilter).
Visible ==
  LET withMeta   == {b \in Blocks : files[b] = "complete"}
      notExpired == {b \in withMeta : mark[b] <= I}
  IN  {b \in notExpired : ~ \E c \in notExpired : c # b /\ Group(c) = Group(b) /\ Src(b) \subseteq Src(c)}

Init ==
  /\ files = [b \in Blocks |-> IF b \in Sources THEN "complete" ELSE "none"]
  /\ mark = [b \in Blocks |-> -1]
  /\ job = 1 /\ phase = "data"
  /\ view = Sources /\ pending = {} /\ syncing = FALSE
  /\ sinceBegin = 0 /\ syncTicks = 0

gw == <<view, pending, syncing, sinceBegin, syncTicks>>

UploadData ==
  /\ phase = "data"
  /\ files' = [files EXCEPT ![JobOut(job)] = "data"]
  /\ phase' = "meta"
  /\ UNCHANGED <<mark, job>> /\ UNCHANGED gw

UploadMeta ==
  /\ phase = "meta"
  /\ files' = [files EXCEPT ![JobOut(job)] = "complete"]
  /\ phase' = "mark"
  /\ UNCHANGED <<mark, job>> /\ UNCHANGED gw

MarkSource ==
  /\ phase = "mark"
  /\ \E b \in JobIn(job) :
       /\ mark[b] = -1
       /\ mark' = [mark EXCEPT ![b] = 0]
       /\ IF \A c \in JobIn(job) \ {b} : mark[c] # -1
            THEN IF job < NJobs THEN job' = job + 1 /\ phase' = "data"
                                ELSE job' = job /\ phase' = "done"
            ELSE UNCHANGED <<job, phase>>
  /\ UNCHANGED files /\ UNCHANGED gw

Eligible == {b \in Blocks : files[b] = "complete" /\ mark[b] > D}

\* BlocksCleaner.DeleteMarkedBlocks: deletes every block whose mark is older than D - and nothing else; it
\* may run at any time (with nothing to delete it leaves the state unchanged).
Clean ==
  /\ files' = [b \in Blocks |-> IF b \in Eligible THEN "none" ELSE files[b]]
  /\ mark'  = [b \in Blocks |-> IF b \in Eligible THEN -1 ELSE mark[b]]
  /\ UNCHANGED <<job, phase>> /\ UNCHANGED gw

\* The same, interrupted after meta.json of each such block was deleted (block.Delete deletes it first).
CleanCrash ==
  /\ Eligible # {}
  /\ files' = [b \in Blocks |-> IF b \in Eligible THEN "nometa" ELSE files[b]]
  /\ UNCHANGED <<mark, job, phase>> /\ UNCHANGED gw

SyncBegin ==
  /\ ~ syncing
  /\ pending' = Visible /\ syncing' = TRUE
  /\ sinceBegin' = 0 /\ syncTicks' = 0
  /\ UNCHANGED <<files, mark, job, phase, view>>

SyncEnd ==
  /\ syncing
  /\ view' = pending /\ pending' = {} /\ syncing' = FALSE
  /\ UNCHANGED <<files, mark, job, phase, sinceBegin, syncTicks>>

Tick ==
  /\ sinceBegin < L
  /\ syncing => syncTicks < S
  /\ mark' = [b \in Blocks |-> IF mark[b] = -1 \/ mark[b] >= Cap THEN mark[b] ELSE mark[b] + 1]
  /\ sinceBegin' = sinceBegin + 1
  /\ syncTicks' = IF syncing THEN syncTicks + 1 ELSE 0
  /\ UNCHANGED <<files, job, phase, view, pending, syncing>>

Next == UploadData \/ UploadMeta \/ MarkSource \/ Clean \/ CleanCrash \/ SyncBegin \/ SyncEnd \/ Tick

Spec == Init /\ [][Next]_vars

TypeOK ==
  /\ files \in [Blocks -> {"none", "data", "complete", "nometa"}]
  /\ mark \in [Blocks -> -1 .. Cap]
  /\ job \in 1 .. NJobs /\ phase \in {"data", "meta", "mark", "done"}
  /\ view \subseteq Blocks /\ pending \subseteq Blocks /\ syncing \in BOOLEAN
  /\ sinceBegin \in 0 .. L /\ syncTicks \in 0 .. S

\* Every source sample is served: some block the gateway serves was built from the source and is
\* still completely in the bucket.
Served == \A s \in Sources : \E b \in view : s \in Src(b) /\ files[b] = "complete"

\* ... and no block the gateway serves from has been (partly) deleted: a query touching it would fail.
NoDangling == \A b \in view : files[b] = "complete"
=============================================================================
