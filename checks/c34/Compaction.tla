---------------------------- MODULE Compaction ----------------------------
(***************************************************************************)
(* Compactor / store-gateway protocol of Thanos around block replacement.  *)
(*                                                                         *)
(* The compactor replaces blocks: it uploads the result (data objects      *)
(* first, meta.json last), then marks the sources for deletion, and a      *)
(* cleaner deletes a marked block once its mark is older than D.  A store  *)
(* gateway periodically lists the bucket: it serves the blocks that have a *)
(* meta.json, minus blocks whose deletion mark is older than I, minus      *)
(* blocks whose sources are all contained in another such block.  There    *)
(* are NG store gateways; with NG = 2 they are sharded by a hashmod        *)
(* relabel rule on __block_id (docs/sharding.md): every block id belongs   *)
(* to exactly one of them and each gateway syncs on its own schedule.      *)
(* What a listing yields is the composition of the gateway's metadata      *)
(* filters in the ORDER of the chain in cmd/thanos/store.go (constant      *)
(* Chain, read from the source tree by the harness).                       *)
(*                                                                         *)
(* Time is discrete.  All constants are in ticks and are generated from    *)
(* the flag defaults of cmd/thanos/compact.go and cmd/thanos/store.go by   *)
(* the Go harness (checks/c34), which also replays every edge of the state *)
(* graph of this specification against the real code.                      *)
(***************************************************************************)
EXTENDS Integers, FiniteSets, Sequences

CONSTANTS D,      \* compactor --delete-delay: a marked block is deleted when its mark age > D
          I,      \* store --ignore-deletion-marks-delay: a marked block is hidden when its mark age > I
          L,      \* store --sync-block-duration: at most L ticks between the starts of two syncs of a gateway
          S,      \* a sync (listing .. installing the new view) lasts at most S ticks
          NJobs,  \* 1: s1+s2 -> r          2: additionally r+s3 -> t
          Replica,\* FALSE: plain compaction, all blocks in one compaction group.
                  \* TRUE: compaction with --deduplication.replica-label: the sources carry a replica label
                  \* (s1, s3: replica a; s2: replica b), the results do not, so for the store gateway (which
                  \* does not strip replica labels) sources and results are in different compaction groups
          NG,     \* number of store gateways: 1, or 2 = a set sharded by hashmod(__block_id) % 2
          Owner2, \* NG = 2: the blocks whose id hashes to the second gateway (all others: the first)
          Chain   \* the gateway's metadata filter chain in the order written in cmd/thanos/store.go, as a
                  \* sequence of "shard" (LabelShardedMetaFilter), "mark" (IgnoreDeletionMarkFilter), "dedup"
                  \* (DeduplicateFilter) and names of filters that keep every block of the catalogue ("parquet",
                  \* "time" with the default range, "consistency": results are compactor-made = exempt, the
                  \* sources are older than the delay)

ASSUME D \in Nat /\ I \in Nat /\ L \in Nat \ {0} /\ S \in Nat /\ NJobs \in {1, 2} /\ Replica \in BOOLEAN /\ NG \in {1, 2}

Sources == IF NJobs = 1 THEN {"s1", "s2"} ELSE {"s1", "s2", "s3"}
Results == IF NJobs = 1 THEN {"r"} ELSE {"r", "t"}
Blocks  == Sources \cup Results
Gateways == 1 .. NG

Src(b)    == CASE b = "r" -> {"s1", "s2"} [] b = "t" -> {"s1", "s2", "s3"} [] OTHER -> {b}
JobIn(j)  == IF j = 1 THEN {"s1", "s2"} ELSE {"r", "s3"}
JobOut(j) == IF j = 1 THEN "r" ELSE "t"
Group(b) == IF Replica /\ b \in Sources THEN (IF b = "s2" THEN "replica-b" ELSE "replica-a") ELSE "no-replica-label"
Owner(b) == IF NG = 2 /\ b \in Owner2 THEN 2 ELSE 1
Cap == (IF I > D THEN I ELSE D) + 1

VARIABLES files, mark, job, phase, view, pending, syncing, sinceBegin, syncTicks
vars == <<files, mark, job, phase, view, pending, syncing, sinceBegin, syncTicks>>

\* One metadata filter of gateway g applied to the set X of blocks that are still in the listing.
Apply(f, X, g) ==
  CASE f = "shard" -> {b \in X : Owner(b) = g}
    [] f = "mark"  -> {b \in X : mark[b] <= I}
    [] f = "dedup" -> {b \in X : ~ \E c \in X : c # b /\ Group(c) = Group(b) /\ Src(b) \subseteq Src(c)}
    [] OTHER -> X
RECURSIVE Fold(_, _, _)
Fold(i, X, g) == IF i > Len(Chain) THEN X ELSE Fold(i + 1, Apply(Chain[i], X, g), g)
\* What a listing of gateway g yields now: the blocks with a meta.json, passed through the chain in order.
Visible(g) == Fold(1, {b \in Blocks : files[b] = "complete"}, g)

Init ==
  /\ files = [b \in Blocks |-> IF b \in Sources THEN "complete" ELSE "none"]
  /\ mark = [b \in Blocks |-> -1]
  /\ job = 1 /\ phase = "data"
  /\ view = [g \in Gateways |-> {b \in Sources : Owner(b) = g}]
  /\ pending = [g \in Gateways |-> {}] /\ syncing = [g \in Gateways |-> FALSE]
  /\ sinceBegin = [g \in Gateways |-> 0] /\ syncTicks = [g \in Gateways |-> 0]

gw == <<view, pending, syncing, sinceBegin, syncTicks>>

UploadData ==
  /\ phase = "data"
  /\ files' = [files EXCEPT ![JobOut(job)] = "data"]
  /\ phase' = "meta"
  /\ UNCHANGED <<mark, job>> /\ UNCHANGED gw

UploadMeta ==
  /\ phase = "meta"
  /\ files' = [files EXCEPT ![JobOut(job)] = "complete"]
  /\ phase' = "mark"
  /\ UNCHANGED <<mark, job>> /\ UNCHANGED gw

MarkSource ==
  /\ phase = "mark"
  /\ \E b \in JobIn(job) :
       /\ mark[b] = -1
       /\ mark' = [mark EXCEPT ![b] = 0]
       /\ IF \A c \in JobIn(job) \ {b} : mark[c] # -1
            THEN IF job < NJobs THEN job' = job + 1 /\ phase' = "data"
                                ELSE job' = job /\ phase' = "done"
            ELSE UNCHANGED <<job, phase>>
  /\ UNCHANGED files /\ UNCHANGED gw

\* BlocksCleaner.DeleteMarkedBlocks: deletes every block whose mark is older than D - and nothing else; it
\* may run at any time (with nothing to delete it leaves the state unchanged).
Eligible == {b \in Blocks : files[b] = "complete" /\ mark[b] > D}

Clean ==
  /\ files' = [b \in Blocks |-> IF b \in Eligible THEN "none" ELSE files[b]]
  /\ mark'  = [b \in Blocks |-> IF b \in Eligible THEN -1 ELSE mark[b]]
  /\ UNCHANGED <<job, phase>> /\ UNCHANGED gw

\* The same, interrupted after meta.json of each such block was deleted (block.Delete deletes it first).
CleanCrash ==
  /\ Eligible # {}
  /\ files' = [b \in Blocks |-> IF b \in Eligible THEN "nometa" ELSE files[b]]
  /\ UNCHANGED <<mark, job, phase>> /\ UNCHANGED gw

SyncBegin ==
  \E g \in Gateways :
    /\ ~ syncing[g]
    /\ pending' = [pending EXCEPT ![g] = Visible(g)] /\ syncing' = [syncing EXCEPT ![g] = TRUE]
    /\ sinceBegin' = [sinceBegin EXCEPT ![g] = 0] /\ syncTicks' = [syncTicks EXCEPT ![g] = 0]
    /\ UNCHANGED <<files, mark, job, phase, view>>

SyncEnd ==
  \E g \in Gateways :
    /\ syncing[g]
    /\ view' = [view EXCEPT ![g] = pending[g]] /\ pending' = [pending EXCEPT ![g] = {}]
    /\ syncing' = [syncing EXCEPT ![g] = FALSE]
    /\ UNCHANGED <<files, mark, job, phase, sinceBegin, syncTicks>>

Tick ==
  /\ \A g \in Gateways : sinceBegin[g] < L /\ (syncing[g] => syncTicks[g] < S)
  /\ mark' = [b \in Blocks |-> IF mark[b] = -1 \/ mark[b] >= Cap THEN mark[b] ELSE mark[b] + 1]
  /\ sinceBegin' = [g \in Gateways |-> sinceBegin[g] + 1]
  /\ syncTicks' = [g \in Gateways |-> IF syncing[g] THEN syncTicks[g] + 1 ELSE 0]
  /\ UNCHANGED <<files, job, phase, view, pending, syncing>>

Next == UploadData \/ UploadMeta \/ MarkSource \/ Clean \/ CleanCrash \/ SyncBegin \/ SyncEnd \/ Tick
Spec == Init /\ [][Next]_vars

TypeOK ==
  /\ files \in [Blocks -> {"none", "data", "complete", "nometa"}]
  /\ mark \in [Blocks -> -1 .. Cap]
  /\ job \in 1 .. NJobs /\ phase \in {"data", "meta", "mark", "done"}
  /\ view \in [Gateways -> SUBSET Blocks] /\ pending \in [Gateways -> SUBSET Blocks] /\ syncing \in [Gateways -> BOOLEAN]
  /\ sinceBegin \in [Gateways -> 0 .. L] /\ syncTicks \in [Gateways -> 0 .. S]

\* Every source sample is served by some store gateway: some block that a gateway of the set serves was
\* built from the source and is still completely in the bucket.
Served == \A s \in Sources : \E g \in Gateways : \E b \in view[g] : s \in Src(b) /\ files[b] = "complete"
\* ... and no block a gateway serves from has been (partly) deleted: a query touching it would fail.
NoDangling == \A g \in Gateways : \A b \in view[g] : files[b] = "complete"
=============================================================================
