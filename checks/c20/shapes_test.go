package c20

import (
	"fmt"
	"strings"
)

// An address scheme names node i of a ring. Schemes 0..2 are ordinary names. The other ones are address SHAPES:
// one symbol per way the bytes of two addresses of one ring can relate to each other and to the sizes a key
// buffer typically has (64, and 32 / 128 / 256 in the thorough tier):
//
//	late<D>[s]  Kubernetes style names of one StatefulSet, 70..130 bytes (thorough: up to 310), that are identical
//	            up to byte D, where the ordinal (the only differing byte) stands, followed by a long common
//	            suffix (".<service>.<namespace>.svc.cluster.local:<port>") or, "s", only the port
//	exact<L>    names of exactly L bytes that differ in their last byte only
//	chain<P>    names that are prefixes of one another: a common stem of P bytes and the ordinals 1, 12, 123, ...
//	            (chain62: 63, 64, 65, 66... bytes)
type scheme struct {
	name     string
	shape    bool // an address shape (enumerated with small rings and with mixed short/shaped rings)
	thorough bool // thorough tier only
	addr     func(i int) string
}

// stemText is a long DNS-like text; stem(n) are its first n bytes.
var stemText = strings.Join([]string{
	"thanos-receive-ingestor-default-tenant-platform-observability-production-europe-west4-b",
	"pool-general-purpose-arm64-retention-15d-replica-set-blue-canary-2026q3-rack-17-row-c-hall-2",
	"dc-ams03-cluster-obs-core-01-namespace-monitoring-system-statefulset-rollout-0042-generation-7",
	"shard-group-alpha-partition-0003-volume-class-ssd-xl-tier-hot-zone-a",
}, "-")

func stem(n int) string {
	if n > len(stemText) {
		panic("HARNESS-ERROR stem text too short")
	}
	return stemText[:n]
}

const (
	ordinals   = "0123456789abcdefghijklmnopqrstuvwxyz"
	svcSuffix  = ".thanos-receive.monitoring.svc.cluster.local:10901"
	portSuffix = ":10901"
	chainDigit = "123456789012345678901234567890"
)

func late(d int, suffix, tag string, thorough bool) scheme {
	return scheme{name: fmt.Sprintf("late%d%s", d, tag), shape: true, thorough: thorough, addr: func(i int) string {
		return stem(d-1) + "-" + ordinals[i:i+1] + suffix
	}}
}

func exact(l int, thorough bool) scheme {
	return scheme{name: fmt.Sprintf("exact%d", l), shape: true, thorough: thorough, addr: func(i int) string {
		return stem(l-2) + "-" + ordinals[i:i+1]
	}}
}

func chain(p int, thorough bool) scheme {
	return scheme{name: fmt.Sprintf("chain%d", p), shape: true, thorough: thorough, addr: func(i int) string {
		return stem(p-1) + "-" + chainDigit[:i+1]
	}}
}

var families = []scheme{
	{name: "short", addr: func(i int) string { return fmt.Sprintf("node-%d:10901", i) }},
	{name: "k8s", addr: func(i int) string {
		return fmt.Sprintf("thanos-receive-%d.thanos-receive.monitoring.svc.cluster.local:10901", i)
	}},
	{name: "ip", addr: func(i int) string { return fmt.Sprintf("10.0.%d.%d:19291", i%3, 200-17*i) }},
	// ---- shapes, quick and thorough. late<D>: the ordinal is byte number D (0-based).
	late(63, svcSuffix, "", false),   // 114 bytes, the ordinal is the last of the first 64 bytes
	late(64, svcSuffix, "", false),   // 115 bytes, the ordinal is the first byte after the first 64
	late(79, svcSuffix, "", false),   // 130 bytes
	late(64, portSuffix, "s", false), // 71 bytes
	exact(63, false),
	exact(64, false),
	exact(65, false),
	chain(7, false),  // thanos-1, thanos-12, thanos-123...: 8, 9, 10... bytes
	chain(62, false), // 63, 64, 65, 66... bytes
	chain(72, false), // 73, 74, ... bytes
	// ---- thorough only: the same shapes around 32, 128 and 256 bytes
	late(31, svcSuffix, "", true), late(32, svcSuffix, "", true),
	late(127, svcSuffix, "", true), late(128, svcSuffix, "", true),
	late(255, svcSuffix, "", true), late(256, svcSuffix, "", true),
	late(128, portSuffix, "s", true), late(256, portSuffix, "s", true),
	exact(31, true), exact(32, true), exact(33, true),
	exact(127, true), exact(128, true), exact(129, true),
	exact(255, true), exact(256, true), exact(257, true),
	chain(30, true), chain(126, true), chain(254, true),
}
