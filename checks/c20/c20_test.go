// C20: with ketama and no availability zones, adding one endpoint changes the replica set of a series at most by
// putting the new endpoint in place of one other; series never move between pre-existing nodes.
//
// Engine E4. A configuration is a ring of M nodes and one of its nodes X: the "old" ring is the list without X,
// the "new" ring the complete list (X is added at its list position, so first / middle / last positions and all
// M names occur as the added node). Both real rings are built with NewMultiHashring. The hash space is covered
// completely: the placement is constant between two consecutive section hashes of the new ring, so for every
// section of the new ring its replica list is compared with the replica list of the old ring's successor section
// of the same hash. GetN is cross-checked against the section tables on a series family incl. the wrap-around.
//
// Address SHAPES (shapes_test.go): besides three ordinary naming schemes the rings are built from long Kubernetes
// style names whose only differing byte (the ordinal) comes late (around and after byte 64 / 128 / 256), names of
// exactly 63/64/65 (31..33, 127..129, 255..257) bytes, and names that are prefixes of one another; the added node
// has the shape of the ring, or a short name joins a ring of shaped names, or a shaped name joins a ring of short ones.
package c20

import (
	"fmt"
	"iter"
	"sort"
	"strings"
	"sync/atomic"
	"testing"

	"github.com/prometheus/client_golang/prometheus"
	"github.com/thanos-io/thanos/pkg/receive"
	"github.com/thanos-io/thanos/pkg/store/labelpb"
	"github.com/thanos-io/thanos/pkg/store/storepb/prompb"

	"verif/vlib"
)

type Case struct {
	Family int `json:"family"` // naming scheme / address shape of the nodes (index into families)
	M      int `json:"m"`      // nodes in the new ring
	X      int `json:"x"`      // index of the added node in the new ring's endpoint list
	RF     int `json:"rf"`
	// Mix: 0 = every node is named by Family; 1 = the added node has a short name (family 0) and joins a ring named by
	// Family; 2 = the added node is named by Family and joins a ring of short names (family 0).
	Mix int `json:"mix,omitempty"`
}

// address is the address of node i of the new ring.
func (c Case) address(i int) string {
	f := c.Family
	if (c.Mix == 1 && i == c.X) || (c.Mix == 2 && i != c.X) {
		f = 0
	}
	return families[f].addr(i)
}

func (c Case) endpoint(i int) receive.Endpoint {
	a := c.address(i)
	return receive.Endpoint{Address: a, CapNProtoAddress: a}
}

// describe lists the addresses of a configuration for a counter-example.
func (c Case) describe() string {
	var b strings.Builder
	fmt.Fprintf(&b, "scheme %q, nodes:", families[c.Family].name)
	for i := 0; i < c.M; i++ {
		a := c.address(i)
		tag := ""
		if i == c.X {
			tag = " (added)"
		}
		fmt.Fprintf(&b, " [%d]%s %dB %q", i, tag, len(a), a)
	}
	return b.String()
}

func (c Case) lists() (old, cur []receive.Endpoint) {
	for i := 0; i < c.M; i++ {
		cur = append(cur, c.endpoint(i))
		if i != c.X {
			old = append(old, c.endpoint(i))
		}
	}
	return
}

type bounds struct {
	maxM, maxRF           int  // ordinary naming schemes
	shapeMaxM, shapeMaxRF int  // address shapes (rings of 3..shapeMaxM nodes after the addition)
	thorough              bool // include the thorough-only shapes
}

// gen: ring sizes ascending; per size first the address shapes (small rings only), then the ordinary schemes.
func gen(b bounds) iter.Seq[Case] {
	return func(yield func(Case) bool) {
		for m := 2; m <= max(b.maxM, b.shapeMaxM); m++ {
			if m >= 3 && m <= b.shapeMaxM {
				for f, s := range families {
					if !s.shape || (s.thorough && !b.thorough) {
						continue
					}
					for mix := 0; mix <= 2; mix++ {
						for x := 0; x < m; x++ {
							for rf := 1; rf <= min(b.shapeMaxRF, m-1); rf++ {
								if !yield(Case{Family: f, M: m, X: x, RF: rf, Mix: mix}) {
									return
								}
							}
						}
					}
				}
			}
			if m > b.maxM {
				continue
			}
			for f, s := range families {
				if s.shape {
					continue
				}
				for x := 0; x < m; x++ {
					for rf := 1; rf <= min(b.maxRF, m-1); rf++ {
						if !yield(Case{Family: f, M: m, X: x, RF: rf}) {
							return
						}
					}
				}
			}
		}
	}
}

func build(eps []receive.Endpoint, rf int) (receive.Hashring, error) {
	cfg := []receive.HashringConfig{{Hashring: "h", Endpoints: eps}}
	return receive.NewMultiHashring(receive.AlgorithmKetama, uint64(rf), cfg, prometheus.NewRegistry())
}

func series(i int) *prompb.TimeSeries {
	return &prompb.TimeSeries{Labels: []labelpb.ZLabel{{Name: "__name__", Value: "m"}, {Name: "i", Value: fmt.Sprint(i)}}}
}

// succ is the index of the first section whose hash is >= v, wrapping to 0 (what GetN does).
func succ(secs []receive.VerifC20Section, v uint64) int {
	i := sort.Search(len(secs), func(i int) bool { return secs[i].Hash >= v })
	if i == len(secs) {
		return 0
	}
	return i
}

type checker struct {
	r *vlib.R
	// totals, added to the evidence once at the end
	intervals, changed, shapeCases, ties atomic.Int64
}

// compare decides the property for one point of the hash space. Node sets are bitmasks over node numbers.
func (k *checker) compare(c Case, where func() string, oldSet, newSet uint64) bool {
	xbit := uint64(1) << uint(c.X)
	if newSet&^(oldSet|xbit) != 0 {
		k.r.Violation("series-moved-between-pre-existing-nodes", fmt.Sprintf("%s: replica nodes %b before, %b after adding node %d: a pre-existing node gained the series; %s", where(), oldSet, newSet, c.X, c.describe()), c)
		return false
	}
	lost := 0
	for m := oldSet &^ newSet; m != 0; m &= m - 1 {
		lost++
	}
	if lost > 1 {
		k.r.Violation("more-than-one-replica-replaced", fmt.Sprintf("%s: replica nodes %b before, %b after adding node %d; %s", where(), oldSet, newSet, c.X, c.describe()), c)
		return false
	}
	return true
}

// eval never lets a panic of the code under test escape: it is a counter-example of its own class.
func (k *checker) eval(c Case) {
	defer func() {
		if p := recover(); p != nil {
			if s, ok := p.(string); ok && strings.HasPrefix(s, "HARNESS-ERROR") {
				panic(p)
			}
			k.r.Violation("panic-building-or-querying-the-ring", fmt.Sprintf("panic: %v; %s", p, c.describe()), c)
		}
	}()
	k.evalCase(c)
}

func (k *checker) evalCase(c Case) {
	r := k.r
	if r.Expired("configurations left unevaluated") {
		return
	}
	if c.Family < 0 || c.Family >= len(families) || c.M < 2 || c.M > len(ordinals) || c.X < 0 || c.X >= c.M || c.RF < 1 || c.RF >= c.M || c.Mix < 0 || c.Mix > 2 {
		panic(fmt.Sprintf("HARNESS-ERROR case out of range: %+v", c))
	}
	r.Sample(c)
	oldL, newL := c.lists()
	ix := map[receive.Endpoint]int{}
	for i := 0; i < c.M; i++ {
		ix[c.endpoint(i)] = i
	}
	if len(ix) != c.M {
		panic(fmt.Sprintf("HARNESS-ERROR addresses are not pairwise different: %s", c.describe()))
	}
	set := func(es []receive.Endpoint) (uint64, bool) {
		var m uint64
		for _, e := range es {
			i, ok := ix[e]
			if !ok {
				return 0, false
			}
			m |= 1 << uint(i)
		}
		return m, true
	}
	oldR, err := build(oldL, c.RF)
	if err != nil {
		r.Violation("ring-not-constructible", fmt.Sprintf("old ring: %v; %s", err, c.describe()), c)
		return
	}
	newR, err := build(newL, c.RF)
	if err != nil {
		r.Violation("ring-not-constructible", fmt.Sprintf("new ring: %v; %s", err, c.describe()), c)
		return
	}
	oldS, newS := receive.VerifC20Sections(oldR), receive.VerifC20Sections(newR)
	if len(oldS) != (c.M-1)*receive.SectionsPerNode || len(newS) != c.M*receive.SectionsPerNode {
		panic(fmt.Sprintf("HARNESS-ERROR section tables have %d / %d entries", len(oldS), len(newS)))
	}
	if c.RF >= 2 && c.M >= 3 {
		r.Nontrivial(fmt.Sprint(c))
	}
	if families[c.Family].shape {
		k.shapeCases.Add(1)
	}

	// ---- the whole hash space. The placement of a hash v is decided by the first section with hash >= v in either
	// ring (GetN), so it is constant between two consecutive values of the union of both rings' section hashes:
	// one comparison per such value (sections with equal hashes are one value, the first of them decides as in GetN).
	changed, intervals, ties := int64(0), int64(0), int64(0)
	at := func(h uint64, what string, si int) bool {
		s, o := &newS[succ(newS, h)], &oldS[succ(oldS, h)]
		if len(s.Replicas) < c.RF || len(o.Replicas) < c.RF {
			r.Violation("section-has-fewer-replicas-than-rf", fmt.Sprintf("hash %d: %d replicas in the new ring, %d in the old; %s", h, len(s.Replicas), len(o.Replicas), c.describe()), c)
			return false
		}
		ns, ok1 := set(s.Replicas[:c.RF])
		os, ok2 := set(o.Replicas[:c.RF])
		if !ok1 || !ok2 {
			r.Violation("replica-is-not-a-configured-endpoint", fmt.Sprintf("hash %d: %v / %v", h, s.Replicas, o.Replicas), c)
			return false
		}
		intervals++
		if ns != os {
			changed++
		}
		return k.compare(c, func() string { return fmt.Sprintf("hashes up to %d (%s section %d)", h, what, si) }, os, ns)
	}
	for si := range newS {
		if si > 0 && newS[si].Hash == newS[si-1].Hash {
			ties++
			continue
		}
		if !at(newS[si].Hash, "new ring's", si) {
			return
		}
	}
	for si := range oldS {
		h := oldS[si].Hash
		if si > 0 && h == oldS[si-1].Hash {
			ties++
			continue
		}
		if j := succ(newS, h); newS[j].Hash == h {
			continue // the value was handled with the new ring's sections
		}
		if !at(h, "old ring's", si) {
			return
		}
	}
	k.intervals.Add(intervals)
	k.changed.Add(changed)
	k.ties.Add(ties)

	// ---- GetN on both rings: the property at the API, and agreement of GetN with the section tables
	for _, tn := range []string{"", "t"} {
		need := map[string]bool{"below-first": true, "above-last": true}
		for i := 0; i < 48 || (len(need) > 0 && i < 4_000_000); i++ {
			ts := series(i)
			h := labelpb.HashWithPrefix(tn, ts.Labels)
			cls := ""
			switch {
			case h <= newS[0].Hash:
				cls = "below-first"
			case h > newS[len(newS)-1].Hash:
				cls = "above-last"
			}
			take := i < 48 || need[cls]
			delete(need, cls)
			if !take {
				continue
			}
			var or, nr []receive.Endpoint
			for j := 0; j < c.RF; j++ {
				oe, err1 := oldR.GetN(tn, ts, uint64(j))
				ne, err2 := newR.GetN(tn, ts, uint64(j))
				if err1 != nil || err2 != nil {
					r.Violation("getn-error-below-replication-factor", fmt.Sprintf("GetN(%q, %v, %d): %v / %v", tn, ts.Labels, j, err1, err2), c)
					return
				}
				or, nr = append(or, oe), append(nr, ne)
			}
			os, ok1 := set(or)
			ns, ok2 := set(nr)
			if !ok1 || !ok2 {
				r.Violation("replica-is-not-a-configured-endpoint", fmt.Sprintf("GetN(%q, %v): %v / %v", tn, ts.Labels, or, nr), c)
				return
			}
			if !k.compare(c, func() string { return fmt.Sprintf("GetN tenant %q series %v (hash %d)", tn, ts.Labels, h) }, os, ns) {
				return
			}
			es, _ := set(newS[succ(newS, h)].Replicas[:c.RF])
			eo, _ := set(oldS[succ(oldS, h)].Replicas[:c.RF])
			if es != ns || eo != os {
				r.Cap("GetN does not answer from the successor section's replica list: the walk over the hash intervals is not representative")
				r.Note("GetN(%q,%v): new %b (table %b), old %b (table %b)", tn, ts.Labels, ns, es, os, eo)
			}
		}
		if len(need) > 0 {
			r.Cap(fmt.Sprintf("no series found for %v", need))
		}
	}
}

func TestCheck(t *testing.T) {
	r := vlib.New(t, "C20")
	defer r.Finish()
	b := bounds{
		maxM: vlib.Pick(r, 7, 13), maxRF: vlib.Pick(r, 4, 6),
		shapeMaxM: vlib.Pick(r, 4, 6), shapeMaxRF: vlib.Pick(r, 2, 3),
		thorough: r.Thorough(),
	}
	var ordinary, shapes []string
	for _, s := range families {
		switch {
		case !s.shape:
			ordinary = append(ordinary, s.name)
		case !s.thorough || b.thorough:
			shapes = append(shapes, s.name)
		}
	}
	r.Rule(fmt.Sprintf("rings of 2..%d nodes (after the addition) in %d ordinary naming schemes x every node as the added one (at its list position) x RF 1..min(%d, nodes before); "+
		"plus rings of 3..%d nodes in %d address shapes %v (ordinal late in a long name at byte D, exactly L bytes, names that are prefixes of one another) x {all nodes shaped, "+
		"a short name joins a shaped ring, a shaped name joins a short ring} x every node as the added one x RF 1..min(%d, nodes before); "+
		"every hash interval of the union of both rings' section hashes plus 50 series x 2 tenants through GetN. Non-trivial = RF >= 2 and >= 3 nodes (a replica set can change partially)",
		b.maxM, len(ordinary), b.maxRF, b.shapeMaxM, len(shapes), shapes, b.shapeMaxRF))
	r.Assume("no availability zones, pairwise different addresses; the old and the new list keep the relative order of the pre-existing nodes (order independence is C18)")
	k := &checker{r: r}
	forEach(r, gen(b), k.eval)
	r.Add("hash_intervals_checked", k.intervals.Load())
	r.Add("hash_intervals_whose_replica_set_changed", k.changed.Load())
	r.Add("address_shape_configurations", k.shapeCases.Load())
	r.Add("sections_with_the_hash_of_their_predecessor", k.ties.Load())
	if n := k.ties.Load(); n > 0 {
		r.Note("%d sections share their hash with another section: there the owner is decided by the (unstable) sort of the sections", n)
	}
}
