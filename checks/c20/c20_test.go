// C20: with ketama and no availability zones, adding one endpoint changes the replica set of a series at most by
// putting the new endpoint in place of one other; series never move between pre-existing nodes.
//
// Engine E4. A configuration is a ring of M nodes and one of its nodes X: the "old" ring is the list without X,
// the "new" ring the complete list (X is added at its list position, so first / middle / last positions and all
// M names occur as the added node). Both real rings are built with NewMultiHashring. The hash space is covered
// completely: the placement is constant between two consecutive section hashes of the new ring, so for every
// section of the new ring its replica list is compared with the replica list of the old ring's successor section
// of the same hash. GetN is cross-checked against the section tables on a series family incl. the wrap-around.
package c20

import (
	"fmt"
	"iter"
	"sort"
	"testing"

	"github.com/prometheus/client_golang/prometheus"
	"github.com/thanos-io/thanos/pkg/receive"
	"github.com/thanos-io/thanos/pkg/store/labelpb"
	"github.com/thanos-io/thanos/pkg/store/storepb/prompb"

	"verif/vlib"
)

type Case struct {
	Family int `json:"family"` // naming scheme of the nodes
	M      int `json:"m"`      // nodes in the new ring
	X      int `json:"x"`      // index of the added node in the new ring's endpoint list
	RF     int `json:"rf"`
}

var families = []func(i int) string{
	func(i int) string { return fmt.Sprintf("node-%d:10901", i) },
	func(i int) string {
		return fmt.Sprintf("thanos-receive-%d.thanos-receive.monitoring.svc.cluster.local:10901", i)
	},
	func(i int) string { return fmt.Sprintf("10.0.%d.%d:19291", i%3, 200-17*i) },
}

func (c Case) endpoint(i int) receive.Endpoint {
	a := families[c.Family](i)
	return receive.Endpoint{Address: a, CapNProtoAddress: a}
}

func (c Case) lists() (old, cur []receive.Endpoint) {
	for i := 0; i < c.M; i++ {
		cur = append(cur, c.endpoint(i))
		if i != c.X {
			old = append(old, c.endpoint(i))
		}
	}
	return
}

func gen(maxM, maxRF int) iter.Seq[Case] {
	return func(yield func(Case) bool) {
		for m := 2; m <= maxM; m++ {
			for f := range families {
				for x := 0; x < m; x++ {
					for rf := 1; rf <= min(maxRF, m-1); rf++ {
						if !yield(Case{Family: f, M: m, X: x, RF: rf}) {
							return
						}
					}
				}
			}
		}
	}
}

func build(eps []receive.Endpoint, rf int) (receive.Hashring, error) {
	cfg := []receive.HashringConfig{{Hashring: "h", Endpoints: eps}}
	return receive.NewMultiHashring(receive.AlgorithmKetama, uint64(rf), cfg, prometheus.NewRegistry())
}

func series(i int) *prompb.TimeSeries {
	return &prompb.TimeSeries{Labels: []labelpb.ZLabel{{Name: "__name__", Value: "m"}, {Name: "i", Value: fmt.Sprint(i)}}}
}

// succ is the index of the first section whose hash is >= v, wrapping to 0.
func succ(secs []receive.VerifC20Section, v uint64) int {
	i := sort.Search(len(secs), func(i int) bool { return secs[i].Hash >= v })
	if i == len(secs) {
		return 0
	}
	return i
}

type checker struct{ r *vlib.R }

// compare decides the property for one point of the hash space. Node sets are bitmasks over node numbers.
func (k *checker) compare(c Case, where func() string, oldSet, newSet uint64) bool {
	xbit := uint64(1) << uint(c.X)
	if newSet&^(oldSet|xbit) != 0 {
		k.r.Violation("series-moved-between-pre-existing-nodes", fmt.Sprintf("%s: replica nodes %b before, %b after adding node %d: a pre-existing node gained the series", where(), oldSet, newSet, c.X), c)
		return false
	}
	lost := 0
	for m := oldSet &^ newSet; m != 0; m &= m - 1 {
		lost++
	}
	if lost > 1 {
		k.r.Violation("more-than-one-replica-replaced", fmt.Sprintf("%s: replica nodes %b before, %b after adding node %d", where(), oldSet, newSet, c.X), c)
		return false
	}
	return true
}

func (k *checker) eval(c Case) {
	r := k.r
	if r.Expired("configurations left unevaluated") {
		return
	}
	r.Sample(c)
	oldL, newL := c.lists()
	ix := map[receive.Endpoint]int{}
	for i := 0; i < c.M; i++ {
		ix[c.endpoint(i)] = i
	}
	set := func(es []receive.Endpoint) (uint64, bool) {
		var m uint64
		for _, e := range es {
			i, ok := ix[e]
			if !ok {
				return 0, false
			}
			m |= 1 << uint(i)
		}
		return m, true
	}
	oldR, err := build(oldL, c.RF)
	if err != nil {
		r.Violation("ring-not-constructible", fmt.Sprintf("old ring: %v", err), c)
		return
	}
	newR, err := build(newL, c.RF)
	if err != nil {
		r.Violation("ring-not-constructible", fmt.Sprintf("new ring: %v", err), c)
		return
	}
	oldS, newS := receive.VerifC20Sections(oldR), receive.VerifC20Sections(newR)
	if len(oldS) != (c.M-1)*receive.SectionsPerNode || len(newS) != c.M*receive.SectionsPerNode {
		r.T.Fatalf("HARNESS-ERROR section tables have %d / %d entries", len(oldS), len(newS))
	}
	if c.RF >= 2 && c.M >= 3 {
		r.Nontrivial(fmt.Sprint(c))
	}

	// ---- the whole hash space, interval by interval of the new ring
	changed := int64(0)
	for si := range newS {
		s := &newS[si]
		o := &oldS[succ(oldS, s.Hash)]
		if len(s.Replicas) < c.RF || len(o.Replicas) < c.RF {
			r.Violation("section-has-fewer-replicas-than-rf", fmt.Sprintf("new section %d: %d replicas, old: %d", si, len(s.Replicas), len(o.Replicas)), c)
			return
		}
		ns, ok1 := set(s.Replicas[:c.RF])
		os, ok2 := set(o.Replicas[:c.RF])
		if !ok1 || !ok2 {
			r.Violation("replica-is-not-a-configured-endpoint", fmt.Sprintf("new section %d: %v / %v", si, s.Replicas, o.Replicas), c)
			return
		}
		if ns != os {
			changed++
		}
		if !k.compare(c, func() string { return fmt.Sprintf("hashes up to %d (section %d of the new ring)", s.Hash, si) }, os, ns) {
			return
		}
	}
	r.Add("hash_intervals_checked", int64(len(newS)))
	r.Add("hash_intervals_whose_replica_set_changed", changed)

	// ---- GetN on both rings: the property at the API, and agreement of GetN with the section tables
	for _, tn := range []string{"", "t"} {
		need := map[string]bool{"below-first": true, "above-last": true}
		for i := 0; i < 48 || (len(need) > 0 && i < 4_000_000); i++ {
			ts := series(i)
			h := labelpb.HashWithPrefix(tn, ts.Labels)
			cls := ""
			switch {
			case h <= newS[0].Hash:
				cls = "below-first"
			case h > newS[len(newS)-1].Hash:
				cls = "above-last"
			}
			take := i < 48 || need[cls]
			delete(need, cls)
			if !take {
				continue
			}
			var or, nr []receive.Endpoint
			for j := 0; j < c.RF; j++ {
				oe, err1 := oldR.GetN(tn, ts, uint64(j))
				ne, err2 := newR.GetN(tn, ts, uint64(j))
				if err1 != nil || err2 != nil {
					r.Violation("getn-error-below-replication-factor", fmt.Sprintf("GetN(%q, %v, %d): %v / %v", tn, ts.Labels, j, err1, err2), c)
					return
				}
				or, nr = append(or, oe), append(nr, ne)
			}
			os, ok1 := set(or)
			ns, ok2 := set(nr)
			if !ok1 || !ok2 {
				r.Violation("replica-is-not-a-configured-endpoint", fmt.Sprintf("GetN(%q, %v): %v / %v", tn, ts.Labels, or, nr), c)
				return
			}
			if !k.compare(c, func() string { return fmt.Sprintf("GetN tenant %q series %v (hash %d)", tn, ts.Labels, h) }, os, ns) {
				return
			}
			es, _ := set(newS[succ(newS, h)].Replicas[:c.RF])
			eo, _ := set(oldS[succ(oldS, h)].Replicas[:c.RF])
			if es != ns || eo != os {
				r.Cap("GetN does not answer from the successor section's replica list: the walk over the hash intervals is not representative")
				r.Note("GetN(%q,%v): new %b (table %b), old %b (table %b)", tn, ts.Labels, ns, es, os, eo)
			}
		}
		if len(need) > 0 {
			r.Cap(fmt.Sprintf("no series found for %v", need))
		}
	}
}

func TestCheck(t *testing.T) {
	r := vlib.New(t, "C20")
	defer r.Finish()
	maxM := vlib.Pick(r, 7, 13)
	maxRF := vlib.Pick(r, 4, 6)
	r.Rule(fmt.Sprintf("rings of 2..%d nodes (after the addition) in %d naming schemes x every node as the added one (at its list position) x RF 1..min(%d, nodes before); "+
		"every hash interval of the new ring plus 50 series x 2 tenants through GetN. Non-trivial = RF >= 2 and >= 3 nodes (a replica set can change partially)", maxM, len(families), maxRF))
	r.Assume("no availability zones, pairwise different addresses, no two sections with the same hash; the old and the new list keep the relative order of the pre-existing nodes (order independence is C18)")
	k := &checker{r: r}
	vlib.ForEach(r, gen(maxM, maxRF), k.eval)
}
