package c20

import (
	"iter"
	"runtime"
	"sync"

	"verif/vlib"
)

// forEach is vlib.ForEach with batch size 1: the configurations are few (hundreds) and of very different cost
// (a ring of 13 nodes costs 6x a ring of 3), batches of 64 would leave most cores idle. Same contract: replay
// mode evaluates only the artefact, shards partition by index, the deadline stops the producer and marks the run
// non-exhaustive.
func forEach[C any](r *vlib.R, gen iter.Seq[C], eval func(c C)) {
	var rc C
	if r.ReplayCase(&rc) {
		r.Eval(1)
		eval(rc)
		return
	}
	workers := runtime.GOMAXPROCS(0)
	ch := make(chan C, workers)
	var wg sync.WaitGroup
	for w := 0; w < workers; w++ {
		wg.Add(1)
		go func() {
			defer wg.Done()
			for c := range ch {
				eval(c)
				r.Eval(1)
			}
		}()
	}
	si, sn := r.Shard()
	var idx int64
	for c := range gen {
		idx++
		if sn > 1 && int((idx-1)%int64(sn)) != si {
			continue
		}
		if r.Expired("case enumeration stopped early") {
			break
		}
		ch <- c
	}
	close(ch)
	wg.Wait()
}
