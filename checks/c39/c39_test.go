// C39: aggregate chunk encoding round-trips for any set of aggregates.
// Engine E4: all 32 presence patterns x sub-chunk contents from {0,1,2,130 samples} per present slot
// (130 samples give a 2-byte uvarint length), plus float-histogram-free XOR only (what downsampling writes).
package c39

import (
	"bytes"
	"errors"
	"fmt"
	"iter"
	"testing"

	"github.com/prometheus/prometheus/tsdb/chunkenc"
	"github.com/thanos-io/thanos/pkg/compact/downsample"

	"verif/vlib"
)

type Case struct {
	Present uint64 `json:"present"` // bit i: aggregate i present
	Sizes   []int  `json:"sizes"`   // index into sampleCounts per aggregate (ignored when absent)
}

// 0 samples: a present sub-chunk that never got a sample (an empty XOR chunk is 2 bytes) is still present
var sampleCounts = []int{0, 1, 2, 130}

func mkChunk(n, salt int) chunkenc.Chunk {
	c := chunkenc.NewXORChunk()
	app, _ := c.Appender()
	for i := 0; i < n; i++ {
		app.Append(int64(1000*i+salt), float64(i*salt)+0.5)
	}
	return c
}

func gen(r *vlib.R) iter.Seq[Case] {
	return func(yield func(Case) bool) {
		for m := range vlib.Subsets(5) {
			k := len(vlib.Bits(m))
			for sz := range vlib.Tuples(k, len(sampleCounts)) {
				c := Case{Present: m, Sizes: make([]int, 5)}
				for j, b := range vlib.Bits(m) {
					c.Sizes[b] = sz[j]
				}
				if !yield(c) {
					return
				}
			}
		}
	}
}

func TestCheck(t *testing.T) {
	r := vlib.New(t, "C39")
	defer r.Finish()
	r.Rule("all 32 presence patterns of (count,sum,min,max,counter) x sub-chunk sizes {0,1,2,130 samples} per present slot; " +
		"non-trivial = distinct (pattern,sizes) with at least one absent and one present aggregate")
	vlib.ForEach(r, gen(r), func(c Case) {
		var chks [5]chunkenc.Chunk
		for i := 0; i < 5; i++ {
			if c.Present&(1<<uint(i)) != 0 {
				chks[i] = mkChunk(sampleCounts[c.Sizes[i]], i+1)
			}
		}
		r.Sample(c)
		if c.Present != 0 && c.Present != 31 {
			r.Nontrivial(fmt.Sprint(c))
		}
		enc := downsample.EncodeAggrChunk(chks)
		// read back through the bytes, as a reader of the block would
		back := downsample.AggrChunk(append([]byte(nil), enc.Bytes()...))
		for i := 0; i < 5; i++ {
			got, err := back.Get(downsample.AggrType(i))
			if chks[i] == nil {
				if !errors.Is(err, downsample.ErrAggrNotExist) {
					trailing := true
					for j := i; j < 5; j++ {
						if chks[j] != nil {
							trailing = false
						}
					}
					sig := "absent-aggregate-not-reported-as-not-exist"
					if trailing {
						sig = "trailing-absent-aggregate-not-reported-as-not-exist"
					}
					r.Violation(sig, fmt.Sprintf("aggregate %d absent but Get returned (%v, %v)", i, got, err), c)
				}
				continue
			}
			if err != nil {
				r.Violation("present-aggregate-error", fmt.Sprintf("aggregate %d present but Get error %v", i, err), c)
				continue
			}
			if got.Encoding() != chks[i].Encoding() || !bytes.Equal(got.Bytes(), chks[i].Bytes()) {
				r.Violation("present-aggregate-changed", fmt.Sprintf("aggregate %d bytes differ", i), c)
			}
		}
	})
}
