// C06 (schedule part): partial-response strategy under store failures, on every schedule of the lazy
// (and eager) retrieval pipeline.
package c06s

import (
	"encoding/json"
	"testing"

	"verif/vexplore"
	"verif/vlib"
)

func TestCheck(t *testing.T) {
	r := vlib.New(t, "C06")
	defer r.Finish()
	r.Rule("scenarios = 2-3 scripted stores (<=2 frames each; faults: Series() error, Recv error after k frames, hanging Recv cancelled by the 1s frame timeout on the virtual clock; error values plain / bare context error, and in two scenarios gRPC status errors as a real gRPC client stream returns) x {WARN, ABORT} x {lazy buf 1, eager} x every schedule of receiver goroutines, timers and consumer within the deviation bound; " +
		"distinct_nontrivial = distinct (scenario, error?, failed stores, warnings, response) observations")
	type sb struct {
		c Case
		b int
	}
	recvFail := func(i int, at int) StoreSpec {
		return StoreSpec{E: []Entry{{L: i % 3, C: u(i, 0)}, {L: (i%3 + 1) % 3, C: u(i, 1)}}[:max(at, 1)], Fault: "recv", At: at}
	}
	ok2 := func(i int) StoreSpec {
		a, b := i%3, (i+1)%3
		if a > b {
			a, b = b, a
		}
		return StoreSpec{E: []Entry{{L: a, C: u(i, 0)}, {L: b, C: u(i, 1)}}}
	}
	batch3 := func(i int) StoreSpec {
		// frames: single, batch of 2, single - the batch overflows a lazy buffer of 1 and a frame follows it
		return StoreSpec{E: []Entry{{L: 0, C: u(i, 0)}, {L: 1, C: u(i, 1)}, {L: 2, C: u(i, 2)}, {L: 2, C: u(i, 3)}}, F: []int{0, 2, 0}}
	}
	hang := func(i, at int) StoreSpec {
		return StoreSpec{E: []Entry{{L: i % 3, C: u(i, 0)}}[:at], Fault: "hang", At: at}
	}
	// the same store reached through a real gRPC client: cancellation and failures arrive as gRPC status errors
	grpcKind := func(sp StoreSpec, kind string) StoreSpec { sp.Kind = kind; return sp }
	ps := []sb{
		{Case{Stores: []StoreSpec{ok2(0), recvFail(1, 1)}, Lazy: true, Buf: 1}, 2},
		{Case{Stores: []StoreSpec{ok2(0), recvFail(1, 0)}, Lazy: true, Buf: 1, Abort: true}, 2},
		{Case{Stores: []StoreSpec{ok2(0), hang(1, 1)}, Lazy: true, Buf: 1, Timeout: true}, 1},
		{Case{Stores: []StoreSpec{ok2(0), {Fault: "open"}}, Lazy: false}, 2},
		// a healthy store sending a batch frame larger than the free lazy buffer, next to a store that hangs:
		// the healthy store's receiver waits for buffer slots while the reader is stalled
		{Case{Stores: []StoreSpec{batch3(0), hang(1, 0)}, Lazy: true, Buf: 1, Timeout: true}, 2},
		// error KIND dimension: the failing store is a gRPC client (its errors are status errors, the frame
		// timeout surfaces as code Canceled); the healthy store too, so an early cancellation of it is a status error
		{Case{Stores: []StoreSpec{grpcKind(ok2(0), "grpc"), grpcKind(hang(1, 1), "grpc")}, Lazy: true, Buf: 1, Timeout: true}, 1},
		{Case{Stores: []StoreSpec{ok2(0), grpcKind(recvFail(1, 0), "grpc-canceled")}, Lazy: false, Abort: true}, 2},
	}
	if r.Thorough() {
		ps = append(ps,
			sb{Case{Stores: []StoreSpec{ok2(0), recvFail(1, 1), ok2(2)}, Lazy: true, Buf: 1}, 2},
			sb{Case{Stores: []StoreSpec{ok2(0), hang(1, 0)}, Lazy: true, Buf: 2, Timeout: true, Abort: true}, 2},
			sb{Case{Stores: []StoreSpec{ok2(0), hang(1, 1)}, Lazy: false, Timeout: true}, 2},
			sb{Case{Stores: []StoreSpec{recvFail(0, 1), recvFail(1, 0)}, Lazy: true, Buf: 1, Batch: 2}, 2},
		)
	}
	var named []vexplore.Named
	for _, p := range ps {
		named = append(named, vexplore.Named{S: scenario(p.c), Params: p.c, Bound: p.b, UseBound: true})
	}
	vexplore.Drive(r, named, 2, func(c vexplore.Case) *vexplore.Scenario {
		var p Case
		if err := json.Unmarshal(c.Params, &p); err != nil {
			return nil
		}
		return scenario(p)
	})
}
