package c06s

import (
	"context"
	"encoding/json"
	"fmt"
	"sort"
	"strings"
	"time"

	"github.com/prometheus/prometheus/model/labels"

	"github.com/thanos-io/thanos/pkg/component"
	"github.com/thanos-io/thanos/pkg/store"
	"github.com/thanos-io/thanos/pkg/store/labelpb"
	"github.com/thanos-io/thanos/pkg/store/storepb"

	"verif/vexplore"
	"verif/vsync"
)

// Case: a proxy request over scripted stores under the lazy (or eager) strategy.
type Case struct {
	Stores  []StoreSpec `json:"stores"`
	Abort   bool        `json:"abort"`
	Lazy    bool        `json:"lazy"`
	Buf     int         `json:"buf"`
	Batch   int         `json:"batch"`
	Timeout bool        `json:"timeout"` // 1s frame timeout (virtual timer), else none
}

func (c Case) name() string { b, _ := json.Marshal(c); return string(b) }

func u(i, j int) []int { return []int{ChUniq + 8*i + j} }

func scenario(c Case) *vexplore.Scenario {
	return &vexplore.Scenario{
		Name:     c.name(),
		MaxSteps: 20000,
		New: func() (func(e *vsync.Exec), func(), func(e *vsync.Exec) (string, string, string)) {
			fakes := make([]*fakeStore, len(c.Stores))
			clients := make([]store.Client, len(c.Stores))
			for i, sp := range c.Stores {
				fakes[i] = &fakeStore{name: fmt.Sprintf("store-%d", i), spec: sp}
				clients[i] = fakes[i]
			}
			strategy := store.EagerRetrieval
			if c.Lazy {
				strategy = store.LazyRetrieval
			}
			var timeout time.Duration
			if c.Timeout {
				timeout = time.Second
			}
			p := store.NewProxyStore(nil, nil, func() []store.Client { return clients }, component.Query, labels.EmptyLabels(),
				timeout, strategy, store.WithLazyRetrievalMaxBufferedResponsesForProxy(c.Buf))
			req := &storepb.SeriesRequest{
				MinTime: -1 << 63, MaxTime: 1<<63 - 1,
				Matchers:                []storepb.LabelMatcher{{Type: storepb.LabelMatcher_RE, Name: "x", Value: ".+"}},
				ResponseBatchSize:       int64(c.Batch),
				PartialResponseStrategy: storepb.PartialResponseStrategy_WARN,
			}
			if c.Abort {
				req.PartialResponseStrategy = storepb.PartialResponseStrategy_ABORT
			}
			srv := &collectServer{ctx: context.Background()}
			var err error
			body := func() { err = p.Series(req, srv) }
			// Monitor (evaluated at every scheduling point): when a store's call gets cancelled by the frame-timeout
			// timer, note what its receiver goroutine was doing. A receiver that is waiting for a free slot of the
			// lazy ring buffer has already received its frame in time: such a store did NOT fail, the proxy must
			// not have its frame timeout running then.
			noted := make([]bool, len(fakes))
			cancelledWhileWaitingForSlot := make([]bool, len(fakes))
			waitingAtFire := map[string][]bool{} // timer thread -> per store: receiver was waiting for a buffer slot when the timer fired
			receivers := func(e *vsync.Exec) []vsync.ThreadInfo {
				var recv []vsync.ThreadInfo
				for _, ti := range e.Threads() {
					if ti.Name == "go" {
						recv = append(recv, ti)
					}
				}
				return recv
			}
			setup := func(e *vsync.Exec) {
				e.OnTimerFire = func(thread string) {
					recv := receivers(e)
					w := make([]bool, len(fakes))
					k := 0
					for i, f := range fakes {
						if f.spec.Fault == "open" {
							continue
						}
						if k >= len(recv) {
							break
						}
						p := recv[k].Pending
						k++
						w[i] = strings.HasPrefix(p, "cond-wake") || strings.HasPrefix(p, "cond-wait-enter")
					}
					waitingAtFire[thread] = w
				}
				e.Invariant = func() string {
					for i, f := range fakes {
						if ctx := f.lastCtx(); ctx != nil && ctx.Err() != nil && !noted[i] {
							noted[i] = true
							if w, ok := waitingAtFire[e.LastRun()]; ok && w[i] {
								cancelledWhileWaitingForSlot[i] = true
							}
						}
					}
					return ""
				}
			}
			check := func(e *vsync.Exec) (string, string, string) {
				// which stores failed in THIS execution: scripted faults plus calls cancelled by the frame timeout
				// while the stream was still being read
				var failed, healthy []int
				for i, f := range fakes {
					scripted := f.spec.Fault != ""
					if scripted || (f.cancelled.Load() && c.Timeout && !cancelledWhileWaitingForSlot[i]) {
						failed = append(failed, i)
					} else {
						healthy = append(healthy, i)
					}
				}
				var resp []string
				for _, s := range srv.series {
					var ids []string
					for _, ch := range s.Chunks {
						ids = append(ids, fmt.Sprintf("[%d,%d]", ch.MinTime, ch.MaxTime))
					}
					resp = append(resp, labelpb.ZLabelsToPromLabels(s.Labels).String()+strings.Join(ids, ""))
				}
				outcome := fmt.Sprintf("%s err=%v failed=%v warnings=%d resp=%v", e.Outcome(), err != nil, failed, len(srv.warnings), resp)
				switch {
				case len(e.Panics) > 0:
					return "panic", strings.Join(e.Panics, "; "), outcome
				case e.Deadlock:
					return "deadlock", e.DeadlockMsg, outcome
				case e.Horizon:
					return "step-horizon-exceeded", "", outcome
				}
				if sig, desc := oracle(c, failed, healthy, srv, err); sig != "" {
					return sig, desc, outcome
				}
				return "", "", outcome
			}
			return setup, body, check
		},
	}
}

type expSeries struct {
	lset   labels.Labels
	chunks map[string]bool
}

func reference(c Case, only []int) []*expSeries {
	m := map[string]*expSeries{}
	for _, i := range only {
		for _, e := range c.Stores[i].E {
			ls := lset(e.L, e.R)
			k := ls.String()
			if m[k] == nil {
				m[k] = &expSeries{lset: ls, chunks: map[string]bool{}}
			}
			for _, id := range e.C {
				m[k].chunks[chunkIdentity(mkChunk(id))] = true
			}
		}
	}
	out := make([]*expSeries, 0, len(m))
	for _, v := range m {
		out = append(out, v)
	}
	sort.Slice(out, func(i, j int) bool { return labels.Compare(out[i].lset, out[j].lset) < 0 })
	return out
}

// oracle: C06 when some store failed in this execution, C03 otherwise.
func oracle(c Case, failed, healthy []int, srv *collectServer, err error) (string, string) {
	if len(failed) > 0 {
		if c.Abort {
			if err == nil {
				return "abort-request-succeeded-despite-store-failure", fmt.Sprintf("stores %v failed but Series returned nil (warnings %v)", failed, srv.warnings)
			}
			return "", ""
		}
		if err != nil {
			return "warn-request-failed-on-store-failure", fmt.Sprintf("stores %v failed and Series returned %v", failed, err)
		}
		for _, i := range failed {
			name := fmt.Sprintf("store-%d", i)
			found := false
			for _, w := range srv.warnings {
				if strings.Contains(w, name) {
					found = true
				}
			}
			if !found {
				return "warn-no-warning-for-failed-store", fmt.Sprintf("%s failed but no warning names it; warnings: %v", name, srv.warnings)
			}
		}
		got := map[string]map[string]bool{}
		for _, s := range srv.series {
			k := labelpb.ZLabelsToPromLabels(s.Labels).String()
			if got[k] == nil {
				got[k] = map[string]bool{}
			}
			for _, ch := range s.Chunks {
				got[k][chunkIdentity(ch)] = true
			}
		}
		for _, e := range reference(c, healthy) {
			if got[e.lset.String()] == nil {
				return "warn-series-of-healthy-store-missing", fmt.Sprintf("series %s of a store that did not fail is not in the response (failed stores %v)", e.lset, failed)
			}
			for id := range e.chunks {
				if !got[e.lset.String()][id] {
					return "warn-chunk-of-healthy-store-missing", fmt.Sprintf("chunk %s of series %s of a healthy store is missing (failed stores %v)", id, e.lset, failed)
				}
			}
		}
		return "", ""
	}
	// no failure: the C03 merge contract
	if err != nil {
		return "series-call-failed", fmt.Sprintf("no store failed but Series returned %v", err)
	}
	if len(srv.warnings) > 0 {
		return "unexpected-warning", fmt.Sprintf("no store failed but warnings %v", srv.warnings)
	}
	all := make([]int, len(c.Stores))
	for i := range all {
		all[i] = i
	}
	ref := reference(c, all)
	exp := map[string]*expSeries{}
	for _, e := range ref {
		exp[e.lset.String()] = e
	}
	var prev labels.Labels
	seenL := map[string]bool{}
	for i, s := range srv.series {
		ls := labelpb.ZLabelsToPromLabels(s.Labels).Copy()
		if i > 0 {
			switch d := labels.Compare(prev, ls); {
			case d == 0:
				return "label-set-listed-twice", fmt.Sprintf("%s appears twice in the response", ls)
			case d > 0:
				return "response-not-sorted", fmt.Sprintf("%s after %s", ls, prev)
			}
		}
		prev = ls
		seenL[ls.String()] = true
		e := exp[ls.String()]
		if e == nil {
			return "unexpected-series", fmt.Sprintf("%s is in the response but no store sent it", ls)
		}
		seen := map[string]bool{}
		for j, ch := range s.Chunks {
			id := chunkIdentity(ch)
			if !e.chunks[id] {
				return "unexpected-chunk", fmt.Sprintf("%s carries a chunk no store sent", ls)
			}
			if seen[id] {
				return "identical-chunk-not-deduplicated", fmt.Sprintf("%s carries chunk [%d,%d] twice", ls, ch.MinTime, ch.MaxTime)
			}
			seen[id] = true
			if j > 0 {
				p := s.Chunks[j-1]
				if p.MinTime > ch.MinTime || (p.MinTime == ch.MinTime && p.MaxTime > ch.MaxTime) {
					return "chunks-not-ordered-by-time", fmt.Sprintf("%s chunk [%d,%d] after [%d,%d]", ls, ch.MinTime, ch.MaxTime, p.MinTime, p.MaxTime)
				}
			}
		}
		for id := range e.chunks {
			if !seen[id] {
				return "chunk-missing", fmt.Sprintf("%s lost chunk %s", ls, id)
			}
		}
	}
	for _, e := range ref {
		if !seenL[e.lset.String()] {
			return "series-missing", fmt.Sprintf("%s was sent by a store but is not in the response", e.lset)
		}
	}
	return "", ""
}
