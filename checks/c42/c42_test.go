// C42: the results cache never changes query results.
// Engine E3: explicit-state search. State = content of the results cache (snapshot of the real in-memory FIFO
// cache); transition = one range query sent through the real queryfrontend.NewTripperware (codec, step align,
// split by interval, results cache, retry) over a deterministic fake downstream, with the cache pre-loaded with
// the state. Breadth-first over all queries of the alphabet, states de-duplicated on the cache content, so every
// query sequence up to the depth bound is covered. Oracle (differential): the answer equals the answer of the
// identical chain built without the results cache. Everything runs inside testing/synctest (fixed "now").
//
// Two families of universes: the ALIGNED one (product default align-range-with-step=true, 16 queries in minutes)
// and the UNALIGNED ones (--query-range.align-range-with-step=false, see unaligned_test.go): one coarse step whose
// requests start at every phase that is not a multiple of the step, after aligned requests of every lower
// common step, so that every lower-step alternative cache key is consulted for starts on and off its grid.
package c42

import (
	"context"
	"crypto/sha256"
	"encoding/hex"
	"encoding/json"
	"fmt"
	"io"
	"net/http"
	"net/url"
	"sort"
	"strconv"
	"strings"
	"sync"
	"sync/atomic"
	"testing"
	"testing/synctest"
	"time"

	"github.com/weaveworks/common/user"

	"github.com/thanos-io/thanos/pkg/queryfrontend"

	"verif/vlib"
)

// Case is a replayable history: queries (indices into the alphabet) sent one after the other to a fresh frontend.
// UnitS == 0: the aligned family (alphabet below, unit 1 minute). UnitS > 0: an unaligned universe with time
// unit UnitS seconds, coarse step Coarse units, all coarse requests starting at Phase (mod Coarse) units.
type Case struct {
	Dataset  int   `json:"dataset"`
	SplitMin int   `json:"split_min"`
	Hist     []int `json:"hist"`
	UnitS    int   `json:"unit_s,omitempty"`
	Coarse   int   `json:"coarse,omitempty"`
	Phase    int   `json:"phase,omitempty"`
}

const (
	minute = int64(60000)
	// 1999-12-31T00:00:00Z: a multiple of 24h, one day before the synctest clock (2000-01-01), so every
	// query ends long before now-1m (max cache freshness).
	baseMs = int64(946598400000)
)

// q is a range query in units (minutes in the aligned family) relative to baseMs.
type q struct{ Start, End, Step int64 }

// universe = what a Case's history indexes into: the time unit, whether the chains align requests, the queries.
type universe struct {
	unit     int64 // ms
	align    bool
	alphabet []q
	coarse   int // index of the first coarse (unaligned) query; len(alphabet) when there is none
}

func universeOf(c Case) universe {
	if c.UnitS == 0 {
		return universe{unit: minute, align: true, alphabet: alphabet, coarse: len(alphabet)}
	}
	return unalignedUniverse(c)
}

// The alphabet: one query per situation visible in results_cache.go / split_by_interval.go (split interval 1h).
var alphabet = []q{
	{0, 30, 1},   // long (> 5m minCacheExtent) extent inside the first split interval
	{20, 50, 1},  // overlaps the previous
	{30, 59, 1},  // adjacent: shares the boundary timestamp 30
	{31, 59, 1},  // adjacent without sharing (end+step == start)
	{35, 59, 1},  // disjoint: gap 31..34
	{40, 44, 1},  // tiny extent (< 5m), discarded by larger requests
	{0, 4, 1},    // tiny extent at the start of the interval
	{10, 10, 1},  // start == end
	{0, 120, 1},  // spans three split intervals
	{45, 75, 1},  // crosses the split boundary
	{60, 90, 1},  // second interval only
	{0, 30, 2},   // step 2m: may reuse the 1m entry (alternative key)
	{10, 50, 2},  //
	{50, 110, 2}, // step 2m across the split boundary
	{0, 55, 5},   // step 5m: may reuse 1m entries
	{22, 58, 5},  // not step aligned (aligned to 20..55 by both chains)
}

// presence of one series: inclusive minute windows.
type series struct {
	Name    string
	Windows [][2]int64
}

// datasets: series that exist only on part of the time axis, with edges on extent / split boundaries.
var datasets = [][]series{
	{ // 0: everything always present
		{"a", [][2]int64{{-1000, 1000}}}, {"b", [][2]int64{{-1000, 1000}}},
	},
	{ // 1: first-sorting series starts exactly on an extent boundary; others end early / have holes
		{"a", [][2]int64{{30, 1000}}}, {"b", [][2]int64{{-1000, 1000}}}, {"c", [][2]int64{{0, 20}}},
		{"d", [][2]int64{{42, 50}, {70, 80}}}, {"e", [][2]int64{{60, 1000}}},
	},
	{ // 2: first-sorting series is late and sparse; a series present only at single steps
		{"a", [][2]int64{{50, 50}, {59, 61}}}, {"b", [][2]int64{{5, 100}}}, {"c", [][2]int64{{10, 10}, {44, 44}}},
	},
}

func present(s series, m int64) bool {
	for _, w := range s.Windows {
		if m >= w[0] && m <= w[1] {
			return true
		}
	}
	return false
}

// downstream is the fake Prometheus: value at (series, t) depends on nothing else, in particular not on step.
type downstream struct {
	unit  int64
	ds    []series
	steps atomic.Int64 // evaluation timestamps served (to see how much the cache saved)
	calls atomic.Int64
}

func (d *downstream) RoundTrip(r *http.Request) (*http.Response, error) {
	if err := r.ParseForm(); err != nil {
		return nil, err
	}
	ms := func(k string) int64 {
		f, err := strconv.ParseFloat(r.Form.Get(k), 64)
		if err != nil {
			panic("fake downstream: bad " + k + "=" + r.Form.Get(k))
		}
		return int64(f*1000 + 0.5)
	}
	start, end, step := ms("start"), ms("end"), ms("step")
	d.calls.Add(1)
	var sb strings.Builder
	sb.WriteString(`{"status":"success","data":{"resultType":"matrix","result":[`)
	first := true
	for si, s := range d.ds {
		var vals []string
		for t := start; t <= end; t += step {
			if (t-baseMs)%d.unit == 0 && present(s, (t-baseMs)/d.unit) {
				vals = append(vals, fmt.Sprintf(`[%d,"%d"]`, t/1000, (t-baseMs)/d.unit*10+int64(si)))
			}
		}
		if len(vals) == 0 {
			continue
		}
		if !first {
			sb.WriteByte(',')
		}
		first = false
		fmt.Fprintf(&sb, `{"metric":{"__name__":"m","s":"%s"},"values":[%s]}`, s.Name, strings.Join(vals, ","))
	}
	sb.WriteString(`]}}`)
	for t := start; t <= end; t += step {
		d.steps.Add(1)
	}
	return &http.Response{StatusCode: 200, Header: http.Header{"Content-Type": {"application/json"}},
		Body: io.NopCloser(strings.NewReader(sb.String())), Request: r}, nil
}

func httpReq(u universe, x q) *http.Request {
	f := url.Values{}
	f.Set("query", "m")
	f.Set("start", strconv.FormatInt((baseMs+x.Start*u.unit)/1000, 10))
	f.Set("end", strconv.FormatInt((baseMs+x.End*u.unit)/1000, 10))
	f.Set("step", strconv.FormatInt(x.Step*u.unit/1000, 10))
	req, err := http.NewRequestWithContext(user.InjectOrgID(context.Background(), "t"), http.MethodGet, "http://fe/api/v1/query_range?"+f.Encode(), nil)
	if err != nil {
		panic(err)
	}
	return req
}

// answer is the canonical form of a response: series -> list of "t=v".
type answer struct {
	Err    string
	Series map[string][]string
}

func do(rt http.RoundTripper, u universe, x q) (a answer) {
	defer func() {
		if p := recover(); p != nil {
			a = answer{Err: fmt.Sprintf("panic: %v", p)}
		}
	}()
	resp, err := rt.RoundTrip(httpReq(u, x))
	if err != nil {
		return answer{Err: "error: " + err.Error()}
	}
	body, _ := io.ReadAll(resp.Body)
	resp.Body.Close()
	if resp.StatusCode != 200 {
		return answer{Err: fmt.Sprintf("status %d: %s", resp.StatusCode, body)}
	}
	var pr struct {
		Status string `json:"status"`
		Data   struct {
			Result []struct {
				Metric map[string]string `json:"metric"`
				Values [][]any           `json:"values"`
			} `json:"result"`
		} `json:"data"`
	}
	if err := json.Unmarshal(body, &pr); err != nil || pr.Status != "success" {
		return answer{Err: fmt.Sprintf("undecodable answer %q: %v", body, err)}
	}
	a = answer{Series: map[string][]string{}}
	for _, s := range pr.Data.Result {
		var vs []string
		for _, v := range s.Values {
			vs = append(vs, fmt.Sprintf("%v=%v", int64(v[0].(float64)*1000+0.5), v[1]))
		}
		a.Series[s.Metric["s"]] = append(a.Series[s.Metric["s"]], vs...)
	}
	return a
}

// compare returns "" when the cached answer equals the direct one, else (signature, description).
// x is the query (for its step grid after step alignment).
func compare(u universe, x q, direct, cached answer) (string, string) {
	if direct.Err != "" {
		return "", "" // the reference itself failed: the caller treats that as a harness problem
	}
	if strings.HasPrefix(cached.Err, "panic: ") {
		return "cached-chain-panics", cached.Err
	}
	if cached.Err != "" {
		return "cached-chain-fails", cached.Err
	}
	var names []string
	for n := range direct.Series {
		names = append(names, n)
	}
	for n := range cached.Series {
		if _, ok := direct.Series[n]; !ok {
			return "series-only-in-cached-answer", fmt.Sprintf("series %q: %v", n, cached.Series[n])
		}
	}
	sort.Strings(names)
	gridStart := baseMs + x.Start*u.unit // the chains evaluate at start+k*step ...
	if u.align {
		gridStart = baseMs + x.Start/x.Step*x.Step*u.unit // ... after StepAlign moved start down to a multiple of step
	}
	onlyOne, oneStep := true, ""
	sig, desc := "", ""
	rank := map[string]int{"timestamps-off-the-query-step-grid": 5, "samples-not-in-direct-answer": 4, "samples-duplicated-in-cached-answer": 3,
		"samples-missing-from-cached-answer": 2, "series-missing-from-cached-answer": 2, "samples-reordered-in-cached-answer": 1}
	set := func(s, d string) {
		if rank[s] > rank[sig] {
			sig, desc = s, d
		}
	}
	for _, n := range names {
		d, c := direct.Series[n], cached.Series[n]
		if c == nil {
			if miss := missingOne(d, nil); miss != "" && (oneStep == "" || oneStep == miss) {
				// a series whose only sample is missing: the same class as one missing step of a longer series
				oneStep = miss
				set("samples-missing-from-cached-answer", fmt.Sprintf("series %q with its only sample %s; ", n, d[0]))
				continue
			}
			onlyOne = false
			set("series-missing-from-cached-answer", fmt.Sprintf("series %q, direct answer has %d samples", n, len(d)))
			continue
		}
		if strings.Join(d, " ") == strings.Join(c, " ") {
			continue
		}
		both := fmt.Sprintf("series %q: direct %v, cached %v", n, d, c)
		want := map[string]int{}
		for _, s := range d {
			want[s]++
		}
		got := map[string]int{}
		for _, s := range c {
			got[s]++
			if want[s] == 0 {
				var ts int64
				fmt.Sscanf(s, "%d=", &ts)
				if (ts-gridStart)%(x.Step*u.unit) != 0 {
					set("timestamps-off-the-query-step-grid", fmt.Sprintf("sample %s is not at start+k*step; ", s)+both)
				} else {
					set("samples-not-in-direct-answer", fmt.Sprintf("sample %s; ", s)+both)
				}
			} else if got[s] > want[s] {
				set("samples-duplicated-in-cached-answer", fmt.Sprintf("sample %s; ", s)+both)
			}
		}
		for _, s := range d {
			if got[s] == 0 {
				set("samples-missing-from-cached-answer", fmt.Sprintf("sample %s (and maybe more); ", s)+both)
				break
			}
		}
		// narrower class: the cached answer of this series is the direct one without ONE sample, at the same step in every series
		if miss := missingOne(d, c); miss == "" || (oneStep != "" && oneStep != miss) {
			onlyOne = false
		} else {
			oneStep = miss
		}
		set("samples-reordered-in-cached-answer", both)
	}
	if sig == "samples-missing-from-cached-answer" && onlyOne {
		sig = "single-step-missing-from-cached-answer"
	}
	return sig, desc
}

// missingOne returns the timestamp of the one sample of d that c lacks when c is otherwise identical to d, else "".
func missingOne(d, c []string) string {
	if len(c) != len(d)-1 {
		return ""
	}
	i := 0
	for i < len(c) && c[i] == d[i] {
		i++
	}
	if strings.Join(d[i+1:], " ") != strings.Join(c[i:], " ") {
		return ""
	}
	return d[i][:strings.IndexByte(d[i], '=')]
}

func digest(s map[string][]byte) string {
	keys := make([]string, 0, len(s))
	for k := range s {
		keys = append(keys, k)
	}
	sort.Strings(keys)
	h := sha256.New()
	for _, k := range keys {
		fmt.Fprintf(h, "%s\x00%d\x00", k, len(s[k]))
		h.Write(s[k])
	}
	return hex.EncodeToString(h.Sum(nil)[:12])
}

type rig struct {
	u      universe
	down   *downstream
	cache  *queryfrontend.VerifC42Cache
	cached http.RoundTripper
	direct http.RoundTripper
}

func newRig(t testing.TB, c Case) *rig {
	u := universeOf(c)
	g := &rig{u: u, down: &downstream{unit: u.unit, ds: datasets[c.Dataset]}, cache: queryfrontend.VerifC42NewCache()}
	var err error
	split := time.Duration(c.SplitMin) * time.Minute
	if g.cached, err = queryfrontend.VerifC42TripperwareAlign(g.cache, split, u.align, g.down); err != nil {
		t.Fatalf("HARNESS-ERROR tripperware: %v", err)
	}
	if g.direct, err = queryfrontend.VerifC42TripperwareAlign(nil, split, u.align, g.down); err != nil {
		t.Fatalf("HARNESS-ERROR tripperware: %v", err)
	}
	return g
}

// replay sends the whole history to a fresh frontend (no snapshot restore) and applies the oracle to every
// answer. It returns the first difference.
func replay(t testing.TB, c Case) (sig, desc string, at int) {
	g := newRig(t, c)
	alphabet := g.u.alphabet
	for i, qi := range c.Hist {
		if qi < 0 || qi >= len(alphabet) {
			panic(fmt.Sprintf("HARNESS-ERROR history %v does not fit the alphabet of %d queries", c.Hist, len(alphabet)))
		}
		before := queryfrontend.VerifC42DescribeState(g.cache.Snapshot())
		d := do(g.direct, g.u, alphabet[qi])
		a := do(g.cached, g.u, alphabet[qi])
		if s, ds := compare(g.u, alphabet[qi], d, a); s != "" {
			return s, fmt.Sprintf("dataset %d, %s, query #%d of the history %+v (units of %ds from 1999-12-31T00:00Z, split interval %dm): %s; cache before this query: %s",
				c.Dataset, describeUniverse(c), i+1, alphabet[qi], g.u.unit/1000, c.SplitMin, ds, strings.Join(before, " | ")), i
		}
	}
	return "", "", -1
}

type node struct {
	snap map[string][]byte
	hist []int
}

// outcome of one transition (state, query).
type outcome struct {
	snap  map[string][]byte
	dig   string
	sig   string
	saved bool // the cached chain asked downstream for fewer steps than the direct chain
}

func TestCheck(t *testing.T) {
	r := vlib.New(t, "C42")
	defer r.Finish()
	depth := vlib.Pick(r, 3, 8)
	depthU := vlib.Pick(r, 3, 5)
	dsU := vlib.Pick(r, []int{1}, []int{0, 1, 2})
	unis := unalignedCases(dsU)
	r.Rule(fmt.Sprintf("BFS over cache states. ALIGNED family (align-range-with-step=true): 3 datasets (series present on windows with edges on extent/split boundaries) x split 1h; "+
		"alphabet of %d range queries (overlapping/adjacent/disjoint, tiny extents, start==end, across the split boundary, steps 1m/2m/5m, unaligned); "+
		"every query from every reachable cache state up to depth %d (= all query sequences up to that length, states de-duplicated on cache content). "+
		"UNALIGNED family (align-range-with-step=false): %d universes = coarse common step S in {60s (unit 10s, split 10m), 30s (unit 5s, split 5m), 10m (unit 1m, split 1h)} x "+
		"EVERY start phase P in {1..S-1 units} of the coarse requests x datasets %v; alphabet per universe: one aligned request per lower common step that is a multiple of the unit "+
		"(30s/20s/10s, 15s/10s/5s, 5m/2m/1m) + one of them across the split boundary + 3 coarse requests starting at P mod S (inside the first split interval, across it, start==end); depth %d. "+
		"non-trivial = distinct (state, query) transitions in which the cached chain asked downstream for fewer steps than the direct chain", len(alphabet), depth, len(unis), dsU, depthU))
	r.Assume("downstream is deterministic and its value at (series,t) does not depend on step or range (instant-vector semantics)",
		"split 1h / 10m / 5m, in-memory FIFO cache without eviction; now = 2000-01-01 (synctest), data one day older",
		"unaligned family: requests of one step share one evaluation grid (all coarse requests of a universe start at the same phase and end on their grid; all lower-step requests are step aligned, as Grafana sends them); "+
			"requests of ONE step on DIFFERENT grids share a cache entry (the key has no phase) and are outside the asserted space, see probe notes",
		"state = recorded content of the FIFO cache; restoring a state = Store() of the recorded entries into a fresh FIFO cache; every counter-example is confirmed by replaying its whole history on a fresh frontend without restore")

	var rc Case
	if r.ReplayCase(&rc) {
		synctest.Test(t, func(t *testing.T) {
			r.Eval(1)
			if sig, desc, _ := replay(t, rc); sig != "" {
				r.Violation(sig, desc, rc)
			}
		})
		return
	}
	t.Run("search", func(t *testing.T) {
		// the small universes first: on a loaded machine the deadline then cuts the deep tail of the aligned family
		for _, c := range unis {
			t.Run(fmt.Sprintf("u%ds-S%d-P%d-ds%d", c.UnitS, c.Coarse, c.Phase, c.Dataset), func(t *testing.T) {
				t.Parallel()
				synctest.Test(t, func(t *testing.T) {
					search(t, r, c, depthU, 2)
				})
			})
		}
		for ds := range datasets {
			t.Run(fmt.Sprintf("ds%d", ds), func(t *testing.T) {
				t.Parallel()
				synctest.Test(t, func(t *testing.T) {
					search(t, r, Case{Dataset: ds, SplitMin: 60}, depth, 6)
				})
			})
		}
	})
	synctest.Test(t, func(t *testing.T) { probes(t, r) })
}

func search(t *testing.T, r *vlib.R, base Case, depth, workers int) {
	u := universeOf(base)
	alphabet := u.alphabet
	name := describeUniverse(base)
	rigs := make([]*rig, workers)
	for i := range rigs {
		rigs[i] = newRig(t, base)
	}
	direct := make([]answer, len(alphabet))
	directSteps := make([]int64, len(alphabet))
	for i, x := range alphabet {
		before := rigs[0].down.steps.Load()
		direct[i] = do(rigs[0].direct, u, x)
		directSteps[i] = rigs[0].down.steps.Load() - before
		if direct[i].Err != "" {
			t.Fatalf("HARNESS-ERROR direct chain fails for %+v: %s", x, direct[i].Err)
		}
	}
	empty := map[string][]byte{}
	visited := map[string]bool{digest(empty): true}
	frontier := []node{{snap: empty}}
	r.AddStates(1)
	reported := map[string]int{}
	for d := 1; d <= depth && len(frontier) > 0; d++ {
		if r.Expired(fmt.Sprintf("dataset %d %s stopped before depth %d", base.Dataset, name, d)) {
			return
		}
		// all transitions of this level, computed by `workers` goroutines of this bubble
		out := make([][]outcome, len(frontier))
		var wg sync.WaitGroup
		var stop atomic.Bool
		for w := 0; w < workers; w++ {
			wg.Add(1)
			go func(g *rig, w int) {
				defer wg.Done()
				for ni := w; ni < len(frontier); ni += workers {
					if ni%64 == w && r.Remaining() <= 0 {
						stop.Store(true)
					}
					if stop.Load() {
						return
					}
					res := make([]outcome, len(alphabet))
					for qi, x := range alphabet {
						g.cache.Restore(frontier[ni].snap)
						before := g.down.steps.Load()
						a := do(g.cached, u, x)
						used := g.down.steps.Load() - before
						o := outcome{saved: used < directSteps[qi]}
						o.sig, _ = compare(u, x, direct[qi], a)
						o.snap = g.cache.Snapshot()
						o.dig = digest(o.snap)
						res[qi] = o
					}
					out[ni] = res
				}
			}(rigs[w], w)
		}
		wg.Wait()
		if stop.Load() {
			r.Expired(fmt.Sprintf("dataset %d %s stopped inside depth %d", base.Dataset, name, d))
			return
		}
		// merge in a fixed order (BFS order is deterministic, counter-examples are shortest-first)
		var next []node
		var nNew int
		for ni, res := range out {
			n := frontier[ni]
			ndig := digest(n.snap)
			for qi, o := range res {
				r.AddTransitions(1)
				r.Eval(1)
				hist := append(append([]int(nil), n.hist...), qi)
				c := base
				c.Hist = hist
				if o.saved {
					r.Nontrivial(fmt.Sprintf("%s/%d/%s/%d", name, base.Dataset, ndig, qi))
					if qi >= u.coarse && o.dig == ndig {
						// an unaligned request that saved downstream steps without any write back: answered
						// (partly) from a lower-step entry through an alternative key
						r.Add("unaligned_requests_served_from_a_lower_step_entry", 1)
					}
				}
				if !u.align {
					r.Add("unaligned_family_transitions", 1)
				}
				if d <= 2 && (u.align || base.Phase*2 == base.Coarse) {
					r.Sample(c)
				}
				if o.sig != "" {
					if reported[o.sig] < 3 {
						// confirm on a fresh frontend by plain replay of the history, and describe
						reported[o.sig]++
						rsig, rdesc, at := replay(t, c)
						if rsig == "" {
							r.Note("difference %s seen after restoring a state did not reproduce by replaying %v (%s)", o.sig, hist, name)
							r.Cap("restore/replay mismatch")
						} else {
							c.Hist = hist[:at+1]
							r.Violation(rsig, rdesc, c)
						}
					} else {
						r.Add("further_violating_transitions_"+o.sig, 1)
					}
				}
				if !visited[o.dig] {
					visited[o.dig] = true
					r.AddStates(1)
					r.Depth(d)
					nNew++
					next = append(next, node{snap: o.snap, hist: hist})
				}
			}
		}
		r.AddTraces(int64(len(frontier) * len(alphabet)))
		if u.align {
			r.Note("dataset %d depth %d: %d states expanded, %d new states", base.Dataset, d, len(frontier), len(next))
		}
		frontier = next
	}
	if len(frontier) == 0 && u.align {
		r.Note("dataset %d: state space exhausted (%d states)", base.Dataset, len(visited))
	}
}
