package c42

import (
	"fmt"
	"strings"
	"testing"

	"verif/vlib"
)

// The UNALIGNED family: the results cache behind a frontend started with --query-range.align-range-with-step=false,
// i.e. requests reach the cache with the start the client sent. thanosCacheKeyGenerator.GenerateCacheKeyAlternatives
// offers the entries cached under every lower common step that divides the request's step; an entry may be used only
// when the request's start lies on that entry's grid (multiples of the lower step). To see every such decision, a
// universe fixes one coarse common step S and one phase P (0 < P < S, in units) and contains
//   - one ALIGNED request per lower common step f (multiple of the unit) inside the first split interval, and one of
//     the coarsest f across the split boundary: they fill the entries the alternative keys point to;
//   - three coarse requests with start = P (mod S) and end on their own grid: inside the first split interval,
//     across the boundary, and start == end.
// All phases 1..S-1 are enumerated, so for every candidate f both "start on f's grid" and "start off f's grid" occur,
// in every combination over the candidates that the divisibility of the common steps allows.
//
// Soundness of the space on correct code: all requests of one step evaluate on one grid (the cache key has the
// step but not the phase), every request ends on its own grid (the cache continues a partly cached request at the
// extent's end), and the lower-step entries are on the multiples-of-step grid (what the start%%step guard assumes).

// shape: time unit in seconds, coarse step and lower common steps in units. Split interval = 60 units.
type shape struct {
	unitS  int
	coarse int64
	fine   []int64 // descending, like lowerStepCacheCandidates
}

var shapes = []shape{
	{10, 6, []int64{3, 2, 1}},  // 60s over 30s, 20s, 10s (15s, 5s, 1s entries never exist: not multiples of the unit)
	{5, 6, []int64{3, 2, 1}},   // 30s over 15s, 10s, 5s
	{60, 10, []int64{5, 2, 1}}, // 10m over 5m, 2m, 1m
}

func shapeOf(c Case) shape {
	for _, s := range shapes {
		if s.unitS == c.UnitS && s.coarse == int64(c.Coarse) {
			return s
		}
	}
	panic(fmt.Sprintf("HARNESS-ERROR no unaligned shape unit=%ds coarse=%d", c.UnitS, c.Coarse))
}

func unalignedUniverse(c Case) universe {
	sh := shapeOf(c)
	S, P := sh.coarse, int64(c.Phase)
	if P <= 0 || P >= S {
		panic(fmt.Sprintf("HARNESS-ERROR phase %d outside 1..%d", P, S-1))
	}
	floor := func(x, f int64) int64 { return x / f * f }
	last := func(limit int64) int64 { return P + (limit-P)/S*S }
	var a []q
	for _, f := range sh.fine {
		a = append(a, q{0, floor(55, f), f})
	}
	f0 := sh.fine[0]
	a = append(a, q{floor(40, f0), floor(100, f0), f0})
	coarse := len(a)
	a = append(a,
		q{P, last(58), S},      // inside the first split interval (boundary at 60 units)
		q{P + S, last(118), S}, // across the split boundary
		q{P, P, S},             // start == end
	)
	return universe{unit: int64(c.UnitS) * 1000, align: false, alphabet: a, coarse: coarse}
}

func describeUniverse(c Case) string {
	if c.UnitS == 0 {
		return "aligned"
	}
	return fmt.Sprintf("unaligned(unit %ds, coarse step %d units, phase %d)", c.UnitS, c.Coarse, c.Phase)
}

// unalignedCases lists the universes: every shape x every phase x the given datasets.
func unalignedCases(ds []int) []Case {
	var out []Case
	for _, sh := range shapes {
		for p := int64(1); p < sh.coarse; p++ {
			for _, d := range ds {
				out = append(out, Case{Dataset: d, SplitMin: sh.unitS, UnitS: sh.unitS, Coarse: int(sh.coarse), Phase: int(p)})
			}
		}
	}
	return out
}

// probes are OBSERVATIONS outside the asserted space (notes only, never violations): unaligned requests of one
// step on different grids, and an unaligned request whose end is off its own grid. The cache key carries the step
// but not the phase and partition() continues at the extent's end, so the cache is known to mix grids there; the
// upstream remedy is to align (the default) - see REPORT.md.
func probes(t *testing.T, r *vlib.R) {
	type probe struct {
		what string
		hist []q
	}
	base := Case{Dataset: 0, SplitMin: 10, UnitS: 10, Coarse: 6, Phase: 3}
	u := unalignedUniverse(base)
	for _, p := range []probe{
		{"same step, second request on another grid", []q{{3, 57, 6}, {0, 54, 6}}},
		{"same grid, first request ends off its grid, second continues it", []q{{3, 40, 6}, {3, 57, 6}}},
	} {
		g := newRig(t, base)
		res := "equal to the direct answers"
		for i, x := range p.hist {
			if s, d := compare(u, x, do(g.direct, u, x), do(g.cached, u, x)); s != "" {
				if len(d) > 300 {
					d = d[:300] + "..."
				}
				res = fmt.Sprintf("query #%d differs (%s): %s", i+1, s, d)
				break
			}
		}
		r.Note("probe (observation, not asserted; align-range-with-step=false, unit 10s): %s, history %v: %s", p.what, p.hist, strings.TrimSpace(res))
	}
}
