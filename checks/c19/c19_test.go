// C19: loading any hashring configuration produces a usable hashring or an error in bounded time.
//
// Engine E4: every multiset of zone sizes (integer partition of n, n = 1..12) x replication factor 1..n+1 x
// algorithm, built with the real receive.NewMultiHashring; plus (part "shard") shuffle-sharded rings whose
// per-tenant sub-ring is built lazily by the first GetN.
//
// Non-termination cannot be observed through a seam (calculateSectionReplicas calls nothing that can be
// counted and /repo is not instrumented), so every construction runs in a goroutine that is abandoned after
// `allowance` (20 s; the slowest terminating construction of the space takes well under 1 s). See REPORT.md.
package c19

import (
	"fmt"
	"iter"
	"reflect"
	"sort"
	"strings"
	"sync"
	"sync/atomic"
	"testing"
	"time"

	"github.com/prometheus/client_golang/prometheus"
	"github.com/thanos-io/thanos/pkg/receive"
	"github.com/thanos-io/thanos/pkg/store/labelpb"
	"github.com/thanos-io/thanos/pkg/store/storepb/prompb"

	"verif/vlib"
	"verif/vsync"
)

type Case struct {
	Part      string `json:"part"`     // "build": NewMultiHashring returns; "shard": first GetN of a tenant on a shuffle-sharded ring returns
	Alg       string `json:"alg"`      // "ketama" | "hashmod"
	Zones     []int  `json:"zones"`    // zone sizes; zone i is named "z<i>"; endpoints are assigned to zones blockwise
	EmptyAZ   bool   `json:"empty_az"` // zone 0 carries the empty AZ name (endpoints configured without az)
	RF        int    `json:"rf"`
	ShardSize int    `json:"shard_size,omitempty"`
	ZAD       bool   `json:"zone_awareness_disabled,omitempty"`
	Tenant    string `json:"tenant,omitempty"`

	idx int
}

// allowance: how long a guarded call is waited for. Serial phases (small configurations, nothing else running,
// terminating calls take milliseconds) use 20 s; calls made while all cores are busy with other cases use 120 s.
const (
	allowance         = 20 * time.Second
	allowanceParallel = 120 * time.Second
)

// classes of configurations (decided from the configuration alone, never from the outcome); they name the
// violation signature and bound the number of abandoned spinning goroutines to one per class.
const (
	clsHashmod   = "hashmod"
	clsRFTooBig  = "rf-exceeds-endpoints"
	clsOneZone   = "single-zone"
	clsOverCap   = "rf-exceeds-az-spread-capacity"
	clsSatisfied = "az-spread-satisfiable"
)

func sum(z []int) int {
	s := 0
	for _, x := range z {
		s += x
	}
	return s
}

// spreadCapacity is the number of replicas the "even AZ spread first" rule can ever hand out: once the
// smallest zone (m nodes) is used up the least occupied zone stays at m, so no zone gets more than m+1.
// Used only to classify configurations (signature, scheduling of suspects), never as the verdict.
func spreadCapacity(z []int) int {
	m := z[0]
	for _, x := range z {
		m = min(m, x)
	}
	c := 0
	for _, x := range z {
		c += min(x, m+1)
	}
	return c
}

func classOf(z []int, rf int) string {
	switch {
	case rf > sum(z):
		return clsRFTooBig
	case len(z) == 1:
		return clsOneZone
	case rf > spreadCapacity(z):
		return clsOverCap
	}
	return clsSatisfied
}

func endpoints(c Case) []receive.Endpoint {
	var out []receive.Endpoint
	k := 0
	for zi, sz := range c.Zones {
		az := fmt.Sprintf("z%d", zi)
		if zi == 0 && c.EmptyAZ {
			az = ""
		}
		for i := 0; i < sz; i++ {
			a := fmt.Sprintf("node-%d:10901", k)
			out = append(out, receive.Endpoint{Address: a, CapNProtoAddress: a, AZ: az})
			k++
		}
	}
	return out
}

func config(c Case) []receive.HashringConfig {
	h := receive.HashringConfig{Hashring: "h0", Endpoints: endpoints(c)}
	if c.Part == "shard" {
		h.ShuffleShardingConfig = receive.ShuffleShardingConfig{ShardSize: c.ShardSize, ZoneAwarenessDisabled: c.ZAD}
	}
	return []receive.HashringConfig{h}
}

var probeSeries = func() []*prompb.TimeSeries {
	var out []*prompb.TimeSeries
	for i := 0; i < 8; i++ {
		out = append(out, &prompb.TimeSeries{Labels: []labelpb.ZLabel{{Name: "__name__", Value: "m"}, {Name: "i", Value: fmt.Sprint(i * 7919)}}})
	}
	return out
}()

// partitions yields the integer partitions of n (parts ascending).
func partitions(n int) [][]int {
	var out [][]int
	var rec func(rem, lo int, acc []int)
	rec = func(rem, lo int, acc []int) {
		if rem == 0 {
			out = append(out, append([]int(nil), acc...))
			return
		}
		for p := lo; p <= rem; p++ {
			rec(rem-p, p, append(acc, p))
		}
	}
	rec(n, 1, nil)
	return out
}

var tenants = []string{"a", "b", "c", "d", "e", "f"}

var nTenants = len(tenants)

func gen(maxN, maxShardN int) iter.Seq[Case] {
	return func(yield func(Case) bool) {
		idx := 0
		emit := func(c Case) bool {
			c.idx = idx
			idx++
			return yield(c)
		}
		for n := 1; n <= maxN; n++ {
			for _, z := range partitions(n) {
				for _, empty := range []bool{false, true} {
					for rf := 1; rf <= n+1; rf++ {
						for _, alg := range []string{"ketama", "hashmod"} {
							if !emit(Case{Part: "build", Alg: alg, Zones: z, EmptyAZ: empty, RF: rf}) {
								return
							}
						}
					}
				}
			}
			if n > maxShardN {
				continue
			}
			for _, z := range partitions(n) {
				for rf := 1; rf <= n; rf++ {
					if cl := classOf(z, rf); cl != clsSatisfied && cl != clsOneZone {
						continue // base ring is covered (and possibly not constructible) in part "build"
					}
					for ss := 1; ss <= n; ss++ {
						for _, zad := range []bool{false, true} {
							if len(z) == 1 && zad {
								continue // identical to zone awareness on
							}
							for _, tn := range tenants[:nTenants] {
								if !emit(Case{Part: "shard", Alg: "ketama", Zones: z, RF: rf, ShardSize: ss, ZAD: zad, Tenant: tn}) {
									return
								}
							}
						}
					}
				}
			}
		}
	}
}

type outcome[T any] struct {
	v    T
	pan  any
	hung bool
	site string // loop that made no progress ("" = the wall-clock safety net fired)
	took time.Duration
}

type noProgress struct{ site string }

// installTicks installs the process-wide loop-tick handler: per call (identified by the section slice the
// instrumented function works on) and per loop it counts iterations since the enclosing loop last advanced.
func installTicks() {
	type counter struct {
		mu sync.Mutex
		m  map[string]int64
	}
	var calls sync.Map // data pointer of the section slice -> *counter
	vsync.SetLoopTickHandler(func(site string, key any) {
		v := reflect.ValueOf(key)
		if v.Kind() != reflect.Slice || v.Len() == 0 {
			return
		}
		p := v.Pointer()
		ci, _ := calls.LoadOrStore(p, &counter{m: map[string]int64{}})
		c := ci.(*counter)
		c.mu.Lock()
		defer c.mu.Unlock()
		for k := range c.m {
			if k > site { // loops are numbered in source order: inner loops have larger indices
				delete(c.m, k)
			}
		}
		c.m[site]++
		if c.m[site] > tickBound {
			calls.Delete(p)
			panic(noProgress{site})
		}
	})
}

// tickBound > RF x sections for every configuration of the space (<= 20 nodes x 1000 sections, RF <= 20).
const tickBound = 20 * 1000 * 20

// guarded runs f in its own goroutine and gives up waiting after `allowance`. A goroutine that is still
// running then is abandoned (it cannot be killed); it ends with the test process.
func guarded[T any](allow time.Duration, f func() T) outcome[T] {
	ch := make(chan outcome[T], 1)
	t0 := time.Now()
	go func() {
		var o outcome[T]
		// Deterministic non-termination verdict: hashring.go is instrumented with a tick at the top of every
		// loop body of calculateSectionReplicas. While one loop keeps iterating without its enclosing loop
		// advancing, a terminating run needs at most RF x sections iterations (every full turn around the ring
		// must add a replica, otherwise the loop's state repeats forever); tickBound is above that for every
		// configuration of the space, so exceeding it proves the loop never ends.
		defer func() {
			if p := recover(); p != nil {
				if np, ok := p.(noProgress); ok {
					o.hung = true
					o.site = np.site
				} else {
					o.pan = p
				}
			}
			o.took = time.Since(t0)
			ch <- o
		}()
		o.v = f()
	}()
	tm := time.NewTimer(allow)
	defer tm.Stop()
	select {
	case o := <-ch:
		return o
	case <-tm.C:
		return outcome[T]{hung: true, took: allow}
	}
}

type built struct {
	h   receive.Hashring
	err error
}

func (k *checker) build(c Case, rf int) outcome[built] {
	cfg := config(c)
	return guarded(k.allow(), func() built {
		h, err := receive.NewMultiHashring(receive.HashringAlgorithm(c.Alg), uint64(rf), cfg, prometheus.NewRegistry())
		return built{h, err}
	})
}

type checker struct {
	r         *vlib.R
	mu        sync.Mutex
	hungCls   map[string]bool
	deferred  []Case
	maxTook   atomic.Int64 // slowest terminating guarded call, in microseconds (information only)
	parallel  atomic.Bool  // cases are being evaluated on all cores
	abandoned atomic.Int64
}

func (k *checker) allow() time.Duration {
	if k.parallel.Load() {
		return allowanceParallel
	}
	return allowance
}

func (k *checker) isHung(cls string) bool {
	k.mu.Lock()
	defer k.mu.Unlock()
	return k.hungCls[cls]
}

func (k *checker) markHung(cls string) {
	k.mu.Lock()
	k.hungCls[cls] = true
	k.mu.Unlock()
	k.abandoned.Add(1)
}

// maxAbandoned bounds the number of abandoned (spinning) goroutines; beyond it nothing more is run.
const maxAbandoned = 4

func (k *checker) tripped() bool {
	if k.abandoned.Load() < maxAbandoned {
		return false
	}
	k.r.Cap(fmt.Sprintf("%d calls did not return; the remaining cases were not run", maxAbandoned))
	return true
}

func (k *checker) took(d time.Duration) {
	for {
		cur := k.maxTook.Load()
		if d.Microseconds() <= cur || k.maxTook.CompareAndSwap(cur, d.Microseconds()) {
			return
		}
	}
}

// verdict tells whether a call that did not return was decided deterministically (a loop-tick budget was exceeded:
// site names the loop) or only by the wall-clock safety net. The latter is not a verdict - on an overloaded
// machine a terminating call can be slow - and is recorded as a cap (exhaustive=false), never as a violation.
func (k *checker) verdict(site string, what string) bool {
	if site != "" {
		return true
	}
	k.r.Add("calls_given_up_by_the_wall_clock_safety_net_without_a_verdict", 1)
	k.r.Cap("a guarded call (" + what + ") did not return within the wall-clock safety net and no loop-tick budget was exceeded: inconclusive, the cases of its class were not decided")
	return false
}

func (k *checker) skipped(cls string) {
	k.r.Add("cases_not_run_because_one_of_their_class_already_hung", 1)
	k.r.Cap("configurations of class " + cls + " were not run after the first one of that class did not return (an abandoned construction spins on a core until the process exits)")
}

func inSet(e receive.Endpoint, set []receive.Endpoint) bool {
	for _, x := range set {
		if x == e {
			return true
		}
	}
	return false
}

// eval runs one case. With deferSuspects, cases whose class predicts that the AZ spread rule cannot hand out
// RF replicas are not run but queued for the serial second pass.
func (k *checker) eval(c Case, deferSuspects bool) {
	if k.tripped() {
		return
	}
	switch c.Part {
	case "build":
		k.evalBuild(c, deferSuspects)
	case "shard":
		k.evalShard(c, deferSuspects)
	default:
		k.r.T.Fatalf("HARNESS-ERROR unknown part %q", c.Part)
	}
}

func (k *checker) evalBuild(c Case, deferSuspects bool) {
	r := k.r
	cls := clsHashmod
	if c.Alg == "ketama" {
		cls = classOf(c.Zones, c.RF)
	}
	if deferSuspects && cls == clsOverCap {
		k.mu.Lock()
		k.deferred = append(k.deferred, c)
		k.mu.Unlock()
		return
	}
	r.Sample(c)
	if c.Alg == "ketama" && len(c.Zones) > 1 && c.RF > 1 && c.RF <= sum(c.Zones) {
		r.Nontrivial(fmt.Sprint(c))
	}
	if k.isHung(cls) {
		k.skipped(cls)
		return
	}
	o := k.build(c, c.RF)
	if o.hung {
		k.markHung(cls)
		if !k.verdict(o.site, "NewMultiHashring") {
			return
		}
		r.Add("constructions_that_did_not_return", 1)
		r.Violation(c.Alg+"-build-hangs-"+cls,
			fmt.Sprintf("NewMultiHashring(%s, RF=%d) with zone sizes %v did not return within %v (class %s; AZ spread capacity %d)",
				c.Alg, c.RF, c.Zones, k.allow(), cls, spreadCapacity(c.Zones)), c)
		return
	}
	k.took(o.took)
	if o.pan != nil {
		r.Violation(c.Alg+"-build-panics", fmt.Sprintf("NewMultiHashring panicked: %v", o.pan), c)
		return
	}
	if o.v.err != nil {
		if o.v.h != nil {
			r.Violation("build-returns-ring-and-error", fmt.Sprintf("both a hashring and error %v", o.v.err), c)
		}
		r.Outcome("error: " + o.v.err.Error())
		r.Add("configurations_rejected_with_error", 1)
		return
	}
	if o.v.h == nil {
		r.Violation("build-returns-neither-ring-nor-error", "NewMultiHashring returned (nil, nil)", c)
		return
	}
	r.Outcome("ring")
	r.Add("configurations_built", 1)
	// usable: every replica index below the replication factor resolves to a configured endpoint.
	// (RF = n+1 is outside the quantifier: only termination is required there.)
	n := sum(c.Zones)
	if c.RF > n {
		return
	}
	eps := endpoints(c)
	u := guarded(k.allow(), func() string {
		for _, ts := range probeSeries {
			for i := 0; i < c.RF; i++ {
				e, err := o.v.h.GetN("t", ts, uint64(i))
				if err != nil {
					return fmt.Sprintf("GetN(n=%d) on the built ring: %v", i, err)
				}
				if !inSet(e, eps) {
					return fmt.Sprintf("GetN(n=%d) returned %v which is not a configured endpoint", i, e)
				}
			}
		}
		return ""
	})
	switch {
	case u.hung:
		k.markHung("getn")
		if k.verdict(u.site, "GetN on the built ring") {
			r.Violation("built-ring-getn-hangs", "GetN on the built ring did not return", c)
		}
	case u.pan != nil:
		r.Violation("built-ring-getn-panics", fmt.Sprintf("GetN on the built ring panicked: %v", u.pan), c)
	case u.v != "":
		r.Violation("built-ring-not-usable", u.v, c)
	}
}

func zoneSizes(nodes []receive.Endpoint) []int {
	m := map[string]int{}
	for _, e := range nodes {
		m[e.AZ]++
	}
	var out []int
	for _, v := range m {
		out = append(out, v)
	}
	sort.Ints(out)
	return out
}

func (k *checker) evalShard(c Case, deferSuspects bool) {
	r := k.r
	bc := classOf(c.Zones, c.RF)
	if k.isHung(bc) || k.isHung(classOf(c.Zones, 1)) {
		k.skipped(bc)
		return
	}
	// The nodes picked for a tenant do not depend on the replication factor, so the layout of the sub-ring that
	// GetN will build is read from a twin ring with RF=1 (which no layout can block).
	tw := k.build(c, 1)
	if tw.hung || tw.pan != nil {
		if tw.hung {
			k.markHung(classOf(c.Zones, 1))
			if !k.verdict(tw.site, "RF=1 twin NewMultiHashring") {
				return
			}
		}
		r.Violation("shard-twin-rf1-build-fails", fmt.Sprintf("RF=1 twin: hung=%v panic=%v", tw.hung, tw.pan), c)
		return
	}
	subCls := "shard-selection-error"
	var sub []int
	if tw.v.err != nil {
		subCls = "base-config-rejected"
	} else {
		sn := guarded(k.allow(), func() []receive.Endpoint {
			nodes, err := receive.VerifC19TenantShardNodes(tw.v.h, c.Tenant)
			if err != nil {
				return nil
			}
			return nodes
		})
		if sn.hung || sn.pan != nil {
			if sn.hung {
				k.markHung("shard-selection")
				if !k.verdict(sn.site, "RF=1 twin getTenantShard") {
					return
				}
			}
			r.Violation("shard-twin-rf1-selection-fails", fmt.Sprintf("RF=1 twin getTenantShard: hung=%v panic=%v", sn.hung, sn.pan), c)
			return
		}
		if sn.v != nil {
			sub = zoneSizes(sn.v)
			subCls = classOf(sub, c.RF)
		}
		tw.v.h.Close()
	}
	cls := "subring-" + subCls
	if deferSuspects && subCls == clsOverCap {
		k.mu.Lock()
		k.deferred = append(k.deferred, c)
		k.mu.Unlock()
		return
	}
	r.Sample(c)
	if len(sub) > 1 && c.RF > 1 {
		r.Nontrivial(fmt.Sprint(c))
	}
	// a sub-ring is an ordinary ketama ring: once a plain construction of the same class hung, do not try again
	// (except for the suspect class, whose request-time manifestation is reported once under its own signature).
	if k.isHung(cls) || (subCls != clsOverCap && k.isHung(subCls)) {
		k.skipped(cls)
		return
	}
	o := k.build(c, c.RF)
	if o.hung {
		// the base ring of a shard case is of a class that part "build" covers; record it under that signature
		k.markHung(bc)
		if !k.verdict(o.site, "NewMultiHashring (shuffle sharded)") {
			return
		}
		r.Violation("ketama-build-hangs-"+bc, fmt.Sprintf("NewMultiHashring (shuffle sharded) with zone sizes %v RF=%d did not return within %v", c.Zones, c.RF, k.allow()), c)
		return
	}
	if o.pan != nil {
		r.Violation("ketama-build-panics", fmt.Sprintf("NewMultiHashring panicked: %v", o.pan), c)
		return
	}
	if o.v.err != nil {
		r.Outcome("shard: load error: " + generalise(o.v.err.Error()))
		return
	}
	defer o.v.h.Close()
	eps := endpoints(c)
	g := guarded(k.allow(), func() string {
		for i := 0; i < c.RF; i++ {
			e, err := o.v.h.GetN(c.Tenant, probeSeries[0], uint64(i))
			if err != nil {
				return "error: " + err.Error()
			}
			if !inSet(e, eps) {
				return fmt.Sprintf("!GetN(n=%d) returned %v which is not a configured endpoint", i, e)
			}
		}
		return "ok"
	})
	switch {
	case g.hung && !k.verdict(g.site, "GetN on a shuffle-sharded ring"):
		k.markHung(cls)
	case g.hung:
		k.markHung(cls)
		r.Add("constructions_that_did_not_return", 1)
		r.Violation("shuffle-shard-getn-hangs-"+cls,
			fmt.Sprintf("GetN(tenant %q) on a shuffle-sharded ring (zone sizes %v, RF=%d, shard size %d, zone awareness disabled=%v) did not return within %v: "+
				"the tenant's sub-ring has zone sizes %v (AZ spread capacity %d)", c.Tenant, c.Zones, c.RF, c.ShardSize, c.ZAD, k.allow(), sub, spreadCapacity(sub)), c)
	case g.pan != nil:
		r.Violation("shuffle-shard-getn-panics", fmt.Sprintf("GetN panicked: %v", g.pan), c)
	case strings.HasPrefix(g.v, "!"):
		r.Violation("shuffle-shard-ring-not-usable", g.v[1:], c)
	default:
		k.took(g.took)
		r.Outcome("shard: GetN " + generalise(g.v))
	}
}

// generalise strips numbers from an error text so that the outcome list stays small.
func generalise(s string) string {
	var b strings.Builder
	for _, ch := range s {
		if ch >= '0' && ch <= '9' {
			if !strings.HasSuffix(b.String(), "N") {
				b.WriteByte('N')
			}
			continue
		}
		b.WriteRune(ch)
	}
	return b.String()
}

func TestCheck(t *testing.T) {
	r := vlib.New(t, "C19")
	defer r.Finish()
	maxN := vlib.Pick(r, 8, 12)
	maxShardN := vlib.Pick(r, 5, 6)
	nTenants = vlib.Pick(r, 3, 6)
	r.Rule(fmt.Sprintf("part build: every multiset of zone sizes with 1..%d endpoints (zone 0 named or with empty az) x RF 1..n+1 x {ketama,hashmod} through NewMultiHashring, "+
		"then GetN for every replica index on the built ring; part shard: every such layout with <= %d endpoints whose base ring is constructible x RF x shard size 1..n x "+
		"zone awareness on/off x %d tenants, first GetN of the tenant (builds the tenant's sub-ring). Non-trivial = ketama with >= 2 zones (sub-ring zones for part shard) and RF >= 2, "+
		"i.e. the even-AZ-spread rule of calculateSectionReplicas takes part in the construction", maxN, maxShardN, nTenants))
	r.Assume("non-termination inside calculateSectionReplicas is decided deterministically by loop ticks (a loop iterating more than RF x sections times without its enclosing loop advancing can never end); a call that does not return within the wall-clock safety net (20 s serial, 120 s parallel) without exceeding a loop-tick budget is NOT a verdict: it is recorded as a cap (exhaustive=false) and the cases of its class are left undecided",
		"after the first configuration of a class does not return, the remaining configurations of that class are not run (recorded as a cap); classes are decided from the configuration alone",
		"RF = 0 (not a valid replication factor) and hashrings without endpoints are outside the space")
	installTicks()
	defer vsync.SetLoopTickHandler(nil)
	k := &checker{r: r, hungCls: map[string]bool{}}
	defer func() {
		r.Set("slowest_terminating_guarded_call_ms", float64(k.maxTook.Load())/1000)
		r.Set("allowance_serial_s", allowance.Seconds())
		r.Set("allowance_parallel_s", allowanceParallel.Seconds())
	}()

	if r.Replaying() {
		vlib.ForEach(r, gen(0, 0), func(c Case) { k.eval(c, false) })
		return
	}
	// pass 0 (serial, smallest first): every "build" case with at most serialN endpoints, suspects included. A class
	// of configurations that hangs is met here first, with nothing else running and a single abandoned goroutine.
	const serialN = 5
	isPass0 := func(c Case) bool { return c.Part == "build" && sum(c.Zones) <= serialN }
	for c := range gen(min(serialN, maxN), 0) {
		k.eval(c, false)
		r.Eval(1)
	}
	// pass 1 (all cores): everything else that is not predicted to be blocked; suspects are queued.
	k.parallel.Store(true)
	rest := func(yield func(Case) bool) {
		for c := range gen(maxN, maxShardN) {
			if !isPass0(c) && !yield(c) {
				return
			}
		}
	}
	vlib.ForEach(r, rest, func(c Case) { k.eval(c, true) })
	k.parallel.Store(false)
	// pass 2: the queued suspects, smallest first; a serial prefix so that at most one call per class is ever
	// abandoned, then (only matters when nothing of the prefix hung) the rest on all cores.
	sort.Slice(k.deferred, func(i, j int) bool { return k.deferred[i].idx < k.deferred[j].idx })
	r.Set("suspect_cases_queued_for_pass_2", int64(len(k.deferred)))
	const prefix = 40
	n := min(prefix, len(k.deferred))
	for i := 0; i < n; i++ {
		if r.Expired("suspect pass stopped early") {
			return
		}
		k.eval(k.deferred[i], false)
	}
	tail := k.deferred[n:]
	k.parallel.Store(true)
	var next atomic.Int64
	var wg sync.WaitGroup
	for w := 0; w < 16; w++ {
		wg.Add(1)
		go func() {
			defer wg.Done()
			for {
				i := int(next.Add(1)) - 1
				if i >= len(tail) || r.Expired("suspect pass stopped early") {
					return
				}
				k.eval(tail[i], false)
			}
		}()
	}
	wg.Wait()
}
