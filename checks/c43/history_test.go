// Family H of C43: two-request histories through the real frontend tripperware (codecs, split by interval, the real
// results cache middleware with the real key generator over an in-memory FIFO cache, for range requests and for
// labels / series requests). Request A is answered by a fake querier and stored; then request B is sent. Unless
// the reference says that B may be served from A's entry, B must get the answer a frontend with empty caches gives.
package c43

import (
	"encoding/json"
	"fmt"
	"hash/fnv"
	"math"
	"net/url"
	"strconv"
	"strings"
	"sync"
	"sync/atomic"

	"github.com/thanos-io/thanos/pkg/queryfrontend"

	"verif/vlib"
)

// answer is what a client gets from the frontend.
type answer struct {
	Status int
	Body   string
	Err    string
}

func (a answer) String() string {
	s := fmt.Sprintf("%d %s %s", a.Status, a.Body, a.Err)
	if len(s) > 400 {
		s = s[:400] + "..."
	}
	return s
}

type frontend struct {
	fe    *queryfrontend.VerifC43Frontend
	calls atomic.Int64
}

// downstreamBudget bounds the requests one history may forward (a broken tree must not loop for ever).
const downstreamBudget = 64

func newFrontend() *frontend {
	f := &frontend{}
	fe, err := queryfrontend.VerifC43NewFrontend(splitInterval, f.downstream)
	if err != nil {
		panic("HARNESS-ERROR cannot build the frontend: " + err.Error())
	}
	f.fe = fe
	return f
}

// downstream is the fake querier. Its answer names the tenant and every forwarded parameter except the time range
// and the step, and (range requests) has one sample per evaluated timestamp whose value is the timestamp: the
// answer to a request is a function of the request alone, and sub-sampling a lower-step answer gives the same samples.
func (f *frontend) downstream(orgID, path string, form url.Values) (int, []byte) {
	if f.calls.Add(1) > downstreamBudget {
		return 500, []byte(`{"status":"error","errorType":"verif","error":"downstream call budget exceeded"}`)
	}
	id := url.Values{}
	for k, v := range form {
		if k != "start" && k != "end" && k != "step" {
			id[k] = v
		}
	}
	ident := orgID + " " + path + "?" + id.Encode()
	var data any
	switch {
	case strings.HasSuffix(path, "/query_range"):
		ms := func(name string) (int64, bool) {
			v, err := strconv.ParseFloat(form.Get(name), 64)
			return int64(math.Round(v * 1000)), err == nil
		}
		start, ok1 := ms("start")
		end, ok2 := ms("end")
		step, ok3 := ms("step")
		if !ok1 || !ok2 || !ok3 || step <= 0 || end < start || (end-start)/step > 100000 {
			return 400, []byte(`{"status":"error","errorType":"bad_data","error":"bad range"}`)
		}
		values := [][2]any{}
		for t := start; t <= end; t += step {
			values = append(values, [2]any{float64(t) / 1000, strconv.FormatInt(t, 10)})
		}
		data = map[string]any{"resultType": "matrix", "result": []any{map[string]any{"metric": map[string]string{"id": ident}, "values": values}}}
	case strings.HasSuffix(path, "/series"):
		data = []map[string]string{{"id": ident}}
	default:
		data = []string{ident}
	}
	body, err := json.Marshal(map[string]any{"status": "success", "data": data})
	if err != nil {
		panic("HARNESS-ERROR " + err.Error())
	}
	return 200, body
}

func (f *frontend) do(q Req) (a answer) {
	defer func() {
		if p := recover(); p != nil {
			a = answer{Err: "panic: " + fmt.Sprint(p)}
		}
	}()
	p, form := q.form()
	st, body, err := f.fe.Do(q.Tenant, p, form)
	if err != nil {
		return answer{Err: err.Error()}
	}
	return answer{Status: st, Body: string(body)}
}

// freshAnswer is the answer of a frontend with empty caches (computed once per request).
func freshAnswer(memo *sync.Map, q Req) answer {
	kb, _ := json.Marshal(q)
	if v, ok := memo.Load(string(kb)); ok {
		return v.(answer)
	}
	a := func() (a answer) {
		defer func() {
			if p := recover(); p != nil {
				a = answer{Err: "panic: " + fmt.Sprint(p)}
			}
		}()
		return newFrontend().do(q)
	}()
	memo.Store(string(kb), a)
	return a
}

var (
	histFirstNotStored, histServedFromCache, histServableDiffers atomic.Int64
)

func evalHistory(r *vlib.R, c Case, memo *sync.Map) {
	a, b := c.A, *c.B
	want := freshAnswer(memo, b)
	var (
		f          *frontend
		ansA, got  answer
		callsAfter int64
	)
	func() {
		defer func() {
			if p := recover(); p != nil {
				got = answer{Err: "panic: " + fmt.Sprint(p)}
			}
		}()
		f = newFrontend()
		ansA = f.do(a)
		callsAfter = f.calls.Load()
		if ansA.Err == "" && ansA.Status == 200 {
			got = f.do(b)
		}
	}()
	if strings.HasPrefix(ansA.Err, "panic:") {
		r.Violation("panic-in-frontend", "the frontend panicked on the first request of a history: "+ansA.Err, c)
		return
	}
	if got.Err == "" && got.Status == 0 { // the first request was rejected: nothing stored
		histFirstNotStored.Add(1)
		return
	}
	if servable(a, b) {
		if f != nil && f.calls.Load() == callsAfter {
			histServedFromCache.Add(1)
		}
		if got != want {
			histServableDiffers.Add(1) // extraction from a cached entry is not this property
		}
		return
	}
	kp, _ := json.Marshal(c)
	h := fnv.New64a()
	h.Write(kp)
	r.Nontrivial("hist\x00" + strconv.FormatUint(h.Sum64(), 36))
	if got == want {
		return
	}
	d := differ(a, b)
	desc := fmt.Sprintf("after a request differing in %v was answered and cached, the frontend answers the second request with [%v]; with empty caches it answers [%v]", d, got, want)
	switch {
	case strings.HasPrefix(got.Err, "panic:") && !strings.HasPrefix(want.Err, "panic:"):
		r.Violation("panic-in-frontend-after-cached-request", desc, c)
	case has(d, "tenant"):
		r.Violation("cross-tenant-answer-from-results-cache-"+[]string{"range", "labels", "series"}[b.Kind], desc, c)
	default:
		r.Violation("answer-from-results-cache-entry-of-request-differing-in:"+d[0], desc, c)
	}
}

// histories yields every ordered pair of distinct requests of two small sets: range requests (tenants and queries
// over {a :}, two steps one of which is a lower common step of the other) and metadata requests (label names, label
// values, series; they share one results cache).
func histories(r *vlib.R, parses func(string) bool) []Case {
	tenants := stringsOver(vlib.Pick(r, "a:", "a:,"), 1, 2)
	var queries []string
	for _, s := range stringsOver("a:", 1, vlib.Pick(r, 2, 3)) {
		if parses(s) {
			queries = append(queries, s)
		}
	}
	var rng, meta []Req
	for _, tn := range tenants {
		for _, q := range queries {
			for _, st := range vlib.Pick(r, []int64{30000, 60000}, []int64{15000, 30000, 60000}) {
				rng = append(rng, Req{Kind: 0, Tenant: tn, Query: q, StepMs: st})
			}
		}
		for _, m := range [][]string{nil, matcherPool[1], matcherPool[6]} {
			for _, l := range []string{"", "a", ":"} {
				meta = append(meta, Req{Kind: 1, Tenant: tn, Label: l, Matchers: m})
			}
			if m == nil {
				continue // a series request needs a selector
			}
			for _, rl := range [][]string{nil, {"a"}, {":"}} {
				meta = append(meta, Req{Kind: 2, Tenant: tn, Matchers: m, Replicas: rl})
			}
		}
	}
	// whitespace dimension (family W of the key table): one tenant x query texts that differ only in whitespace PromQL
	// treats as significant (end of a comment, inside string literals) or as layout (leading / trailing) x two steps.
	// The split middleware re-renders the query of every request with start < end from its parsed expression before
	// the results cache sees it (EvaluateAtModifierFunction: no comments, literals quoted); only a request for ONE
	// instant (start == end) reaches the key generator with the client's text: these are Point requests.
	var ws []Req
	for _, q := range wsQueries(1, vlib.Pick(r, []string{""}, []string{"", "\n"}), parses) {
		if strings.ContainsAny(q, "\v\u00a0") && !r.Thorough() {
			continue
		}
		for _, st := range []int64{30000, 60000} {
			ws = append(ws, Req{Kind: 0, Tenant: "a", Query: q, StepMs: st, Point: true})
		}
	}
	for _, q := range []string{"{a=\"b  c\"}", "{a=`b  c`}", "{a=`b \nc`}", "a #c\n\n+a", "\na", "a\n", "a"} {
		for _, st := range []int64{30000, 60000} {
			ws = append(ws, Req{Kind: 0, Tenant: "a", Query: q, StepMs: st, Point: true})
		}
	}
	// ... and a few of them over a range (re-rendered: different expressions get different texts)
	for _, q := range []string{"a #c\n+a", "a #c +a", "{a=`b\nc`}", "{a=`b c`}", "{a=\"b\tc\"}"} {
		ws = append(ws, Req{Kind: 0, Tenant: "a", Query: q, StepMs: 30000})
	}
	r.Set("history_whitespace_requests", len(ws))
	var out []Case
	for _, set := range [][]Req{ws, rng, meta} {
		for i := range set {
			for j := range set {
				if i != j {
					b := set[j]
					out = append(out, Case{A: set[i], B: &b, Hist: true})
				}
			}
		}
	}
	return out
}
