// C43: results-cache keys separate tenants and result-changing parameters.
// Engine E4: every request of four exhaustive families (small alphabets built from the separators the key
// generator uses) is decoded by the real codec and keyed by the real generator; all keys go into one table and
// every pair of requests that share a key must be the same request as far as the listed parameters go.
// The table holds every key an entry can be WRITTEN under (GenerateCacheKey) and every key it can be READ under
// (GenerateCacheKey and GenerateCacheKeyAlternatives); family H replays two-request histories through the real
// tripperware with the real results cache (history_test.go).
package c43

import (
	"fmt"
	"hash/fnv"
	"iter"
	"net/url"
	"runtime/debug"
	"slices"
	"sort"
	"strconv"
	"strings"
	"sync"
	"sync/atomic"
	"testing"
	"time"

	"github.com/prometheus/prometheus/promql/parser"
	queryv1 "github.com/thanos-io/thanos/pkg/api/query"
	"github.com/thanos-io/thanos/pkg/queryfrontend"

	"verif/vlib"
)

// Req is one frontend HTTP request, as plain data.
type Req struct {
	Kind     int      `json:"kind"` // 0 query_range, 1 labels / label values, 2 series
	Tenant   string   `json:"tenant"`
	Query    string   `json:"query,omitempty"`
	StepMs   int64    `json:"step_ms,omitempty"`
	MSR      string   `json:"msr,omitempty"` // max_source_resolution: "", "<n>ms" or "auto"
	Shard    [2]int64 `json:"shard"`         // total, index; total 0 = no shard_info
	Lookback int64    `json:"lookback_ms,omitempty"`
	Engine   string   `json:"engine,omitempty"`
	Partial  bool     `json:"partial"`
	Replicas []string `json:"replicas,omitempty"`
	Analyze  bool     `json:"analyze,omitempty"`
	Label    string   `json:"label,omitempty"`    // kind 1: "" = label names
	Matchers []string `json:"matchers,omitempty"` // match[] selectors
	StartMs  int64    `json:"start_ms,omitempty"` // start of the requested range (end = start + 10m)
	Point    bool     `json:"point,omitempty"`    // kind 0: the range is the single instant start (end = start)
}

// Case is a request to add to the table, or (replay / counter-example) a pair to compare directly: the primary
// keys of A and B; with AltOfB the primary key of A (an entry written by A) and the alternative keys of B (the
// lower-step lookups of B); with Hist the history "A is answered by the real frontend, then B" (family H).
type Case struct {
	A      Req  `json:"a"`
	B      *Req `json:"b,omitempty"`
	AltOfB bool `json:"alt_of_b,omitempty"`
	Hist   bool `json:"hist,omitempty"`
}

const splitInterval = time.Hour

func (q Req) form() (string, url.Values) {
	f := url.Values{}
	f.Set("start", strconv.FormatFloat(float64(q.StartMs)/1000, 'f', -1, 64))
	if q.Point {
		f.Set("end", f.Get("start"))
	} else {
		f.Set("end", strconv.FormatFloat(float64(q.StartMs)/1000+600, 'f', -1, 64))
	}
	f.Set(queryv1.PartialResponseParam, fmt.Sprint(q.Partial))
	for _, rl := range q.Replicas {
		f.Add(queryv1.ReplicaLabelsParam, rl)
	}
	for _, m := range q.Matchers {
		f.Add(queryv1.MatcherParam, m)
	}
	switch q.Kind {
	case 0:
		f.Set("query", q.Query)
		f.Set("step", fmt.Sprintf("%dms", q.StepMs))
		if q.MSR != "" {
			f.Set(queryv1.MaxSourceResolutionParam, q.MSR)
		}
		if q.Shard[0] > 0 {
			f.Set(queryv1.ShardInfoParam, fmt.Sprintf(`{"total_shards":%d,"shard_index":%d}`, q.Shard[0], q.Shard[1]))
		}
		if q.Lookback != 0 {
			f.Set(queryv1.LookbackDeltaParam, fmt.Sprintf("%dms", q.Lookback))
		}
		if q.Engine != "" {
			f.Set(queryv1.EngineParam, q.Engine)
		}
		if q.Analyze {
			f.Set(queryv1.QueryAnalyzeParam, "true")
		}
		return "/api/v1/query_range", f
	case 1:
		if q.Label == "" {
			return "/api/v1/labels", f
		}
		return "/api/v1/label/" + url.PathEscape(q.Label) + "/values", f
	default:
		return "/api/v1/series", f
	}
}

// resClass is the reference meaning of max_source_resolution: which downsampling levels (raw, 5m, 1h) a
// querier may read. Two values in the same class cannot change the answer.
func (q Req) resClass() int {
	var ms int64
	switch {
	case q.MSR == "":
	case q.MSR == "auto":
		ms = q.StepMs / 5
	default:
		fmt.Sscanf(q.MSR, "%dms", &ms)
	}
	n := 0
	for _, lvl := range []int64{0, 5 * 60 * 1000, 60 * 60 * 1000} {
		if lvl <= ms {
			n++
		}
	}
	return n
}

func sortedCopy(s []string) []string {
	c := append([]string(nil), s...)
	sort.Strings(c)
	return c
}

// differ lists the listed parameters in which two requests differ (the reference notion of "same request").
func differ(a, b Req) []string {
	var d []string
	add := func(c bool, n string) {
		if c {
			d = append(d, n)
		}
	}
	add(a.Kind != b.Kind, "kind")
	add(a.Tenant != b.Tenant, "tenant")
	if a.Kind == 0 && b.Kind == 0 {
		add(a.Query != b.Query && !sameExpression(a.Query, b.Query), "query")
		add(a.StepMs != b.StepMs, "step")
		add(a.resClass() != b.resClass(), "resolution")
		add(a.Shard != b.Shard, "sharding")
		add(a.Lookback != b.Lookback, "lookback")
		add(a.Engine != b.Engine, "engine")
		add(a.Analyze != b.Analyze, "analysis")
	}
	if a.Kind == 1 && b.Kind == 1 {
		add(a.Label != b.Label, "label-name")
	}
	add(!slices.Equal(a.Matchers, b.Matchers), "matchers")
	add(!slices.Equal(sortedCopy(a.Replicas), sortedCopy(b.Replicas)), "replica-labels") // [""] and [] differ
	add(a.Partial != b.Partial, "partial-response")
	return d
}

// nonEmpty is the sorted list without empty labels.
func nonEmpty(s []string) []string {
	var c []string
	for _, x := range sortedCopy(s) {
		if x != "" {
			c = append(c, x)
		}
	}
	return c
}

// seriesKeyIgnoresReplicas probes the real generator: does the key of this series request stay the same when
// its replica labels are replaced by none and by an ordinary one?
func seriesKeyIgnoresReplicas(q Req) bool {
	q.Replicas = nil
	k0, _, _ := keyOf(q)
	q.Replicas = []string{"zz"}
	k1, _, _ := keyOf(q)
	return k0 == k1
}

func has(d []string, x string) bool {
	for _, s := range d {
		if s == x {
			return true
		}
	}
	return false
}

// exprOf is the canonical rendering of the PromQL expression a query text denotes ("" if it does not parse), memoised.
var exprMemo sync.Map

func exprOf(q string) (string, bool) {
	if v, ok := exprMemo.Load(q); ok {
		s := v.(string)
		return s, s != ""
	}
	s := ""
	func() {
		defer func() { _ = recover() }()
		if e, err := parser.ParseExpr(q); err == nil {
			s = "=" + e.String()
		}
	}()
	exprMemo.Store(q, s)
	return s, s != ""
}

// sameExpression: two different query texts that are layouts of ONE expression (blanks between tokens, a comment)
// cannot change the answer; the statement does not ask for separate keys. Texts that do not parse are never the same.
func sameExpression(a, b string) bool {
	ea, oka := exprOf(a)
	eb, okb := exprOf(b)
	return oka && okb && ea == eb
}

// Whitespace dimension of the query text (family W). PromQL skips blank, tab, LF and CR between tokens, but a line
// break ends a '#' comment and every whitespace character inside a string literal is part of the value. A key
// generator that tidies the query text (trims, collapses runs, joins lines) merges different expressions.
// wsSymbols: the four PromQL blanks, plus two characters that are whitespace for Go's unicode.IsSpace / strings.Fields
// but not for PromQL (legal inside string literals only).
var wsSymbols = []string{" ", "\t", "\n", "\r", "\v", "\u00a0"}

// wsRuns yields every whitespace run of length lo..hi over wsSymbols.
func wsRuns(lo, hi int) []string {
	var out []string
	for t := range vlib.TuplesUpTo(lo, hi, len(wsSymbols)) {
		var b strings.Builder
		for _, x := range t {
			b.WriteString(wsSymbols[x])
		}
		out = append(out, b.String())
	}
	return out
}

// wsTemplates: one query shape per place where whitespace matters or may be taken for layout; %s is the hole.
var wsTemplates = [][2]string{
	{"a #c", "+a"},     // end of a line comment: a line break makes it a+a, anything else leaves a
	{"a", "+a"},        // plain layout between tokens (same expression whatever the run)
	{"{a=\"b", "c\"}"}, // inside a double-quoted string literal (a raw line break does not parse)
	{"{a=`b", "c`}"},   // inside a raw string literal (may hold line breaks)
	{"{a='b", "c'}"},   // inside a single-quoted string literal
}

// wsQueries yields lead + template(run) + trail for every run of length 0..maxRun, every template, and leading /
// trailing layout over leads; only parseable texts are kept (a querier answers 400 to the others: never cached).
func wsQueries(maxRun int, leads []string, parses func(string) bool) []string {
	seen := map[string]bool{}
	var out []string
	for _, run := range wsRuns(0, maxRun) {
		for _, tp := range wsTemplates {
			for _, lead := range leads {
				for _, trail := range leads {
					q := lead + tp[0] + run + tp[1] + trail
					if !seen[q] && parses(q) {
						seen[q] = true
						out = append(out, q)
					}
				}
			}
		}
	}
	return out
}

// wsGroups counts what makes family W non-vacuous: groups of queries equal after a textual tidy-up (strings.Fields
// joined by one blank) that hold >= 2 different expressions, and those groups with a member holding a non-blank whitespace.
func wsGroups(qs []string) (groups, withControl, exprs int) {
	type g struct {
		exprs map[string]bool
		ctl   bool
	}
	m := map[string]*g{}
	for _, q := range qs {
		k := strings.Join(strings.Fields(q), " ")
		if m[k] == nil {
			m[k] = &g{exprs: map[string]bool{}}
		}
		e, _ := exprOf(q)
		m[k].exprs[e] = true
		m[k].ctl = m[k].ctl || strings.ContainsAny(q, "\t\n\r\v\u00a0")
	}
	for _, x := range m {
		if len(x.exprs) >= 2 {
			groups++
			exprs += len(x.exprs)
			if x.ctl {
				withControl++
			}
		}
	}
	return
}

// stringsOver yields all strings of length lo..hi over the alphabet.
func stringsOver(alpha string, lo, hi int) []string {
	var out []string
	for t := range vlib.TuplesUpTo(lo, hi, len(alpha)) {
		b := make([]byte, len(t))
		for i, x := range t {
			b[i] = alpha[x]
		}
		out = append(out, string(b))
	}
	return out
}

var matcherPool = [][]string{
	nil,
	{`{a="b"}`},
	{`{a="b"}`, `{c="d"}`},                // two sets
	{`{a="b",c="d"}`},                     // one set, two matchers
	{`{a="b\"] [c=\"d"}`},                 // value imitating the separator between sets
	{`{a="b\" c=\"d"}`},                   // value imitating the separator inside a set
	{`{a=":"}`}, {`{a="b:"}`, `{c=":d"}`}, // field separator inside values
	{`{a="b\\"}`, `{c="d"}`}, // value ending in the quoting escape character, then the set separator
	{`{a="b\\\"] [c=\"d"}`},  // ... and its imitation inside one value
	{`{a="b\\",c="d"}`},      // same for the separator inside a set
	{`{a="b\\\" c=\"d"}`},
}

// matcherSets yields every match[] list made of one selector with one matcher, two selectors, or one selector
// with two matchers, the values ranging over all strings of length <= 2 (<= pairLen in the two-matcher forms) over the characters the rendering
// of [][]*labels.Matcher uses (quote, its escape character, the blank between matchers, the bracket between
// sets) and the key's own separators.
func matcherSets(pairLen int) [][]string {
	vals := stringsOver("b\"\\ ]:,", 0, 2)
	sel := func(v string) string { return "{a=" + strconv.Quote(v) + "}" }
	var out [][]string
	for _, v := range vals {
		out = append(out, []string{sel(v)})
	}
	vals = stringsOver("b\"\\ ]:,", 0, pairLen)
	for _, v := range vals {
		for _, w := range vals {
			out = append(out, []string{sel(v), "{c=" + strconv.Quote(w) + "}"})
			out = append(out, []string{"{a=" + strconv.Quote(v) + ",c=" + strconv.Quote(w) + "}"})
		}
	}
	return out
}

// Alphabets. The key is "fe:" + fields joined by ':'; replica labels are joined by ','; tenant and replica
// labels are escaped with a backslash (escape character). Every free-text ingredient is drawn from an alphabet holding
// both separators AND the escape character, so that "escape character at the end of a field, then a separator"
// meets "escaped separator inside a field" if the escaping is not injective.
const (
	tenantAlpha  = "a:,|-1\\"     // '|' joins tenant ids, '-' is "no shard", a digit imitates numeric fields; the resolver rejects the backslash
	queryAlpha   = "a:1-{}\",\\`" // a raw string `\` in backquotes is the shortest PromQL expression holding the escape character
	replicaAlpha = "ab:,\\"
	labelAlpha   = "a:,\\"
	engineAlpha  = "a:,\\"
)

// replicaLists yields every list of at most two replica labels, each label a string of length 0..3 over
// replicaAlpha (the empty label and the same label twice included). Pairs are unordered: the reference compares
// replica labels as a multiset and both orders of a few pairs are in the hand-written sets of families B and D.
func replicaLists() [][]string {
	labels := stringsOver(replicaAlpha, 0, 3)
	out := [][]string{nil}
	for _, a := range labels {
		out = append(out, []string{a})
	}
	for i, a := range labels {
		for _, b := range labels[i:] {
			out = append(out, []string{a, b})
		}
	}
	return out
}

func gen(r *vlib.R) iter.Seq[Case] {
	tenantsAll := stringsOver(tenantAlpha, 1, vlib.Pick(r, 2, 3))
	tenantsFew := []string{"a", "a:a"}
	parses := func(s string) bool { _, err := parser.ParseExpr(s); return err == nil }
	var queries, queriesE []string
	for _, s := range stringsOver(queryAlpha, 1, 3) {
		if parses(s) {
			queries = append(queries, s)
		}
	}
	for _, s := range stringsOver("a:", 1, 3) {
		if parses(s) {
			queriesE = append(queriesE, s)
		}
	}
	queriesFew := []string{"a", "a:a"}
	replicaSets := [][]string{nil, {"a"}, {"b"}, {"a", "b"}, {"b", "a"}, {"a,b"}, {"a:"}, {`a\`, "b"}, {""}}
	replicaAll := replicaLists()
	shards := [][2]int64{{0, 0}, {2, 0}, {2, 1}, {12, 1}, {1, 21}}
	msrs := []string{"", "299999ms", "300000ms", "3599999ms", "3600000ms", "auto"}
	labelNames := stringsOver(labelAlpha, 0, 2)
	engines := stringsOver(engineAlpha, 0, 2)
	matchersAll := append(matcherPool[8:len(matcherPool):len(matcherPool)], matcherSets(vlib.Pick(r, 1, 2))...)
	r.Set("parseable_queries", len(queries))
	r.Set("tenants", len(tenantsAll))
	r.Set("replica_label_lists", len(replicaAll))
	r.Set("matcher_sets", len(matchersAll))
	// families S, T (alternative keys) and H (histories)
	var queriesS []string
	for _, s := range stringsOver("a:", 1, 2) {
		if parses(s) {
			queriesS = append(queriesS, s)
		}
	}
	// one symbol per branch of lowerStepCacheCandidates / GenerateCacheKeyAlternatives: the lowest common step (no
	// candidate), common steps one of which does not divide the other (20s, 30s), their common multiple, a step that
	// is not a common one (45s) with a divisor that is (15s); start 0 and a start aligned to some candidates only.
	stepsS := []int64{1000, 15000, 20000, 30000, 45000, 60000}
	startsS := []int64{0, 20000}
	hist := histories(r, parses)
	r.Set("history_pairs", len(hist))
	// family W: whitespace-significant query texts
	queriesW := wsQueries(vlib.Pick(r, 2, 3), vlib.Pick(r, []string{"", " ", "\n", "\t"}, []string{"", " ", "\n", "\t", "\r", "\r\n", " \n"}), parses)
	wg, wgc, wge := wsGroups(queriesW)
	r.Set("whitespace_different_expressions_inside_those_groups", wge)
	r.Set("whitespace_queries", len(queriesW))
	r.Set("whitespace_groups_equal_after_textual_tidy_up_holding_different_expressions", wg)
	r.Set("whitespace_groups_of_those_with_a_tab_or_line_break", wgc)
	return func(yield func(Case) bool) {
		// family W: 2 tenants x whitespace queries x a step and its lower common step (primary and alternative keys)
		for _, tn := range tenantsFew {
			for _, q := range queriesW {
				for _, st := range []int64{30000, 60000} {
					// a request for one instant: the only range request whose query text the split middleware hands on verbatim
					if !yield(Case{A: Req{Kind: 0, Tenant: tn, Query: q, StepMs: st, Point: true}}) {
						return
					}
				}
			}
		}
		// family S: every tenant x queries over {a :} x steps x starts: the keys read through the alternatives meet the
		// keys written by the same and by other tenants at every lower step
		for _, tn := range tenantsAll {
			for _, q := range queriesS {
				for _, st := range stepsS {
					for _, s0 := range startsS {
						if !yield(Case{A: Req{Kind: 0, Tenant: tn, Query: q, StepMs: st, StartMs: s0}}) {
							return
						}
					}
				}
			}
		}
		// family T: the listed parameters on two common steps (15m divides 30m; "auto" is another class on each)
		for _, tn := range tenantsFew {
			for _, q := range queriesFew {
				for _, st := range []int64{900000, 1800000} {
					for _, msr := range msrs {
						for _, sh := range shards[:3] {
							for _, lb := range []int64{0, 2} {
								for _, eng := range []string{"", "prometheus", "thanos"} {
									for _, rl := range [][]string{nil, {"a"}, {"a", "b"}, {""}} {
										for f := 0; f < 4; f++ {
											if !yield(Case{A: Req{Kind: 0, Tenant: tn, Query: q, StepMs: st, MSR: msr, Shard: sh, Lookback: lb,
												Engine: eng, Replicas: rl, Partial: f&1 != 0, Analyze: f&2 != 0}}) {
												return
											}
										}
									}
								}
							}
						}
					}
				}
			}
		}
		// family H: two-request histories through the real frontend
		for _, c := range hist {
			if !yield(c) {
				return
			}
		}
		// family R: every replica-label list (<= 2 labels of length <= 3 over {a b : , \}) on a range and on a series request
		for _, rl := range replicaAll {
			if !yield(Case{A: Req{Kind: 0, Tenant: "a", Query: "a", StepMs: 1000, Replicas: rl}}) {
				return
			}
			if !yield(Case{A: Req{Kind: 2, Tenant: "a", Matchers: matcherPool[1], Replicas: rl}}) {
				return
			}
		}
		// family A: every tenant x every parseable query x the parameters next to free-text fields
		for _, tn := range tenantsAll {
			for _, q := range queries {
				for _, st := range []int64{1000, 60000} {
					for _, sh := range shards[:3] {
						for _, rl := range [][]string{nil, {"a"}, {"a", "b"}, {"a,b"}} {
							if !yield(Case{A: Req{Kind: 0, Tenant: tn, Query: q, StepMs: st, Shard: sh, Replicas: rl}}) {
								return
							}
						}
					}
				}
			}
		}
		// family B: few tenants/queries x the full product of the listed parameters
		for _, tn := range tenantsFew {
			for _, q := range queriesFew {
				for _, st := range []int64{1000, 1500000} { // 1500000/5 = 5m: "auto" lands exactly on a class boundary
					for _, msr := range msrs {
						for _, sh := range shards {
							for _, lb := range []int64{0, 2} {
								for _, eng := range []string{"", "prometheus", "thanos"} {
									for _, rl := range replicaSets {
										for f := 0; f < 4; f++ {
											if !yield(Case{A: Req{Kind: 0, Tenant: tn, Query: q, StepMs: st, MSR: msr, Shard: sh, Lookback: lb,
												Engine: eng, Replicas: rl, Partial: f&1 != 0, Analyze: f&2 != 0}}) {
												return
											}
										}
									}
								}
							}
						}
					}
				}
			}
		}
		// family C: labels / label values; family D: series
		for _, tn := range tenantsAll {
			for _, m := range matcherPool[:8] { // the others (escape character in a value) are used in family M
				for p := 0; p < 2; p++ {
					for _, l := range labelNames {
						if !yield(Case{A: Req{Kind: 1, Tenant: tn, Label: l, Matchers: m, Partial: p == 1}}) {
							return
						}
					}
					for _, rl := range replicaSets {
						if !yield(Case{A: Req{Kind: 2, Tenant: tn, Matchers: m, Replicas: rl, Partial: p == 1}}) {
							return
						}
					}
				}
			}
		}
		// family E: the engine as the free text it is for the frontend (a querier rejects unknown engines), next to
		// its neighbours in the key: query on the far left, partial response / replica labels / analyze on the right
		for _, q := range queriesE {
			for _, eng := range engines {
				for _, rl := range [][]string{nil, {"a"}, {"true"}, {`a\`, "b"}} {
					for f := 0; f < 4; f++ {
						if !yield(Case{A: Req{Kind: 0, Tenant: "a", Query: q, StepMs: 1000, Engine: eng, Replicas: rl, Partial: f&1 != 0, Analyze: f&2 != 0}}) {
							return
						}
					}
				}
			}
		}
		// family M: every matcher list of matcherSets on label names, label values and series requests
		for _, m := range matchersAll {
			for _, c := range []Req{{Kind: 1}, {Kind: 1, Label: "a"}, {Kind: 1, Label: `a\`}, {Kind: 2}, {Kind: 2, Replicas: []string{`a\`, "b"}}} {
				c.Tenant, c.Matchers = "a", m
				if !yield(Case{A: c}) {
					return
				}
			}
		}
	}
}

// keyed is what the real frontend derives from one request: the key its entry is read and written under, the
// alternative keys it is also looked up under, or a rejection / "not cacheable" / a panic of the code under test.
type keyed struct {
	key  string
	alts []string
	ok   bool
	err  error
	pan  string
}

func keysOf(q Req) (k keyed) {
	defer func() {
		if p := recover(); p != nil {
			k = keyed{pan: fmt.Sprint(p)}
		}
	}()
	p, f := q.form()
	k.key, k.alts, k.ok, k.err = queryfrontend.VerifC43Keys(q.Tenant, p, f, splitInterval)
	return k
}

func keyOf(q Req) (string, bool, error) {
	k := keysOf(q)
	if k.pan != "" {
		return "", false, fmt.Errorf("panic: %s", k.pan)
	}
	return k.key, k.ok, k.err
}

// withoutStep drops "step" from a list of differing parameters.
func withoutStep(d []string) []string {
	var out []string
	for _, x := range d {
		if x != "step" {
			out = append(out, x)
		}
	}
	return out
}

// lowerStepOf says whether a request with step/start (stepB, startB) may be answered from samples evaluated
// with stepA: every timestamp B evaluates (startB + k*stepB) is one a start-aligned stepA grid holds.
func lowerStepOf(stepA, stepB, startB int64) (bool, string) {
	switch {
	case stepA <= 0 || stepA >= stepB:
		return false, "not-lower"
	case stepB%stepA != 0:
		return false, "not-a-divisor"
	case startB%stepA != 0:
		return false, "start-not-aligned"
	}
	return true, ""
}

// servable is the reference for "an entry written by a may be used to answer b": same request in all listed
// parameters, or differing in step only with a's step a lower step of b. (Two metadata requests differing only in
// partial_response are not judged, see the assumptions.)
func servable(a, b Req) bool {
	d := differ(a, b)
	if len(d) == 0 || (d[0] == "partial-response" && a.Kind != 0) {
		return true
	}
	if len(d) == 1 && d[0] == "step" {
		ok, _ := lowerStepOf(a.StepMs, b.StepMs, b.StartMs)
		return ok
	}
	return false
}

func TestCheck(t *testing.T) {
	r := vlib.New(t, "C43")
	defer r.Finish()
	defer debug.SetGCPercent(debug.SetGCPercent(400)) // allocation-heavy (one HTTP request per case), small live heap
	r.Rule("A: tenants (len<=2, thorough 3, over {a : , | - 1 \\}, those accepted by the resolver) x all parseable PromQL strings len<=3 over {a : 1 - { } \" , \\ `} x step x shard x replica sets; " +
		"B: 2 tenants x 2 queries x full product step x max_source_resolution (each side of 5m/1h, auto) x shard x lookback x engine x 9 replica sets (orders, \"a,b\", \"a:\", [a\\ b], the empty label) x partial x analyze; " +
		"C: tenants x label names over {a : , \\} len<=2 x 8 matcher sets x partial; D: series: tenants x matcher sets x replica sets x partial; " +
		"R: every list of <=2 replica labels (unordered pairs), each label of length 0..3 over {a b : , \\}, on a range and on a series request; " +
		"E: engine as free text over {a : , \\} len<=2 x queries over {a :} x replica sets x partial x analyze; " +
		"M: matcher lists (1 selector, 2 selectors, 1 selector with 2 matchers) with values len<=2 (quick: <=1 in the two-matcher forms) over {b \" \\ blank ] : ,}, plus 4 hand-written imitations, on label names / label values / series. " +
		"S: tenants x queries len<=2 over {a :} x steps {1s 15s 20s 30s 45s 60s} x start {0 20s}; T: 2 tenants x 2 queries x steps {15m 30m} x max_source_resolution x shard x lookback x engine x 4 replica sets x partial x analyze; " +
		"every request enters the table under its primary key (written and read) AND under each of its alternative keys (GenerateCacheKeyAlternatives: read only); a reader of a key must be servable from the writer: same request, or same but for a step that is lower, divides the reader's step and its start; " +
		"H: every ordered pair of distinct requests of {tenants len<=2 over {a :} x queries len<=2 over {a :} x steps {30s 60s}} and of {same tenants x (labels, label values a and ':', series with replica labels none/a/':') x matcher sets} as a history through the real NewTripperware with real results caches: unless servable, the second answer must equal the answer of a frontend with empty caches. " +
		"W: 2 tenants x query texts lead + template(run) + trail, run = every whitespace run of length 0..2 (thorough 3) over {blank TAB LF CR VT NBSP}, templates {end of a # comment, layout between tokens, inside a double-quoted / single-quoted / raw string literal}, lead and trail over {none blank LF TAB} (thorough + CR, CRLF, blank LF), parseable texts only, on requests for one instant (start == end: the range requests whose text the split middleware hands on verbatim) x steps {30s 60s}; the same texts (runs <= 1) as histories in H. Queries are compared as text, but two texts that parse to one expression are not asked to have different keys (counted). " +
		"All keys in one table. non-trivial = distinct requests whose tenant, query, label name, engine, a matcher or a replica label contains a separator or escape character; distinct (alternative key, reader step, start) that meet the entry written by the lower-step request; history pairs that are not servable and whose first request was stored; distinct requests whose query text holds a TAB, line break, VT or NBSP")
	r.Assume("tenant = value of the tenant header as injected by cmd/thanos (extractOrgId), validated by the real tenant resolver",
		"outside family E the engine is restricted to the values a querier accepts (\"\", prometheus, thanos); shard_info By/Labels of a client-supplied shard_info are not varied",
		"partial_response differing between two labels or two series requests is only noted: answers with store warnings carry Cache-Control: no-store and are never cached, so it cannot change a cached answer",
		"replicaLabels[]= (one empty label) and no replicaLabels[] at all are different requests: the frontend forwards the former and a querier then replaces its configured replica labels by [\"\"]",
		"an alternative (lower-step) lookup is legitimate when the two requests agree on tenant and every listed parameter (resolution by class of each request's own max_source_resolution) and the writer's step is lower than, and divides, the reader's step and start; the writer's own start alignment is not in the key and not judged",
		"two query texts that parse to the same PromQL expression (Expr.String() equal) cannot change the answer: the statement does not ask for separate keys, and the split middleware itself replaces the text of every request with start < end by that rendering",
		"family H: the querier is a fake whose answer names the tenant header and every forwarded parameter (samples valued by their timestamp); split interval 1h, range 10m, FIFO caches, no step alignment / downsampled retry / retries / sharding middleware; answers of servable pairs are not compared (extraction from an entry is not this property)")

	// one table of all keys, split by key hash into independently locked parts so that the workers do not queue.
	// A slot holds the first request WRITING under the key (its primary key) and, until that one arrives, the
	// requests that only READ under it (one of their alternative keys).
	type slot struct {
		prim    *Req
		readers []*Req
	}
	type part struct {
		mu sync.Mutex
		m  map[string]*slot
	}
	var (
		table                          [256]part
		seen, rejected, uncached, dups atomic.Int64
		altKeys, altLegit              atomic.Int64
		sameExprShared                 atomic.Int64
	)
	for i := range table {
		table[i].m = map[string]*slot{}
	}
	partOf := func(key string) *part {
		h := fnv.New32a()
		h.Write([]byte(key))
		return &table[h.Sum32()%uint32(len(table))]
	}
	report := func(a, b Req, key string) {
		d := differ(a, b)
		if len(d) == 0 {
			if a.Kind == 0 && a.Query != b.Query {
				sameExprShared.Add(1) // two layouts of one expression: cannot change the answer
			}
			return
		}
		c := Case{A: a, B: &b}
		desc := fmt.Sprintf("requests differing in %v share the cache key %q", d, key)
		if has(d, "query") && a.Kind == 0 && strings.Join(strings.Fields(a.Query), "") == strings.Join(strings.Fields(b.Query), "") {
			ea, _ := exprOf(a.Query)
			eb, _ := exprOf(b.Query)
			desc += fmt.Sprintf("; the query texts %q (%s) and %q (%s) differ only in whitespace, which is significant here", a.Query, ea, b.Query, eb)
		}
		// d is in a fixed priority order; the signature names the first listed parameter that differs.
		switch first := d[0]; {
		case first == "kind" && has(d, "tenant"):
			r.Violation("cross-tenant-key-collision-across-endpoints", desc, c)
		case first == "kind":
			r.Note("same-tenant requests of different kinds share key %q", key)
		case first == "tenant":
			r.Violation("cross-tenant-key-collision-"+[]string{"range", "labels", "series"}[a.Kind], desc, c)
		case first == "partial-response" && a.Kind != 0:
			r.Add("metadata_pairs_differing_only_in_partial_response", 1)
		case first == "replica-labels" && a.Kind == 2 && seriesKeyIgnoresReplicas(a):
			r.Violation("series-key-omits-replica-labels", desc, c)
		case first == "replica-labels" && slices.Equal(nonEmpty(a.Replicas), nonEmpty(b.Replicas)):
			r.Violation("replica-labels-empty-label-same-key-as-none", desc, c)
		case first == "replica-labels" && strings.Join(sortedCopy(a.Replicas), ",") == strings.Join(sortedCopy(b.Replicas), ","):
			r.Violation("replica-labels-comma-ambiguity", desc, c)
		case first == "replica-labels" && strings.Contains(strings.Join(a.Replicas, "")+strings.Join(b.Replicas, ""), `\`):
			r.Violation("replica-labels-escape-character-ambiguity", desc, c)
		default:
			r.Violation("param-collision:"+first, desc, c)
		}
	}
	// reportAlt judges "b is looked up under key, the key a's entry is written under" (key is an alternative key of b).
	reportAlt := func(a, b Req, key string) {
		d := withoutStep(differ(a, b))
		c := Case{A: a, B: &b, AltOfB: true}
		if len(d) == 0 {
			if a.StepMs == b.StepMs {
				return // its own key
			}
			ok, why := lowerStepOf(a.StepMs, b.StepMs, b.StartMs)
			if ok {
				altLegit.Add(1)
				r.Nontrivial("alt\x00" + key + "\x00" + strconv.FormatInt(b.StepMs, 10) + "\x00" + strconv.FormatInt(b.StartMs, 10))
				return
			}
			r.Violation("alternative-key-step-relation:"+why, fmt.Sprintf("the request with step %dms start %dms is looked up under %q, the key of the same request with step %dms",
				b.StepMs, b.StartMs, key, a.StepMs), c)
			return
		}
		desc := fmt.Sprintf("the second request is looked up under the alternative key %q, the key the entry of the first is stored under; they differ in %v (and step)", key, d)
		switch first := d[0]; {
		case first == "kind" && !has(d, "tenant"):
			r.Note("same-tenant requests of different kinds: alternative key %q", key)
		case has(d, "tenant"):
			r.Violation("cross-tenant-alternative-key-collision", desc, c)
		default:
			r.Violation("alternative-key-param-collision:"+first, desc, c)
		}
	}
	var histFresh sync.Map
	vlib.ForEach(r, gen(r), func(c Case) {
		if seen.Add(1) < 20000 { // vlib keeps samples among the first 16807 cases only
			r.Sample(c)
		}
		if c.Hist && c.B != nil {
			evalHistory(r, c, &histFresh)
			return
		}
		ka := keysOf(c.A)
		if ka.pan != "" {
			r.Violation("panic-in-cache-key-generator", "the code under test panicked: "+ka.pan, c)
			return
		}
		if ka.err != nil {
			rejected.Add(1)
			return
		}
		if !ka.ok {
			uncached.Add(1)
			return
		}
		if c.B != nil { // replay of a pair
			kb := keysOf(*c.B)
			switch {
			case kb.pan != "" || kb.err != nil || !kb.ok:
			case c.AltOfB && slices.Contains(kb.alts, ka.key):
				reportAlt(c.A, *c.B, ka.key)
			case !c.AltOfB && ka.key == kb.key:
				report(c.A, *c.B, ka.key)
			}
			return
		}
		if strings.ContainsAny(c.A.Tenant+c.A.Query+c.A.Label+c.A.Engine+strings.Join(c.A.Replicas, "")+strings.Join(c.A.Matchers, ""), ":,|-\\") {
			r.Nontrivial(ka.key + "\x00" + c.A.Tenant + "\x00" + strings.Join(c.A.Replicas, "\x00"))
		}
		if c.A.Kind == 0 && strings.ContainsAny(c.A.Query, "\t\n\r\v\u00a0") {
			r.Nontrivial("ws\x00" + ka.key + "\x00" + c.A.Query)
		}
		self := c.A
		// the key the entry is written (and read) under
		pt := partOf(ka.key)
		pt.mu.Lock()
		sl := pt.m[ka.key]
		if sl == nil {
			sl = &slot{}
			pt.m[ka.key] = sl
		}
		other, readers := sl.prim, []*Req(nil)
		if other == nil {
			sl.prim, readers, sl.readers = &self, sl.readers, nil
		}
		pt.mu.Unlock()
		if other != nil {
			dups.Add(1)
			report(*other, self, ka.key)
		}
		for _, b := range readers {
			reportAlt(self, *b, ka.key)
		}
		// the keys it is also read under
		for i, k := range ka.alts {
			if k == ka.key || slices.Contains(ka.alts[:i], k) {
				continue // resultsCache drops these too
			}
			altKeys.Add(1)
			pt := partOf(k)
			pt.mu.Lock()
			sl := pt.m[k]
			if sl == nil {
				sl = &slot{}
				pt.m[k] = sl
			}
			writer := sl.prim
			if writer == nil {
				sl.readers = append(sl.readers, &self)
			}
			pt.mu.Unlock()
			if writer != nil {
				reportAlt(*writer, self, k)
			}
		}
	})
	keys, readOnly := 0, 0
	for i := range table {
		for _, sl := range table[i].m {
			if sl.prim != nil {
				keys++
			} else {
				readOnly++
			}
		}
	}
	r.Set("distinct_keys", keys)
	r.Set("keys_only_looked_up_never_written", readOnly)
	r.Set("alternative_keys", altKeys.Load())
	r.Set("history_first_request_not_answered", histFirstNotStored.Load())
	r.Set("history_second_request_served_from_the_cache_where_the_reference_allows_it", histServedFromCache.Load())
	r.Set("history_servable_pairs_whose_answer_differs_from_a_fresh_one", histServableDiffers.Load())
	r.Set("alternative_lookups_meeting_the_lower_step_entry_of_the_same_request", altLegit.Load())
	r.Set("pairs_of_layouts_of_one_expression_sharing_a_key_not_judged", sameExprShared.Load())
	r.Set("rejected_by_frontend", rejected.Load())
	r.Set("not_cacheable", uncached.Load())
	r.Set("requests_sharing_a_key_with_an_earlier_one", dups.Load())
}
