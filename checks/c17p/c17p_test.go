// C17 part 3: the proxy returns every shard-matcher buffer to its pool at most once.
package c17p

import (
	"context"
	"fmt"
	"iter"
	"runtime"
	"runtime/debug"
	"testing"
	"time"

	"github.com/prometheus/prometheus/model/labels"

	"github.com/thanos-io/thanos/pkg/component"
	"github.com/thanos-io/thanos/pkg/store"
	"github.com/thanos-io/thanos/pkg/store/storepb"

	"verif/vlib"
)

type Case struct {
	Stores   []StoreSpec `json:"stores"`
	Lazy     bool        `json:"lazy"`
	Limit    int         `json:"limit"`    // SeriesRequest.Limit (0 = none): reading stops early
	Requests int         `json:"requests"` // consecutive requests on the same proxy
	Shards   int         `json:"shards"`
	Abort    bool        `json:"abort"`
}

func shape(i, id int) StoreSpec {
	a, b := i%3, (i+1)%3
	if a > b {
		a, b = b, a
	}
	uq := func(j int) []int { return []int{ChUniq + 8*i + j} }
	switch id {
	case 0:
		return StoreSpec{}
	case 1:
		return StoreSpec{E: []Entry{{L: a, C: uq(0)}}}
	case 2:
		return StoreSpec{E: []Entry{{L: a, C: uq(0)}, {L: b, C: uq(1)}}}
	case 3:
		return StoreSpec{E: []Entry{{L: a, C: uq(0)}}, Fault: "recv", At: 1}
	case 4:
		return StoreSpec{Fault: "open"}
	}
	panic("shape")
}

func gen(r *vlib.R) iter.Seq[Case] {
	return func(yield func(Case) bool) {
		maxStores := vlib.Pick(r, 2, 3)
		for n := 1; n <= maxStores; n++ {
			for sh := range vlib.Tuples(n, 5) {
				for _, lazy := range []bool{false, true} {
					for _, limit := range []int{0, 1} {
						for _, reqs := range []int{1, 2} {
							for _, abort := range []bool{false, true} {
								for _, shards := range []int{1, 2} {
									c := Case{Lazy: lazy, Limit: limit, Requests: reqs, Shards: shards, Abort: abort}
									for i, id := range sh {
										c.Stores = append(c.Stores, shape(i, id))
									}
									if !yield(c) {
										return
									}
								}
							}
						}
					}
				}
			}
		}
	}
}

func TestCheck(t *testing.T) {
	r := vlib.New(t, "C17")
	defer r.Finish()
	// one P and no GC: everything Put into a sync.Pool stays reachable for the drain
	runtime.GOMAXPROCS(1)
	defer debug.SetGCPercent(debug.SetGCPercent(-1))
	r.Rule("sharded Series requests: 1-2(3) stores without sharding support x stream shapes {empty, 1 series, 2 series, Recv error after 1 frame, Series() error} x {eager, lazy} x Limit {none, 1} x {1, 2 consecutive requests} x {WARN, ABORT} x total shards {1, 2}; " +
		"after the requests the proxy's buffer pool is drained and all buffers must be distinct; non-trivial = case in which at least one stream was read to its end (loser-tree close callback runs)")
	vlib.ForEach(r, gen(r), func(c Case) {
		r.Sample(c)
		clients := make([]store.Client, len(c.Stores))
		for i, sp := range c.Stores {
			clients[i] = &fakeStore{name: fmt.Sprintf("store-%d", i), spec: sp}
		}
		strategy := store.EagerRetrieval
		if c.Lazy {
			strategy = store.LazyRetrieval
		}
		p := store.NewProxyStore(nil, nil, func() []store.Client { return clients }, component.Query, labels.EmptyLabels(),
			0*time.Second, strategy, store.WithLazyRetrievalMaxBufferedResponsesForProxy(1))
		runtime.GC()
		runtime.GC() // empties the pools (including victim caches) so the case starts from a known state
		exhausted := false
		for q := 0; q < c.Requests; q++ {
			req := &storepb.SeriesRequest{
				MinTime: -1 << 63, MaxTime: 1<<63 - 1,
				Matchers:                []storepb.LabelMatcher{{Type: storepb.LabelMatcher_RE, Name: "x", Value: ".+"}},
				ShardInfo:               &storepb.ShardInfo{TotalShards: int64(c.Shards), ShardIndex: int64(q % c.Shards), By: true, Labels: []string{"x"}},
				Limit:                   int64(c.Limit),
				PartialResponseStrategy: storepb.PartialResponseStrategy_WARN,
			}
			if c.Abort {
				req.PartialResponseStrategy = storepb.PartialResponseStrategy_ABORT
			}
			srv := &collectServer{ctx: context.Background()}
			_ = p.Series(req, srv)
			if c.Limit == 0 {
				exhausted = true
			}
		}
		if exhausted {
			r.Nontrivial(fmt.Sprintf("%+v", c))
		}
		n := len(c.Stores)*c.Requests*2 + 3
		ids := store.VerifDrainShardBuffers(p, n)
		seen := map[uintptr]int{}
		for _, id := range ids {
			seen[id]++
		}
		for _, k := range seen {
			if k > 1 {
				retr := "eager"
				if c.Lazy {
					retr = "lazy"
				}
				r.Violation("shard-buffer-returned-to-pool-twice-"+retr, fmt.Sprintf("the same buffer came out of the proxy's pool %d times after the request(s): it was Put more than once", k), c)
				break
			}
		}
	})
}
