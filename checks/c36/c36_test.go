// C36: raw downsampling aggregates are exact.
//
// Engine E4 (bounded-exhaustive inputs on the real code): every raw float series of two families is pushed
// through downsample.DownsampleRaw(downsample.SamplesFromTSDBSamples(..), res) and read back (a) straight
// from the AggrChunk and (b) through the querier's chunkSeries (query.NewPromSeriesSet(..).At().Iterator()).
//
//	grid : every assignment of a symbol {absent, 1, -2.5, NaN, StaleNaN, +Inf[, -Inf]} to each position of a
//	       time grid covering three consecutive downsampling windows (positions: window start, start+1ms,
//	       window end), i.e. all irregular small series with samples exactly on both sides of a window edge.
//	long : regular series of n samples for every n of ranges that cross the chunk-cut thresholds of
//	       targetChunkCount (1 -> 2 -> 3 output chunks) and the 119/120/121/240 raw chunk sizes, times
//	       step x value pattern x NaN pattern (incl. whole windows / whole batches of NaN).
//
// Oracle = the statement: per output timestamp the count/sum/min/max equal those of the raw non-NaN samples
// of the window the timestamp lies in, totals equal the raw totals, chunks are ordered and disjoint, and the
// querier yields the same values.
package c36

import (
	"fmt"
	"iter"
	"math"
	"testing"

	"github.com/prometheus/prometheus/model/histogram"
	"github.com/prometheus/prometheus/model/labels"
	"github.com/prometheus/prometheus/model/value"
	"github.com/prometheus/prometheus/tsdb/chunkenc"
	"github.com/prometheus/prometheus/tsdb/chunks"

	"github.com/thanos-io/thanos/pkg/compact/downsample"
	"github.com/thanos-io/thanos/pkg/query"
	"github.com/thanos-io/thanos/pkg/store/storepb"

	"verif/vlib"
)

type Case struct {
	Fam string `json:"fam"` // "grid" or "long"
	Res int64  `json:"res"` // downsampling resolution (ms)

	// grid family
	Base int64 `json:"base,omitempty"` // index of the first window of the grid
	Pos  []int `json:"pos,omitempty"`  // grid positions used: window*3 + {0:start,1:start+1,2:end}
	Syms []int `json:"syms,omitempty"` // symbol per position (see symVals)

	// long family
	N    int   `json:"n,omitempty"`
	Step int64 `json:"step,omitempty"`
	Off  int64 `json:"off,omitempty"` // offset of the first sample inside window 1
	Val  int   `json:"val,omitempty"` // value pattern
	Nan  int   `json:"nan,omitempty"` // NaN pattern
}

const (
	symAbsent = iota
	symOne
	symNeg
	symNaN
	symStale
	symPosInf
	symNegInf
)

var (
	plainNaN = math.NaN()
	staleNaN = math.Float64frombits(value.StaleNaN)
)

func symVal(s int) float64 {
	switch s {
	case symOne:
		return 1
	case symNeg:
		return -2.5
	case symNaN:
		return plainNaN
	case symStale:
		return staleNaN
	case symPosInf:
		return math.Inf(1)
	case symNegInf:
		return math.Inf(-1)
	}
	panic("bad symbol")
}

type smp struct {
	t int64
	v float64
}

func (s smp) T() int64                      { return s.t }
func (s smp) F() float64                    { return s.v }
func (s smp) H() *histogram.Histogram       { return nil }
func (s smp) FH() *histogram.FloatHistogram { return nil }
func (s smp) Type() chunkenc.ValueType      { return chunkenc.ValFloat }
func (s smp) Copy() chunks.Sample           { return s }

// build turns the plain-data case into the raw series (strictly increasing timestamps).
func build(c Case) []smp {
	var out []smp
	switch c.Fam {
	case "grid":
		for i, p := range c.Pos {
			if c.Syms[i] == symAbsent {
				continue
			}
			w, o := int64(p/3), p%3
			t := (c.Base + w) * c.Res
			switch o {
			case 1:
				t++
			case 2:
				t += c.Res - 1
			}
			out = append(out, smp{t, symVal(c.Syms[i])})
		}
	case "long":
		t := c.Res + c.Off
		for i := 0; i < c.N; i++ {
			var v float64
			switch c.Val {
			case 0:
				v = 1
			case 1:
				v = float64(i%7) - 2.5*float64(i%3)
			case 2:
				v = float64(i % 50)
			}
			switch c.Nan {
			case 1: // sporadic stale markers
				if i%10 == 9 {
					v = staleNaN
				}
			case 2: // a long run of NaN in the middle (whole windows, whole batches)
				if i >= c.N/3 && i < 2*c.N/3 {
					v = plainNaN
				}
			case 3: // NaN at the very first, the very last and the middle sample
				if i == 0 || i == c.N-1 || i == c.N/2 {
					v = plainNaN
				}
			}
			out = append(out, smp{t, v})
			t += c.Step
		}
	}
	return out
}

type win struct {
	count    int
	sum      float64
	min, max float64
}

type tv struct {
	t int64
	v float64
}

func sameF(a, b float64) bool {
	if math.IsNaN(a) || math.IsNaN(b) {
		return math.IsNaN(a) && math.IsNaN(b)
	}
	return a == b
}

func sameTV(a, b []tv) bool {
	if len(a) != len(b) {
		return false
	}
	for i := range a {
		if a[i].t != b[i].t || !sameF(a[i].v, b[i].v) {
			return false
		}
	}
	return true
}

func drain(it chunkenc.Iterator) ([]tv, error) {
	var out []tv
	for it.Next() != chunkenc.ValNone {
		t, v := it.At()
		out = append(out, tv{t, v})
	}
	return out, it.Err()
}

type oneSeries struct {
	chks []storepb.AggrChunk
	done bool
}

func (s *oneSeries) Next() bool {
	if s.done {
		return false
	}
	s.done = true
	return true
}
func (s *oneSeries) At() (labels.Labels, []storepb.AggrChunk) {
	return labels.FromStrings("__name__", "m"), s.chks
}
func (s *oneSeries) Err() error { return nil }

// querierIterator opens the series the way the querier does for the given aggregates.
func querierIterator(chks []storepb.AggrChunk, mint, maxt int64, aggrs ...storepb.Aggr) chunkenc.Iterator {
	ss := query.NewPromSeriesSet(&oneSeries{chks: chks}, mint, maxt, aggrs, nil)
	if !ss.Next() {
		return nil
	}
	return ss.At().Iterator(nil)
}

var aggrNames = [4]string{"count", "sum", "min", "max"}
var pbAggr = [4]storepb.Aggr{storepb.Aggr_COUNT, storepb.Aggr_SUM, storepb.Aggr_MIN, storepb.Aggr_MAX}

func hasInf(xs []smp, lo, hi int64) (pos, neg, onlyInf bool) {
	onlyInf = true
	n := 0
	for _, s := range xs {
		if s.t < lo || s.t > hi || math.IsNaN(s.v) {
			continue
		}
		n++
		switch {
		case math.IsInf(s.v, 1):
			pos = true
		case math.IsInf(s.v, -1):
			neg = true
		default:
			onlyInf = false
		}
	}
	return pos, neg, onlyInf && n > 0
}

func eval(r *vlib.R, c Case) {
	raw := build(c)
	res := c.Res
	in := make([]chunks.Sample, len(raw))
	for i, s := range raw {
		in[i] = s
	}

	// reference: windows [k*res, (k+1)*res-1] (currentWindow in downsample.go), non-NaN samples only.
	ref := map[int64]*win{}
	var tot win
	tot.min, tot.max = math.Inf(1), math.Inf(-1)
	for _, s := range raw {
		if math.IsNaN(s.v) {
			continue
		}
		k := s.t / res
		w := ref[k]
		if w == nil {
			w = &win{min: math.Inf(1), max: math.Inf(-1)}
			ref[k] = w
		}
		w.count++
		w.sum += s.v
		w.min = math.Min(w.min, s.v)
		w.max = math.Max(w.max, s.v)
		tot.count++
		tot.sum += s.v
		tot.min = math.Min(tot.min, s.v)
		tot.max = math.Max(tot.max, s.v)
	}

	out := downsample.DownsampleRaw(downsample.SamplesFromTSDBSamples(in), res)
	bad := false
	viol := func(sig, desc string) {
		bad = true
		r.Violation(sig, desc, c)
	}

	r.Sample(c)
	if len(out) >= 2 {
		r.Add("cases_with_2plus_chunks", 1)
	}
	if len(out) >= 3 {
		r.Add("cases_with_3plus_chunks", 1)
	}
	nonNaN, hasNaN := tot.count, tot.count != len(raw)
	if c.Fam == "grid" {
		// non-trivial: at least two windows populated and a NaN or a window-edge sample present
		if len(ref) >= 2 && hasNaN {
			r.Nontrivial(fmt.Sprint(c))
		}
	} else if len(out) >= 2 {
		r.Nontrivial(fmt.Sprint(c))
	}

	var (
		got      win // totals over the output
		all      [4][]tv
		pb       []storepb.AggrChunk
		seen     = map[int64]bool{}
		prevMaxT = int64(math.MinInt64)
	)
	got.min, got.max = math.Inf(1), math.Inf(-1)

	for ci, m := range out {
		ac, ok := m.Chunk.(*downsample.AggrChunk)
		if !ok {
			viol("output-not-aggr-chunk", fmt.Sprintf("chunk %d is %T", ci, m.Chunk))
			return
		}
		var ag [4][]tv
		pc := storepb.AggrChunk{MinTime: m.MinTime, MaxTime: m.MaxTime}
		for a := 0; a < 4; a++ {
			sub, err := ac.Get(downsample.AggrType(a))
			if err != nil {
				viol("aggregate-missing", fmt.Sprintf("chunk %d aggregate %s: %v", ci, aggrNames[a], err))
				return
			}
			ag[a], err = drain(sub.Iterator(nil))
			if err != nil {
				viol("aggregate-unreadable", fmt.Sprintf("chunk %d aggregate %s: %v", ci, aggrNames[a], err))
				return
			}
			all[a] = append(all[a], ag[a]...)
			x := &storepb.Chunk{Type: storepb.Chunk_XOR, Data: sub.Bytes()}
			switch a {
			case 0:
				pc.Count = x
			case 1:
				pc.Sum = x
			case 2:
				pc.Min = x
			case 3:
				pc.Max = x
			}
		}
		pb = append(pb, pc)

		// chunks time-ordered and non-overlapping (meta and contents)
		if m.MinTime > m.MaxTime {
			viol("chunk-meta-inverted", fmt.Sprintf("chunk %d [%d,%d]", ci, m.MinTime, m.MaxTime))
		}
		if m.MinTime <= prevMaxT {
			viol("chunks-overlap-or-unordered", fmt.Sprintf("chunk %d starts at %d, previous ends at %d", ci, m.MinTime, prevMaxT))
		}
		prevMaxT = m.MaxTime
		if len(ag[0]) == 0 {
			viol("empty-output-chunk", fmt.Sprintf("chunk %d has no samples", ci))
			continue
		}
		for a := 1; a < 4; a++ {
			if len(ag[a]) != len(ag[0]) {
				viol("aggregate-timestamps-misaligned", fmt.Sprintf("chunk %d: %s has %d samples, count has %d", ci, aggrNames[a], len(ag[a]), len(ag[0])))
				return
			}
		}
		for i := range ag[0] {
			T := ag[0][i].t
			for a := 1; a < 4; a++ {
				if ag[a][i].t != T {
					viol("aggregate-timestamps-misaligned", fmt.Sprintf("chunk %d sample %d: %s at %d, count at %d", ci, i, aggrNames[a], ag[a][i].t, T))
					return
				}
			}
			if T < m.MinTime || T > m.MaxTime {
				viol("sample-outside-chunk-meta", fmt.Sprintf("chunk %d [%d,%d] holds output timestamp %d", ci, m.MinTime, m.MaxTime, T))
			}
			if i > 0 && T <= ag[0][i-1].t {
				viol("output-timestamps-not-increasing", fmt.Sprintf("chunk %d: %d after %d", ci, T, ag[0][i-1].t))
			}
			k := T / res
			w := ref[k]
			if w == nil {
				viol("output-for-window-without-samples", fmt.Sprintf("output timestamp %d lies in window %d that holds no non-NaN raw sample", T, k))
				continue
			}
			if seen[k] {
				viol("window-emitted-twice", fmt.Sprintf("window %d has a second output timestamp %d", k, T))
			}
			seen[k] = true
			gc, gs, gmin, gmax := ag[0][i].v, ag[1][i].v, ag[2][i].v, ag[3][i].v
			lo, hi := k*res, k*res+res-1
			pinf, ninf, only := hasInf(raw, lo, hi)
			if gc != float64(w.count) {
				viol("window-count-wrong", fmt.Sprintf("t=%d count=%v, raw window holds %d non-NaN samples", T, gc, w.count))
			}
			if !sameF(gs, w.sum) {
				viol("window-sum-wrong", fmt.Sprintf("t=%d sum=%v, raw window sum %v", T, gs, w.sum))
			}
			if !sameF(gmin, w.min) {
				sig := "window-min-wrong"
				if only && pinf && !ninf {
					sig = "min-of-window-holding-only-plus-inf-is-maxfloat"
				}
				viol(sig, fmt.Sprintf("t=%d min=%v, raw window min %v", T, gmin, w.min))
			}
			if !sameF(gmax, w.max) {
				sig := "window-max-wrong"
				if only && ninf && !pinf {
					sig = "max-of-window-holding-only-minus-inf-is-minus-maxfloat"
				}
				viol(sig, fmt.Sprintf("t=%d max=%v, raw window max %v", T, gmax, w.max))
			}
			got.count += int(gc)
			got.sum += gs
			got.min = math.Min(got.min, gmin)
			got.max = math.Max(got.max, gmax)
		}
	}

	// totals over the series
	if got.count != nonNaN {
		viol("total-count-differs", fmt.Sprintf("aggregated count %d, raw non-NaN samples %d", got.count, nonNaN))
	}
	if len(seen) != len(ref) {
		viol("window-without-output", fmt.Sprintf("%d windows hold raw samples, %d were emitted", len(ref), len(seen)))
	}
	if nonNaN > 0 {
		if !sameF(got.sum, tot.sum) {
			viol("total-sum-differs", fmt.Sprintf("aggregated sum %v, raw sum %v", got.sum, tot.sum))
		}
		if !sameF(got.min, tot.min) && !bad {
			viol("total-min-differs", fmt.Sprintf("aggregated min %v, raw min %v", got.min, tot.min))
		}
		if !sameF(got.max, tot.max) && !bad {
			viol("total-max-differs", fmt.Sprintf("aggregated max %v, raw max %v", got.max, tot.max))
		}
	}
	if len(pb) == 0 {
		return
	}

	// read-back through the querier: full range by Next, then by Seek to emitted timestamps.
	mint, maxt := out[0].MinTime, out[len(out)-1].MaxTime
	for a := 0; a < 4; a++ {
		it := querierIterator(pb, mint, maxt, pbAggr[a])
		back, err := drain(it)
		if err != nil {
			viol("querier-readback-error", fmt.Sprintf("%s: %v", aggrNames[a], err))
			continue
		}
		if !sameTV(back, all[a]) {
			viol("querier-readback-differs", fmt.Sprintf("%s: querier yields %d samples %v, chunks hold %d %v", aggrNames[a], len(back), head(back), len(all[a]), head(all[a])))
		}
		// Seek to selected emitted timestamps from a fresh iterator, then continue with Next.
		for _, i := range seekIdx(c, out, all[a]) {
			it := querierIterator(pb, mint, maxt, pbAggr[a])
			if it.Seek(all[a][i].t) == chunkenc.ValNone {
				viol("querier-seek-misses-sample", fmt.Sprintf("%s: Seek(%d) found nothing (err %v)", aggrNames[a], all[a][i].t, it.Err()))
				continue
			}
			t, v := it.At()
			rest, _ := drain(it)
			if t != all[a][i].t || !sameF(v, all[a][i].v) || !sameTV(rest, all[a][i+1:]) {
				viol("querier-seek-readback-differs", fmt.Sprintf("%s: Seek(%d) at (%d,%v) then %d samples; expected (%d,%v) then %d", aggrNames[a], all[a][i].t, t, v, len(rest), all[a][i].t, all[a][i].v, len(all[a])-i-1))
			}
		}
		// sub-range: the querier restricted to [second emitted, last-but-one emitted]
		if n := len(all[a]); n >= 3 {
			lo, hi := all[a][1].t, all[a][n-2].t
			back, err := drain(querierIterator(pb, lo, hi, pbAggr[a]))
			if err != nil || !sameTV(back, all[a][1:n-1]) {
				viol("querier-subrange-readback-differs", fmt.Sprintf("%s: range [%d,%d] yields %d samples (err %v), expected %d", aggrNames[a], lo, hi, len(back), err, n-2))
			}
		}
	}
	// average = sum/count as the querier serves it for the default (COUNT,SUM) request
	avg, err := drain(querierIterator(pb, mint, maxt, storepb.Aggr_COUNT, storepb.Aggr_SUM))
	if err != nil {
		viol("querier-avg-error", err.Error())
	} else {
		exp := make([]tv, len(all[0]))
		for i := range all[0] {
			exp[i] = tv{all[0][i].t, all[1][i].v / all[0][i].v}
		}
		if !sameTV(avg, exp) {
			viol("querier-avg-differs", fmt.Sprintf("avg yields %v, sum/count is %v", head(avg), head(exp)))
		}
	}
}

func head(x []tv) []tv {
	if len(x) > 6 {
		return x[:6]
	}
	return x
}

// seekIdx: every emitted sample for the grid family; first/last sample of every chunk for the long one.
func seekIdx(c Case, out []chunks.Meta, all []tv) []int {
	if c.Fam == "grid" || len(all) <= 8 {
		idx := make([]int, len(all))
		for i := range idx {
			idx[i] = i
		}
		return idx
	}
	var idx []int
	for i := range all {
		for _, m := range out {
			if all[i].t == m.MinTime || all[i].t == m.MaxTime {
				idx = append(idx, i)
				break
			}
		}
	}
	return idx
}

const (
	res5m = int64(5 * 60 * 1000)
	res1h = int64(60 * 60 * 1000)
)

type span struct{ lo, hi int }

func gen(r *vlib.R) iter.Seq[Case] {
	return func(yield func(Case) bool) {
		// ---- grid family
		nsym := vlib.Pick(r, 6, 7)
		bases := vlib.Pick(r, []int64{1}, []int64{1, 0})
		for _, res := range []int64{res5m, res1h} {
			pos := vlib.Pick(r, []int{0, 2, 3, 4, 5, 6, 8}, []int{0, 1, 2, 3, 4, 5, 6, 7, 8})
			if res == res1h && !r.Thorough() {
				// same code path as 5m, only the numbers differ: a smaller edge grid in the quick tier
				pos = []int{0, 2, 3, 5, 6}
			}
			for _, base := range bases {
				for syms := range vlib.Tuples(len(pos), nsym) {
					if !yield(Case{Fam: "grid", Res: res, Base: base, Pos: pos, Syms: syms}) {
						return
					}
				}
			}
		}
		// ---- long family: (res, step) -> ranges of n crossing the 1->2->3 chunk thresholds
		type lf struct {
			res, step int64
			ns        []span
		}
		small := span{1, 260}
		fams := []lf{
			{res5m, 15_000, []span{{1, 130}, {2790, 2850}, {5610, 5670}}},
			{res5m, 60_000, []span{small, {690, 720}, {1395, 1425}}},
			{res5m, 300_000, []span{small, {690, 720}, {1395, 1425}}},
			{res5m, 300_007, []span{small, {690, 720}, {1395, 1425}}},
			{res1h, 60_000, []span{small, {8385, 8420}, {16790, 16830}}},
			{res1h, 720_000, []span{small, {8385, 8420}, {16790, 16830}}},
		}
		if r.Thorough() {
			fams = []lf{
				{res5m, 15_000, []span{{1, 400}, {2700, 2900}, {5500, 5800}}},
				{res5m, 60_000, []span{{1, 2200}}},
				{res5m, 300_000, []span{{1, 2200}}},
				{res5m, 300_007, []span{{1, 2200}}},
				{res5m, 1_000_003, []span{{1, 2200}}},
				{res1h, 60_000, []span{{1, 800}, {8300, 8500}, {16700, 16900}}},
				{res1h, 720_000, []span{{1, 800}, {8300, 8500}, {16700, 16900}}},
				{res1h, 3_600_000, []span{{1, 800}, {8300, 8500}, {16700, 16900}}},
			}
		}
		for _, f := range fams {
			for _, sp := range f.ns {
				for n := sp.lo; n <= sp.hi; n++ {
					for _, off := range []int64{0, f.res - 1} {
						if off != 0 && n > 3000 && !r.Thorough() {
							continue // quick tier: the very long series only with the aligned start
						}
						for val := 0; val < 3; val++ {
							for nan := 0; nan < 4; nan++ {
								if !yield(Case{Fam: "long", Res: f.res, N: n, Step: f.step, Off: off, Val: val, Nan: nan}) {
									return
								}
							}
						}
					}
				}
			}
		}
	}
}

func TestCheck(t *testing.T) {
	r := vlib.New(t, "C36")
	defer r.Finish()
	r.Rule("grid: all assignments of {absent,1,-2.5,NaN,StaleNaN,+Inf[,-Inf]} to grid positions (window start, +1ms, window end) of 3 consecutive windows, res 5m and 1h; " +
		"long: regular series for every n in ranges around the 1->2->3 output-chunk thresholds and 119/120/121/240, x step x first-sample offset x 3 value patterns x 4 NaN patterns. " +
		"non-trivial = grid case with >=2 populated windows and at least one NaN sample, or long case that produced >=2 aggregate chunks")
	r.Assume("raw timestamps are >= 0 and strictly increasing (what a TSDB series holds)",
		"values are small dyadic rationals and +-Inf so that every summation order gives the same float (no rounding in the oracle)",
		"storepb.AggrChunk is filled from the AggrChunk the way store.populateChunk does (sub-chunk bytes, XOR type)")
	vlib.ForEach(r, gen(r), func(c Case) { eval(r, c) })
}
