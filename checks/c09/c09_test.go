// C09: Series request limits of the store gateway. A successful BucketStore.Series never carries more series /
// chunks than the configured limits and is complete; a request whose true answer exceeds a limit fails with
// ResourceExhausted.
//
// Engine E4: block universes x selectors x time ranges x request shape {with chunks, SkipChunks} x (series limit,
// chunk limit) around the true counts x lazy postings x series batch size x index cache {none, cold, warm}.
// The label calls with matchers (which run the same per-block series client with SkipChunks) are driven with the
// same series limits; the statement promises nothing about them, so they are observed and counted only.
package c09

import (
	"context"
	"fmt"
	"iter"
	"path/filepath"
	"strings"
	"sync"
	"sync/atomic"
	"testing"

	dto "github.com/prometheus/client_model/go"
	"google.golang.org/grpc/codes"
	"google.golang.org/grpc/status"

	"github.com/prometheus/client_golang/prometheus"

	"github.com/thanos-io/thanos/pkg/store/storepb"

	"verif/vlib"
)

var dense = []int64{0, 50, 100, 150, 200, 250} // chunks [0,50] [100,150] [200,250] with chunk range 100

func universeSpecs() map[string][]BlockSpec {
	e1 := []string{"e", "1"}
	e2 := []string{"e", "2"}
	u0 := []BlockSpec{{Ext: e1, MinT: 0, MaxT: 300, ChunkRange: 100, Series: []SeriesSpec{
		{L: []string{"a", "x"}, T: dense},
		{L: []string{"a", "x", "b", "p"}, T: []int64{150}},
		{L: []string{"a", "y", "b", "p"}, T: []int64{0}},
		{L: []string{"a", "y", "b", "q"}, T: []int64{0, 250}},
		{L: []string{"a", "z", "c", "r"}, T: []int64{250}},
		{L: []string{"b", "q"}, T: dense},
		{L: []string{"a", "x", "b", "q", "c", "r"}, T: []int64{100, 150}},
	}}}
	u1 := []BlockSpec{
		{Ext: e1, MinT: 0, MaxT: 300, ChunkRange: 100, Series: []SeriesSpec{
			{L: []string{"a", "x"}, T: dense},
			{L: []string{"a", "x", "b", "p"}, T: []int64{150}},
			{L: []string{"a", "y", "b", "q"}, T: []int64{0, 250}},
		}},
		{Ext: e1, MinT: 300, MaxT: 600, ChunkRange: 100, Series: []SeriesSpec{
			{L: []string{"a", "x"}, T: []int64{300, 350, 400}},
			{L: []string{"a", "y", "b", "q"}, T: []int64{599}},
			{L: []string{"a", "w"}, T: []int64{300}},
		}},
		{Ext: e2, MinT: 0, MaxT: 300, ChunkRange: 100, Series: []SeriesSpec{
			{L: []string{"a", "x"}, T: dense},
			{L: []string{"b", "p"}, T: []int64{50}},
		}},
		// overlaps the first block: {a="x"} repeats its first chunk byte for byte
		{Ext: e1, MinT: 0, MaxT: 300, ChunkRange: 100, Series: []SeriesSpec{
			{L: []string{"a", "x"}, T: []int64{0, 50}},
			{L: []string{"a", "y"}, T: []int64{100}},
		}},
	}
	var wide []SeriesSpec
	for i := 0; i < 40; i++ {
		l := []string{"n", fmt.Sprintf("v%02d", i), "a", []string{"x", "y"}[i%2]}
		if i%3 == 0 {
			l = append(l, "b", "p")
		}
		t := [][]int64{dense, {0}, {150}, {250}}[i%4]
		wide = append(wide, SeriesSpec{L: l, T: t})
	}
	u2 := []BlockSpec{{Ext: e1, MinT: 0, MaxT: 300, ChunkRange: 100, Series: wide}}
	return map[string][]BlockSpec{"u0": u0, "u1": u1, "u2": u2}
}

var universeNames = []string{"u0", "u1", "u2"}

type Query struct {
	Ms   []M   `json:"ms"`
	MinT int64 `json:"mint"`
	MaxT int64 `json:"maxt"`
	Skip bool  `json:"skip,omitempty"` // SeriesRequest.SkipChunks: the answer is the label sets only
}

func (q Query) String() string {
	var s []string
	for _, m := range q.Ms {
		s = append(s, m.String())
	}
	sk := ""
	if q.Skip {
		sk = " skip-chunks"
	}
	return fmt.Sprintf("{%s}@[%d,%d]%s", strings.Join(s, ","), q.MinT, q.MaxT, sk)
}

func selectorSets(u string, thorough bool) [][]M {
	if u == "u2" {
		out := [][]M{
			{{2, "n", ".+"}}, {{0, "a", "x"}}, {{0, "b", "p"}, {0, "a", "y"}}, {{2, "n", "v0.*"}}, {{0, "n", "v00"}},
			{{2, "n", "v04|v08|v36"}}, {{0, "b", ""}, {2, "a", "x|y"}},
		}
		if thorough {
			out = append(out, [][]M{{{1, "n", "v00"}, {0, "b", "p"}}, {{2, "a", ".*"}}, {{2, "n", "v1.*"}, {1, "a", "x"}}}...)
		}
		return out
	}
	out := [][]M{
		{{2, "a", ".*"}},                     // everything (special all-postings key)
		{{0, "a", "x"}},                      // one add key
		{{2, "a", ".+"}},                     // several add keys
		{{0, "b", "q"}},                      //
		{{0, "a", "y"}, {2, "b", "p|q"}},     // two add groups: lazy candidate
		{{0, "a", "x"}, {0, "b", ""}},        // add group + remove group
		{{0, "a", "x"}, {0, "b", "p"}},       // two single-key groups
		{{2, "a", "x|y|z|w"}, {1, "c", "r"}}, //
		{{0, "a", "m"}},                      // nothing
	}
	if thorough {
		out = append(out, [][]M{{{2, "a", ".+"}, {2, "b", ".+"}}, {{0, "a", "x"}, {0, "e", "1"}}, {{0, "c", "r"}}, {{1, "a", "x"}, {1, "b", "p"}}}...)
	}
	return out
}

var ranges = [][2]int64{{0, 1000}, {50, 100}, {150, 150}, {250, 400}, {51, 99}, {0, 0}}

type Case struct {
	U   int      `json:"u"`
	Cfg Config   `json:"cfg"`
	Q   Query    `json:"q"`
	Lim []uint64 `json:"lim,omitempty"` // [series limit, chunk limit]; nil = every combination around the true counts
}

func configs(thorough bool) []Config {
	var out []Config
	lazies := []int{0, 2, 1}
	ests := []int{1}
	if thorough {
		lazies = []int{0, 1, 2, 3}
		ests = []int{0, 1, 2}
	}
	for _, lazy := range lazies {
		for _, est := range ests {
			for _, b := range []int{1, 2, 10000} {
				for cache := 0; cache < 2; cache++ {
					out = append(out, Config{Sampling: 32, Lazy: lazy, Est: est, Batch: b, Cache: cache, Gap: 1})
				}
			}
		}
	}
	return out
}

// limit values around the true count t: off, 1, t-1, t, t+1 and one comfortably above
func limitOptions(t int) []uint64 {
	cand := []int{0, 1, t - 1, t, t + 1, 2*t + 3}
	var out []uint64
	seen := map[int]bool{}
	for _, c := range cand {
		if c < 0 || seen[c] {
			continue
		}
		seen[c] = true
		out = append(out, uint64(c))
	}
	return out
}

type pooled struct {
	g   *gateway
	lim *limits
}

type env struct {
	r    *vlib.R
	unis []*universe
	hdr  []string
	mu   sync.Mutex
	idle map[string][]*pooled
	all  []*pooled

	calls, okLimited, rejected, overcount, otherErr atomic.Int64

	skipCalls, skipLazyCases, skipRejected                      atomic.Int64 // the SkipChunks part of the above
	labelCalls, labelRejected, labelOverLimitOK, labelOtherErrs atomic.Int64 // label calls: observed only
}

func (e *env) acquire(ctx context.Context, u int, cfg Config) (*pooled, error) {
	k := fmt.Sprintf("%d/%s", u, cfg)
	e.mu.Lock()
	if l := e.idle[k]; len(l) > 0 {
		p := l[len(l)-1]
		e.idle[k] = l[:len(l)-1]
		e.mu.Unlock()
		return p, nil
	}
	e.mu.Unlock()
	lim := &limits{}
	g, err := newGateway(ctx, e.unis[u], cfg, lim, e.hdr[u], prometheus.NewRegistry())
	if err != nil {
		return nil, err
	}
	p := &pooled{g: g, lim: lim}
	e.mu.Lock()
	e.all = append(e.all, p)
	e.mu.Unlock()
	return p, nil
}

func (e *env) release(u int, cfg Config, p *pooled) {
	k := fmt.Sprintf("%d/%s", u, cfg)
	e.mu.Lock()
	e.idle[k] = append(e.idle[k], p)
	e.mu.Unlock()
}

func (e *env) gen(thorough bool) iter.Seq[Case] {
	nr := 4
	if thorough {
		nr = len(ranges)
	}
	return func(yield func(Case) bool) {
		for u := range e.unis {
			for _, cfg := range configs(thorough) {
				for _, ms := range selectorSets(universeNames[u], thorough) {
					for _, rg := range ranges[:nr] {
						for _, skip := range []bool{false, true} {
							if !yield(Case{U: u, Cfg: cfg, Q: Query{Ms: ms, MinT: rg[0], MaxT: rg[1], Skip: skip}}) {
								return
							}
						}
					}
				}
			}
		}
	}
}

// lazyExpansions reads thanos_bucket_store_lazy_expanded_postings_total of the store: the number of per-block
// queries whose postings were really expanded lazily.
func (p *pooled) lazyExpansions() float64 {
	if p.g.reg == nil {
		return 0
	}
	mfs, err := p.g.reg.Gather()
	if err != nil {
		panic(fmt.Sprintf("HARNESS-ERROR gather: %v", err))
	}
	return sumCounter(mfs, "thanos_bucket_store_lazy_expanded_postings_total")
}

func sumCounter(mfs []*dto.MetricFamily, name string) float64 {
	v := 0.0
	for _, mf := range mfs {
		if mf.GetName() != name {
			continue
		}
		for _, m := range mf.GetMetric() {
			v += m.GetCounter().GetValue()
		}
	}
	return v
}

// guarded runs one call into the store and turns a panic of the code under test (in the calling goroutine) into a value.
func guarded(f func() error) (err error, panicked any) {
	defer func() {
		if x := recover(); x != nil {
			panicked = x
		}
	}()
	return f(), nil
}

func hasLabel(key, name string) bool {
	return strings.HasPrefix(key, "{"+name+"=\"") || strings.Contains(key, ", "+name+"=\"")
}

func (e *env) eval(c Case) {
	r := e.r
	ctx := context.Background()
	if c.U < 0 || c.U >= len(e.unis) {
		panic(fmt.Sprintf("HARNESS-ERROR bad universe %d", c.U))
	}
	u := e.unis[c.U]
	p, err := e.acquire(ctx, c.U, c.Cfg)
	if err != nil {
		panic(fmt.Sprintf("HARNESS-ERROR store does not start: %v", err))
	}
	defer e.release(c.U, c.Cfg, p)

	want, err := u.reference(ctx, promMatchers(c.Q.Ms), c.Q.MinT, c.Q.MaxT, nil)
	if err != nil {
		panic(fmt.Sprintf("HARNESS-ERROR reference read failed: %v", err))
	}
	skip := c.Q.Skip
	mode := ""
	ts, tc := len(want), 0
	if skip {
		// the complete answer of a SkipChunks request: the same series (those with a chunk in the range), no chunks
		mode = "skip-chunks-"
		labelsOnly := answer{}
		for k := range want {
			labelsOnly[k] = nil
		}
		want = labelsOnly
	} else {
		for _, chks := range want {
			tc += len(dedupChunks(chks)) // byte-identical chunks held by two blocks are returned once
		}
	}
	var combos [][2]uint64
	if c.Lim != nil {
		if len(c.Lim) != 2 {
			panic(fmt.Sprintf("HARNESS-ERROR bad lim"))
		}
		combos = append(combos, [2]uint64{c.Lim[0], c.Lim[1]})
	} else {
		chunkOpts := limitOptions(tc)
		if skip {
			chunkOpts = []uint64{0, 1} // no chunk is returned: no chunk limit can be exceeded, 1 is the tightest
		}
		for _, n := range limitOptions(ts) {
			for _, m := range chunkOpts {
				combos = append(combos, [2]uint64{n, m})
			}
		}
	}
	lazyBefore := 0.0
	if skip {
		lazyBefore = p.lazyExpansions()
	}
	ncalls := int64(0)
	for _, lm := range combos {
		n, m := lm[0], lm[1]
		narrowed := c
		narrowed.Lim = []uint64{n, m}
		exceeds := (n > 0 && uint64(ts) > n) || (m > 0 && uint64(tc) > m)
		if (n > 0 && uint64(ts)+1 >= n && uint64(ts) <= n+1) || (!skip && m > 0 && uint64(tc)+1 >= m && uint64(tc) <= m+1) {
			r.Nontrivial(fmt.Sprintf("%d|%s|%d|%d", c.U, c.Q, n, m))
		}
		p.lim.set(n, m)
		if p.g.cache != nil {
			p.g.cache.reset()
		}
		phases := []string{""}
		if p.g.cache != nil {
			phases = append(phases, "warm-cache-")
		}
		for _, ph := range phases {
			ph += mode
			var res *result
			err, pv := guarded(func() (err error) {
				res, err = p.g.series(ctx, &storepb.SeriesRequest{MinTime: c.Q.MinT, MaxTime: c.Q.MaxT, Matchers: pbMatchers(c.Q.Ms), SkipChunks: skip})
				return err
			})
			ncalls++
			if skip {
				e.skipCalls.Add(1)
			}
			where := fmt.Sprintf("%s on %s %s with series limit %d (true %d), chunk limit %d (true %d)", c.Q, u.name, c.Cfg, n, ts, m, tc)
			if pv != nil {
				r.Violation(ph+"series-call-panics", fmt.Sprintf("%s: panic: %v", where, pv), narrowed)
				continue
			}
			if err != nil {
				code := status.Code(err)
				switch {
				case exceeds && code != codes.ResourceExhausted:
					r.Violation(ph+"limit-exceeded-error-is-not-resource-exhausted", fmt.Sprintf("%s: failed with code %s: %v", where, code, err), narrowed)
				case exceeds:
					e.rejected.Add(1)
					if skip {
						e.skipRejected.Add(1)
					}
				case code == codes.ResourceExhausted:
					e.overcount.Add(1) // the statement allows rejecting a request that is within the limits
				default:
					e.otherErr.Add(1)
					r.Note("a request within its limits failed with a non-limit error: %s: %v", where, err)
				}
				continue
			}
			if n > 0 || m > 0 {
				e.okLimited.Add(1)
			}
			if n > 0 && uint64(res.nSeries) > n {
				r.Violation(ph+"more-series-than-the-series-limit", fmt.Sprintf("%s: succeeded with %d series", where, res.nSeries), narrowed)
				continue
			}
			if m > 0 && uint64(res.nChunks) > m {
				r.Violation(ph+"more-chunks-than-the-chunk-limit", fmt.Sprintf("%s: succeeded with %d chunks", where, res.nChunks), narrowed)
				continue
			}
			if sig, desc := diffAnswers(res.ans, want); sig != "" {
				if exceeds {
					r.Violation(ph+"limit-exceeded-but-truncated-answer-returned", fmt.Sprintf("%s: succeeded, %s", where, desc), narrowed)
				} else {
					r.Violation(ph+"incomplete-answer-within-limits-"+sig, fmt.Sprintf("%s: succeeded, %s", where, desc), narrowed)
				}
				continue
			}
			if exceeds {
				// complete answer, counts within limits and yet the true answer exceeds: impossible
				panic(fmt.Sprintf("HARNESS-ERROR inconsistent oracle at %s", where))
			}
		}
	}
	if skip {
		if p.lazyExpansions() > lazyBefore {
			e.skipLazyCases.Add(1)
			r.Add("skip_chunks_cases_with_lazily_expanded_postings_"+u.name, 1)
		}
	}
	e.calls.Add(ncalls)
	if skip {
		ncalls += e.observeLabelCalls(ctx, c, p, want, combos)
	}
	if ncalls > 1 {
		r.Eval(ncalls - 1)
	}
}

// observeLabelCalls drives LabelNames / LabelValues with the matchers of the case under every series limit of the
// case. These calls run the same per-block series client as a SkipChunks Series request and are handed the series
// limiter, but the property statement is about Series calls only: nothing is asserted, the outcomes are counted
// ("label_calls_succeeding_with_more_matching_series_than_the_limit" is what a reader may want to look at).
func (e *env) observeLabelCalls(ctx context.Context, c Case, p *pooled, want answer, combos [][2]uint64) (ncalls int64) {
	u := e.unis[c.U]
	onlyExt := true // matchers on external labels only: answered from the index header, no series is read
	for _, m := range c.Q.Ms {
		isExt := false
		for _, b := range u.blocks {
			if b.ext.Has(m.N) {
				isExt = true
			}
		}
		if !isExt {
			onlyExt = false
		}
	}
	if onlyExt || len(c.Q.Ms) == 0 {
		return 0
	}
	name := c.Q.Ms[0].N
	withName := 0 // LabelValues adds name!="" for the blocks that do not carry name as an external label
	for k := range want {
		if hasLabel(k, name) {
			withName++
		}
	}
	seen := map[uint64]bool{}
	for _, lm := range combos {
		n := lm[0]
		if seen[n] || n == 0 || n > uint64(len(want)) { // the limits at or below the number of matching series: 1, true-1, true
			continue
		}
		seen[n] = true
		p.lim.set(n, 0)
		if p.g.cache != nil {
			p.g.cache.reset()
		}
		for i, needed := range []int{len(want), withName} {
			err, pv := guarded(func() error {
				if i == 0 {
					_, err := p.g.st.LabelNames(ctx, &storepb.LabelNamesRequest{Start: c.Q.MinT, End: c.Q.MaxT, Matchers: pbMatchers(c.Q.Ms)})
					return err
				}
				_, err := p.g.st.LabelValues(ctx, &storepb.LabelValuesRequest{Label: name, Start: c.Q.MinT, End: c.Q.MaxT, Matchers: pbMatchers(c.Q.Ms)})
				return err
			})
			ncalls++
			e.labelCalls.Add(1)
			switch {
			case pv != nil:
				e.labelOtherErrs.Add(1)
				e.r.Note("a label call panicked (observed only): %s on %s %s series limit %d: %v", c.Q, u.name, c.Cfg, n, pv)
			case err != nil && status.Code(err) == codes.ResourceExhausted:
				e.labelRejected.Add(1)
			case err != nil:
				e.labelOtherErrs.Add(1)
			case n > 0 && uint64(needed) > n:
				e.labelOverLimitOK.Add(1)
			}
		}
	}
	return ncalls
}

func TestCheck(t *testing.T) {
	r := vlib.New(t, "C09")
	defer r.Finish()
	r.Rule("real BucketStore over 3 block universes (1 block / 4 blocks incl. an overlapping block repeating a chunk / 40 series); selector sets x time ranges x " +
		"request shape {with chunks, SkipChunks} x series limit in {off,1,true-1,true,true+1,2*true+3} x chunk limit likewise ({off,1} for SkipChunks, which returns " +
		"no chunk) (true = counts of the direct TSDB read of the same request) x " +
		"lazy postings {off, always, ratio 0.5} x series batch {1,2,1e4} x index cache {none, cold, warm}; " +
		"non-trivial = distinct (universe, request, limits) with a limit within 1 of the true count")
	r.Assume("limits are supplied through the limiter factories (read per Series call), each call gets real store.Limiter objects",
		"the true chunk count counts a byte-identical chunk held by two overlapping blocks once (that is what a complete answer carries)",
		"rejecting a request that is within its limits (the store counts postings before the time filter, and per block) is not a violation of the statement; it is counted in 'overcount_rejections'",
		"the complete answer of a SkipChunks request is the label sets of the series that have a chunk overlapping the time range (no chunks); its chunk count is 0, so only the series limit can be exceeded",
		"LabelNames/LabelValues with matchers are driven under the same series limits but only observed (counters label_calls_*): the statement is about Series calls",
		"the per-request SeriesRequest.Limit field and the bytes limiter are not exercised")
	ctx := context.Background()
	root := t.TempDir()
	e := &env{r: r, idle: map[string][]*pooled{}}
	specs := universeSpecs()
	for _, name := range universeNames {
		u, err := buildUniverse(ctx, root, name, specs[name])
		if err != nil {
			t.Fatalf("HARNESS-ERROR %v", err)
		}
		defer u.close()
		e.unis = append(e.unis, u)
		hdr := filepath.Join(root, "hdr-"+name)
		g, err := newGateway(ctx, u, Config{Sampling: 32, Batch: 10000, Gap: 1}, nil, hdr, nil)
		if err != nil {
			t.Fatalf("HARNESS-ERROR warm-up store for %s: %v", name, err)
		}
		g.close()
		e.hdr = append(e.hdr, hdr)
	}
	vlib.ForEach(r, e.gen(r.Thorough()), func(c Case) {
		r.Sample(c)
		e.eval(c)
	})
	for _, p := range e.all {
		p.g.close()
	}
	r.Set("series_calls", e.calls.Load())
	r.Set("successes_with_a_limit_set", e.okLimited.Load())
	r.Set("resource_exhausted_when_exceeding", e.rejected.Load())
	r.Set("overcount_rejections", e.overcount.Load())
	r.Set("other_errors", e.otherErr.Load())
	r.Set("skip_chunks_series_calls", e.skipCalls.Load())
	r.Set("skip_chunks_resource_exhausted_when_exceeding", e.skipRejected.Load())
	r.Set("skip_chunks_cases_with_lazily_expanded_postings", e.skipLazyCases.Load())
	r.Set("label_calls_observed", e.labelCalls.Load())
	r.Set("label_calls_resource_exhausted", e.labelRejected.Load())
	r.Set("label_calls_other_errors", e.labelOtherErrs.Load())
	r.Set("label_calls_succeeding_with_more_matching_series_than_the_limit", e.labelOverLimitOK.Load())
	if n := e.labelOverLimitOK.Load(); n > 0 {
		r.Note("%d LabelNames/LabelValues calls with matchers succeeded although more series match than the series limit allows (observed only: the statement is about Series calls)", n)
	}
	if !r.Replaying() && (e.okLimited.Load() == 0 || e.rejected.Load() == 0) {
		r.Cap("no success under a limit or no rejection was observed")
	}
	if !r.Replaying() && (e.skipRejected.Load() == 0 || e.skipLazyCases.Load() == 0) {
		r.Cap("no SkipChunks rejection or no SkipChunks request with lazily expanded postings was observed")
	}
}
