// C46: alert queue is a bounded FIFO (drop oldest), batches <= batch size, no lost wake-up.
package c46

import (
	"encoding/json"
	"fmt"
	"strings"
	"testing"

	"github.com/prometheus/prometheus/model/labels"
	"github.com/prometheus/prometheus/model/relabel"
	"github.com/prometheus/prometheus/notifier"
	"github.com/prometheus/common/model"

	"github.com/thanos-io/thanos/pkg/alert"

	"verif/vexplore"
	"verif/vlib"
	"verif/vsync"
)

// Params of one scenario.
type Params struct {
	Cap     int     `json:"cap"`
	Batch   int     `json:"batch"`
	Pushers [][]int `json:"pushers"` // per pusher: sizes of its successive pushes
	Drop    bool    `json:"drop"`    // relabel config drops every 2nd alert of a push
}

func (p Params) name() string {
	b, _ := json.Marshal(p)
	return string(b)
}

type op struct {
	kind      string // push | pop
	call, ret int64
	in        []string // push: names after relabel filtering is NOT applied (raw); model applies the filter
	out       []string // pop: returned names
}

func mkAlert(name string, drop bool) *notifier.Alert {
	ls := []string{"alertname", name}
	if drop {
		ls = append(ls, "drop", "1")
	}
	return &notifier.Alert{Labels: labels.FromStrings(ls...)}
}

// model: bounded FIFO dropping the oldest.
func modelPush(q []string, in []string, capa int) []string {
	var kept []string
	for _, n := range in {
		if !strings.HasSuffix(n, "!") {
			kept = append(kept, n)
		}
	}
	if len(kept) == 0 {
		return q
	}
	if d := len(kept) - capa; d > 0 {
		kept = kept[d:]
	}
	if d := len(q) + len(kept) - capa; d > 0 {
		q = q[d:]
	}
	return append(append([]string(nil), q...), kept...)
}

func eq(a, b []string) bool {
	if len(a) != len(b) {
		return false
	}
	for i := range a {
		if a[i] != b[i] {
			return false
		}
	}
	return true
}

// linearizable searches for a total order of ops consistent with real time under which the model
// reproduces every pop result and the final queue content.
func linearizable(ops []op, capa, batch int, final []string) bool {
	n := len(ops)
	used := make([]bool, n)
	var rec func(done int, q []string) bool
	rec = func(done int, q []string) bool {
		if done == n {
			return eq(q, final)
		}
		for i := 0; i < n; i++ {
			if used[i] {
				continue
			}
			// minimal: no other unused op returned before this one was called
			ok := true
			for j := 0; j < n; j++ {
				if j != i && !used[j] && ops[j].ret < ops[i].call {
					ok = false
					break
				}
			}
			if !ok {
				continue
			}
			var nq []string
			if ops[i].kind == "push" {
				nq = modelPush(q, ops[i].in, capa)
			} else {
				k := batch
				if len(q) < k {
					k = len(q)
				}
				if !eq(q[:k], ops[i].out) {
					continue
				}
				nq = q[k:]
			}
			used[i] = true
			if rec(done+1, nq) {
				return true
			}
			used[i] = false
		}
		return false
	}
	return rec(0, nil)
}

func scenario(p Params) *vexplore.Scenario {
	return &vexplore.Scenario{
		Name:     p.name(),
		MaxSteps: 5000,
		New: func() (func(e *vsync.Exec), func(), func(e *vsync.Exec) (string, string, string)) {
			var rcfg []*relabel.Config
			if p.Drop {
				rcfg = []*relabel.Config{{
					SourceLabels: model.LabelNames{"drop"}, Regex: relabel.MustNewRegexp("1"), Action: relabel.Drop,
					NameValidationScheme: model.UTF8Validation,
				}}
			}
			q := alert.NewQueue(nil, nil, p.Cap, p.Batch, labels.EmptyLabels(), nil, rcfg)
			var ops []op
			var batchTooBig, lostWake string
			var final []string
			finalTok := false
			total := 0
			for _, pu := range p.Pushers {
				for _, sz := range pu {
					total += sz
				}
			}
			setup := func(e *vsync.Exec) {
				e.Invariant = func() string {
					names, _ := alert.VerifQueueState(q)
					if len(names) > p.Cap {
						return fmt.Sprintf("queue holds %d alerts, capacity %d", len(names), p.Cap)
					}
					return ""
				}
			}
			body := func() {
				termc := make(chan struct{})
				var hs []vsync.Handle
				for pi, pu := range p.Pushers {
					pi, pu := pi, pu
					hs = append(hs, vsync.Spawn(fmt.Sprintf("pusher%d", pi), func() {
						seq := 0
						for _, sz := range pu {
							var as []*notifier.Alert
							var names []string
							for k := 0; k < sz; k++ {
								drop := p.Drop && k%2 == 1
								n := fmt.Sprintf("p%d.%d", pi, seq)
								if drop {
									n += "!"
								}
								seq++
								names = append(names, n)
								as = append(as, mkAlert(n, drop))
							}
							o := op{kind: "push", in: names, call: vsync.Clock()}
							q.Push(as)
							o.ret = vsync.Clock()
							ops = append(ops, o)
						}
					}))
				}
				popper := vsync.Spawn("popper", func() {
					for i := 0; i < total+len(p.Pushers)*3+2; i++ {
						o := op{kind: "pop", call: vsync.Clock()}
						b := q.Pop(termc)
						o.ret = vsync.Clock()
						if b == nil {
							return
						}
						for _, a := range b {
							o.out = append(o.out, a.Labels.Get("alertname"))
						}
						if len(b) > p.Batch {
							batchTooBig = fmt.Sprintf("batch of %d alerts, batch size %d", len(b), p.Batch)
						}
						ops = append(ops, o)
					}
				})
				for _, h := range hs {
					vsync.Join(h)
				}
				// wait until nothing else can run: the popper is then finished or waiting
				vsync.Quiesce()
				names, tok := alert.VerifQueueState(q)
				if !vsync.Finished(popper) && len(names) > 0 && !tok {
					lostWake = fmt.Sprintf("popper waiting (%s) while %d alerts are queued and no wake-up token is pending", vsync.PendingDesc(popper), len(names))
				}
				vsync.Close(termc)
				vsync.Join(popper)
				final, finalTok = alert.VerifQueueState(q)
			}
			check := func(e *vsync.Exec) (string, string, string) {
				var outs []string
				for _, o := range ops {
					if o.kind == "pop" {
						outs = append(outs, strings.Join(o.out, ","))
					}
				}
				outcome := e.Outcome() + " pops=[" + strings.Join(outs, " | ") + "] left=" + strings.Join(final, ",")
				switch {
				case e.Deadlock:
					return "deadlock", e.DeadlockMsg, outcome
				case e.Horizon:
					return "step-horizon-exceeded", "execution did not finish within the step horizon", outcome
				case len(e.Panics) > 0:
					return "panic", strings.Join(e.Panics, "; "), outcome
				case len(e.InvariantViolations) > 0:
					return "capacity-exceeded", e.InvariantViolations[0], outcome
				case batchTooBig != "":
					return "batch-larger-than-batch-size", batchTooBig, outcome
				case lostWake != "":
					return "lost-wakeup", lostWake, outcome
				case len(final) > 0 && !finalTok:
					return "queued-alerts-without-wakeup-token", fmt.Sprintf("at the end %d alerts are queued but no wake-up token is pending", len(final)), outcome
				case !linearizable(ops, p.Cap, p.Batch, final):
					return "not-a-bounded-fifo", fmt.Sprintf("history is not linearizable w.r.t. a drop-oldest FIFO: %+v final=%v", ops, final), outcome
				}
				return "", "", outcome
			}
			return setup, body, check
		},
	}
}

func scenarios(r *vlib.R) []Params {
	quick := []Params{
		{Cap: 2, Batch: 1, Pushers: [][]int{{1, 1}, {2}}},
		{Cap: 2, Batch: 2, Pushers: [][]int{{3}, {1, 1}}},
		{Cap: 3, Batch: 2, Pushers: [][]int{{1, 3}, {4}}},
		{Cap: 2, Batch: 1, Pushers: [][]int{{2, 1}, {3}}, Drop: true},
	}
	if !r.Thorough() {
		return quick
	}
	var out []Params
	progs := func(c int) [][]int {
		sz := []int{1, c, c + 1}
		var ps [][]int
		for _, a := range sz {
			ps = append(ps, []int{a})
		}
		for _, a := range sz {
			for _, b := range sz {
				ps = append(ps, []int{a, b})
			}
		}
		return ps
	}
	for _, c := range []int{2, 3} {
		for _, b := range []int{1, 2} {
			ps := progs(c)
			for i, p1 := range ps {
				for j := i; j < len(ps); j++ {
					if len(p1)+len(ps[j]) > 3 {
						continue
					}
					for _, d := range []bool{false, true} {
						out = append(out, Params{Cap: c, Batch: b, Pushers: [][]int{p1, ps[j]}, Drop: d})
					}
				}
			}
		}
	}
	return out
}

func TestCheck(t *testing.T) {
	r := vlib.New(t, "C46")
	defer r.Finish()
	r.Rule("scenarios = (capacity, batch size, 2 pusher programs with push sizes from {1,cap,cap+1}, relabel drop on/off) x every schedule of pushers+popper within the deviation bound; " +
		"distinct_nontrivial = distinct (scenario, final observation) pairs where the observation is the sequence of popped batches and the left-over queue")
	r.Assume("data-race freedom of plain accesses (scheduling points are mutex/channel/select operations)")
	var named []vexplore.Named
	for _, p := range scenarios(r) {
		named = append(named, vexplore.Named{S: scenario(p), Params: p})
	}
	vexplore.Drive(r, named, vlib.Pick(r, 2, 3), func(c vexplore.Case) *vexplore.Scenario {
		var p Params
		if err := json.Unmarshal(c.Params, &p); err != nil {
			return nil
		}
		return scenario(p)
	})
}
