// C09 part 2: concurrent Reserve calls on one store.Limiter under the controlled scheduler.
package c09s

import (
	"encoding/json"
	"fmt"
	"strings"
	"testing"

	"github.com/prometheus/client_golang/prometheus"
	"github.com/thanos-io/thanos/pkg/store"

	"verif/vexplore"
	"verif/vlib"
	"verif/vsync"
)

type Params struct {
	Limit   uint64     `json:"limit"`
	Threads [][]uint64 `json:"threads"` // per thread (one block of the request): amounts reserved one after the other
}

func (p Params) name() string { b, _ := json.Marshal(p); return string(b) }

func scenario(p Params) *vexplore.Scenario {
	return &vexplore.Scenario{
		Name:     p.name(),
		MaxSteps: 2000,
		New: func() (func(e *vsync.Exec), func(), func(e *vsync.Exec) (string, string, string)) {
			ctr := prometheus.NewCounter(prometheus.CounterOpts{Name: "c09s_failed"})
			l := store.NewLimiter(p.Limit, ctr)
			res := make([][]string, len(p.Threads))
			var granted uint64
			setup := func(e *vsync.Exec) {}
			body := func() {
				var hs []vsync.Handle
				for i, prog := range p.Threads {
					i, prog := i, prog
					hs = append(hs, vsync.Spawn(fmt.Sprintf("block%d", i), func() {
						for _, n := range prog {
							if err := l.Reserve(n); err != nil {
								res[i] = append(res[i], "x")
								// the block's goroutine stops at the first refusal, as blockSeriesClient does
								return
							}
							granted += n // threads run one at a time
							res[i] = append(res[i], "ok")
						}
					}))
				}
				for _, h := range hs {
					vsync.Join(h)
				}
			}
			check := func(e *vsync.Exec) (string, string, string) {
				outcome := fmt.Sprintf("%s res=%v granted=%d", e.Outcome(), res, granted)
				switch {
				case len(e.Panics) > 0:
					return "panic", strings.Join(e.Panics, "; "), outcome
				case e.Deadlock:
					return "deadlock", e.DeadlockMsg, outcome
				case e.Horizon:
					return "step-horizon-exceeded", "", outcome
				case p.Limit > 0 && granted > p.Limit:
					return "concurrent-reservations-granted-beyond-the-limit", fmt.Sprintf("limit %d, reservations granted without error add up to %d (%v)", p.Limit, granted, res), outcome
				case p.Limit == 0 && strings.Contains(fmt.Sprint(res), "x"):
					return "unlimited-limiter-refused", fmt.Sprintf("limit 0 (disabled) but a reservation failed: %v", res), outcome
				}
				return "", "", outcome
			}
			return setup, body, check
		},
	}
}

func TestCheck(t *testing.T) {
	r := vlib.New(t, "C09")
	defer r.Finish()
	r.Rule("2-3 threads reserving amounts on one store.Limiter (the per-block goroutines of one Series call); every interleaving of the atomic counter operations; " +
		"distinct_nontrivial = distinct (scenario, per-reservation result vector) observations")
	ps := []Params{
		{Limit: 5, Threads: [][]uint64{{3}, {3}}},
		{Limit: 5, Threads: [][]uint64{{2, 2}, {2}}},
		{Limit: 4, Threads: [][]uint64{{1, 1}, {1, 1}, {1}}},
		{Limit: 0, Threads: [][]uint64{{3}, {3}}},
	}
	if r.Thorough() {
		ps = append(ps,
			Params{Limit: 6, Threads: [][]uint64{{2, 2}, {2, 1}, {1, 1}}},
			Params{Limit: 3, Threads: [][]uint64{{1, 1, 1}, {1, 1, 1}}},
			Params{Limit: 7, Threads: [][]uint64{{4}, {2}, {2}}},
		)
	}
	var named []vexplore.Named
	for _, p := range ps {
		named = append(named, vexplore.Named{S: scenario(p), Params: p})
	}
	vexplore.Drive(r, named, -1, func(c vexplore.Case) *vexplore.Scenario {
		var p Params
		if err := json.Unmarshal(c.Params, &p); err != nil {
			return nil
		}
		return scenario(p)
	})
}
