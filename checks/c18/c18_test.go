// C18: replicas of a series are placed on pairwise distinct nodes, the placement depends only on tenant, labels
// and the *set* of endpoints (not the order of the list), and with availability zones the per-zone replica
// counts differ by at most one whenever the zones can accommodate that.
//
// Engine E4. For every configuration the real ring is built with NewMultiHashring. For ketama the whole ring is
// covered: the replica list of every section is checked (GetN is a function of the section a hash falls into;
// this is cross-checked on a series family that includes the wrap-around), and section tables of rings built from
// permuted endpoint lists are compared section by section. For hashmod the series family covers every residue.
//
// The series family has a SIZE dimension (sized_test.go: encoded tenant+labels just below, at and above the 1024
// byte buffer of labelpb.HashWithPrefix and much larger, in several shapes, long tenant ids included) and every
// configuration is asked in several HISTORIES (repeat.go part of eval): a lookup that is repeated, asked for one
// replica in isolation, interleaved with other series or made through a reused request object must give the
// same endpoint, because the placement may depend on nothing but tenant, labels and the endpoint set.
package c18

import (
	"fmt"
	"iter"
	"sort"
	"strings"
	"sync"
	"testing"
	"time"

	"github.com/prometheus/client_golang/prometheus"
	"github.com/thanos-io/thanos/pkg/receive"
	"github.com/thanos-io/thanos/pkg/store/labelpb"
	"github.com/thanos-io/thanos/pkg/store/storepb/prompb"

	"verif/vlib"
)

type Case struct {
	Alg string `json:"alg"` // "ketama" | "hashmod"
	AZ  []int  `json:"az"`  // zone of node i (node i has address node-<i>:10901); -1 = no az configured
	RF  int    `json:"rf"`
}

func (c Case) n() int { return len(c.AZ) }

func (c Case) endpoints(order []int) []receive.Endpoint {
	out := make([]receive.Endpoint, 0, len(order))
	for _, i := range order {
		a := fmt.Sprintf("node-%d:10901", i)
		az := ""
		if c.AZ[i] >= 0 {
			az = fmt.Sprintf("zone-%d", c.AZ[i])
		}
		out = append(out, receive.Endpoint{Address: a, CapNProtoAddress: a, AZ: az})
	}
	return out
}

func (c Case) zoneSizes() []int {
	m := map[int]int{}
	for _, z := range c.AZ {
		if z >= 0 {
			m[z]++
		}
	}
	var out []int
	for _, v := range m {
		out = append(out, v)
	}
	sort.Ints(out)
	return out
}

// canBalance: a placement of rf replicas with per-zone counts differing by at most one exists.
func canBalance(z []int, rf int) bool {
	q, rem := rf/len(z), rf%len(z)
	more := 0
	for _, s := range z {
		if s < q {
			return false
		}
		if s >= q+1 {
			more++
		}
	}
	return more >= rem
}

// spreadCapacity: see checks/c19. rf above it makes the construction spin forever on the unfixed tree.
func spreadCapacity(z []int) int {
	m := z[0]
	for _, x := range z {
		m = min(m, x)
	}
	c := 0
	for _, x := range z {
		c += min(x, m+1)
	}
	return c
}

// rgs yields the restricted growth strings of length n with at most k blocks (= set partitions of the nodes).
func rgs(n, k int) [][]int {
	var out [][]int
	cur := make([]int, n)
	var rec func(i, mx int)
	rec = func(i, mx int) {
		if i == n {
			out = append(out, append([]int(nil), cur...))
			return
		}
		for v := 0; v <= mx+1 && v < k; v++ {
			cur[i] = v
			rec(i+1, max(mx, v))
		}
	}
	rec(0, -1)
	return out
}

// partsAtMost yields integer partitions of n into at most k parts (ascending).
func partsAtMost(n, k int) [][]int {
	var out [][]int
	var rec func(rem, lo int, acc []int)
	rec = func(rem, lo int, acc []int) {
		if rem == 0 {
			out = append(out, append([]int(nil), acc...))
			return
		}
		if len(acc) == k {
			return
		}
		for p := lo; p <= rem; p++ {
			rec(rem-p, p, append(acc, p))
		}
	}
	rec(n, 1, nil)
	return out
}

func blockwise(sizes []int) []int {
	var out []int
	for z, s := range sizes {
		for i := 0; i < s; i++ {
			out = append(out, z)
		}
	}
	return out
}

func roundRobin(sizes []int) []int {
	left := append([]int(nil), sizes...)
	var out []int
	for rem := true; rem; {
		rem = false
		for z := range left {
			if left[z] > 0 {
				left[z]--
				out = append(out, z)
				rem = true
			}
		}
	}
	return out
}

func gen(fullN, maxN, maxZones, maxRF int) iter.Seq[Case] {
	return func(yield func(Case) bool) {
		for n := 1; n <= maxN; n++ {
			var assigns [][]int
			none := make([]int, n)
			for i := range none {
				none[i] = -1
			}
			assigns = append(assigns, none)
			if n <= fullN {
				assigns = append(assigns, rgs(n, maxZones)...)
			} else {
				seen := map[string]bool{}
				for _, p := range partsAtMost(n, maxZones) {
					for _, a := range [][]int{blockwise(p), roundRobin(p)} {
						if k := fmt.Sprint(a); !seen[k] {
							seen[k] = true
							assigns = append(assigns, a)
						}
					}
				}
			}
			for _, a := range assigns {
				for rf := 1; rf <= min(maxRF, n); rf++ {
					if !yield(Case{Alg: "ketama", AZ: a, RF: rf}) {
						return
					}
					if a[0] < 0 {
						if !yield(Case{Alg: "hashmod", AZ: a, RF: rf}) {
							return
						}
					}
				}
			}
		}
	}
}

// orders: the endpoint list orders a configuration is built with. The first is the identity (a rebuild).
func orders(n int) [][]int {
	if n <= 4 {
		var out [][]int
		for p := range vlib.Perms(n) {
			out = append(out, p)
		}
		return out
	}
	id := make([]int, n)
	for i := range id {
		id[i] = i
	}
	out := [][]int{id}
	for s := 1; s < n; s++ { // rotations
		o := make([]int, n)
		for i := range o {
			o[i] = (i + s) % n
		}
		out = append(out, o)
	}
	rev := make([]int, n)
	for i := range rev {
		rev[i] = n - 1 - i
	}
	out = append(out, rev)
	for s := 0; s+1 < n; s++ { // adjacent transpositions
		o := append([]int(nil), id...)
		o[s], o[s+1] = o[s+1], o[s]
		out = append(out, o)
	}
	return out
}

var tenants = []string{"", "t"}

func series(i int) *prompb.TimeSeries {
	return &prompb.TimeSeries{Labels: []labelpb.ZLabel{{Name: "__name__", Value: "m"}, {Name: "i", Value: fmt.Sprint(i)}}}
}

func build(c Case, order []int) (receive.Hashring, error) {
	cfg := []receive.HashringConfig{{Hashring: "h", Endpoints: c.endpoints(order)}}
	return receive.NewMultiHashring(receive.HashringAlgorithm(c.Alg), uint64(c.RF), cfg, prometheus.NewRegistry())
}

// nodeIndex maps the configured endpoints of c to their node numbers.
type nodeIndex map[receive.Endpoint]int

func (c Case) index() nodeIndex {
	m := nodeIndex{}
	for i := 0; i < c.n(); i++ {
		m[c.endpoints([]int{i})[0]] = i
	}
	return m
}

// set is the set of nodes in es as a bitmask over node numbers (bit 63: an endpoint that was not configured).
func (ix nodeIndex) set(es []receive.Endpoint) uint64 {
	var m uint64
	for _, e := range es {
		if i, ok := ix[e]; ok {
			m |= 1 << uint(i)
		} else {
			m |= 1 << 63
		}
	}
	return m
}

// sentinel: does this tree spin forever on a layout that cannot be balanced (C19)? Decided once with a guarded
// construction of the smallest such layout; only used to decide whether such layouts are part of the space.
var (
	sentinelOnce  sync.Once
	sentinelHangs bool
)

func unbalanceableHangs() bool {
	sentinelOnce.Do(func() {
		done := make(chan struct{})
		go func() {
			defer close(done)
			defer func() { _ = recover() }()
			_, _ = build(Case{Alg: "ketama", AZ: []int{0, 1, 1, 1}, RF: 4}, []int{0, 1, 2, 3})
		}()
		select {
		case <-done:
		case <-time.After(10 * time.Second):
			sentinelHangs = true
		}
	})
	return sentinelHangs
}

type checker struct {
	r     *vlib.R
	sized []sized // the size dimension of the series family (sized_test.go)
}

func addrs(es []receive.Endpoint) []string {
	out := make([]string, len(es))
	for i, e := range es {
		out[i] = e.Address
	}
	return out
}

// eval runs one configuration; a panic of the code under test is a counter-example, not a crash of the check.
func (k *checker) eval(c Case) {
	defer func() {
		if p := recover(); p != nil {
			if s, ok := p.(string); ok && strings.HasPrefix(s, "HARNESS-ERROR") {
				panic(p)
			}
			k.r.Violation("hashring-panics", fmt.Sprintf("panic while building or asking the ring: %v", p), c)
		}
	}()
	k.evalConfig(c)
}

// checkPlacement applies the per-placement part of the oracle to one replica list.
func (k *checker) checkPlacement(c Case, ix nodeIndex, where func() string, reps []receive.Endpoint, zones []int, balanceable bool) bool {
	r := k.r
	var seen uint64
	var cnt [8]int
	for _, e := range reps {
		i, ok := ix[e]
		if !ok {
			r.Violation("replica-is-not-a-configured-endpoint", fmt.Sprintf("%s: replicas %v", where(), reps), c)
			return false
		}
		if seen&(1<<uint(i)) != 0 {
			r.Violation("replicas-not-distinct", fmt.Sprintf("%s: replicas %v repeat %s", where(), reps, e.Address), c)
			return false
		}
		seen |= 1 << uint(i)
		if c.AZ[i] >= 0 {
			cnt[c.AZ[i]]++
		}
	}
	if len(zones) > 0 && balanceable {
		lo, hi := len(reps), 0
		for z := range zones { // zones are numbered 0..len(zones)-1 (restricted growth strings / block numbers)
			lo, hi = min(lo, cnt[z]), max(hi, cnt[z])
		}
		if hi-lo > 1 {
			r.Violation("az-replica-counts-differ-by-more-than-one", fmt.Sprintf("%s: replicas %v give per-zone counts %v although zone sizes %v can be balanced for RF %d", where(), reps, cnt[:len(zones)], zones, c.RF), c)
			return false
		}
	}
	return true
}

func (k *checker) evalConfig(c Case) {
	r := k.r
	if r.Expired("configurations left unevaluated") {
		return
	}
	n := c.n()
	zones := c.zoneSizes()
	balanceable := len(zones) > 0 && canBalance(zones, c.RF)
	if len(zones) > 1 && c.RF > spreadCapacity(zones) && unbalanceableHangs() {
		r.Add("configurations_not_constructible_on_this_tree_(C19)", 1)
		return
	}
	r.Sample(c)
	ix := c.index()
	ords := orders(n)
	base, err := build(c, ords[0])
	if err != nil {
		r.Violation("supported-configuration-rejected", fmt.Sprintf("NewMultiHashring: %v", err), c)
		return
	}
	r.Add("rings_built", 1)
	if c.Alg == "ketama" && len(zones) >= 2 && c.RF >= 2 {
		r.Nontrivial(fmt.Sprint(c))
	}
	if len(zones) > 0 && !balanceable {
		r.Add("configurations_whose_zones_cannot_be_balanced_(balance_not_asserted)", 1)
	}

	// ---- series family and the base ring's answers
	var secs []receive.VerifC18Section
	if c.Alg == "ketama" {
		secs = receive.VerifC18Sections(base)
		if len(secs) != n*receive.SectionsPerNode {
			panic(fmt.Sprintf("HARNESS-ERROR section table has %d entries for %d nodes", len(secs), n))
		}
	}
	type probe struct {
		tenant string
		ts     *prompb.TimeSeries
		hash   uint64
		desc   string // short description for messages (sized series are too long to print)
	}
	var probes []probe
	for _, tn := range tenants {
		need := map[string]bool{}
		if c.Alg == "ketama" {
			need["below-first"], need["above-last"] = true, true
		} else {
			for i := 0; i < n; i++ {
				need[fmt.Sprint("residue-", i)] = true
			}
		}
		for i := 0; i < 12 || (len(need) > 0 && i < 4_000_000); i++ {
			ts := series(i)
			h := labelpb.HashWithPrefix(tn, ts.Labels)
			cls := ""
			if c.Alg == "ketama" {
				switch {
				case h <= secs[0].Hash:
					cls = "below-first"
				case h > secs[len(secs)-1].Hash:
					cls = "above-last"
				}
			} else {
				cls = fmt.Sprint("residue-", h%uint64(n))
			}
			if i < 12 || need[cls] {
				probes = append(probes, probe{tn, ts, h, fmt.Sprintf("tenant %q series %v", tn, ts.Labels)})
			}
			delete(need, cls)
		}
		if len(need) > 0 {
			r.Cap(fmt.Sprintf("no series found for %v", need))
		}
	}
	for _, s := range k.sized { // the size dimension: the same for every configuration
		probes = append(probes, probe{s.tenant, &prompb.TimeSeries{Labels: s.labels}, labelpb.HashWithPrefix(s.tenant, s.labels), s.desc})
	}
	r.Add("lookups_of_sized_series_(configurations_x_series)", int64(len(k.sized)))
	want := make([]uint64, len(probes))              // replica sets on the base ring
	first := make([][]receive.Endpoint, len(probes)) // replica lists on the base ring, as first answered
	for pi, p := range probes {
		var reps []receive.Endpoint
		for i := 0; i < c.RF; i++ {
			e, err := base.GetN(p.tenant, p.ts, uint64(i))
			if err != nil {
				r.Violation("getn-error-below-replication-factor", fmt.Sprintf("GetN(%s, %d): %v", p.desc, i, err), c)
				return
			}
			reps = append(reps, e)
		}
		if !k.checkPlacement(c, ix, func() string { return "GetN " + p.desc }, reps, zones, balanceable) {
			return
		}
		want[pi], first[pi] = ix.set(reps), reps
		if c.Alg == "ketama" {
			// GetN must be the replica list of the first section at or after the hash (wrapping): this is what makes
			// the walk over all sections below exhaustive for GetN.
			si := sort.Search(len(secs), func(i int) bool { return secs[i].Hash >= p.hash })
			if si == len(secs) {
				si = 0
			}
			if len(secs[si].Replicas) < c.RF || ix.set(secs[si].Replicas[:c.RF]) != want[pi] {
				r.Cap("GetN does not answer from the successor section's replica list: the section walk is not representative")
				r.Note("GetN(%s) = node set %b but successor section %d holds %v", p.desc, want[pi], si, secs[si].Replicas)
			}
		}
	}
	// ---- histories on the same ring: the answer to GetN(tenant, series, n) may not depend on what was asked before,
	// on which replicas of the series were asked, or on the objects that carry tenant and labels.
	differs := func(history string, pi, n int, got receive.Endpoint) bool {
		if got == first[pi][n] {
			return false
		}
		r.Violation("placement-differs-when-the-lookup-is-repeated",
			fmt.Sprintf("same ring, GetN(%s, %d) answered %s first and %s when %s (first replica list %v)", probes[pi].desc, n, first[pi][n].Address, got.Address, history, addrs(first[pi])), c)
		return true
	}
	// H1: every lookup twice in a row, series in the same order as before.
	for pi, p := range probes {
		for n := 0; n < c.RF; n++ {
			for rep := 0; rep < 2; rep++ {
				e, err := base.GetN(p.tenant, p.ts, uint64(n))
				if err != nil {
					r.Violation("getn-error-below-replication-factor", fmt.Sprintf("repeated GetN(%s, %d): %v", p.desc, n, err), c)
					return
				}
				if differs("asked again (twice in a row, after all series had been looked up once)", pi, n, e) {
					return
				}
			}
		}
	}
	// H2: one replica at a time, highest replica first, series in reverse order (all other series are looked up
	// between two replicas of a series), through ONE request object whose label array is overwritten in place
	// with equal copies of tenant and labels (what a handler that recycles its request buffers does).
	scratch := &prompb.TimeSeries{}
	for n := c.RF - 1; n >= 0; n-- {
		for pi := len(probes) - 1; pi >= 0; pi-- {
			p := probes[pi]
			scratch.Labels = scratch.Labels[:0]
			for _, l := range p.ts.Labels {
				scratch.Labels = append(scratch.Labels, labelpb.ZLabel{Name: strings.Clone(l.Name), Value: strings.Clone(l.Value)})
			}
			e, err := base.GetN(strings.Clone(p.tenant), scratch, uint64(n))
			if err != nil {
				r.Violation("getn-error-below-replication-factor", fmt.Sprintf("interleaved GetN(%s, %d): %v", p.desc, n, err), c)
				return
			}
			if differs("asked for this replica alone, interleaved with the other series, through a reused request object holding an equal copy of tenant and labels", pi, n, e) {
				return
			}
		}
	}
	r.Add("repeated_lookups_compared", int64(3*len(probes)*c.RF))

	// ---- every section of the ring
	for si, s := range secs {
		if len(s.Replicas) < c.RF {
			r.Violation("section-has-fewer-replicas-than-rf", fmt.Sprintf("section %d has %d replicas", si, len(s.Replicas)), c)
			return
		}
		if !k.checkPlacement(c, ix, func() string { return fmt.Sprintf("section %d (hash %d)", si, s.Hash) }, s.Replicas[:c.RF], zones, balanceable) {
			return
		}
	}
	r.Add("sections_checked", int64(len(secs)))

	// ---- the same set of endpoints in other list orders
	for _, o := range ords {
		h, err := build(c, o)
		if err != nil {
			r.Violation("supported-configuration-rejected", fmt.Sprintf("NewMultiHashring with endpoint order %v: %v", o, err), c)
			return
		}
		r.Add("rings_built", 1)
		for pi, p := range probes {
			var reps []receive.Endpoint
			for i := 0; i < c.RF; i++ {
				e, err := h.GetN(p.tenant, p.ts, uint64(i))
				if err != nil {
					r.Violation("getn-error-below-replication-factor", fmt.Sprintf("order %v: GetN(%s, %d): %v", o, p.desc, i, err), c)
					return
				}
				reps = append(reps, e)
			}
			if got := ix.set(reps); got != want[pi] {
				r.Violation(c.Alg+"-placement-depends-on-endpoint-list-order",
					fmt.Sprintf("%s: endpoint order %v gives node set %b, order %v gives node set %b", p.desc, ords[0], want[pi], o, got), c)
				return
			}
		}
		if c.Alg != "ketama" {
			continue
		}
		os := receive.VerifC18Sections(h)
		if len(os) != len(secs) {
			r.Violation("ketama-placement-depends-on-endpoint-list-order", fmt.Sprintf("order %v: %d sections instead of %d", o, len(os), len(secs)), c)
			return
		}
		for si := range secs {
			if os[si].Hash != secs[si].Hash || len(os[si].Replicas) < c.RF || ix.set(os[si].Replicas[:c.RF]) != ix.set(secs[si].Replicas[:c.RF]) {
				r.Violation("ketama-placement-depends-on-endpoint-list-order",
					fmt.Sprintf("section %d: endpoint order %v gives hash %d replicas %v, order %v gives hash %d replicas %v", si, ords[0], secs[si].Hash, secs[si].Replicas, o, os[si].Hash, os[si].Replicas), c)
				return
			}
		}
	}
	r.Add("endpoint_orders_compared", int64(len(ords)))
}

func TestCheck(t *testing.T) {
	r := vlib.New(t, "C18")
	defer r.Finish()
	fullN := vlib.Pick(r, 5, 7)    // up to here every assignment of nodes to zones (set partitions)
	maxN := vlib.Pick(r, 6, 12)    // above fullN: every multiset of zone sizes, assigned blockwise and round-robin
	maxZones := vlib.Pick(r, 3, 4) // zones
	const maxRF = 5
	r.Rule(fmt.Sprintf("ketama: 1..%d nodes, no az or every assignment of the nodes to <= %d zones (n <= %d; above: every multiset of zone sizes, blockwise and round-robin), RF 1..min(%d,n); "+
		"hashmod: 1..%d nodes without az. Per configuration: every section of the ring, a series family incl. wrap-around / every residue for tenants \"\" and \"t\", and all endpoint list orders "+
		"(n <= 4; above: rebuild, rotations, reversal, adjacent transpositions). The series family has a size dimension (encoded tenant+labels below/at/above the 1024 byte hash buffer and far above, "+
		"wide last / wide first / many medium labels / long tenant) and every lookup is repeated in two further histories on the same ring (twice in a row; single replicas in reverse order, interleaved, "+
		"through a reused request object). Non-trivial = ketama with >= 2 zones and RF >= 2", maxN, maxZones, fullN, maxRF, maxN))
	r.Assume("endpoint addresses are pairwise different (a set of endpoints); all endpoints of a configuration either carry an az or none does",
		"\"zones can accommodate\" = with q=RF div Z, r=RF mod Z every zone has >= q nodes and at least r zones have >= q+1 nodes; for other layouts only distinctness and order independence are asserted",
		"zone layouts that cannot be balanced for the RF are only part of the space when the tree can construct them (see C19: the unfixed constructor does not return for them)")
	sizes := vlib.Pick(r, []int{1022, 1023, 1024, 1025, 2049, 8192}, []int{1000, 1021, 1022, 1023, 1024, 1025, 1026, 1536, 2049, 4096, 8192, 65536})
	tenantLens := vlib.Pick(r, []int{1022, 1023, 1024, 1025, 2049}, []int{1000, 1021, 1022, 1023, 1024, 1025, 1026, 2049, 4096})
	k := &checker{r: r, sized: sizedFamily(sizes, tenantLens)}
	below, atOrAbove := 0, 0
	for _, s := range k.sized {
		if s.enc < hashBuffer {
			below++
		} else {
			atOrAbove++
		}
	}
	r.Set("sized_series", map[string]any{"encoded_sizes": sizes, "tenant_lengths": tenantLens, "series": len(k.sized), "encoded_below_1024": below, "encoded_at_or_above_1024": atOrAbove})
	if below < 2 || atOrAbove < 2 {
		panic("HARNESS-ERROR the sized series family does not cover both sides of the hash buffer")
	}
	forEach(r, gen(fullN, maxN, maxZones, maxRF), k.eval)
	if sentinelHangs {
		r.Note("the constructor does not return for zones {1,3} RF 4 (C19 finding): configurations with RF above the AZ spread capacity were left out")
	}
}
