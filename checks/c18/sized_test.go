package c18

import (
	"fmt"
	"iter"
	"runtime"
	"strings"
	"sync"

	"github.com/thanos-io/thanos/pkg/store/labelpb"

	"verif/vlib"
)

// hashBuffer is the size of the stack buffer of labelpb.HashWithPrefix: tenant, a separator and name, separator,
// value, separator per label are collected there and hashed in one go; a label set that does not fit is streamed
// into a digest instead. The size dimension of the series family is laid around this boundary.
const hashBuffer = 1024

// sized is one member of the size dimension: a tenant and a (sorted, valid) label set whose encoded size
// (what HashWithPrefix feeds to the hash) is enc bytes.
type sized struct {
	desc   string
	tenant string
	labels []labelpb.ZLabel
	enc    int
}

func encoded(tenant string, ls []labelpb.ZLabel) int {
	n := len(tenant) + 1
	for _, l := range ls {
		n += len(l.Name) + len(l.Value) + 2
	}
	return n
}

// shapes: where the bytes are. pad bytes of the character ch are put
//
//	wide-last:   in the value of the last of two labels (the buffer holds everything before it)
//	wide-first:  in the value of the first of two labels (nothing but the tenant is buffered; a label follows)
//	many-medium: evenly in the values of 12 labels (the boundary falls in the middle of the label set)
//	long-tenant: in the tenant id (small labels)
var shapes = []string{"wide-last", "wide-first", "many-medium", "long-tenant"}

func shaped(shape, tenant string, pad int, ch string) (string, []labelpb.ZLabel) {
	switch shape {
	case "wide-last":
		return tenant, []labelpb.ZLabel{{Name: "__name__", Value: "m"}, {Name: "z", Value: strings.Repeat(ch, pad)}}
	case "wide-first":
		return tenant, []labelpb.ZLabel{{Name: "a", Value: strings.Repeat(ch, pad)}, {Name: "i", Value: "0"}}
	case "many-medium":
		var ls []labelpb.ZLabel
		for i := 0; i < 12; i++ {
			w := pad / 12
			if i < pad%12 {
				w++
			}
			ls = append(ls, labelpb.ZLabel{Name: fmt.Sprintf("l%02d", i), Value: strings.Repeat(ch, w)})
		}
		return tenant, ls
	case "long-tenant":
		return tenant + strings.Repeat(ch, pad), []labelpb.ZLabel{{Name: "__name__", Value: "m"}, {Name: "i", Value: "0"}}
	}
	panic("HARNESS-ERROR unknown shape " + shape)
}

// sizedFamily: every shape x tenant x encoded size x two series of that size (so that a lookup can be interleaved
// with a different series of the same size), and tenants of the given lengths (tenant ids that alone reach
// the buffer).
func sizedFamily(sizes, tenantLens []int) []sized {
	var out []sized
	for _, shape := range shapes {
		for _, tn := range tenants {
			if shape == "long-tenant" && tn != "" {
				continue
			}
			_, skel := shaped(shape, tn, 0, "x")
			for _, size := range sizes {
				pad := size - encoded(tn, skel)
				if pad < 12 {
					continue
				}
				for _, ch := range []string{"x", "y"} {
					t, ls := shaped(shape, tn, pad, ch)
					if encoded(t, ls) != size {
						panic("HARNESS-ERROR sized series has the wrong size")
					}
					d := fmt.Sprintf("tenant %q", tn)
					if shape == "long-tenant" {
						d = fmt.Sprintf("tenant of %d bytes %q", len(t), ch)
					}
					out = append(out, sized{fmt.Sprintf("%s, %s series of %d labels padded with %q, %d bytes encoded", d, shape, len(ls), ch, size), t, ls, size})
				}
			}
		}
	}
	for _, l := range tenantLens {
		t, ls := shaped("long-tenant", "", l, "q")
		out = append(out, sized{fmt.Sprintf("tenant of %d bytes \"q\", series %v, %d bytes encoded", l, ls, encoded(t, ls)), t, ls, encoded(t, ls)})
	}
	return out
}

// forEach is vlib.ForEach with batch size 1: there are only a few hundred configurations and the expensive ones
// (most nodes) come last, so batches of 64 would leave most cores idle. Same contract: replay mode evaluates
// only the artefact, shards partition by index, the deadline stops the producer and marks the run non-exhaustive.
func forEach[C any](r *vlib.R, gen iter.Seq[C], eval func(c C)) {
	var rc C
	if r.ReplayCase(&rc) {
		r.Eval(1)
		eval(rc)
		return
	}
	workers := runtime.GOMAXPROCS(0)
	ch := make(chan C, workers)
	var wg sync.WaitGroup
	for w := 0; w < workers; w++ {
		wg.Add(1)
		go func() {
			defer wg.Done()
			for c := range ch {
				eval(c)
				r.Eval(1)
			}
		}()
	}
	si, sn := r.Shard()
	var idx int64
	for c := range gen {
		idx++
		if sn > 1 && int((idx-1)%int64(sn)) != si {
			continue
		}
		if r.Expired("case enumeration stopped early") {
			break
		}
		ch <- c
	}
	close(ch)
	wg.Wait()
}
