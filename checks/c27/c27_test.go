// C27 (enumeration part; the concurrent part is checks/c27s): each tenant is served by the first configured hashring
// that matches it (exact list, glob list, or no tenant list = default), and the choice does not change across
// repeated requests.
//
// Engine E4: every configuration list of 1..3 (thorough 4) entries over an alphabet of entry kinds taken from the
// branches of tenantSet.match / multiHashring.GetN, every tenant of a set chosen against those entries. Each entry
// is a distinct single-endpoint hashring, so the endpoint GetN returns names the hashring that served the tenant.
package c27

import (
	"fmt"
	"iter"
	"path/filepath"
	"slices"
	"testing"

	"github.com/prometheus/client_golang/prometheus"
	"github.com/thanos-io/thanos/pkg/receive"
	"github.com/thanos-io/thanos/pkg/store/labelpb"
	"github.com/thanos-io/thanos/pkg/store/storepb/prompb"

	"verif/vlib"
)

type entry struct {
	Matcher string   // "exact" | "glob" | "" (matcher type left out = exact)
	Tenants []string // nil = default hashring
}

// alphabet: one symbol per branch of the matching code.
var alphabet = []entry{
	{"", nil},                     // 0 default hashring (tenantSets[i] == nil)
	{"exact", []string{"a"}},      // 1 exact fast path
	{"", []string{"a"}},           // 2 matcher type left out (isExactMatcher(""))
	{"exact", []string{"b", "x"}}, // 3 exact, several tenants
	{"exact", []string{"a*"}},     // 4 exact entry whose tenant looks like a pattern
	{"glob", []string{"a*"}},      // 5 glob prefix
	{"glob", []string{"?b"}},      // 6 glob single character
	{"glob", []string{"*"}},       // 7 glob that matches everything (also the empty tenant)
	{"glob", []string{"[ab]"}},    // 8 glob class: the pattern text itself is not matched by it
	{"glob", []string{"x", "b*"}}, // 9 glob entry with a literal and a pattern
}

var tenants = []string{"a", "ab", "b", "bb", "x", "", "a*", "[ab]", "zz"}

// Case is a configuration list: indices into the alphabet, in list order.
type Case struct {
	List []int `json:"list"`
}

func gen(maxLen int) iter.Seq[Case] {
	return func(yield func(Case) bool) {
		for l := range vlib.TuplesUpTo(1, maxLen, len(alphabet)) {
			if !yield(Case{List: l}) {
				return
			}
		}
	}
}

func ringAddr(i int) string { return fmt.Sprintf("ring-%d:10901", i) }

func (c Case) config() []receive.HashringConfig {
	var out []receive.HashringConfig
	for i, a := range c.List {
		e := alphabet[a]
		h := receive.HashringConfig{
			Hashring:  fmt.Sprintf("hashring-%d", i),
			Tenants:   append([]string(nil), e.Tenants...),
			Endpoints: []receive.Endpoint{{Address: ringAddr(i), CapNProtoAddress: ringAddr(i)}},
		}
		switch e.Matcher {
		case "exact":
			h.TenantMatcherType = receive.TenantMatcherTypeExact
		case "glob":
			h.TenantMatcherType = receive.TenantMatcherGlob
		}
		out = append(out, h)
	}
	return out
}

func (e entry) matches(tenant string) bool {
	if e.Tenants == nil {
		return true
	}
	if e.Matcher == "glob" {
		for _, p := range e.Tenants {
			if ok, err := filepath.Match(p, tenant); err == nil && ok {
				return true
			}
		}
		return false
	}
	return slices.Contains(e.Tenants, tenant)
}

// expected: index of the first entry in list order that matches; -1 = no hashring serves the tenant.
func (c Case) expected(tenant string) (idx int, candidates int, laterTenantListBehindDefault bool) {
	idx = -1
	for i, a := range c.List {
		if alphabet[a].matches(tenant) {
			candidates++
			if idx < 0 {
				idx = i
			} else if alphabet[c.List[idx]].Tenants == nil && alphabet[a].Tenants != nil {
				laterTenantListBehindDefault = true
			}
		}
	}
	return
}

var ts = &prompb.TimeSeries{Labels: []labelpb.ZLabel{{Name: "__name__", Value: "m"}}}

// ask returns the index of the hashring that served the tenant, -1 for "no matching hashring", or an error text.
func ask(h receive.Hashring, tenant string, n int) (int, string) {
	e, err := h.GetN(tenant, ts, 0)
	if err != nil {
		// Any error means "no hashring served this tenant". The statement does not fix the error text, so the
		// check must not depend on it (a property-preserving change reworded the message and the earlier exact
		// comparison raised a false alarm); whether a rejection is right is decided by the caller against the
		// reference (want < 0).
		return -1, ""
	}
	for i := 0; i < n; i++ {
		if e.Address == ringAddr(i) {
			return i, ""
		}
	}
	return -2, fmt.Sprintf("unknown endpoint %v", e)
}

func name(i int) string {
	if i < 0 {
		return "no hashring (error)"
	}
	return fmt.Sprintf("entry %d", i)
}

func eval(r *vlib.R, c Case) {
	r.Sample(c)
	describe := func() string {
		s := ""
		for i, a := range c.List {
			e := alphabet[a]
			if e.Tenants == nil {
				s += fmt.Sprintf("[%d: default] ", i)
			} else {
				s += fmt.Sprintf("[%d: %q %q] ", i, e.Matcher, e.Tenants)
			}
		}
		return s
	}
	// two instances: tenants are first asked in opposite orders, so every tenant is once looked up on a cold and once
	// on a cache that already holds other tenants; each tenant is asked three times per round, two rounds.
	for inst := 0; inst < 2; inst++ {
		h, err := receive.NewMultiHashring(receive.AlgorithmHashmod, 1, c.config(), prometheus.NewRegistry())
		if err != nil {
			r.Violation("configuration-rejected", fmt.Sprintf("%s: %v", describe(), err), c)
			return
		}
		answered := map[string]int{} // first answer per tenant on this instance
		order := append([]string(nil), tenants...)
		if inst == 1 {
			slices.Reverse(order)
		}
		for round := 0; round < 2; round++ {
			for _, tn := range order {
				want, cands, behind := c.expected(tn)
				if inst == 0 && round == 0 {
					if cands >= 2 {
						r.Nontrivial(fmt.Sprint(c.List, tn))
					}
					if behind {
						r.Add("tenant_lookups_where_a_default_entry_precedes_a_matching_tenant_list_(list_order_reading_applied)", 1)
					}
				}
				for rep := 0; rep < 3; rep++ {
					got, msg := ask(h, tn, len(c.List))
					if _, ok := answered[tn]; !ok && msg == "" {
						answered[tn] = got
					}
					if msg != "" {
						r.Violation("getn-fails", fmt.Sprintf("%s tenant %q: %s", describe(), tn, msg), c)
						return
					}
					if got != want {
						sig := "tenant-served-by-wrong-hashring"
						if want < 0 {
							sig = "tenant-without-matching-hashring-is-served"
						} else if got < 0 {
							sig = "tenant-with-matching-hashring-is-rejected"
						}
						if prev, ok := answered[tn]; ok && prev != got {
							sig = "serving-hashring-changes-between-requests"
						}
						r.Violation(sig, fmt.Sprintf("%s tenant %q (instance %d, round %d, request %d): served by %s, the first matching entry is %s",
							describe(), tn, inst, round, rep, name(got), name(want)), c)
						return
					}
				}
			}
		}
	}
}

func TestCheck(t *testing.T) {
	r := vlib.New(t, "C27")
	defer r.Finish()
	maxLen := vlib.Pick(r, 3, 4)
	r.Rule(fmt.Sprintf("every list of 1..%d hashring entries over %d entry kinds (default; exact with 1 / 2 tenants; matcher type left out; exact with a pattern-looking tenant; glob prefix, single character, match-all, "+
		"character class, literal+pattern) x %d tenants %q, each asked 3 times in 2 rounds on 2 instances (opposite first-request orders). Non-trivial = (list, tenant) with >= 2 matching entries (first-match decides)",
		maxLen, len(alphabet), len(tenants), tenants))
	r.Assume("reading of the statement: the serving hashring is the first entry in list order that either has no tenant list or matches the tenant; a default entry placed before a matching tenant list therefore wins (counted separately in the evidence)",
		"malformed glob patterns are outside (filepath.Match errors make GetN fail); matcher type left out means exact (isExactMatcher); every entry is a distinct single-endpoint hashmod hashring, identified by the endpoint GetN returns",
		"concurrent requests are covered by part C27S (controlled scheduler)")
	vlib.ForEach(r, gen(maxLen), func(c Case) { eval(r, c) })
}
