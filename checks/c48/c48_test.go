// C48: bucket rewrite with deletion requests deletes exactly the requested data.
//
// Engine E4: bounded-exhaustive enumeration of (series label sets, chunk layouts, deletion requests =
// matchers x interval lists / whole-series) through compactv2.WithDeletionModifier(...).Modify consumed the way
// Compactor.write consumes it (in-memory ChunkSeriesSet), plus a sub-sweep through the real
// Compactor.WriteSeries on real TSDB blocks read back from disk.
package c48

import (
	"context"
	"errors"
	"fmt"
	"iter"
	"math"
	"os"
	"path/filepath"
	"runtime/debug"
	"sort"
	"strings"
	"testing"

	"github.com/go-kit/log"
	"github.com/oklog/ulid/v2"
	"github.com/prometheus/prometheus/model/labels"
	"github.com/prometheus/prometheus/storage"
	"github.com/prometheus/prometheus/tsdb"
	"github.com/prometheus/prometheus/tsdb/chunkenc"
	"github.com/prometheus/prometheus/tsdb/chunks"
	"github.com/prometheus/prometheus/tsdb/index"
	"github.com/prometheus/prometheus/tsdb/tombstones"
	"github.com/prometheus/prometheus/util/annotations"

	"github.com/thanos-io/thanos/pkg/block"
	"github.com/thanos-io/thanos/pkg/block/metadata"
	"github.com/thanos-io/thanos/pkg/compactv2"
	"github.com/thanos-io/thanos/pkg/logutil"

	"verif/vlib"
)

type SeriesSpec struct {
	A      int `json:"a"`      // label a: 0 absent, 1 "x", 2 "y"
	B      int `json:"b"`      // label b
	Layout int `json:"layout"` // index into layouts
}

type ReqSpec struct {
	M []int `json:"m"` // matcher symbols
	I []int `json:"i"` // interval symbols, in request order; empty = delete whole series
}

type Case struct {
	Sweep  int          `json:"sweep"`
	Series []SeriesSpec `json:"series"` // sorted by labels, distinct
	Reqs   []ReqSpec    `json:"reqs"`
	Real   bool         `json:"real"` // through Compactor.WriteSeries on real blocks
}

var lvals = []string{"", "x", "y"}

// chunk layouts: sample timestamps per chunk.
var layouts = [][][]int64{
	{{0, 10, 20}},
	{{0, 10, 20}, {30, 40, 50}},
	{{0, 10, 20}, {30, 40, 50}, {60, 70, 80}},
	{{0}, {10, 20, 30}},
	{{0, 10}, {20}, {30, 40}},
	{{0, 10, 20, 30, 40, 50, 60, 70, 80}},
}

// interval symbols: single samples, exact chunk ranges, ranges cutting chunk boundaries, a range without samples,
// everything, and the two overflow-guarded extremes of tombstones.Intervals.Add.
var ivals = []tombstones.Interval{
	{Mint: 0, Maxt: 0}, {Mint: 10, Maxt: 10}, {Mint: 20, Maxt: 20}, {Mint: 0, Maxt: 20}, {Mint: 5, Maxt: 15},
	{Mint: 20, Maxt: 30}, {Mint: 25, Maxt: 25}, {Mint: -5, Maxt: 85}, {Mint: 30, Maxt: 50}, {Mint: 15, Maxt: 35},
	{Mint: 40, Maxt: 90}, {Mint: 30, Maxt: 30}, {Mint: math.MinInt64, Maxt: 10}, {Mint: 70, Maxt: math.MaxInt64},
}

var mops = []struct {
	t labels.MatchType
	v string
}{
	{labels.MatchEqual, "x"}, {labels.MatchNotEqual, "x"}, {labels.MatchRegexp, "x|y"}, {labels.MatchNotRegexp, "x"},
	{labels.MatchRegexp, ".*"}, {labels.MatchEqual, ""},
}
var mnames = []string{"a", "b"}

func matcher(i int) *labels.Matcher {
	return labels.MustNewMatcher(mops[i%len(mops)].t, mnames[i/len(mops)], mops[i%len(mops)].v)
}

func (s SeriesSpec) lset() labels.Labels {
	b := labels.NewBuilder(labels.EmptyLabels())
	if s.A != 0 {
		b.Set("a", lvals[s.A])
	}
	if s.B != 0 {
		b.Set("b", lvals[s.B])
	}
	return b.Labels()
}

func val(t int64) float64 { return float64(t) + 0.25 }

func (s SeriesSpec) chunkMetas() []chunks.Meta {
	var out []chunks.Meta
	for _, ts := range layouts[s.Layout] {
		c := chunkenc.NewXORChunk()
		app, _ := c.Appender()
		for _, t := range ts {
			app.Append(t, val(t))
		}
		out = append(out, chunks.Meta{Chunk: c, MinTime: ts[0], MaxTime: ts[len(ts)-1]})
	}
	return out
}

func (q ReqSpec) request() metadata.DeletionRequest {
	var d metadata.DeletionRequest
	for _, m := range q.M {
		d.Matchers = append(d.Matchers, matcher(m))
	}
	for _, i := range q.I {
		d.Intervals = append(d.Intervals, ivals[i])
	}
	return d
}

// ---- in-memory ChunkSeriesSet ----
type listSet struct {
	ss  []storage.ChunkSeries
	idx int
}

func (l *listSet) Next() bool                        { l.idx++; return l.idx < len(l.ss) }
func (l *listSet) At() storage.ChunkSeries           { return l.ss[l.idx] }
func (l *listSet) Err() error                        { return nil }
func (l *listSet) Warnings() annotations.Annotations { return nil }

type nopLog struct{}

func (nopLog) DeleteSeries(labels.Labels, tombstones.Intervals) {}
func (nopLog) ModifySeries(labels.Labels, labels.Labels)        {}
func (nopLog) SeriesProcessed()                                 {}

type outSeries struct {
	lset    string
	samples []int64
}

// runMem drives Modify and consumes the resulting set exactly like Compactor.write does.
func runMem(c Case) (out []outSeries, err error) {
	var in []storage.ChunkSeries
	for _, s := range c.Series {
		metas := s.chunkMetas()
		in = append(in, &storage.ChunkSeriesEntry{Lset: s.lset(), ChunkIteratorFn: func(chunks.Iterator) chunks.Iterator {
			return storage.NewListChunkSeriesIterator(metas...)
		}})
	}
	var reqs []metadata.DeletionRequest
	for _, q := range c.Reqs {
		reqs = append(reqs, q.request())
	}
	_, set := compactv2.WithDeletionModifier(reqs...).Modify(index.NewStringListIter(nil), &listSet{ss: in, idx: -1}, nopLog{}, nopLog{})
	for set.Next() {
		s := set.At()
		o := outSeries{lset: s.Labels().String()}
		it := s.Iterator(nil)
		var chks []chunks.Meta
		for it.Next() {
			chks = append(chks, it.At())
		}
		if it.Err() != nil {
			return nil, fmt.Errorf("chunk iter: %w", it.Err())
		}
		if len(chks) == 0 {
			continue // write() skips series without chunks
		}
		for _, m := range chks {
			ci := m.Chunk.Iterator(nil)
			for ci.Next() != chunkenc.ValNone {
				t, v := ci.At()
				if v != val(t) {
					t = -1000000 - t // altered value marker
				}
				o.samples = append(o.samples, t)
			}
			if ci.Err() != nil {
				return nil, fmt.Errorf("sample iter: %w", ci.Err())
			}
		}
		out = append(out, o)
	}
	if set.Err() != nil {
		return nil, fmt.Errorf("series set: %w", set.Err())
	}
	return out, nil
}

// runReal writes the series into a real block, rewrites it with Compactor.WriteSeries and reads the result from disk.
func runReal(c Case, root string) (out []outSeries, err error) {
	dir, err := os.MkdirTemp(root, "case")
	if err != nil {
		return nil, fmt.Errorf("HARNESS mkdir: %w", err)
	}
	defer os.RemoveAll(dir)
	ctx := context.Background()
	logger := log.NewNopLogger()

	id := ulid.MustNew(1, nil)
	bdir := filepath.Join(dir, id.String())
	if err := os.MkdirAll(bdir, 0o755); err != nil {
		return nil, fmt.Errorf("HARNESS mkdir: %w", err)
	}
	w, err := block.NewDiskWriter(ctx, logger, bdir)
	if err != nil {
		return nil, fmt.Errorf("HARNESS disk writer: %w", err)
	}
	syms := map[string]struct{}{}
	for _, s := range c.Series {
		s.lset().Range(func(l labels.Label) { syms[l.Name] = struct{}{}; syms[l.Value] = struct{}{} })
	}
	var sl []string
	for s := range syms {
		sl = append(sl, s)
	}
	sort.Strings(sl)
	for _, s := range sl {
		if err := w.AddSymbol(s); err != nil {
			return nil, fmt.Errorf("HARNESS add symbol: %w", err)
		}
	}
	for i, s := range c.Series {
		metas := s.chunkMetas()
		if err := w.WriteChunks(metas...); err != nil {
			return nil, fmt.Errorf("HARNESS write chunks: %w", err)
		}
		if err := w.AddSeries(storage.SeriesRef(i), s.lset(), metas...); err != nil {
			return nil, fmt.Errorf("HARNESS add series: %w", err)
		}
	}
	if _, err := w.Flush(); err != nil {
		return nil, fmt.Errorf("HARNESS flush: %w", err)
	}
	if err := (metadata.Meta{BlockMeta: tsdb.BlockMeta{Version: 1, ULID: id}}).WriteToDir(logger, bdir); err != nil {
		return nil, fmt.Errorf("HARNESS meta: %w", err)
	}
	pool := chunkenc.NewPool()
	b, err := tsdb.OpenBlock(logutil.GoKitLogToSlog(logger), bdir, pool, nil)
	if err != nil {
		return nil, fmt.Errorf("HARNESS open block: %w", err)
	}
	defer b.Close()

	oid := ulid.MustNew(2, nil)
	odir := filepath.Join(dir, oid.String())
	if err := os.MkdirAll(odir, 0o755); err != nil {
		return nil, fmt.Errorf("HARNESS mkdir: %w", err)
	}
	ow, err := block.NewDiskWriter(ctx, logger, odir)
	if err != nil {
		return nil, fmt.Errorf("HARNESS disk writer: %w", err)
	}
	var reqs []metadata.DeletionRequest
	for _, q := range c.Reqs {
		reqs = append(reqs, q.request())
	}
	comp := compactv2.New(dir, logger, nopLog{}, pool)
	if err := comp.WriteSeries(ctx, []block.Reader{b}, ow, nopLog{}, compactv2.WithDeletionModifier(reqs...)); err != nil {
		_, _ = ow.Flush()
		return nil, fmt.Errorf("WriteSeries: %w", err)
	}
	if _, err := ow.Flush(); err != nil {
		return nil, fmt.Errorf("flush of rewritten block: %w", err)
	}

	indexr, err := index.NewFileReader(filepath.Join(odir, block.IndexFilename), index.DecodePostingsRaw)
	if err != nil {
		return nil, fmt.Errorf("open rewritten index: %w", err)
	}
	defer indexr.Close()
	chunkr, err := chunks.NewDirReader(filepath.Join(odir, block.ChunksDirname), nil)
	if err != nil {
		return nil, fmt.Errorf("open rewritten chunks: %w", err)
	}
	defer chunkr.Close()
	k, v := index.AllPostingsKey()
	all, err := indexr.Postings(ctx, k, v)
	if err != nil {
		return nil, fmt.Errorf("postings: %w", err)
	}
	all = indexr.SortedPostings(all)
	var builder labels.ScratchBuilder
	var chks []chunks.Meta
	for all.Next() {
		if err := indexr.Series(all.At(), &builder, &chks); err != nil {
			return nil, fmt.Errorf("series: %w", err)
		}
		o := outSeries{lset: builder.Labels().String()}
		for _, m := range chks {
			chk, _, err := chunkr.ChunkOrIterable(m)
			if err != nil {
				return nil, fmt.Errorf("chunk: %w", err)
			}
			ci := chk.Iterator(nil)
			n := 0
			var first, last int64
			for ci.Next() != chunkenc.ValNone {
				t, v := ci.At()
				if n == 0 {
					first = t
				}
				last = t
				n++
				if v != val(t) {
					t = -1000000 - t
				}
				o.samples = append(o.samples, t)
			}
			if ci.Err() != nil {
				return nil, fmt.Errorf("sample iter: %w", ci.Err())
			}
			if n > 0 && (first < m.MinTime || last > m.MaxTime) {
				// the index entry would hide samples from time-bounded readers: they are effectively removed.
				return nil, fmt.Errorf("%w: meta [%d,%d], samples [%d,%d]", errMeta, m.MinTime, m.MaxTime, first, last)
			}
		}
		out = append(out, o)
	}
	if all.Err() != nil {
		return nil, fmt.Errorf("postings: %w", all.Err())
	}
	return out, nil
}

var errMeta = errors.New("chunk meta of the rewritten block does not cover the chunk's samples")

func covers(q ReqSpec, t int64) bool {
	if len(q.I) == 0 {
		return true
	}
	for _, i := range q.I {
		if ivals[i].Mint <= t && t <= ivals[i].Maxt {
			return true
		}
	}
	return false
}

func eval(r *vlib.R, c Case, root string) {
	var out []outSeries
	var err error
	var panicked any
	var stack string
	func() {
		defer func() {
			if p := recover(); p != nil {
				panicked, stack = p, string(debug.Stack())
			}
		}()
		if c.Real {
			out, err = runReal(c, root)
		} else {
			out, err = runMem(c)
		}
	}()
	r.Sample(c)
	if panicked != nil {
		sig := "rewrite-panics"
		if strings.Contains(stack, "tombstones.Intervals.Add") {
			// the vendored Prometheus tombstones.Intervals.Add indexes out of range when the added interval ends at
			// math.MaxInt64 and an earlier interval lies completely before it (maxi is not reduced by mini).
			sig = "rewrite-panics-in-prometheus-intervals-add-when-interval-ends-at-maxint64"
		}
		r.Violation(sig, fmt.Sprintf("rewriting panicked: %v", panicked), c)
		return
	}
	if errors.Is(err, errMeta) {
		r.Violation("chunk-meta-hides-samples", err.Error(), c)
		return
	}
	if err != nil {
		r.Violation("rewrite-fails-with-error", fmt.Sprintf("rewriting failed: %v", err), c)
		return
	}
	got := map[string][]int64{}
	for _, o := range out {
		if _, dup := got[o.lset]; dup {
			r.Violation("series-duplicated", fmt.Sprintf("series %s appears twice in the rewritten data", o.lset), c)
			return
		}
		got[o.lset] = o.samples
	}
	known := map[string]bool{}
	for _, s := range c.Series {
		ls := s.lset()
		known[ls.String()] = true
		// classify requests for this series
		var must, may []ReqSpec
		for _, q := range c.Reqs {
			full, prom := true, true
			for _, mi := range q.M {
				m := matcher(mi)
				v := ls.Get(m.Name)
				if !m.Matches(v) {
					prom, full = false, false
				}
				if v == "" {
					full = false
				}
			}
			if full {
				must = append(must, q)
			}
			if prom {
				may = append(may, q)
			}
		}
		outS := map[int64]bool{}
		prev := int64(math.MinInt64)
		for _, t := range got[ls.String()] {
			if t <= -1000000 {
				r.Violation("sample-value-altered", fmt.Sprintf("series %s sample t=%d came back with another value", ls, -1000000-t), c)
				continue
			}
			if t <= prev {
				r.Violation("samples-out-of-order-or-duplicated", fmt.Sprintf("series %s: sample t=%d after t=%d", ls, t, prev), c)
			}
			prev = t
			outS[t] = true
		}
		anyMust, anyKeep := false, false
		emptiedBefore := false // an earlier chunk of this series had every sample deletable
		orig := map[int64]bool{}
		for _, ts := range layouts[s.Layout] {
			allMay := true
			for _, t := range ts {
				orig[t] = true
				mustDel, mayDel := false, false
				for _, q := range must {
					mustDel = mustDel || covers(q, t)
				}
				for _, q := range may {
					mayDel = mayDel || covers(q, t)
				}
				allMay = allMay && mayDel
				switch {
				case mustDel:
					anyMust = true
					if outS[t] {
						r.Violation("sample-inside-requested-interval-kept",
							fmt.Sprintf("series %s matches a request covering t=%d (and carries all its label names) but the sample survived; got %v", ls, t, got[ls.String()]), c)
					}
				case !mayDel:
					anyKeep = true
					if !outS[t] {
						sig := "sample-outside-requested-intervals-removed"
						if len(may) == 0 {
							sig = "sample-of-non-matching-series-removed"
						} else if emptiedBefore {
							sig = "chunks-after-chunk-emptied-by-several-intervals-dropped"
						}
						r.Violation(sig, fmt.Sprintf("series %s lost sample t=%d which no matching request covers; got %v", ls, t, got[ls.String()]), c)
					}
				}
			}
			if allMay {
				emptiedBefore = true
			}
		}
		for t := range outS {
			if !orig[t] {
				r.Violation("sample-invented", fmt.Sprintf("series %s has sample t=%d that was never written", ls, t), c)
			}
		}
		if anyMust && anyKeep {
			r.Nontrivial(fmt.Sprint(c))
		}
	}
	for ls := range got {
		if !known[ls] {
			r.Violation("series-invented", fmt.Sprintf("series %s is not in the source block", ls), c)
		}
	}
}

// subsets of 0..n-1 with 0..maxLen elements, increasing index order.
func subsetsUpTo(n, maxLen int) [][]int {
	out := [][]int{nil}
	var rec func(start int, acc []int)
	rec = func(start int, acc []int) {
		if len(acc) == maxLen {
			return
		}
		for i := start; i < n; i++ {
			cur := append(append([]int(nil), acc...), i)
			out = append(out, cur)
			rec(i+1, cur)
		}
	}
	rec(0, nil)
	return out
}

func labelSets() []SeriesSpec {
	var out []SeriesSpec
	for a := 0; a < 3; a++ {
		for b := 0; b < 3; b++ {
			if a == 0 && b == 0 {
				continue
			}
			out = append(out, SeriesSpec{A: a, B: b})
		}
	}
	sort.Slice(out, func(i, j int) bool { return labels.Compare(out[i].lset(), out[j].lset()) < 0 })
	return out
}

func gen(r *vlib.R) iter.Seq[Case] {
	return func(yield func(Case) bool) {
		lsets := labelSets()
		nm := len(mops) * len(mnames)
		msets := subsetsUpTo(nm, 2)[1:] // 1..2 matchers
		msets1 := subsetsUpTo(nm, 1)[1:]
		ivOpts := [][]int{nil, {1}, {5}} // whole series, one sample, range over a chunk boundary

		// ---- sweep 0: matching semantics. one series (2 chunks) x 1..2 requests over all matcher sets ----
		var reqsA []ReqSpec
		for _, m := range msets {
			for _, iv := range ivOpts {
				reqsA = append(reqsA, ReqSpec{M: m, I: iv})
			}
		}
		var reqsA1 []ReqSpec
		for _, m := range msets1 {
			for _, iv := range ivOpts {
				reqsA1 = append(reqsA1, ReqSpec{M: m, I: iv})
			}
		}
		for _, ls := range lsets {
			s := ls
			s.Layout = 1
			if !yield(Case{Sweep: 0, Series: []SeriesSpec{s}}) { // no request at all
				return
			}
			for _, q := range reqsA {
				if !yield(Case{Sweep: 0, Series: []SeriesSpec{s}, Reqs: []ReqSpec{q}}) {
					return
				}
			}
			second := vlib.Pick(r, reqsA1, reqsA)
			for _, q1 := range reqsA {
				for _, q2 := range second {
					if !yield(Case{Sweep: 0, Series: []SeriesSpec{s}, Reqs: []ReqSpec{q1, q2}}) {
						return
					}
				}
			}
		}
		// ---- sweep 1: two series in the block (whole-series deletion skips to the next series) ----
		for i := range lsets {
			for j := i + 1; j < len(lsets); j++ {
				s1, s2 := lsets[i], lsets[j]
				s1.Layout, s2.Layout = 1, 3
				for _, q := range reqsA {
					if !yield(Case{Sweep: 1, Series: []SeriesSpec{s1, s2}, Reqs: []ReqSpec{q}}) {
						return
					}
				}
				for _, q1 := range reqsA1 {
					for _, q2 := range reqsA1 {
						if !yield(Case{Sweep: 1, Series: []SeriesSpec{s1, s2}, Reqs: []ReqSpec{q1, q2}}) {
							return
						}
					}
				}
			}
		}
		// ---- sweep 2: interval arithmetic. series {a="x"} in every chunk layout; request 1 = {a="x"} with every list of
		// <=3 interval symbols; optional request 2 = {a=~"x|y"} with whole-series / <=1 (thorough <=2) interval symbols ----
		first := subsetsUpTo(len(ivals), 3)
		secondIv := subsetsUpTo(len(ivals), vlib.Pick(r, 1, 2))
		for lay := range layouts {
			s := SeriesSpec{A: 1, Layout: lay}
			for _, i1 := range first {
				if !yield(Case{Sweep: 2, Series: []SeriesSpec{s}, Reqs: []ReqSpec{{M: []int{0}, I: i1}}}) {
					return
				}
				if len(i1) == 0 {
					continue // whole-series deletion by request 1: nothing left to combine
				}
				for _, i2 := range secondIv {
					if !yield(Case{Sweep: 2, Series: []SeriesSpec{s}, Reqs: []ReqSpec{{M: []int{0}, I: i1}, {M: []int{2}, I: i2}}}) {
						return
					}
				}
			}
		}
		// ---- sweep 3: the same interval sweep with request lists in reverse symbol order (unsorted request intervals) ----
		for lay := range layouts {
			s := SeriesSpec{A: 1, Layout: lay}
			for _, i1 := range first {
				if len(i1) < 2 {
					continue
				}
				rev := make([]int, len(i1))
				for k := range i1 {
					rev[len(i1)-1-k] = i1[k]
				}
				if !yield(Case{Sweep: 3, Series: []SeriesSpec{s}, Reqs: []ReqSpec{{M: []int{0}, I: rev}}}) {
					return
				}
			}
		}
		// ---- sweep 4: real blocks through Compactor.WriteSeries: every layout x every list of <=1 (thorough <=2) interval
		// symbols, next to a second series that no request matches ----
		realIv := subsetsUpTo(len(ivals), vlib.Pick(r, 1, 2))
		for lay := range layouts {
			s := SeriesSpec{A: 1, Layout: lay}
			other := SeriesSpec{A: 2, B: 1, Layout: 1}
			for _, i1 := range realIv {
				if !yield(Case{Sweep: 4, Real: true, Series: []SeriesSpec{s, other}, Reqs: []ReqSpec{{M: []int{0}, I: i1}}}) {
					return
				}
			}
		}
	}
}

func TestCheck(t *testing.T) {
	r := vlib.New(t, "C48")
	defer r.Finish()
	root := t.TempDir()
	r.Rule("series label sets over a,b in {absent,x,y} (1 or 2 series per block), 6 chunk layouts (1..3 chunks, single-sample chunks, one long chunk), " +
		"1..2 deletion requests = 1..2 matchers from 12 symbols (= != =~ !~, empty-matching regex, empty value) x (whole series | lists of <=3 of 14 interval symbols: " +
		"single samples, exact chunk ranges, ranges cutting chunk borders, sample-free range, everything, MinInt64/MaxInt64 ends), also in reverse order; " +
		"a sub-sweep runs Compactor.WriteSeries on real blocks. Non-trivial = distinct cases where a series has both a sample that must be deleted and one that must be kept")
	r.Assume("float (XOR) chunks only; the in-memory sweeps consume Modify's ChunkSeriesSet exactly as Compactor.write does (collect chunk metas, check Err, skip series without chunks)",
		"series that match a request under Prometheus semantics without carrying every label named in it may be deleted or kept (the statement leaves it open)")
	vlib.ForEach(r, gen(r), func(c Case) { eval(r, c, root) })
}
