// C30: compaction planning is safe and converges.
//
// Engine E3 (explicit-state search). A state is a compaction group: a sequence of block metas sorted by
// MinTime (every order of MinTime ties is a different state, because the production sort is not stable)
// over a COMPLETE interval grid (every [a,z) with lo <= a < z <= hi), each block carrying a tombstone
// class, a no-compact mark, an index-size class and a failed-compaction flag. The transition is the real
// planner (tsdbBasedPlanner.Plan, or largeTotalIndexSizeFilter.Plan on a real in-memory bucket) followed by
// "apply": the planned blocks are replaced by one block spanning their hull (no tombstones, not marked),
// and blocks the filter marked get their no-compact mark. The grid is closed under hulls, so every
// successor is itself an enumerated state: the search covers the whole state graph of the bounded space.
// Every state's outgoing plan is judged (safety), and from every state the plan/apply chain is followed on
// the real code to its fixpoint (convergence).
package c30

import (
	"context"
	"fmt"
	"io"
	"iter"
	"sort"
	"strings"
	"sync"
	"testing"

	"github.com/oklog/ulid/v2"
	"github.com/prometheus/client_golang/prometheus"
	"github.com/thanos-io/objstore"

	"github.com/thanos-io/thanos/pkg/block/metadata"
	"github.com/thanos-io/thanos/pkg/compact"

	"verif/vlib"
)

const unit = int64(3_600_000) // one grid step = 1h in ms, so that [1,2,8] is the production prefix 1h,2h,8h

// B is one block of a state.
type B struct {
	A int `json:"a"`           // MinTime (grid units)
	Z int `json:"z"`           // MaxTime (grid units, exclusive)
	T int `json:"t,omitempty"` // tombstones: 0 none, 1 exactly 5% (not "more than 5%"), 2 6%
	N int `json:"n,omitempty"` // 1 = marked no-compact
	X int `json:"x,omitempty"` // index size: 0 1B, 1 50B, 2 90B (meta Files), 3 50B known only to the bucket
	F int `json:"f,omitempty"` // 1 = Compaction.Failed
}

// Space describes one bounded state space.
type Space struct {
	Lo   int   `json:"lo"`
	Hi   int   `json:"hi"`
	T    []int `json:"t"`
	N    []int `json:"n"`
	X    []int `json:"x"`
	F    []int `json:"f"`
	MaxN int   `json:"maxn"`
}

// Case is either one exact state (Expand==0) or a prefix standing for all states that extend it by
// exactly Expand more blocks (used only to hand out work; counter-examples are always exact states).
type Case struct {
	Sp     Space   `json:"space"`
	Ranges []int64 `json:"ranges"` // in grid units
	Filter bool    `json:"filter"` // true: largeTotalIndexSizeFilter (limit 100B) around the planner
	Blocks []B     `json:"blocks"`
	Expand int     `json:"expand,omitempty"`
}

const indexLimit = 100 // filter marks when the running total reaches 85

var idxBytes = [4]int64{1, 50, 90, 0}
var tombs = [3]uint64{0, 5, 6} // of NumSeries+1 = 100

type space struct {
	cfg      Space
	types    []B
	index    map[B]int
	minStart map[int]int // MinTime -> first type index with MinTime >= it
	pool     [][]*metadata.Meta
	marks    [][]*metadata.NoCompactMark
}

var (
	spaceMu sync.Mutex
	spaces  = map[string]*space{}
)

func getSpace(cfg Space) *space {
	key := fmt.Sprintf("%+v", cfg)
	spaceMu.Lock()
	defer spaceMu.Unlock()
	if s, ok := spaces[key]; ok {
		return s
	}
	s := &space{cfg: cfg, index: map[B]int{}, minStart: map[int]int{}}
	for a := cfg.Lo; a < cfg.Hi; a++ {
		s.minStart[a] = len(s.types)
		for z := a + 1; z <= cfg.Hi; z++ {
			for _, t := range cfg.T {
				for _, n := range cfg.N {
					for _, x := range cfg.X {
						for _, f := range cfg.F {
							b := B{A: a, Z: z, T: t, N: n, X: x, F: f}
							s.index[b] = len(s.types)
							s.types = append(s.types, b)
						}
					}
				}
			}
		}
	}
	insts := cfg.MaxN
	if insts < 1 {
		insts = 1
	}
	s.pool = make([][]*metadata.Meta, len(s.types))
	s.marks = make([][]*metadata.NoCompactMark, len(s.types))
	for ti, b := range s.types {
		for inst := 0; inst < insts; inst++ {
			m := &metadata.Meta{}
			var id ulid.ULID
			id[0], id[1] = 0x01, 0x8f
			id[6], id[7], id[8], id[9] = byte(ti>>24), byte(ti>>16), byte(ti>>8), byte(ti)
			id[10] = byte(inst)
			m.ULID = id
			m.Version = 1
			m.MinTime, m.MaxTime = int64(b.A)*unit, int64(b.Z)*unit
			m.Stats.NumSeries = 99
			m.Stats.NumSamples = 99
			m.Stats.NumTombstones = tombs[b.T]
			m.Compaction.Level = 1
			m.Compaction.Sources = []ulid.ULID{id}
			m.Compaction.Failed = b.F == 1
			m.Thanos.Version = 1
			m.Thanos.Labels = map[string]string{"g": "1"}
			if b.X != 3 {
				m.Thanos.Files = []metadata.File{{RelPath: "chunks/000001", SizeBytes: 7}, {RelPath: "index", SizeBytes: idxBytes[b.X]}, {RelPath: "meta.json"}}
			}
			s.pool[ti] = append(s.pool[ti], m)
			s.marks[ti] = append(s.marks[ti], &metadata.NoCompactMark{ID: id, Version: metadata.NoCompactMarkVersion1})
		}
	}
	spaces[key] = s
	return s
}

var markCounter = prometheus.NewCounter(prometheus.CounterOpts{Name: "verif_c30_marked"})

// worker is the per-goroutine context of one ForEach evaluation (buffers are reused between states).
type worker struct {
	s       *space
	r       *vlib.R
	c       *Case
	ranges  []int64 // ms
	maxR    int64   // grid units
	nc      map[ulid.ULID]*metadata.NoCompactMark
	planner compact.Planner
	base    interface {
		Plan(context.Context, []*metadata.Meta, chan error, any) ([]*metadata.Meta, error)
	}
	metas  [8]*metadata.Meta
	planB  [8]int
	markB  [8]int
	acc    acc
	filter bool
}

func newWorker(r *vlib.R, s *space, c *Case) *worker {
	w := &worker{s: s, r: r, c: c, filter: c.Filter, nc: map[ulid.ULID]*metadata.NoCompactMark{}}
	w.acc.nt = map[ntKey]struct{}{}
	w.maxR = c.Ranges[0]
	for _, x := range c.Ranges {
		w.ranges = append(w.ranges, x*unit)
		if x > w.maxR {
			w.maxR = x
		}
	}
	return w
}

// guardBucket is the in-memory bucket plus a bound on the number of mark attempts of one Plan call: the
// filter can mark each block at most once, so more than that many Exists/Upload calls mean its re-planning
// loop does not end (it would otherwise hang the harness).
type guardBucket struct {
	*objstore.InMemBucket
	calls, limit int
}

func (g *guardBucket) tick() {
	g.calls++
	if g.calls > g.limit {
		panic("does-not-terminate: the index-size filter keeps re-planning (more mark attempts than blocks)")
	}
}

func (g *guardBucket) Exists(ctx context.Context, name string) (bool, error) {
	g.tick()
	return g.InMemBucket.Exists(ctx, name)
}

func (g *guardBucket) Upload(ctx context.Context, name string, rd io.Reader, o ...objstore.ObjectUploadOption) error {
	g.tick()
	return g.InMemBucket.Upload(ctx, name, rd, o...)
}

// planOnce runs the real planner on the state and returns the planned positions and the positions the
// filter marked no-compact in the bucket during the call.
func (w *worker) planOnce(st []int) (plan []int, marked []int, problem string) {
	defer func() {
		if p := recover(); p != nil {
			plan, marked, problem = nil, nil, fmt.Sprintf("planner-panic: %v", p)
			if ps, ok := p.(string); ok && strings.HasPrefix(ps, "does-not-terminate") {
				plan, marked, problem = nil, nil, "single-plan-call-does-not-terminate: "+ps
			}
		}
	}()
	s := w.s
	metas := w.metas[:len(st)]
	clear(w.nc)
	for i, ti := range st {
		inst := 0
		for _, tj := range st[:i] {
			if tj == ti {
				inst++
			}
		}
		metas[i] = s.pool[ti][inst]
		if s.types[ti].N == 1 {
			w.nc[metas[i].ULID] = s.marks[ti][inst]
		}
	}
	// The planner is the production one; its source of no-compact marks hands out the state's marks (the
	// planner only reads the map, the filter copies it before adding to it).
	p := compact.VerifC30NewPlanner(w.ranges, func() map[ulid.ULID]*metadata.NoCompactMark { return w.nc })
	ctx := context.Background()
	var got []*metadata.Meta
	var err error
	var bkt *objstore.InMemBucket
	if w.filter {
		bkt = objstore.NewInMemBucket()
		for i, ti := range st {
			if s.types[ti].X == 3 {
				_ = bkt.Upload(ctx, metas[i].ULID.String()+"/index", strings.NewReader(strings.Repeat("i", 50)))
			}
		}
		got, err = compact.WithLargeTotalIndexSizeFilter(p, &guardBucket{InMemBucket: bkt, limit: 4*len(st) + 4}, indexLimit, markCounter).Plan(ctx, metas, nil, nil)
	} else {
		got, err = p.Plan(ctx, metas, nil, nil)
	}
	if err != nil {
		return nil, nil, "planner-error: " + err.Error()
	}
	plan = w.planB[:0]
	for _, g := range got {
		pos := -1
		for i, m := range metas {
			if m == g || (g != nil && m.ULID == g.ULID) {
				pos = i
				break
			}
		}
		if pos < 0 {
			return nil, nil, "plan-names-block-outside-group"
		}
		for _, q := range plan {
			if q == pos {
				return nil, nil, "plan-names-block-twice"
			}
		}
		plan = append(plan, pos)
	}
	if bkt != nil {
		marked = w.markB[:0]
		for name := range bkt.Objects() {
			if !strings.HasSuffix(name, "/"+metadata.NoCompactMarkFilename) {
				continue
			}
			id, perr := ulid.Parse(strings.TrimSuffix(name, "/"+metadata.NoCompactMarkFilename))
			if perr != nil {
				return nil, nil, "harness: unparsable mark " + name
			}
			for i, m := range metas {
				if m.ULID == id {
					marked = append(marked, i)
				}
			}
		}
		sort.Ints(marked)
	}
	return plan, marked, ""
}

func overlap(a, b B) bool { return a.A < b.Z && b.A < a.Z }

func floorDiv(a, r int64) int64 {
	q := a / r
	if a%r != 0 && (a < 0) != (r < 0) {
		q--
	}
	return q
}

// fitsOneRange: [a,z) lies inside one aligned window [k*r,(k+1)*r) of a configured range r.
func fitsOneRange(a, z int, ranges []int64) bool {
	for _, r := range ranges {
		t0 := floorDiv(int64(a), r) * r
		if int64(z) <= t0+r {
			return true
		}
	}
	return false
}

func anyOverlap(bs []B, skipMarked bool) (int, int, bool) {
	for i := range bs {
		for j := i + 1; j < len(bs); j++ {
			if skipMarked && (bs[i].N == 1 || bs[j].N == 1) {
				continue
			}
			if overlap(bs[i], bs[j]) {
				return i, j, true
			}
		}
	}
	return 0, 0, false
}

type planInfo struct {
	kind       string // "none", "vertical", "horizontal", "tombstone"
	hullA      int
	hullZ      int
	horizontal bool
}

// judgePlan decides the per-plan part of the statement. bs is the state the planner saw, marked the
// blocks carrying a no-compact mark after the call (state marks plus marks the filter placed).
func judgePlan(bs []B, marked []bool, ranges []int64, plan []int) (sig, desc string, info planInfo) {
	info.kind = "none"
	if len(plan) == 0 {
		return "", "", info
	}
	maxR := ranges[0]
	for _, r := range ranges {
		if r > maxR {
			maxR = r
		}
	}
	info.hullA, info.hullZ = bs[plan[0]].A, bs[plan[0]].Z
	for _, p := range plan {
		if bs[p].A < info.hullA {
			info.hullA = bs[p].A
		}
		if bs[p].Z > info.hullZ {
			info.hullZ = bs[p].Z
		}
	}
	info.horizontal = true
	for i, p := range plan {
		for _, q := range plan[i+1:] {
			if overlap(bs[p], bs[q]) {
				info.horizontal = false
			}
		}
	}
	switch {
	case len(plan) == 1:
		info.kind = "tombstone"
	case info.horizontal:
		info.kind = "horizontal"
	default:
		info.kind = "vertical"
	}
	for _, p := range plan {
		if marked[p] {
			return "plan-includes-no-compact-marked-block", fmt.Sprintf("planned block %d %+v carries a no-compact mark", p, bs[p]), info
		}
	}
	if len(plan) == 1 && bs[plan[0]].T != 2 {
		if bs[plan[0]].T == 0 {
			return "single-block-plan-without-tombstones", fmt.Sprintf("plan is the single block %+v which has no tombstones", bs[plan[0]]), info
		}
		return "single-block-plan-tombstones-not-above-5pct", fmt.Sprintf("plan is the single block %+v whose tombstone ratio is exactly 5%%", bs[plan[0]]), info
	}
	// "for non-overlapping aligned blocks": every block of the group fits one aligned configured window and
	// no two blocks of the group overlap.
	premise := true
	for _, b := range bs {
		if !fitsOneRange(b.A, b.Z, ranges) {
			premise = false
		}
	}
	if _, _, ov := anyOverlap(bs, false); ov {
		premise = false
	}
	if premise {
		for _, p := range plan {
			if p == len(bs)-1 {
				return "plan-includes-newest-block", fmt.Sprintf("non-overlapping aligned group, plan %v includes the block with the greatest MinTime %+v", plan, bs[p]), info
			}
		}
		if !fitsOneRange(info.hullA, info.hullZ, ranges) {
			return "plan-spans-more-than-one-range", fmt.Sprintf("non-overlapping aligned group, plan %v spans [%d,%d) which fits no aligned window of ranges %v", plan, info.hullA, info.hullZ, ranges), info
		}
	}
	// A plan of non-overlapping blocks (not a vertical merge) must not create a block longer than the
	// largest range - otherwise the fixpoint could not consist of blocks no longer than the largest range.
	if info.horizontal && len(plan) > 1 && int64(info.hullZ-info.hullA) > maxR {
		return "non-overlapping-plan-longer-than-largest-range", fmt.Sprintf("plan %v of non-overlapping blocks spans [%d,%d), longer than the largest range %d", plan, info.hullA, info.hullZ, maxR), info
	}
	return "", "", info
}

// apply replaces the planned blocks by their hull and records marks. The new block is placed after the
// existing blocks with the same MinTime (every other tie order is an enumerated state of its own).
func (s *space) apply(st []int, plan []int, newMarked []int) []int {
	var bsArr [8]B
	bs := bsArr[:len(st)]
	for i, ti := range st {
		bs[i] = s.types[ti]
	}
	var changed, inPlan [8]bool
	for _, i := range newMarked {
		bs[i].N = 1
		changed[i] = true
	}
	var hull B
	for k, p := range plan {
		inPlan[p] = true
		b := bs[p]
		x := b.X
		if x == 3 {
			x = 1
		}
		if k == 0 {
			hull = B{A: b.A, Z: b.Z, X: x}
			continue
		}
		if b.A < hull.A {
			hull.A = b.A
		}
		if b.Z > hull.Z {
			hull.Z = b.Z
		}
		if x > hull.X {
			hull.X = x
		}
	}
	lookup := func(b B) int {
		ti, ok := s.index[b]
		if !ok {
			panic(fmt.Sprintf("HARNESS: successor block %+v outside the space %+v", b, s.cfg))
		}
		return ti
	}
	res := make([]int, 0, len(st))
	pending := len(plan) > 0
	for i, b := range bs {
		if inPlan[i] {
			continue
		}
		if pending && b.A > hull.A {
			res = append(res, lookup(hull))
			pending = false
		}
		if changed[i] {
			res = append(res, lookup(b))
		} else {
			res = append(res, st[i])
		}
	}
	if pending {
		res = append(res, lookup(hull))
	}
	return res
}

type ntKey struct {
	kind                                 string
	n, hullA, hullZ, nmark, newMarked int
}

type acc struct {
	states, transitions, traces int64
	depth                       int
	nt                          map[ntKey]struct{}
	finals                      int64
	longFinal                   int64
}

func (s *space) blocks(st []int) []B {
	bs := make([]B, len(st))
	for i, ti := range st {
		bs[i] = s.types[ti]
	}
	return bs
}

func (w *worker) report(init []int, sig, desc string) {
	w.r.Violation(sig, desc, Case{Sp: w.c.Sp, Ranges: w.c.Ranges, Filter: w.c.Filter, Blocks: w.s.blocks(init)})
}

// chain follows plan/apply from the state to the fixpoint, judging every plan.
func (w *worker) chain(init []int) {
	s, a, c := w.s, &w.acc, w.c
	a.states++
	st := init
	bound := len(init)
	maxR := w.maxR
	initClean := true // no overlap at all and nothing longer than the largest range
	var ibArr [8]B
	ibs := ibArr[:len(init)]
	for i, ti := range init {
		b := s.types[ti]
		ibs[i] = b
		if b.T != 0 {
			bound++
		}
		if int64(b.Z-b.A) > maxR {
			initClean = false
		}
	}
	if _, _, ov := anyOverlap(ibs, false); ov {
		initClean = false
	}
	for step := 0; ; step++ {
		var bsArr [8]B
		bs := bsArr[:len(st)]
		for i, ti := range st {
			bs[i] = s.types[ti]
		}
		plan, newMarked, problem := w.planOnce(st)
		a.traces++
		if problem != "" {
			sig := problem
			if i := strings.Index(sig, ":"); i > 0 {
				sig = sig[:i]
			}
			w.report(init, sig, fmt.Sprintf("step %d on %+v: %s", step, bs, problem))
			return
		}
		var markedArr [8]bool
		marked := markedArr[:len(bs)]
		for i, b := range bs {
			marked[i] = b.N == 1
		}
		for _, i := range newMarked {
			marked[i] = true
		}
		sig, desc, info := judgePlan(bs, marked, c.Ranges, plan)
		if sig != "" {
			w.report(init, sig, fmt.Sprintf("step %d, state %+v, ranges %v: %s", step, bs, c.Ranges, desc))
			return
		}
		if step == 0 && len(plan) > 0 {
			a.transitions++
			nmark := 0
			for _, m := range marked {
				if m {
					nmark++
				}
			}
			a.nt[ntKey{info.kind, len(plan), info.hullA, info.hullZ, nmark, len(newMarked)}] = struct{}{}
		}
		if len(plan) == 0 {
			// fixpoint
			if step > a.depth {
				a.depth = step
			}
			a.finals++
			fbs := bs
			for _, i := range newMarked {
				fbs[i].N = 1
			}
			if i, j, ov := anyOverlap(fbs, true); ov {
				w.report(init, "fixpoint-has-overlapping-compactable-blocks", fmt.Sprintf("planning stopped at %+v although blocks %d and %d overlap and neither is marked no-compact", fbs, i, j))
				return
			}
			long := false
			for _, b := range fbs {
				if int64(b.Z-b.A) > maxR {
					long = true
				}
			}
			if long {
				a.longFinal++
			}
			if initClean {
				if i, j, ov := anyOverlap(fbs, false); ov {
					w.report(init, "fixpoint-overlap-created-from-non-overlapping-blocks", fmt.Sprintf("group had no overlaps, fixpoint %+v has blocks %d and %d overlapping", fbs, i, j))
					return
				}
				if long {
					w.report(init, "fixpoint-block-longer-than-largest-range", fmt.Sprintf("group had no overlap and no block longer than %d, fixpoint %+v has one", maxR, fbs))
					return
				}
			}
			return
		}
		if step >= bound {
			w.report(init, "no-fixpoint-within-bound", fmt.Sprintf("%d plan/apply steps from %+v (bound: blocks + tombstoned blocks = %d) and the planner still plans %v", step+1, ibs, bound, plan))
			return
		}
		st = s.apply(st, plan, newMarked)
	}
}

// expand enumerates every extension of buf[:n] by exactly k blocks keeping MinTime non-decreasing; f gets
// a slice of buf that is only valid during the call.
func (s *space) expand(buf *[8]int, n, k int, f func(st []int) bool) bool {
	if k == 0 {
		return f(buf[:n])
	}
	from := 0
	if n > 0 {
		from = s.minStart[s.types[buf[n-1]].A]
	}
	for ti := from; ti < len(s.types); ti++ {
		buf[n] = ti
		if !s.expand(buf, n+1, k-1, f) {
			return false
		}
	}
	return true
}

type spacePlan struct {
	sp      Space
	ranges  [][]int64
	filter  bool
	comment string
}

func spacesFor(r *vlib.R) []spacePlan {
	all := []int{0, 1}
	if !r.Thorough() {
		return []spacePlan{
			{sp: Space{Lo: -3, Hi: 3, T: []int{0, 2}, N: all, X: []int{0}, F: []int{0}, MaxN: 4},
				ranges: [][]int64{{1, 2, 4}}, comment: "planner, 6-point grid, <=4 blocks"},
			{sp: Space{Lo: -4, Hi: 4, T: []int{0, 2}, N: all, X: []int{0}, F: []int{0}, MaxN: 3},
				ranges: [][]int64{{1, 2, 4}, {1, 3}, {1, 2, 8}}, comment: "planner, 8-point grid, <=3 blocks"},
			{sp: Space{Lo: -2, Hi: 2, T: []int{0, 1, 2}, N: all, X: []int{0}, F: all, MaxN: 3},
				ranges: [][]int64{{1, 2, 4}, {1, 2}, {2}}, comment: "planner, 4-point grid, <=3 blocks, 5% boundary, failed flag"},
			{sp: Space{Lo: -2, Hi: 2, T: []int{0, 2}, N: all, X: []int{0, 1, 2}, F: []int{0}, MaxN: 3}, filter: true,
				ranges: [][]int64{{1, 2, 4}, {1, 3}}, comment: "index-size filter, 4-point grid, <=3 blocks"},
		}
	}
	return []spacePlan{
		{sp: Space{Lo: -4, Hi: 4, T: []int{0, 2}, N: all, X: []int{0}, F: []int{0}, MaxN: 4},
			ranges: [][]int64{{1, 2, 4}, {1, 3}}, comment: "planner, 8-point grid, <=4 blocks"},
		{sp: Space{Lo: -4, Hi: 4, T: []int{0, 2}, N: all, X: []int{0}, F: []int{0}, MaxN: 3},
			ranges: [][]int64{{1, 2, 8}, {2, 4}}, comment: "planner, 8-point grid, <=3 blocks"},
		{sp: Space{Lo: -2, Hi: 3, T: []int{0, 2}, N: all, X: []int{0}, F: []int{0}, MaxN: 5},
			ranges: [][]int64{{1, 2, 4}, {1, 3}}, comment: "planner, 5-point grid, <=5 blocks"},
		{sp: Space{Lo: -3, Hi: 3, T: []int{0, 1, 2}, N: all, X: []int{0}, F: all, MaxN: 3},
			ranges: [][]int64{{1, 2, 4}, {2}, {1, 3, 9}}, comment: "planner, 6-point grid, <=3 blocks, 5% boundary, failed flag"},
		{sp: Space{Lo: -2, Hi: 2, T: []int{0, 1, 2}, N: all, X: []int{0}, F: all, MaxN: 4},
			ranges: [][]int64{{1, 2, 4}, {1, 2}}, comment: "planner, 4-point grid, <=4 blocks, 5% boundary, failed flag"},
		{sp: Space{Lo: -2, Hi: 3, T: []int{0, 2}, N: all, X: []int{0, 1, 2, 3}, F: []int{0}, MaxN: 3}, filter: true,
			ranges: [][]int64{{1, 2, 4}, {1, 3}, {2}}, comment: "index-size filter, 5-point grid, <=3 blocks, bucket-sized index"},
		{sp: Space{Lo: -2, Hi: 2, T: []int{0, 2}, N: all, X: []int{0, 1, 2}, F: []int{0}, MaxN: 4}, filter: true,
			ranges: [][]int64{{1, 2, 4}}, comment: "index-size filter, 4-point grid, <=4 blocks"},
	}
}

// countStates is the number of sequences of exactly n blocks with non-decreasing MinTime.
func (s *space) countStates(n int) int64 {
	per := map[int]int64{}
	for _, b := range s.types {
		per[b.A]++
	}
	// f[a] = number of sequences of the current length whose last MinTime is a
	f := map[int]int64{}
	for a, c := range per {
		f[a] = c
	}
	for k := 2; k <= n; k++ {
		g := map[int]int64{}
		for a, c := range per {
			for a0, v := range f {
				if a0 <= a {
					g[a] += v * c
				}
			}
		}
		f = g
	}
	var tot int64
	for _, v := range f {
		tot += v
	}
	return tot
}

func gen(r *vlib.R, plans []spacePlan) iter.Seq[Case] {
	return func(yield func(Case) bool) {
		for _, p := range plans {
			s := getSpace(p.sp)
			for _, rg := range p.ranges {
				for n := 1; n <= p.sp.MaxN; n++ {
					ex := 2
					if n < 2 {
						ex = n
					}
					var buf [8]int
					ok := s.expand(&buf, 0, n-ex, func(st []int) bool {
						return yield(Case{Sp: p.sp, Ranges: rg, Filter: p.filter, Blocks: s.blocks(st), Expand: ex})
					})
					if !ok {
						return
					}
				}
			}
		}
	}
}

func TestCheck(t *testing.T) {
	r := vlib.New(t, "C30")
	defer r.Finish()
	r.Rule("states = every sequence (sorted by MinTime, all tie orders) of <=N blocks over ALL intervals of a time grid x tombstone class x no-compact mark " +
		"[x index-size class x failed flag], per range list and planner variant; one real Plan call per state decides the plan conditions, the plan/apply " +
		"chain is followed on the real planner to its fixpoint; non-trivial = distinct (variant, ranges, plan kind vertical/horizontal/tombstone, plan size, " +
		"plan hull, marks) among states with a non-empty plan")
	r.Assume(
		"apply model: a plan is replaced by one block spanning the hull of the planned blocks, without tombstones and without mark; its index-size class is the largest class of its sources",
		"'non-overlapping aligned blocks' = no two blocks of the group overlap and every block lies inside one aligned window of a configured range; 'newest' = greatest MinTime",
		"'ends with non-overlapping blocks no longer than the largest range' is decided as: at the fixpoint no two blocks without no-compact mark overlap; a plan of non-overlapping blocks never spans more than the largest range; "+
			"a group that started without overlap and without over-long block ends without overlap (marked blocks included) and without over-long block. Vertical merges of overlapping blocks may exceed the largest range (hull of the overlap); counted in extra.fixpoints_with_long_block",
		"an empty group is never planned (Group.compact is only called for groups with blocks); the no-compact set is injected through an in-package constructor instead of GatherNoCompactionMarkFilter",
	)
	plans := spacesFor(r)
	var expected int64
	for _, p := range plans {
		var tot int64
		for n := 1; n <= p.sp.MaxN; n++ {
			tot += getSpace(p.sp).countStates(n)
		}
		expected += tot * int64(len(p.ranges))
		r.Note("space: %s: grid [%d,%d) T=%v N=%v X=%v F=%v ranges=%v filter=%v: %d block types, %d states per range list", p.comment, p.sp.Lo, p.sp.Hi, p.sp.T, p.sp.N, p.sp.X, p.sp.F, p.ranges, p.filter, len(getSpace(p.sp).types), tot)
		t.Logf("space %s: %d types, %d states x %d range lists", p.comment, len(getSpace(p.sp).types), tot, len(p.ranges))
	}
	r.Set("states_expected", expected)
	var mu sync.Mutex
	vlib.ForEach(r, gen(r, plans), func(c Case) {
		if c.Expand > 0 && r.Expired("state enumeration stopped early") {
			return
		}
		s := getSpace(c.Sp)
		w := newWorker(r, s, &c)
		a := &w.acc
		var buf [8]int
		if len(c.Blocks)+c.Expand > len(buf) || len(c.Blocks)+c.Expand > c.Sp.MaxN && c.Expand > 0 {
			t.Fatalf("HARNESS-ERROR case too large: %+v", c)
		}
		for i, b := range c.Blocks {
			ti, ok := s.index[b]
			if !ok {
				t.Fatalf("HARNESS-ERROR block %+v outside space", b)
			}
			buf[i] = ti
		}
		r.Sample(c)
		n := 0
		s.expand(&buf, len(c.Blocks), c.Expand, func(st []int) bool {
			var init [8]int
			copy(init[:], st)
			w.chain(init[:len(st)])
			n++
			return n%1024 != 0 || !r.Expired("state enumeration stopped early")
		})
		mu.Lock()
		defer mu.Unlock()
		if n > 1 {
			r.Eval(int64(n - 1))
		}
		r.AddStates(a.states)
		r.AddTransitions(a.transitions)
		r.AddTraces(a.traces)
		r.Depth(a.depth)
		r.Add("fixpoints", a.finals)
		r.Add("fixpoints_with_long_block", a.longFinal)
		for k := range a.nt {
			r.Nontrivial(fmt.Sprintf("%v|%v|%+v", c.Filter, c.Ranges, k))
		}
	})
}
