// C12: cached posting-list encodings decode to the original list, and Seek on the decoded list behaves as on the original.
// Engine E4 (bounded-exhaustive inputs) on the real codecs of pkg/store/postings_codec.go, reached through
// inpkg/pkg/store/zz_verif_c12_export.go.
//
// Two families of sorted lists:
//
//	short: every gap sequence of length 0..L over a gap alphabet with one symbol per uvarint width boundary
//	       (0 = duplicate reference, 1, 127|128, 16383|16384, 2^21, 2^32, 2^56, 2^62: 1,2,3,4,5,9-byte varints).
//	long:  lists whose diff+varint stream crosses the 65528-byte block boundaries of the snappy stream writer:
//	       P one-byte gaps followed by M gaps that are all W bytes wide, so that the boundary cuts a varint after every
//	       possible number of bytes (P = 0..W-1), for list ends just before / at / after each boundary, and for every
//	       assignment of {compressible, incompressible} content to the blocks (compressed vs. uncompressed chunk type,
//	       the two branches of streamedDiffVarintPostings.readNextChunk that carry a remainder over).
//
// For every list x codec: full round trip (both decode entry points), then every script
// "k Next calls; Seek(t1); [j Next calls; Seek(t2);] drain" for all k, all targets t drawn from {0, e-1, e, e+1 for the
// elements e (all of them for short lists, those around block boundaries / ends for long lists), max+1}, executed in
// lock step on the decoded postings and on index.NewListPostings(original).
//
// The cached value is one byte slice that the cache hands to every hit, so a list is not decoded once but many times
// from the SAME bytes. That history is part of the space: every script above is one more decode of the same value, and
// in addition every list x codec is decoded from the value placed in memory in three ways (the slice the encoder
// returned; a copy with cap == len, what a cache that copies on store hands out; a sub-slice of a larger buffer with
// guard bytes on both sides, cap > len, what a slab/arena hands out) with the history "drain; drain again; drain through
// the other entry point; read k elements and close; Seek(last) and drain; drain". After every single decode the value
// (and the guard bytes) must be byte-identical to what the encoder produced: otherwise the next hit, or a concurrent
// one, does not decode the encoding. A panic of the code under test is recovered per decode and reported as a violation.
package c12

import (
	"bytes"
	"fmt"
	"iter"
	"runtime/debug"
	"sort"
	"strings"
	"syscall"
	"testing"
	"time"

	"github.com/prometheus/prometheus/storage"
	"github.com/prometheus/prometheus/tsdb/index"
	"github.com/thanos-io/thanos/pkg/store"

	"verif/vlib"
)

type Case struct {
	Fam   string `json:"fam"`             // "short" | "long"
	Codec int    `json:"codec"`           // 0 dvs, 1 dss (streamed encode), 2 dss (diffvarint bytes -> snappyStreamedEncode)
	Hint  int    `json:"hint"`            // 0: length hint = len(list), 1: hint 0
	Gaps  []int  `json:"gaps,omitempty"`  // short: indexes into gapAlphabet
	W     int    `json:"w,omitempty"`     // long: varint width of the main gaps
	P     int    `json:"p,omitempty"`     // long: number of leading 1-byte gaps (shifts the block boundary inside a varint)
	M     int    `json:"m,omitempty"`     // long: number of W-byte gaps
	Pats  []int  `json:"pats,omitempty"`  // long: per 64KiB block: 0 constant gap (compressible), 1 LCG-varied gap (incompressible)
	Seek2 bool   `json:"seek2,omitempty"` // also run the two-seek scripts
	Lite  bool   `json:"lite,omitempty"`  // long: only scripts that seek from the start (k = 0)
}

var gapAlphabet = []uint64{0, 1, 127, 128, 16383, 16384, 1 << 21, 1 << 32, 1 << 56, 1 << 62}

var codecName = []string{"dvs", "dss-streamed-encode", "dss-from-diffvarint"}

// The klauspost snappy-compatible stream writer used by extsnappy.Compressor cuts its input into blocks of 64KiB-8 bytes
// (s2.WriterSnappyCompat); TestCheck verifies the resulting number of data chunks for every long list.
const block = 65536 - 8

var widths = []int{1, 2, 3, 5, 7}

// farTail varints (>= 4KiB, < half a block for the widest gap) after a block boundary.
const farTail = 4096

func lowOfWidth(w int) uint64 {
	if w == 1 {
		return 1
	}
	return 1 << uint(7*(w-1))
}

// buildLong returns the list and the element indexes whose varint contains (or starts at) a block boundary.
// cut[i] tells whether the i-th block boundary falls inside a varint (then the decoder carries a remainder over).
func buildLong(c Case) (list []storage.SeriesRef, boundaryIdx []int, cut []bool, straddles int) {
	list = make([]storage.SeriesRef, 0, c.P+c.M)
	var cur, off uint64
	lcg := uint64(0x9E3779B97F4A7C15)
	lo := lowOfWidth(c.W)
	nextB := uint64(block)
	emit := func(g uint64, w int) {
		if off <= nextB && nextB < off+uint64(w) { // this varint starts at or is cut by the block boundary
			boundaryIdx = append(boundaryIdx, len(list))
			cut = append(cut, off < nextB)
			if off < nextB {
				straddles++
			}
			nextB += block
		}
		cur += g
		list = append(list, storage.SeriesRef(cur))
		off += uint64(w)
	}
	for i := 0; i < c.P; i++ {
		emit(1, 1)
	}
	for i := 0; i < c.M; i++ {
		blk := int(off / block)
		pat := 0
		if blk < len(c.Pats) {
			pat = c.Pats[blk]
		}
		g := lo
		if pat == 1 {
			lcg = lcg*6364136223846793005 + 1442695040888963407
			if c.W == 1 {
				g = 1 + (lcg>>33)%127
			} else {
				g = lo + (lcg>>20)%lo // lo <= g < 2*lo: still exactly W bytes
			}
		}
		emit(g, c.W)
	}
	return list, boundaryIdx, cut, straddles
}

func buildShort(c Case) ([]storage.SeriesRef, bool) {
	list := make([]storage.SeriesRef, 0, len(c.Gaps))
	var cur uint64
	for _, gi := range c.Gaps {
		g := gapAlphabet[gi]
		if cur+g < cur {
			return nil, false
		}
		cur += g
		list = append(list, storage.SeriesRef(cur))
	}
	return list, true
}

func gen(r *vlib.R) iter.Seq[Case] {
	maxLen := vlib.Pick(r, 4, 5)
	seek2Len := vlib.Pick(r, 2, 3)
	maxBlocks := vlib.Pick(r, 2, 3) // block boundaries the list ends around (the list then spans up to maxBlocks+1 blocks)
	return func(yield func(Case) bool) {
		for codec := 0; codec < 3; codec++ {
			for hint := 0; hint < 2; hint++ {
				for g := range vlib.TuplesUpTo(0, maxLen, len(gapAlphabet)) {
					c := Case{Fam: "short", Codec: codec, Hint: hint, Gaps: g, Seek2: len(g) <= seek2Len}
					if _, ok := buildShort(c); !ok {
						continue
					}
					if !yield(c) {
						return
					}
				}
			}
		}
		for _, w := range widths {
			for p := 0; p < w; p++ {
				for j := 1; j <= maxBlocks; j++ {
					base := (block*j - p) / w
					// the list ends one varint before / at / one / two varints after the boundary (the last block is then a few
					// bytes, which the stream writer always stores uncompressed), or farTail varints after it (a last block that
					// is compressed when its content is compressible: an uncompressed chunk followed by a compressed one needs it)
					for _, d := range []int{-1, 0, 1, 2, farTail} {
						if !r.Thorough() && j == 2 && d != 1 {
							continue // quick: two boundaries only with the list ending one varint after the second one
						}
						m := base + d
						nblk := (p + w*m + block - 1) / block
						for pats := range vlib.Tuples(nblk, 2) {
							for codec := 0; codec < 3; codec++ {
								if !yield(Case{Fam: "long", Codec: codec, W: w, P: p, M: m, Pats: pats, Lite: !r.Thorough() && j == 2}) {
									return
								}
							}
						}
					}
				}
			}
		}
	}
}

// dataChunks parses the snappy framing of a "dss" value and counts compressed / uncompressed data chunks;
// seq has one letter per data chunk in stream order: 'c' compressed, 'u' uncompressed (stored verbatim).
func dataChunks(b []byte) (comp, uncomp int, seq string) {
	b = b[3:]
	for len(b) >= 4 {
		typ := b[0]
		n := int(b[1]) | int(b[2])<<8 | int(b[3])<<16
		b = b[4:]
		if n > len(b) {
			return -1, -1, ""
		}
		switch typ {
		case 0x00:
			comp++
			seq += "c"
		case 0x01:
			uncomp++
			seq += "u"
		}
		b = b[n:]
	}
	return
}

// placed is one way the cached value lies in memory when it is handed to the decoders.
type placed struct {
	name  string
	val   []byte // what the decoder gets
	whole []byte // val with the memory around it that belongs to the same allocation and is checked too
	orig  []byte // copy of whole taken before the first decode
	off   int    // offset of val in whole
	n     int    // decodes of val so far
}

const (
	placeEncoder = iota // the very slice the encoder returned (cap as the encoder left it)
	placeExact          // a copy with cap == len
	placeGuarded        // a sub-slice of a larger buffer: guard bytes before, and after within cap(val)
	guardByte    = 0xA5
	guardLead    = 64
)

var placeName = []string{"slice returned by the encoder", "copy with cap==len", "sub-slice of a larger buffer (guard bytes around it, cap>len)"}

// place lays the encoded value out in memory. trail is the number of guard bytes after the value for placeGuarded; it
// is chosen larger than one decoded chunk so that an append onto any sub-slice of the value never has to reallocate.
func place(enc []byte, kind, trail int) *placed {
	pl := &placed{name: placeName[kind]}
	switch kind {
	case placeEncoder:
		pl.val, pl.whole = enc, enc
	case placeExact:
		b := make([]byte, len(enc))
		copy(b, enc)
		pl.val, pl.whole = b[:len(b):len(b)], b
	case placeGuarded:
		w := make([]byte, guardLead+len(enc)+trail)
		for i := range w {
			w[i] = guardByte
		}
		copy(w[guardLead:], enc)
		pl.val, pl.whole, pl.off = w[guardLead:guardLead+len(enc)], w, guardLead
	}
	pl.orig = append([]byte(nil), pl.whole...)
	return pl
}

// damage describes the first byte of the value / of the memory around it that differs from before the decodes ("" = intact).
func (pl *placed) damage() (inValue bool, desc string) {
	if bytes.Equal(pl.whole, pl.orig) {
		return false, ""
	}
	n := 0
	first := -1
	for i := range pl.whole {
		if pl.whole[i] != pl.orig[i] {
			if first < 0 {
				first = i
			}
			n++
		}
	}
	rel := first - pl.off
	if rel >= 0 && rel < len(pl.val) {
		return true, fmt.Sprintf("%d bytes changed, first at offset %d of the %d-byte encoded value (0x%02x -> 0x%02x)", n, rel, len(pl.val), pl.orig[first], pl.whole[first])
	}
	return false, fmt.Sprintf("%d bytes changed outside the value, first at offset %d relative to its start (value is %d bytes long)", n, rel, len(pl.val))
}

// guarded runs f, which calls the code under test, and turns a panic into a description.
func guarded(f func()) (panicked string) {
	defer func() {
		if p := recover(); p != nil {
			where := ""
			for _, l := range strings.Split(string(debug.Stack()), "\n") {
				if strings.Contains(l, "/pkg/store/") && !strings.Contains(l, "zz_verif_") {
					where = " at " + strings.TrimSpace(strings.SplitN(l, " +0x", 2)[0])
					break
				}
			}
			panicked = fmt.Sprintf("panic: %v%s", p, where)
		}
	}()
	f()
	return ""
}

func targetsFor(list []storage.SeriesRef, idx []int) []uint64 {
	set := map[uint64]struct{}{0: {}}
	for _, i := range idx {
		if i < 0 || i >= len(list) {
			continue
		}
		e := uint64(list[i])
		set[e] = struct{}{}
		if e > 0 {
			set[e-1] = struct{}{}
		}
		if e+1 > e {
			set[e+1] = struct{}{}
		}
	}
	if n := len(list); n > 0 {
		if m := uint64(list[n-1]); m+1 > m {
			set[m+1] = struct{}{}
		}
	}
	out := make([]uint64, 0, len(set))
	for t := range set {
		out = append(out, t)
	}
	sort.Slice(out, func(i, j int) bool { return out[i] < out[j] })
	return out
}

type script struct {
	k       int
	t1      uint64
	second  bool
	j       int
	t2      uint64
	abandon bool // only the k Next calls, then the iterator is closed without being drained
}

func (s script) String() string {
	if s.abandon {
		return fmt.Sprintf("%d*Next; close", s.k)
	}
	if s.k < 0 {
		return "drain"
	}
	if s.second {
		return fmt.Sprintf("%d*Next; Seek(%d); %d*Next; Seek(%d); drain", s.k, s.t1, s.j, s.t2)
	}
	return fmt.Sprintf("%d*Next; Seek(%d); drain", s.k, s.t1)
}

// lockstep runs the script on got and on the reference; returns "" or a description of the first difference.
// Only legitimate iterator use is compared: nothing is called on either side after Next or Seek returned false.
func lockstep(got, ref index.Postings, s script) string {
	// what/n name the step only when a difference is reported (no formatting on the hot path)
	step := func(what string, n uint64, a, b bool) (string, bool) {
		if a != b {
			return fmt.Sprintf("%s(%d) returned %v, original list %v", what, n, a, b), false
		}
		if !b {
			if got.Err() != nil {
				return fmt.Sprintf("%s(%d): Err()=%v", what, n, got.Err()), false
			}
			return "", false
		}
		if got.At() != ref.At() {
			return fmt.Sprintf("after %s(%d) At()=%d, original list %d", what, n, got.At(), ref.At()), false
		}
		return "", true
	}
	for i := 0; i < s.k; i++ {
		if d, cont := step("Next#", uint64(i+1), got.Next(), ref.Next()); !cont {
			return d
		}
	}
	if s.abandon {
		return ""
	}
	if s.k >= 0 {
		if d, cont := step("Seek", s.t1, got.Seek(storage.SeriesRef(s.t1)), ref.Seek(storage.SeriesRef(s.t1))); !cont {
			return d
		}
	}
	if s.second {
		for i := 0; i < s.j; i++ {
			if d, cont := step("Next after first Seek #", uint64(i+1), got.Next(), ref.Next()); !cont {
				return d
			}
		}
		if d, cont := step("second Seek", s.t2, got.Seek(storage.SeriesRef(s.t2)), ref.Seek(storage.SeriesRef(s.t2))); !cont {
			return d
		}
	}
	for i := 0; ; i++ {
		if d, cont := step("drain Next#", uint64(i+1), got.Next(), ref.Next()); !cont {
			return d
		}
	}
}

func TestCheck(t *testing.T) {
	r := vlib.New(t, "C12")
	defer r.Finish()
	r.Rule("lists x codec {dvs, dss via streamed encode, dss via snappyStreamedEncode of diff-varint bytes}; short = all gap sequences up to the length bound over " +
		"{0,1,127,128,16383,16384,2^21,2^32,2^56,2^62}; long = P 1-byte gaps + M W-byte gaps, W in {1,2,3,5,7}, P in 0..W-1, M = -1..+2 and +4096 around each 65528-byte block " +
		"boundary, every compressible/incompressible assignment per block; non-trivial = distinct list with >= 2 elements and a multi-byte varint (short) or with a varint " +
		"cut by a block boundary (long); extra counters give scripts executed and chunk types seen. Every script is one more decode of the same cached bytes; " +
		"each list x codec is also decoded 6 times in a row (drain, drain, drain via the codec's own decoder, k Next + close, Seek(last) + drain, drain) from a cap==len copy " +
		"and from a sub-slice of a larger buffer with guard bytes; after every decode the value and the guard bytes must be unchanged; panics of the codecs are recovered per decode")
	r.Assume("Only legitimate iterator use is compared: after Next or Seek returned false nothing more is asked of either iterator (index.Postings leaves that undefined; "+
		"listPostings and the diff-varint iterators legitimately differ there).",
		"A decode that writes into the encoded value (or into memory around it that it was not given) is reported even when the decodes that were executed after it still "+
			"returned the right list: the index cache hands the same byte slice to every hit, concurrent ones included, so the bytes other decodes see are no longer the encoding.",
		"Series references are uint64 values whose running sum does not overflow; equal consecutive references (gap 0) are included because the encoders accept them.")

	vlib.ForEach(r, gen(r), func(c Case) {
		var (
			list      []storage.SeriesRef
			bIdx      []int
			cut       []bool
			straddles int
		)
		if c.Fam == "short" {
			var ok bool
			if list, ok = buildShort(c); !ok {
				return
			}
		} else {
			list, bIdx, cut, straddles = buildLong(c)
		}
		name := codecName[c.Codec]
		t0 := time.Now()
		var nScripts, nAgain int64 // added to the shared counters once per case (the reporter's lock is contended)
		defer func() {
			r.Add("cpu_us_"+c.Fam, time.Since(t0).Microseconds()) // cost accounting only
			r.Add("scripts", nScripts)
			r.Add("decodes_of_already_decoded_bytes", nAgain)
		}()
		r.Sample(c)
		hint := len(list)
		if c.Hint == 1 {
			hint = 0
		}
		var (
			enc []byte
			err error
		)
		if pan := guarded(func() { enc, err = store.VerifC12Encode(c.Codec, index.NewListPostings(list), hint) }); pan != "" {
			r.Violation(name+":encode-panics", fmt.Sprintf("encoding a sorted list of %d refs: %s", len(list), pan), c)
			return
		}
		if err != nil {
			r.Violation(name+":encode-error", fmt.Sprintf("encoding a sorted list failed: %v", err), c)
			return
		}
		if c.Fam == "short" {
			multi := false
			for _, gi := range c.Gaps {
				if gapAlphabet[gi] >= 128 {
					multi = true
				}
			}
			if len(list) >= 2 && multi {
				r.Nontrivial(fmt.Sprint("s", c.Gaps))
			}
		} else {
			if c.Codec != 0 {
				comp, uncomp, seq := dataChunks(enc)
				want := (c.P + c.W*c.M + block - 1) / block
				if comp+uncomp != want {
					t.Errorf("HARNESS-ERROR: expected %d data chunks for %+v, framing has %d+%d (the block size assumption is wrong)", want, c, comp, uncomp)
					return
				}
				r.Add("chunks_compressed", int64(comp))
				r.Add("chunks_uncompressed", int64(uncomp))
				if comp > 0 && uncomp > 0 {
					r.Add("lists_with_both_chunk_types", 1)
				}
				if strings.Contains(seq, "uc") {
					r.Add("lists_with_uncompressed_chunk_followed_by_compressed", 1)
				}
				if strings.Contains(seq, "ucc") || strings.Contains(seq, "ucu") {
					r.Add("lists_with_uncompressed_then_compressed_then_more_chunks", 1)
				}
				// which of the four (chunk type before, chunk type after) hand-overs of a cut varint are exercised
				for i, isCut := range cut {
					if isCut && i+1 < len(seq) {
						r.Add("cut_varint_carried_"+seq[i:i+1]+"_to_"+seq[i+1:i+2], 1)
					}
				}
			}
			if straddles > 0 {
				r.Nontrivial(fmt.Sprint("l", c.W, c.P, c.M, c.Pats))
				r.Add("lists_with_varint_cut_by_block_boundary", 1)
			}
		}

		// run decodes pl.val once more (every call is one more "cache hit" on the same bytes), executes the script in lock step
		// with the original list, and then requires the value and the memory around it to be untouched.
		run := func(pl *placed, mode int, s script) bool {
			pl.n++
			ctx := func() string {
				return fmt.Sprintf("list of %d refs, value = %s, decode #%d of the same bytes (entry point %d), script [%s]", len(list), pl.name, pl.n, mode, s)
			}
			var (
				derr error
				d    string
			)
			pan := guarded(func() {
				p, cl, err := store.VerifC12Decode(pl.val, mode)
				if err != nil {
					derr = err
					return
				}
				d = lockstep(p, index.NewListPostings(list), s)
				cl()
			})
			nScripts++
			if pl.n > 1 {
				nAgain++
			}
			ok := true
			// the bytes first: when a decode damaged them, that is the cause of whatever else is observed afterwards
			if inValue, dmg := pl.damage(); dmg != "" {
				sig := name + ":decode-writes-outside-the-encoded-bytes"
				if inValue {
					sig = name + ":encoded-bytes-modified-by-decode"
				}
				r.Violation(sig, ctx()+": after this decode "+dmg, c)
				ok = false
			}
			switch {
			case pan != "":
				r.Violation(name+":decode-panics", ctx()+": "+pan, c)
				ok = false
			case derr != nil:
				r.Violation(name+":decode-error", ctx()+": decode failed: "+derr.Error(), c)
				ok = false
			case d != "":
				sig := name + ":seek-differs"
				if s.k < 0 || s.abandon {
					sig = name + ":roundtrip-differs"
				}
				r.Violation(sig, ctx()+": "+d, c)
				ok = false
			}
			return ok
		}
		drain := script{k: -1}
		own := place(enc, placeEncoder, 0)

		if c.Hint == 1 {
			// the length hint only sizes buffers; when it does not change the encoded bytes the scripts of the hint-0 case apply
			// (the capacity of the returned slice does depend on it: that dimension is covered by the placements below)
			var (
				enc0 []byte
				err0 error
			)
			pan := guarded(func() { enc0, err0 = store.VerifC12Encode(c.Codec, index.NewListPostings(list), len(list)) })
			if pan == "" && err0 == nil && bytes.Equal(enc0, enc) {
				r.Add("hint0_cases_with_identical_bytes", 1)
				run(own, 0, drain)
				return
			}
			r.Add("hint0_cases_with_different_bytes", 1)
		}

		// full round trip through both decode entry points
		for mode := 0; mode < 2; mode++ {
			if !run(own, mode, drain) {
				return
			}
		}

		var idx, ks []int
		modes := []int{0} // decodePostings, the production entry point (the unpooled decoders differ only in where the buffer comes from)
		if c.Fam == "short" {
			for i := range list {
				idx = append(idx, i)
			}
			for k := 0; k <= len(list); k++ {
				ks = append(ks, k)
			}
		} else {
			idx = append(idx, 0, len(list)-1)
			ks = append(ks, 0)
			for _, b := range bIdx {
				idx = append(idx, b-1, b, b+1)
				for _, k := range []int{b - 1, b, b + 1} {
					if k >= 0 && k <= len(list) && !c.Lite {
						ks = append(ks, k)
					}
				}
			}
		}
		targets := targetsFor(list, idx)
		for _, mode := range modes {
			for _, k := range ks {
				if c.Fam == "long" && r.Expired("seek scripts of a long list cut short") {
					return
				}
				for _, t1 := range targets {
					if !run(own, mode, script{k: k, t1: t1}) {
						return
					}
					if !c.Seek2 {
						continue
					}
					for j := 0; j <= 1; j++ {
						for _, t2 := range targets {
							if !run(own, mode, script{k: k, t1: t1, second: true, j: j, t2: t2}) {
								return
							}
						}
					}
				}
			}
		}

		// The same value at other places in memory, each decoded repeatedly: a decoder may only read it. With cap == len
		// an append onto a sub-slice of the value reallocates unless it is followed by more of the value; with spare
		// capacity behind the value (guard bytes, more than one decoded chunk of them) it never does.
		trail := 256
		if c.Fam == "long" {
			trail = 2 * 65536
		}
		kAbandon := len(list) / 2 // read up to the middle, then drop the iterator
		if len(bIdx) > 0 && bIdx[0]+1 <= len(list) {
			kAbandon = bIdx[0] + 1 // just past the first block boundary
		}
		var last uint64
		if len(list) > 0 {
			last = uint64(list[len(list)-1])
		}
		for _, kind := range []int{placeExact, placeGuarded} {
			pl := place(enc, kind, trail)
			r.Add("placements", 1)
			history := []struct {
				mode int
				s    script
			}{
				{0, drain}, {0, drain}, {1, drain}, {0, script{k: kAbandon, abandon: true}}, {0, script{k: 0, t1: last}}, {0, drain},
			}
			for _, h := range history {
				if !run(pl, h.mode, h.s) {
					return
				}
			}
		}
	}) // cost accounting only (load independent, unlike the wall time)
	var ru syscall.Rusage
	if syscall.Getrusage(syscall.RUSAGE_SELF, &ru) == nil {
		r.Set("process_cpu_s", float64(ru.Utime.Sec+ru.Stime.Sec)+float64(ru.Utime.Usec+ru.Stime.Usec)/1e6)
	}
}
