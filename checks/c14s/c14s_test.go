// C14 (schedule part): the parallel sub-range fetch of the caching bucket is transparent on every schedule.
package c14s

import (
	"bytes"
	"context"
	"encoding/json"
	"errors"
	"fmt"
	"io"
	"sort"
	"strings"
	"testing"
	"time"

	"github.com/go-kit/log"
	"github.com/thanos-io/objstore"

	"github.com/thanos-io/thanos/pkg/cache"
	storecache "github.com/thanos-io/thanos/pkg/store/cache"

	"verif/vexplore"
	"verif/vlib"
	"verif/vsync"
)

const objName = "d/o"

type Params struct {
	Size   int   `json:"size"`
	SS     int   `json:"subrange"`
	MaxSub int   `json:"max_sub_requests"`
	Cached []int `json:"cached"` // sub-range indices already in the cache
	Off    int   `json:"off"`
	Len    int   `json:"len"`
	Fail   int   `json:"fail"` // the Fail-th underlying GetRange (1-based) fails; 0 = none
	Again  bool  `json:"again"` // a second concurrent reader of the same range
}

func (p Params) name() string { b, _ := json.Marshal(p); return string(b) }

type mapCache struct{ m map[string][]byte }

func (c *mapCache) Store(data map[string][]byte, _ time.Duration) {
	for k, v := range data {
		c.m[k] = append([]byte(nil), v...)
	}
}
func (c *mapCache) Fetch(_ context.Context, keys []string) map[string][]byte {
	out := map[string][]byte{}
	for _, k := range keys {
		if v, ok := c.m[k]; ok {
			out[k] = v
		}
	}
	return out
}
func (c *mapCache) Name() string { return "verif" }

// faulty makes every underlying GetRange a scheduling point and fails the n-th one.
type faulty struct {
	objstore.Bucket
	n, fail int
}

func (f *faulty) GetRange(ctx context.Context, name string, off, length int64) (io.ReadCloser, error) {
	vsync.Point("underlying-getrange")
	f.n++
	if f.n == f.fail {
		return nil, errors.New("injected transient failure")
	}
	return f.Bucket.GetRange(ctx, name, off, length)
}

func data(n int) []byte {
	d := make([]byte, n)
	for i := range d {
		d[i] = byte('A' + i)
	}
	return d
}

func scenario(p Params) *vexplore.Scenario {
	return &vexplore.Scenario{
		Name:     p.name(),
		MaxSteps: 5000,
		New: func() (func(e *vsync.Exec), func(), func(e *vsync.Exec) (string, string, string)) {
			under := objstore.NewInMemBucket()
			full := data(p.Size)
			_ = under.Upload(context.Background(), objName, bytes.NewReader(full))
			mc := &mapCache{m: map[string][]byte{}}
			fb := &faulty{Bucket: under, fail: p.Fail}
			cfg := cache.NewCachingBucketConfig()
			cfg.CacheGetRange("r", mc, func(string) bool { return true }, int64(p.SS), time.Hour, time.Hour, p.MaxSub)
			cb, err := storecache.NewCachingBucket(fb, cfg, log.NewNopLogger(), nil)
			if err != nil {
				panic(err)
			}
			// warm the attributes and the pre-cached sub-ranges sequentially (not under the scheduler)
			for _, i := range p.Cached {
				rc, err := cb.GetRange(context.Background(), objName, int64(i*p.SS), 1)
				if err == nil {
					_, _ = io.ReadAll(rc)
					rc.Close()
				}
			}
			if len(p.Cached) == 0 {
				if _, err := cb.Attributes(context.Background(), objName); err != nil {
					panic(err)
				}
			}
			fb.n = 0
			readers := 1
			if p.Again {
				readers = 2
			}
			results := make([]string, readers)
			var wrong []string
			want := func() []byte {
				end := p.Off + p.Len
				if end > p.Size {
					end = p.Size
				}
				if p.Off >= p.Size {
					return nil
				}
				return full[p.Off:end]
			}()
			body := func() {
				var hs []vsync.Handle
				for i := 0; i < readers; i++ {
					i := i
					hs = append(hs, vsync.Spawn(fmt.Sprintf("reader%d", i), func() {
						rc, err := cb.GetRange(context.Background(), objName, int64(p.Off), int64(p.Len))
						if err != nil {
							results[i] = "error"
							return
						}
						got, rerr := io.ReadAll(rc)
						rc.Close()
						switch {
						case rerr != nil:
							results[i] = "read-error"
						case bytes.Equal(got, want):
							results[i] = "ok"
						default:
							results[i] = "wrong"
							wrong = append(wrong, fmt.Sprintf("reader %d got %q want %q", i, got, want))
						}
					}))
				}
				for _, h := range hs {
					vsync.Join(h)
				}
			}
			check := func(e *vsync.Exec) (string, string, string) {
				var keys []string
				for k := range mc.m {
					keys = append(keys, k)
				}
				sort.Strings(keys)
				outcome := fmt.Sprintf("%s results=%v cached=%d", e.Outcome(), results, len(keys))
				switch {
				case len(e.Panics) > 0:
					return "panic", strings.Join(e.Panics, "; "), outcome
				case e.Deadlock:
					return "deadlock", e.DeadlockMsg, outcome
				case e.Horizon:
					return "step-horizon-exceeded", "", outcome
				case len(wrong) > 0:
					return "range-read-returns-wrong-bytes", strings.Join(wrong, "; "), outcome
				}
				if p.Fail == 0 {
					for i, r := range results {
						if r != "ok" {
							return "range-read-fails-without-underlying-failure", fmt.Sprintf("reader %d: %s", i, r), outcome
						}
					}
				}
				// what the read left in the cache must be the underlying bytes: a sequential read through the cache of the
				// whole object must be transparent
				rc, err := cb.GetRange(context.Background(), objName, 0, int64(p.Size))
				if err != nil {
					return "read-after-parallel-fetch-fails", err.Error(), outcome
				}
				got, rerr := io.ReadAll(rc)
				rc.Close()
				if rerr != nil || !bytes.Equal(got, full) {
					return "cache-poisoned-by-parallel-fetch", fmt.Sprintf("reading the whole object through the cache afterwards gives %q, %v (want %q); cache keys %v", got, rerr, full, keys), outcome
				}
				return "", "", outcome
			}
			return nil, body, check
		},
	}
}

func TestCheck(t *testing.T) {
	r := vlib.New(t, "C14")
	defer r.Finish()
	r.Rule("range reads missing 2-3 separate sub-ranges of a 10-11 byte object (sub-range size 3, MaxSubRequests 0/2), with none or one failing underlying sub-request, one or two concurrent readers; every interleaving of the errgroup workers; " +
		"distinct_nontrivial = distinct (scenario, reader results, number of cached entries) observations")
	ps := []Params{
		{Size: 10, SS: 3, MaxSub: 0, Cached: []int{1}, Off: 0, Len: 10},
		{Size: 10, SS: 3, MaxSub: 0, Cached: []int{1}, Off: 0, Len: 10, Fail: 2},
		{Size: 11, SS: 3, MaxSub: 2, Cached: []int{1}, Off: 1, Len: 9, Again: true},
	}
	if r.Thorough() {
		ps = append(ps,
			Params{Size: 11, SS: 3, MaxSub: 0, Cached: []int{1, 3}, Off: 0, Len: 11, Fail: 1},
			Params{Size: 10, SS: 3, MaxSub: 0, Cached: []int{1}, Off: 0, Len: 10, Fail: 1, Again: true},
			Params{Size: 12, SS: 3, MaxSub: 2, Cached: []int{1}, Off: 2, Len: 10, Again: true},
		)
	}
	var named []vexplore.Named
	for _, p := range ps {
		b := vlib.Pick(r, 3, -1)
		if p.Again {
			b = vlib.Pick(r, 2, 3) // two readers: the schedule tree is much larger
		}
		named = append(named, vexplore.Named{S: scenario(p), Params: p, Bound: b, UseBound: true})
	}
	vexplore.Drive(r, named, 2, func(c vexplore.Case) *vexplore.Scenario {
		var p Params
		if err := json.Unmarshal(c.Params, &p); err != nil {
			return nil
		}
		return scenario(p)
	})
}
