// C14: the caching bucket is transparent for immutable objects.
// Engine E3: explicit-state breadth-first search. A state is the content of the cache (set of key -> bytes entries).
// From the empty cache, every operation of the alphabet is executed on a fresh real CachingBucket whose cache holds exactly
// the state's entries; the answer is compared with the same operation on the underlying in-memory bucket and the cache
// content afterwards is the successor state. Environment transitions evict any single entry (a cache that loses entries),
// so the search reaches every subset of every reachable cache content. The search runs to closure for each configuration.
package c14

import (
	"bytes"
	"context"
	"fmt"
	"io"
	"iter"
	"sort"
	"strings"
	"sync"
	"testing"
	"time"

	"github.com/go-kit/log"
	"github.com/thanos-io/objstore"

	"github.com/thanos-io/thanos/pkg/cache"
	storecache "github.com/thanos-io/thanos/pkg/store/cache"

	"verif/vlib"
)

type Op struct {
	Kind    string `json:"kind"` // GetRange | Get | Exists | Attributes | Iter
	Missing bool   `json:"missing,omitempty"`
	Off     int64  `json:"off,omitempty"`
	Len     int64  `json:"len,omitempty"`
	Buf     int    `json:"buf,omitempty"`     // read buffer size
	Partial bool   `json:"partial,omitempty"` // Get: read one byte, then Close
	Rec     bool   `json:"rec,omitempty"`     // Iter: recursive
	Dir     string `json:"dir,omitempty"`
}

type Case struct {
	Size   int `json:"size"`    // size of the object d/o
	SS     int `json:"ss"`      // subrange size
	MaxSub int `json:"max_sub"` // MaxSubRequests
	MaxGet int `json:"max_get"` // MaxCacheableSize of Get
	// replay of a single transition:
	State map[string]string `json:"state,omitempty"` // cache entries (value as string of bytes)
	Op    *Op               `json:"op,omitempty"`
}

const (
	objName     = "d/o"
	otherName   = "d/p"
	missingName = "d/missing"
)

// ---- harness cache: its content is the explored state --------------------------------------------------------------

type memCache struct {
	mu sync.Mutex
	m  map[string][]byte
}

func newMemCache(st map[string]string) *memCache {
	c := &memCache{m: map[string][]byte{}}
	for k, v := range st {
		c.m[k] = []byte(v)
	}
	return c
}
func (c *memCache) Name() string { return "verif" }

// reset makes the cache hold exactly the entries of st.
func (c *memCache) reset(st map[string]string) {
	c.mu.Lock()
	defer c.mu.Unlock()
	c.m = make(map[string][]byte, len(st)+4)
	for k, v := range st {
		c.m[k] = []byte(v)
	}
}
func (c *memCache) Store(data map[string][]byte, _ time.Duration) {
	c.mu.Lock()
	defer c.mu.Unlock()
	for k, v := range data {
		b := make([]byte, len(v))
		copy(b, v)
		c.m[k] = b
	}
}
func (c *memCache) Fetch(_ context.Context, keys []string) map[string][]byte {
	c.mu.Lock()
	defer c.mu.Unlock()
	out := map[string][]byte{}
	for _, k := range keys {
		if v, ok := c.m[k]; ok {
			b := make([]byte, len(v))
			copy(b, v)
			out[k] = b
		}
	}
	return out
}
func (c *memCache) snapshot() map[string]string {
	c.mu.Lock()
	defer c.mu.Unlock()
	out := make(map[string]string, len(c.m))
	for k, v := range c.m {
		out[k] = string(v)
	}
	return out
}

func stateKey(st map[string]string) string {
	ks := make([]string, 0, len(st))
	for k := range st {
		ks = append(ks, k)
	}
	sort.Strings(ks)
	var sb strings.Builder
	for _, k := range ks {
		sb.WriteString(k)
		sb.WriteByte('=')
		sb.WriteString(st[k])
		sb.WriteByte(';')
	}
	return sb.String()
}

// ---- the system under test -----------------------------------------------------------------------------------------

func newUnderlying(c Case) (*objstore.InMemBucket, error) {
	b := objstore.NewInMemBucket()
	data := make([]byte, c.Size)
	for i := range data {
		data[i] = byte('A' + i)
	}
	if err := b.Upload(context.Background(), objName, bytes.NewReader(data)); err != nil {
		return nil, err
	}
	return b, b.Upload(context.Background(), otherName, bytes.NewReader([]byte("x")))
}

func newCaching(c Case, under objstore.Bucket, mc cache.Cache) (*storecache.CachingBucket, error) {
	all := func(string) bool { return true }
	cfg := cache.NewCachingBucketConfig()
	const ttl = 24 * time.Hour
	cfg.CacheGetRange("r", mc, all, int64(c.SS), ttl, ttl, c.MaxSub)
	cfg.CacheGet("g", mc, all, c.MaxGet, ttl, ttl, ttl)
	cfg.CacheExists("e", mc, all, ttl, ttl)
	cfg.CacheAttributes("a", mc, all, ttl)
	cfg.CacheIter("i", mc, all, ttl, storecache.JSONIterCodec{}, "h")
	return storecache.NewCachingBucket(under, cfg, log.NewNopLogger(), nil)
}

func readAll(r io.Reader, buf int) ([]byte, error) {
	var out []byte
	p := make([]byte, buf)
	for {
		n, err := r.Read(p)
		out = append(out, p[:n]...)
		if err == io.EOF {
			return out, nil
		}
		if err != nil {
			return out, err
		}
		if len(out) > 1000 {
			return out, fmt.Errorf("reader does not terminate")
		}
	}
}

// run executes op on b and renders the observable answer. Panics are part of the answer.
func run(b objstore.Bucket, op Op) (answer string) {
	defer func() {
		if p := recover(); p != nil {
			answer = fmt.Sprintf("PANIC: %v", p)
		}
	}()
	ctx := context.Background()
	name := objName
	if op.Missing {
		name = missingName
	}
	errClass := func(err error) string {
		if b.IsObjNotFoundErr(err) {
			return "error(object not found)"
		}
		return "error(other)"
	}
	switch op.Kind {
	case "GetRange", "Get":
		var rc io.ReadCloser
		var err error
		if op.Kind == "Get" {
			rc, err = b.Get(ctx, name)
		} else {
			rc, err = b.GetRange(ctx, name, op.Off, op.Len)
		}
		if err != nil {
			return errClass(err)
		}
		if op.Partial {
			p := make([]byte, 1)
			n, _ := rc.Read(p)
			_ = rc.Close()
			return fmt.Sprintf("first byte %q", p[:n])
		}
		data, err := readAll(rc, op.Buf)
		cerr := rc.Close()
		if err != nil {
			return fmt.Sprintf("bytes %q then read error", data)
		}
		if cerr != nil {
			return fmt.Sprintf("bytes %q then close error", data)
		}
		return fmt.Sprintf("bytes %q", data)
	case "Exists":
		ok, err := b.Exists(ctx, name)
		if err != nil {
			return errClass(err)
		}
		return fmt.Sprint("exists=", ok)
	case "Attributes":
		a, err := b.Attributes(ctx, name)
		if err != nil {
			return errClass(err)
		}
		return fmt.Sprintf("size=%d modified=%d", a.Size, a.LastModified.UnixNano())
	case "Iter":
		var list []string
		var opts []objstore.IterOption
		if op.Rec {
			opts = append(opts, objstore.WithRecursiveIter())
		}
		if err := b.Iter(ctx, op.Dir, func(s string) error { list = append(list, s); return nil }, opts...); err != nil {
			return errClass(err)
		}
		return fmt.Sprintf("list %q", list)
	}
	return "?"
}

func ops(c Case, thorough bool) []Op {
	var out []Op
	// offsets up to the first one that lies a whole subrange past the (rounded-up) end of the object
	maxOff := int64((c.Size+c.SS-1)/c.SS*c.SS + c.SS)
	for off := int64(0); off <= maxOff; off++ {
		for l := int64(1); l <= int64(c.Size+2); l++ {
			for _, buf := range []int{1, 512} {
				if off > int64(c.Size) && (buf == 1 || (l != 1 && l != int64(c.Size+2))) {
					continue // past the end there is nothing to read: two lengths, one buffer size
				}
				out = append(out, Op{Kind: "GetRange", Off: off, Len: l, Buf: buf})
			}
		}
	}
	out = append(out,
		Op{Kind: "GetRange", Off: 0, Len: -1, Buf: 512},  // pass-through forms
		Op{Kind: "GetRange", Off: 1, Len: 0, Buf: 512},
		Op{Kind: "GetRange", Off: -1, Len: 1, Buf: 512},
		Op{Kind: "GetRange", Missing: true, Off: 0, Len: 1, Buf: 512},
		Op{Kind: "Get", Buf: 512}, Op{Kind: "Get", Buf: 1}, Op{Kind: "Get", Partial: true},
		Op{Kind: "Get", Missing: true, Buf: 512},
		Op{Kind: "Exists"}, Op{Kind: "Exists", Missing: true},
		Op{Kind: "Attributes"}, Op{Kind: "Attributes", Missing: true},
		Op{Kind: "Iter", Dir: ""}, Op{Kind: "Iter", Dir: "", Rec: true},
	)
	if thorough {
		out = append(out, Op{Kind: "Iter", Dir: "d/"}) // one more independent cache entry: doubles the state space
	}
	return out
}

func gen(r *vlib.R) iter.Seq[Case] {
	maxSize := vlib.Pick(r, 5, 7)
	maxSS := vlib.Pick(r, 3, 4)
	maxSub := vlib.Pick(r, 2, 3)
	return func(yield func(Case) bool) {
		for size := 0; size <= maxSize; size++ {
			for ss := 1; ss <= maxSS; ss++ {
				nsub := (size + ss - 1) / ss
				for ms := 0; ms <= maxSub; ms++ {
					if !r.Thorough() && ms > 0 && (nsub+1)/2 <= ms {
						continue // quick: a limit that no set of missing subranges of this object can exceed
					}
					if !yield(Case{Size: size, SS: ss, MaxSub: ms, MaxGet: 100}) {
						return
					}
				}
				if r.Thorough() || ss == 1 { // MaxCacheableSize below the object size (Get does not depend on the subrange size)
					if !yield(Case{Size: size, SS: ss, MaxSub: 0, MaxGet: 2}) {
						return
					}
				}
			}
		}
	}
}

func classify(op Op, c Case, want, got string) string {
	switch {
	case strings.HasPrefix(got, "PANIC"):
		if op.Kind == "GetRange" && op.Off > int64(c.Size) {
			return "GetRange:panic-when-offset-is-past-the-object-end"
		}
		return op.Kind + ":panic"
	case strings.HasPrefix(got, "error") != strings.HasPrefix(want, "error"):
		return op.Kind + ":error-instead-of-answer-or-vice-versa"
	case strings.HasPrefix(got, "error"):
		return op.Kind + ":error-class-differs"
	case strings.Contains(got, "then read error"):
		return op.Kind + ":read-fails-midway"
	}
	return op.Kind + ":answer-differs"
}

func TestCheck(t *testing.T) {
	r := vlib.New(t, "C14")
	defer r.Finish()
	r.Rule("per configuration (object size, subrange size, MaxSubRequests, MaxCacheableSize): BFS to closure over cache contents; operations = GetRange(off 0..roundup(size,ss)+ss, " +
		"len 1..size+2, read buffer 1|512) + pass-through GetRange forms + Get (full with buffer 1|512, partial) + Exists + Attributes on the existing and a missing object + " +
		"Iter (root, root recursive; thorough also a directory); environment = evict any one entry; non-trivial = distinct (configuration, state) with at least one but not all sub-ranges " +
		"of the object cached (partial hits); states/transitions/traces are counted by the search")
	r.Assume("Objects never change; the underlying bucket is objstore.InMemBucket; one cache instance serves all operation configs (as SetCacheImplementation does); TTLs are 24h and the "+
		"harness cache ignores them (loss of entries is modelled by the eviction transitions).",
		"An answer is: error class (nil / object-not-found per the bucket's own IsObjNotFoundErr / other), the bytes read until EOF, the boolean, (size, last-modified), or the listing.")

	vlib.ForEach(r, gen(r), func(c Case) {
		under, err := newUnderlying(c)
		if err != nil {
			t.Errorf("HARNESS-ERROR %v", err)
			return
		}
		mc := newMemCache(nil)
		cb, err := newCaching(c, under, mc) // the CachingBucket keeps no state of its own besides metrics: one instance per configuration
		if err != nil {
			t.Errorf("HARNESS-ERROR %v", err)
			return
		}
		wantOf := map[Op]string{} // the underlying bucket's answer does not depend on the cache
		step := func(st map[string]string, op Op) (map[string]string, string, string) {
			mc.reset(st)
			got := run(cb, op)
			want, ok := wantOf[op]
			if !ok {
				want = run(under, op)
				wantOf[op] = want
			}
			return mc.snapshot(), want, got
		}
		check := func(st map[string]string, op Op, want, got string) {
			if want == got {
				return
			}
			vc := c
			vc.State, vc.Op = st, &op
			if vc.State == nil {
				vc.State = map[string]string{}
			}
			r.Violation(classify(op, c, want, got), fmt.Sprintf("object size %d, subrange size %d, MaxSubRequests %d, MaxCacheableSize %d, cache content {%s}: %+v answered %s, the underlying bucket answers %s",
				c.Size, c.SS, c.MaxSub, c.MaxGet, stateKey(st), op, got, want), vc)
		}
		if c.Op != nil { // replay of one transition
			_, want, got := step(c.State, *c.Op)
			r.AddTransitions(1)
			r.AddTraces(1)
			check(c.State, *c.Op, want, got)
			return
		}
		r.Sample(c)
		all := ops(c, r.Thorough())
		nsub := (c.Size + c.SS - 1) / c.SS
		type node struct {
			st    map[string]string
			depth int
		}
		seen := map[string]struct{}{stateKey(nil): {}}
		queue := []node{{st: map[string]string{}, depth: 0}}
		var states, trans, traces int64 = 1, 0, 0
		push := func(st map[string]string, d int) {
			k := stateKey(st)
			if _, ok := seen[k]; ok {
				return
			}
			seen[k] = struct{}{}
			states++
			queue = append(queue, node{st, d})
			r.Depth(d)
		}
		for len(queue) > 0 {
			n := queue[0]
			queue = queue[1:]
			if r.Expired("BFS of a configuration cut short") {
				break
			}
			cached := 0
			for k := range n.st {
				if strings.HasPrefix(k, "subrange:") {
					cached++
				}
			}
			if cached > 0 && cached < nsub {
				r.Nontrivial(fmt.Sprint(c.Size, c.SS, c.MaxSub, c.MaxGet, stateKey(n.st)))
			}
			for _, op := range all {
				next, want, got := step(n.st, op)
				trans++
				traces++
				check(n.st, op, want, got)
				push(next, n.depth+1)
			}
			for k := range n.st { // the cache loses one entry
				next := make(map[string]string, len(n.st)-1)
				for k2, v := range n.st {
					if k2 != k {
						next[k2] = v
					}
				}
				trans++
				push(next, n.depth+1)
			}
		}
		r.AddStates(states)
		r.AddTransitions(trans)
		r.AddTraces(traces)
	})
}
