// C14: the caching bucket is transparent for immutable objects.
// Engine E3: explicit-state breadth-first search. A state is the content of the cache (set of key -> bytes entries).
// From the empty cache, every operation of the alphabet is executed on a fresh real CachingBucket whose cache holds exactly
// the state's entries; the answer is compared with the same operation on the underlying in-memory bucket and the cache
// content afterwards is the successor state. Environment transitions evict any single entry (a cache that loses entries),
// so the search reaches every subset of every reachable cache content. The search runs to closure for each configuration.
// The readers handed out by the underlying bucket (Get, GetRange) are a dimension of every transition that opens one: the
// same bytes are delivered in every legal io.Reader manner (all at once or in pieces, io.EOF on its own or together with the
// last bytes, (0, nil) reads in between).
package c14

import (
	"bytes"
	"context"
	"fmt"
	"io"
	"iter"
	"runtime"
	"sort"
	"strconv"
	"strings"
	"sync"
	"sync/atomic"
	"testing"
	"time"

	"github.com/go-kit/log"
	"github.com/thanos-io/objstore"

	"github.com/thanos-io/thanos/pkg/cache"
	storecache "github.com/thanos-io/thanos/pkg/store/cache"

	"verif/vlib"
)

type Op struct {
	Kind    string `json:"kind"` // GetRange | Get | Exists | Attributes | Iter
	Missing bool   `json:"missing,omitempty"`
	Off     int64  `json:"off,omitempty"`
	Len     int64  `json:"len,omitempty"`
	Buf     int    `json:"buf,omitempty"`     // read buffer size
	Partial bool   `json:"partial,omitempty"` // Get: read one byte, then Close
	Rec     bool   `json:"rec,omitempty"`     // Iter: recursive
	Dir     string `json:"dir,omitempty"`
	// Rd: how the readers of the underlying bucket deliver their bytes during this operation (see shapes).
	Rd string `json:"rd,omitempty"`
}

func (o Op) String() string {
	s := o.Kind
	switch o.Kind {
	case "evict":
		return "evict " + o.Dir
	case "GetRange":
		s += fmt.Sprintf("(off %d, len %d, read buffer %d)", o.Off, o.Len, o.Buf)
	case "Get":
		if o.Partial {
			s += "(one byte, then Close)"
		} else {
			s += fmt.Sprintf("(read buffer %d)", o.Buf)
		}
	case "Iter":
		s += fmt.Sprintf("(%q, recursive %v)", o.Dir, o.Rec)
	}
	if o.Missing {
		s += " of the missing object"
	}
	if o.Rd != "" {
		s += " with underlying readers delivering " + strconv.Quote(o.Rd)
	}
	return s
}

type Case struct {
	Size   int `json:"size"`    // size of the object d/o
	SS     int `json:"ss"`      // subrange size
	MaxSub int `json:"max_sub"` // MaxSubRequests
	MaxGet int `json:"max_get"` // MaxCacheableSize of Get
	// replay of a single transition:
	State map[string]string `json:"state,omitempty"` // cache entries (value as string of bytes)
	Op    *Op               `json:"op,omitempty"`
}

const (
	objName     = "d/o"
	otherName   = "d/p"
	missingName = "d/missing"
)

// ---- harness cache: its content is the explored state --------------------------------------------------------------

type memCache struct {
	mu    sync.Mutex
	base  map[string]string // the state the operation started from (never modified)
	added map[string][]byte // entries stored since, that differ from base
}

func newMemCache(st map[string]string) *memCache {
	return &memCache{base: st, added: map[string][]byte{}}
}
func (c *memCache) Name() string { return "verif" }

// reset makes the cache hold exactly the entries of st.
func (c *memCache) reset(st map[string]string) {
	c.mu.Lock()
	defer c.mu.Unlock()
	c.base = st
	if len(c.added) > 0 {
		c.added = map[string][]byte{}
	}
}
func (c *memCache) Store(data map[string][]byte, _ time.Duration) {
	c.mu.Lock()
	defer c.mu.Unlock()
	for k, v := range data {
		if old, ok := c.base[k]; ok && old == string(v) {
			delete(c.added, k)
			continue
		}
		b := make([]byte, len(v))
		copy(b, v)
		c.added[k] = b
	}
}
func (c *memCache) Fetch(_ context.Context, keys []string) map[string][]byte {
	c.mu.Lock()
	defer c.mu.Unlock()
	out := map[string][]byte{}
	for _, k := range keys {
		if v, ok := c.added[k]; ok {
			b := make([]byte, len(v))
			copy(b, v)
			out[k] = b
		} else if v, ok := c.base[k]; ok {
			out[k] = []byte(v)
		}
	}
	return out
}

// changed reports whether the content differs from the state given to reset.
func (c *memCache) changed() bool {
	c.mu.Lock()
	defer c.mu.Unlock()
	return len(c.added) > 0
}
func (c *memCache) snapshot() map[string]string {
	c.mu.Lock()
	defer c.mu.Unlock()
	out := make(map[string]string, len(c.base)+len(c.added))
	for k, v := range c.base {
		out[k] = v
	}
	for k, v := range c.added {
		out[k] = string(v)
	}
	return out
}

func stateKey(st map[string]string) string {
	ks := make([]string, 0, len(st))
	for k := range st {
		ks = append(ks, k)
	}
	sort.Strings(ks)
	var sb strings.Builder
	for _, k := range ks {
		sb.WriteString(k)
		sb.WriteByte('=')
		sb.WriteString(st[k])
		sb.WriteByte(';')
	}
	return sb.String()
}

// ---- the system under test -----------------------------------------------------------------------------------------

func newUnderlying(c Case) (*objstore.InMemBucket, error) {
	b := objstore.NewInMemBucket()
	data := make([]byte, c.Size)
	for i := range data {
		data[i] = byte('A' + i)
	}
	if err := b.Upload(context.Background(), objName, bytes.NewReader(data)); err != nil {
		return nil, err
	}
	return b, b.Upload(context.Background(), otherName, bytes.NewReader([]byte("x")))
}

// ---- read behaviour of the underlying bucket's readers ---------------------------------------------------------------

// A shape is one legal way (io.Reader contract) in which a reader delivers a fixed byte string.
type shape struct {
	piece   int  // bytes per Read: 0 = as many as fit into p, 1 = one, 2 = half of len(p) rounded up (testing/iotest.HalfReader)
	eofData bool // io.EOF is returned by the Read that delivers the last bytes (testing/iotest.DataErrReader), not by an extra Read
	stutter bool // every other Read returns (0, nil): "nothing happened", legal although discouraged
}

// "" is the reader of objstore.InMemBucket itself (bytes.Reader: everything that fits, then (0, io.EOF)).
var shapes = map[string]shape{
	"all+eof":      {piece: 0, eofData: true},
	"1":            {piece: 1},
	"1+eof":        {piece: 1, eofData: true},
	"half":         {piece: 2},
	"stutter1+eof": {piece: 1, eofData: true, stutter: true},
}

func shapeNames(thorough bool) []string {
	if thorough {
		return []string{"all+eof", "1", "1+eof", "half", "stutter1+eof"}
	}
	return []string{"all+eof", "1", "1+eof"} // with "": {everything that fits, one byte} x {separate io.EOF, attached io.EOF}
}

type shapedReader struct {
	data    []byte
	pos     int
	sh      shape
	idle    bool // the previous Read returned (0, nil)
	dataEOF *atomic.Int64
	closer  io.Closer
}

func (s *shapedReader) Read(p []byte) (int, error) {
	if len(p) == 0 {
		return 0, nil
	}
	if s.sh.stutter {
		if s.idle = !s.idle; s.idle {
			return 0, nil
		}
	}
	if s.pos >= len(s.data) {
		return 0, io.EOF
	}
	n := len(p)
	switch s.sh.piece {
	case 1:
		n = 1
	case 2:
		n = (len(p) + 1) / 2
	}
	n = copy(p[:n], s.data[s.pos:])
	s.pos += n
	if s.sh.eofData && s.pos == len(s.data) {
		s.dataEOF.Add(1)
		return n, io.EOF
	}
	return n, nil
}
func (s *shapedReader) Close() error { return s.closer.Close() }

// shapedBucket is the underlying bucket as the caching bucket sees it: the in-memory bucket whose readers deliver their
// (unchanged) bytes in the manner selected by rd. It counts the readers it hands out.
type shapedBucket struct {
	objstore.Bucket
	rd      string
	opened  atomic.Int64
	dataEOF atomic.Int64 // Reads that returned n > 0 together with io.EOF
}

func (b *shapedBucket) wrap(rc io.ReadCloser, err error) (io.ReadCloser, error) {
	if err != nil {
		return rc, err
	}
	b.opened.Add(1)
	if b.rd == "" {
		return rc, nil
	}
	sh, ok := shapes[b.rd]
	if !ok {
		panic("HARNESS-ERROR unknown read behaviour " + b.rd)
	}
	data, rerr := io.ReadAll(rc)
	if rerr != nil {
		panic("HARNESS-ERROR in-memory reader failed: " + rerr.Error())
	}
	return &shapedReader{data: data, sh: sh, dataEOF: &b.dataEOF, closer: rc}, nil
}
func (b *shapedBucket) Get(ctx context.Context, name string) (io.ReadCloser, error) {
	return b.wrap(b.Bucket.Get(ctx, name))
}
func (b *shapedBucket) GetRange(ctx context.Context, name string, off, length int64) (io.ReadCloser, error) {
	return b.wrap(b.Bucket.GetRange(ctx, name, off, length))
}

func newCaching(c Case, under objstore.Bucket, mc cache.Cache) (*storecache.CachingBucket, error) {
	all := func(string) bool { return true }
	cfg := cache.NewCachingBucketConfig()
	const ttl = 24 * time.Hour
	cfg.CacheGetRange("r", mc, all, int64(c.SS), ttl, ttl, c.MaxSub)
	cfg.CacheGet("g", mc, all, c.MaxGet, ttl, ttl, ttl)
	cfg.CacheExists("e", mc, all, ttl, ttl)
	cfg.CacheAttributes("a", mc, all, ttl)
	cfg.CacheIter("i", mc, all, ttl, storecache.JSONIterCodec{}, "h")
	return storecache.NewCachingBucket(under, cfg, log.NewNopLogger(), nil)
}

func readAll(r io.Reader, buf int) ([]byte, error) {
	var out []byte
	p := make([]byte, buf)
	for reads := 0; ; reads++ {
		if reads > 5000 {
			return out, fmt.Errorf("reader does not terminate")
		}
		n, err := r.Read(p)
		out = append(out, p[:n]...)
		if err == io.EOF {
			return out, nil
		}
		if err != nil {
			return out, err
		}
		if len(out) > 1000 {
			return out, fmt.Errorf("reader does not terminate")
		}
	}
}

// run executes op on b and renders the observable answer. Panics are part of the answer.
func run(b objstore.Bucket, op Op) (answer string) {
	defer func() {
		if p := recover(); p != nil {
			answer = fmt.Sprintf("PANIC: %v", p)
		}
	}()
	ctx := context.Background()
	name := objName
	if op.Missing {
		name = missingName
	}
	errClass := func(err error) string {
		if b.IsObjNotFoundErr(err) {
			return "error(object not found)"
		}
		return "error(other)"
	}
	switch op.Kind {
	case "GetRange", "Get":
		var rc io.ReadCloser
		var err error
		if op.Kind == "Get" {
			rc, err = b.Get(ctx, name)
		} else {
			rc, err = b.GetRange(ctx, name, op.Off, op.Len)
		}
		if err != nil {
			return errClass(err)
		}
		if op.Partial {
			p := make([]byte, 1)
			n, err := rc.Read(p)
			for reads := 0; n == 0 && err == nil && reads < 5000; reads++ { // (0, nil) means nothing happened
				n, err = rc.Read(p)
			}
			_ = rc.Close()
			return fmt.Sprintf("first byte %q", p[:n])
		}
		data, err := readAll(rc, op.Buf)
		cerr := rc.Close()
		if err != nil {
			return fmt.Sprintf("bytes %q then read error", data)
		}
		if cerr != nil {
			return fmt.Sprintf("bytes %q then close error", data)
		}
		return fmt.Sprintf("bytes %q", data)
	case "Exists":
		ok, err := b.Exists(ctx, name)
		if err != nil {
			return errClass(err)
		}
		return fmt.Sprint("exists=", ok)
	case "Attributes":
		a, err := b.Attributes(ctx, name)
		if err != nil {
			return errClass(err)
		}
		return fmt.Sprintf("size=%d modified=%d", a.Size, a.LastModified.UnixNano())
	case "Iter":
		var list []string
		var opts []objstore.IterOption
		if op.Rec {
			opts = append(opts, objstore.WithRecursiveIter())
		}
		if err := b.Iter(ctx, op.Dir, func(s string) error { list = append(list, s); return nil }, opts...); err != nil {
			return errClass(err)
		}
		return fmt.Sprintf("list %q", list)
	}
	return "?"
}

func ops(c Case, thorough bool) []Op {
	var out []Op
	// offsets up to the first one that lies a whole subrange past the (rounded-up) end of the object
	maxOff := int64((c.Size+c.SS-1)/c.SS*c.SS + c.SS)
	for off := int64(0); off <= maxOff; off++ {
		for l := int64(1); l <= int64(c.Size+2); l++ {
			for _, buf := range []int{1, 512} {
				if off > int64(c.Size) && (buf == 1 || (l != 1 && l != int64(c.Size+2))) {
					continue // past the end there is nothing to read: two lengths, one buffer size
				}
				out = append(out, Op{Kind: "GetRange", Off: off, Len: l, Buf: buf})
			}
		}
	}
	out = append(out,
		Op{Kind: "GetRange", Off: 0, Len: -1, Buf: 512}, // pass-through forms
		Op{Kind: "GetRange", Off: 1, Len: 0, Buf: 512},
		Op{Kind: "GetRange", Off: -1, Len: 1, Buf: 512},
		Op{Kind: "GetRange", Missing: true, Off: 0, Len: 1, Buf: 512},
		Op{Kind: "Get", Buf: 512}, Op{Kind: "Get", Buf: 1}, Op{Kind: "Get", Partial: true},
		Op{Kind: "Get", Missing: true, Buf: 512},
		Op{Kind: "Exists"}, Op{Kind: "Exists", Missing: true},
		Op{Kind: "Attributes"}, Op{Kind: "Attributes", Missing: true},
		Op{Kind: "Iter", Dir: ""}, Op{Kind: "Iter", Dir: "", Rec: true},
	)
	if thorough {
		out = append(out, Op{Kind: "Iter", Dir: "d/"}) // one more independent cache entry: doubles the state space
	}
	return out
}

func gen(r *vlib.R) iter.Seq[Case] {
	maxSize := vlib.Pick(r, 5, 7)
	maxSS := vlib.Pick(r, 3, 4)
	maxSub := vlib.Pick(r, 2, 3)
	return func(yield func(Case) bool) {
		for size := 0; size <= maxSize; size++ {
			for ss := 1; ss <= maxSS; ss++ {
				nsub := (size + ss - 1) / ss
				for ms := 0; ms <= maxSub; ms++ {
					if !r.Thorough() && ms > 0 && (nsub+1)/2 <= ms {
						continue // quick: a limit that no set of missing subranges of this object can exceed
					}
					if !yield(Case{Size: size, SS: ss, MaxSub: ms, MaxGet: 100}) {
						return
					}
				}
				if r.Thorough() || ss == 1 { // MaxCacheableSize below the object size (Get does not depend on the subrange size)
					if !yield(Case{Size: size, SS: ss, MaxSub: 0, MaxGet: 2}) {
						return
					}
				}
			}
		}
	}
}

func classify(op Op, c Case, want, got string) string {
	switch {
	case strings.HasPrefix(got, "PANIC"):
		if op.Kind == "GetRange" && op.Off > int64(c.Size) {
			return "GetRange:panic-when-offset-is-past-the-object-end"
		}
		return op.Kind + ":panic"
	case strings.HasPrefix(got, "error") != strings.HasPrefix(want, "error"):
		return op.Kind + ":error-instead-of-answer-or-vice-versa"
	case strings.HasPrefix(got, "error"):
		return op.Kind + ":error-class-differs"
	case strings.Contains(got, "then read error"):
		return op.Kind + ":read-fails-midway"
	}
	return op.Kind + ":answer-differs"
}

// rig is one worker's private instance of the system under test for a configuration.
type rig struct {
	inmem  *objstore.InMemBucket
	under  *shapedBucket
	mc     *memCache
	cb     *storecache.CachingBucket
	wantOf map[Op]string // the underlying bucket's answer depends neither on the cache nor on the read behaviour
}

// All rigs of a configuration share the (read-only) in-memory bucket: its objects carry their upload time as last-modified.
func newRig(c Case, inmem *objstore.InMemBucket) (*rig, error) {
	var err error
	g := &rig{inmem: inmem, under: &shapedBucket{Bucket: inmem}, mc: newMemCache(nil), wantOf: map[Op]string{}}
	// the CachingBucket keeps no state of its own besides metrics: one instance per worker and configuration
	g.cb, err = newCaching(c, g.under, g.mc)
	return g, err
}

// step runs op (with the read behaviour op.Rd) on a cache holding exactly st. next = the cache content afterwards, nil when it
// is still st; opened = number of readers the caching bucket obtained from the underlying bucket.
func (g *rig) step(st map[string]string, op Op) (next map[string]string, want, got string, opened int64) {
	g.mc.reset(st)
	g.under.rd = op.Rd
	g.under.opened.Store(0)
	got = run(g.cb, op)
	plain := op
	plain.Rd = ""
	want, ok := g.wantOf[plain]
	if !ok {
		want = run(g.inmem, plain)
		g.wantOf[plain] = want
	}
	if g.mc.changed() {
		next = g.mc.snapshot()
	}
	return next, want, got, g.under.opened.Load()
}

func TestCheck(t *testing.T) {
	r := vlib.New(t, "C14")
	defer r.Finish()
	r.Rule("per configuration (object size, subrange size, MaxSubRequests, MaxCacheableSize): BFS to closure over cache contents; operations = GetRange(off 0..roundup(size,ss)+ss, " +
		"len 1..size+2, read buffer 1|512) + pass-through GetRange forms + Get (full with buffer 1|512, partial) + Exists + Attributes on the existing and a missing object + " +
		"Iter (root, root recursive; thorough also a directory); every transition in which the caching bucket opens a reader of the underlying bucket is executed once per read " +
		"behaviour of those readers ({everything that fits per Read (bytes.Reader as is), one byte per Read} x {io.EOF from an extra Read, io.EOF together with the last bytes}; " +
		"thorough also half of the buffer per Read, and one byte per Read with attached io.EOF and a (0,nil) Read before every piece); environment = evict any one entry; non-trivial = distinct (configuration, state) with at least one but not all " +
		"sub-ranges of the object cached (partial hits); states/transitions/traces are counted by the search")
	r.Assume("Objects never change; the underlying bucket is objstore.InMemBucket behind a wrapper that only changes HOW its readers deliver the same bytes (piece sizes, position of io.EOF, "+
		"(0,nil) reads - all legal per the io.Reader contract); one cache instance serves all operation configs (as SetCacheImplementation does); TTLs are 24h and the "+
		"harness cache ignores them (loss of entries is modelled by the eviction transitions).",
		"An answer is: error class (nil / object-not-found per the bucket's own IsObjNotFoundErr / other), the bytes read until EOF, the boolean, (size, last-modified), or the listing.",
		"A transition during which the caching bucket opens no reader of the underlying bucket cannot depend on the read behaviour; it is executed once (the caching bucket is deterministic "+
			"up to the order in which its parallel sub-requests finish).")

	vlib.ForEach(r, gen(r), func(c Case) {
		check := func(st map[string]string, via func() string, op Op, want, got string) {
			if want == got {
				return
			}
			vc := c
			vc.State, vc.Op = st, &op
			if vc.State == nil {
				vc.State = map[string]string{}
			}
			rd := op.Rd
			if rd == "" {
				rd = "bytes.Reader"
			}
			r.Violation(classify(op, c, want, got), fmt.Sprintf("object size %d, subrange size %d, MaxSubRequests %d, MaxCacheableSize %d, cache content {%s}%s, underlying readers deliver %q: %v answered %s, the underlying bucket answers %s",
				c.Size, c.SS, c.MaxSub, c.MaxGet, stateKey(st), via(), rd, op, got, want), vc)
		}
		inmem, err := newUnderlying(c)
		if err != nil {
			t.Errorf("HARNESS-ERROR %v", err)
			return
		}
		if c.Op != nil { // replay of one transition
			g, err := newRig(c, inmem)
			if err != nil {
				t.Errorf("HARNESS-ERROR %v", err)
				return
			}
			_, want, got, _ := g.step(c.State, *c.Op)
			r.AddTransitions(1)
			r.AddTraces(1)
			check(c.State, func() string { return "" }, *c.Op, want, got)
			return
		}
		r.Sample(c)
		all := ops(c, r.Thorough())
		rds := shapeNames(r.Thorough())
		nsub := (c.Size + c.SS - 1) / c.SS
		type node struct {
			key string
			st  map[string]string
		}
		type parent struct { // how a state was first reached
			from string // key of a predecessor state
			by   Op     // the operation executed there (Kind "evict": the cache lost the entry Dir)
		}
		var mu sync.Mutex // seen, next
		seen := map[string]parent{stateKey(nil): {}}
		frontier := []node{{key: stateKey(nil), st: map[string]string{}}}
		var next []node
		var states, trans, traces, shaped, indep, dataEOF atomic.Int64
		states.Store(1)
		push := func(st map[string]string, from string, by Op) {
			if st == nil { // the operation left the cache as it was
				return
			}
			k := stateKey(st)
			mu.Lock()
			if _, ok := seen[k]; !ok {
				seen[k] = parent{from, by}
				next = append(next, node{k, st})
			}
			mu.Unlock()
		}
		history := func(k string) string { // the operations that led from the empty cache to state k
			mu.Lock()
			defer mu.Unlock()
			var hist []string
			for p := seen[k]; p.by.Kind != "" && len(hist) < 64; p = seen[p.from] {
				hist = append(hist, p.by.String())
			}
			if len(hist) == 0 {
				return ""
			}
			for i, j := 0, len(hist)-1; i < j; i, j = i+1, j-1 {
				hist[i], hist[j] = hist[j], hist[i]
			}
			return " (reached from the empty cache by " + strings.Join(hist, "; ") + ")"
		}
		expand := func(g *rig, n node) {
			cached := 0
			for k := range n.st {
				if strings.HasPrefix(k, "subrange:") {
					cached++
				}
			}
			if cached > 0 && cached < nsub {
				r.Nontrivial(fmt.Sprint(c.Size, c.SS, c.MaxSub, c.MaxGet, n.key))
			}
			via := func() string { return history(n.key) }
			for _, op := range all {
				nx, want, got, opened := g.step(n.st, op)
				trans.Add(1)
				traces.Add(1)
				check(n.st, via, op, want, got)
				push(nx, n.key, op)
				if opened == 0 {
					indep.Add(1)
					continue
				}
				for _, rd := range rds {
					op.Rd = rd
					nx, want, got, _ := g.step(n.st, op)
					trans.Add(1)
					traces.Add(1)
					shaped.Add(1)
					check(n.st, via, op, want, got)
					push(nx, n.key, op)
				}
			}
			for k := range n.st { // the cache loses one entry
				nx := make(map[string]string, len(n.st)-1)
				for k2, v := range n.st {
					if k2 != k {
						nx[k2] = v
					}
				}
				trans.Add(1)
				push(nx, n.key, Op{Kind: "evict", Dir: k})
			}
		}
		// level-synchronous BFS; the nodes of a level are expanded by all workers, each on its own instance of the system
		workers := runtime.GOMAXPROCS(0)
		rigs := make([]*rig, workers)
		for depth := 1; len(frontier) > 0; depth++ {
			var idx atomic.Int64
			var stop atomic.Bool
			var wg sync.WaitGroup
			for w := 0; w < min(workers, len(frontier)); w++ {
				wg.Add(1)
				go func() {
					defer wg.Done()
					if rigs[w] == nil {
						g, err := newRig(c, inmem)
						if err != nil {
							t.Errorf("HARNESS-ERROR %v", err)
							stop.Store(true)
							return
						}
						rigs[w] = g
					}
					for !stop.Load() {
						i := int(idx.Add(1)) - 1
						if i >= len(frontier) {
							return
						}
						if r.Expired("BFS of a configuration cut short") {
							stop.Store(true)
							return
						}
						expand(rigs[w], frontier[i])
					}
				}()
			}
			wg.Wait()
			if stop.Load() {
				break
			}
			sort.Slice(next, func(i, j int) bool { return next[i].key < next[j].key })
			frontier, next = next, nil
			if len(frontier) > 0 {
				states.Add(int64(len(frontier)))
				r.Depth(depth)
			}
		}
		for _, g := range rigs {
			if g != nil {
				dataEOF.Add(g.under.dataEOF.Load())
			}
		}
		r.AddStates(states.Load())
		r.AddTransitions(trans.Load())
		r.AddTraces(traces.Load())
		r.Add("transitions_with_shaped_underlying_readers", shaped.Load())
		r.Add("transitions_opening_no_underlying_reader", indep.Load())
		r.Add("underlying_reads_returning_data_with_eof", dataEOF.Load())
	})
}
