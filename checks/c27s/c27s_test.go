// C27 (schedule part): the tenant -> hashring choice does not change under concurrent requests.
package c27s

import (
	"encoding/json"
	"fmt"
	"strings"
	"testing"

	"github.com/thanos-io/thanos/pkg/receive"
	"github.com/thanos-io/thanos/pkg/store/labelpb"
	"github.com/thanos-io/thanos/pkg/store/storepb/prompb"

	"verif/vexplore"
	"verif/vlib"
	"verif/vsync"
)

type Params struct {
	Tenants [][]string `json:"tenants"` // per thread: tenants of its successive GetN calls
}

func (p Params) name() string { b, _ := json.Marshal(p); return string(b) }

// configuration: ring0 = glob a*, ring1 = exact {b, x}, ring2 = default
func cfg() []receive.HashringConfig {
	return []receive.HashringConfig{
		{Hashring: "h0", Tenants: []string{"a*"}, TenantMatcherType: receive.TenantMatcherGlob, Endpoints: []receive.Endpoint{{Address: "ring0"}}},
		{Hashring: "h1", Tenants: []string{"b", "x"}, Endpoints: []receive.Endpoint{{Address: "ring1"}}},
		{Hashring: "h2", Endpoints: []receive.Endpoint{{Address: "ring2"}}},
	}
}

func expected(tenant string) string {
	switch {
	case strings.HasPrefix(tenant, "a"):
		return "ring0"
	case tenant == "b" || tenant == "x":
		return "ring1"
	}
	return "ring2"
}

func scenario(p Params) *vexplore.Scenario {
	return &vexplore.Scenario{
		Name:     p.name(),
		MaxSteps: 5000,
		New: func() (func(e *vsync.Exec), func(), func(e *vsync.Exec) (string, string, string)) {
			hr, err := receive.NewMultiHashring(receive.AlgorithmHashmod, 1, cfg(), nil)
			if err != nil {
				panic(err)
			}
			ts := &prompb.TimeSeries{Labels: []labelpb.ZLabel{{Name: "a", Value: "b"}}}
			var wrong []string
			got := make([][]string, len(p.Tenants))
			body := func() {
				var hs []vsync.Handle
				for i, tl := range p.Tenants {
					i, tl := i, tl
					hs = append(hs, vsync.Spawn(fmt.Sprintf("req%d", i), func() {
						for _, tenant := range tl {
							ep, err := hr.GetN(tenant, ts, 0)
							res := ep.Address
							if err != nil {
								res = "error:" + err.Error()
							}
							got[i] = append(got[i], res)
							if res != expected(tenant) {
								wrong = append(wrong, fmt.Sprintf("thread %d tenant %q -> %s, want %s", i, tenant, res, expected(tenant)))
							}
						}
					}))
				}
				for _, h := range hs {
					vsync.Join(h)
				}
				// after all concurrent requests: the (now cached) choice must still be the same
				for _, tl := range p.Tenants {
					for _, tenant := range tl {
						ep, _ := hr.GetN(tenant, ts, 0)
						if ep.Address != expected(tenant) {
							wrong = append(wrong, fmt.Sprintf("after quiescence tenant %q -> %s, want %s", tenant, ep.Address, expected(tenant)))
						}
					}
				}
			}
			check := func(e *vsync.Exec) (string, string, string) {
				outcome := fmt.Sprintf("%s got=%v trace-len=%d", e.Outcome(), got, e.Steps)
				switch {
				case len(e.Panics) > 0:
					return "panic", strings.Join(e.Panics, "; "), outcome
				case e.Deadlock:
					return "deadlock", e.DeadlockMsg, outcome
				case e.Horizon:
					return "step-horizon-exceeded", "", outcome
				case len(wrong) > 0:
					return "tenant-routed-to-wrong-hashring", strings.Join(wrong, "; "), outcome
				}
				return "", "", outcome
			}
			return nil, body, check
		},
	}
}

func TestCheck(t *testing.T) {
	r := vlib.New(t, "C27")
	defer r.Finish()
	r.Rule("3 request threads x 2 GetN calls each on a cold tenant cache, tenants chosen to hit glob / exact / default hashrings and to collide on the same tenant; every interleaving within the deviation bound (quick: 3 preemptions; thorough: unbounded); " +
		"distinct_nontrivial = distinct (scenario, execution length) observations (results are schedule independent when the property holds)")
	ps := []Params{
		{Tenants: [][]string{{"ab", "x"}, {"ab", "zz"}, {"x", "ab"}}},
		{Tenants: [][]string{{"a", "b"}, {"b", "a"}, {"c", "a"}}},
	}
	if r.Thorough() {
		ps = append(ps,
			Params{Tenants: [][]string{{"ab", "ab"}, {"ab", "ab"}, {"ab", "ab"}}},
			Params{Tenants: [][]string{{"x", "zz", "ab"}, {"zz", "ab", "x"}, {"ab", "x", "zz"}}},
		)
	}
	var named []vexplore.Named
	for _, p := range ps {
		named = append(named, vexplore.Named{S: scenario(p), Params: p})
	}
	vexplore.Drive(r, named, vlib.Pick(r, 3, -1), func(c vexplore.Case) *vexplore.Scenario {
		var p Params
		if err := json.Unmarshal(c.Params, &p); err != nil {
			return nil
		}
		return scenario(p)
	})
}
