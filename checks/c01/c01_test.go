// C01: penalty replica deduplication yields a well-formed merge of replica samples.
// Engine E4: every ordered tuple of R replicas, each replica = any subset of a G-point time grid shifted by a
// per-replica phase, merged by the real dedup.NewSeriesSet(.., f, "penalty") over the production replica
// iterators (query.NewPromSeriesSet over XOR chunks); read once with Next only and once per seek target with
// Seek first. Seek targets: around every sample timestamp, far from the samples (-1, 0) and the ends of the int64
// domain (MinInt64, MinInt64+1, MaxInt64); the grid either lies at positive times or straddles 0.
package c01

import (
	"fmt"
	"iter"
	"math"
	"sort"
	"strconv"
	"sync/atomic"
	"testing"

	"github.com/prometheus/prometheus/storage"
	"github.com/prometheus/prometheus/tsdb/chunkenc"
	"github.com/thanos-io/thanos/pkg/store/storepb"

	"verif/vlib"
)

type Rep struct {
	Mask  uint64 `json:"mask"`  // bit i: the replica has a sample at grid point i
	Phase int64  `json:"phase"` // ms added to every timestamp of the replica (scrape offset / jitter)
}

type Case struct {
	Step     int64  `json:"step"` // grid step in ms
	G        int    `json:"g"`    // grid points
	Reps     []Rep  `json:"reps"`
	SameVals bool   `json:"same_vals"`     // values depend on the timestamp only (identical replicas possible)
	F        string `json:"f"`             // query function hint ("" and max_over_time: non-counter; rate: counter, timestamps only)
	Off      int64  `json:"off,omitempty"` // ms added to every timestamp (0: grid starts at +100 s; -(100 s+step): grid = -step, 0, +step, ..)
}

const base = int64(100000) // first grid instant

func phasesFor(step int64, thorough bool) []int64 {
	ph := []int64{0, 1, step / 2}
	if thorough {
		ph = append(ph, step/2+1) // one past the 5000 ms initial penalty when step = 10 s
	}
	return ph
}

func (c Case) samples() [][]sample {
	out := make([][]sample, len(c.Reps))
	for r, rp := range c.Reps {
		for i := 0; i < c.G; i++ {
			if rp.Mask&(1<<uint(i)) == 0 {
				continue
			}
			t := base + c.Off + int64(i)*c.Step + rp.Phase
			v := float64(t)
			if !c.SameVals {
				v += float64(r+1) * 1e7 // encodes the replica: provenance is checkable
			}
			out[r] = append(out[r], sample{t, v})
		}
	}
	return out
}

// key identifies the case (cheaper than JSON; only used to count distinct non-trivial cases).
func (c Case) key() string {
	b := make([]byte, 0, 64)
	b = strconv.AppendInt(b, c.Step, 10)
	b = append(b, '/')
	b = strconv.AppendInt(b, int64(c.G), 10)
	b = append(b, '/')
	b = strconv.AppendInt(b, c.Off, 10)
	b = append(b, '/')
	b = append(b, c.F...)
	if c.SameVals {
		b = append(b, '=')
	}
	for _, rp := range c.Reps {
		b = append(b, '|')
		b = strconv.AppendUint(b, rp.Mask, 10)
		b = append(b, '+')
		b = strconv.AppendInt(b, rp.Phase, 10)
	}
	return string(b)
}

func (c Case) identical() bool {
	for _, rp := range c.Reps[1:] {
		if rp != c.Reps[0] {
			return false
		}
	}
	return c.SameVals
}

// family: one block of the enumerated space.
type family struct {
	r, g int
	zero bool     // the grid straddles 0 (timestamps -step+phase, 0+phase, step+phase, ..) instead of starting at +100 s
	fs   []string // function hints
}

var (
	fsBoth    = []string{"", "max_over_time"}
	fsPlain   = []string{""}
	fsCounter = []string{"rate"}
)

func families(r *vlib.R) []family {
	// small/new blocks first: a deadline cuts the tail of the big historical blocks, not these
	return vlib.Pick(r,
		[]family{
			{1, 4, true, fsBoth}, {2, 4, true, fsBoth}, {2, 4, false, fsCounter}, {4, 2, false, fsPlain}, {3, 3, true, fsPlain},
			{1, 5, false, fsBoth}, {2, 5, false, fsBoth}, {3, 4, false, fsPlain}},
		[]family{
			{1, 5, true, fsBoth}, {2, 5, true, fsBoth}, {2, 5, false, fsCounter}, {3, 3, false, fsCounter}, {4, 2, false, fsCounter},
			{3, 4, true, fsPlain}, {4, 2, true, fsPlain},
			{1, 7, false, fsBoth}, {2, 7, false, fsBoth}, {3, 5, false, fsPlain}, {4, 3, false, fsPlain}})
}

func gen(r *vlib.R) iter.Seq[Case] {
	fams := families(r)
	return func(yield func(Case) bool) {
		for _, fam := range fams {
			for _, step := range []int64{1000, 10000} {
				ph := phasesFor(step, r.Thorough() && fam.r <= 2)
				per := (1 << uint(fam.g)) * len(ph)
				off := int64(0)
				if fam.zero {
					off = -(base + step)
				}
				for tup := range vlib.Tuples(fam.r, per) {
					reps := make([]Rep, fam.r)
					for i, x := range tup {
						reps[i] = Rep{Mask: uint64(x / len(ph)), Phase: ph[x%len(ph)]}
					}
					for _, f := range fam.fs {
						c := Case{Step: step, G: fam.g, Reps: reps, F: f, Off: off}
						if !yield(c) {
							return
						}
						// identical replicas need equal values: the same layout once more with t-only values
						c.SameVals = true
						if fam.r > 1 && c.identical() {
							if !yield(c) {
								return
							}
						}
					}
				}
			}
		}
	}
}

func isCounterHint(f string) bool {
	return f == "rate" || f == "irate" || f == "increase" || f == "resets"
}

func eq(a, b []sample) bool {
	if len(a) != len(b) {
		return false
	}
	for i := range a {
		if a[i] != b[i] {
			return false
		}
	}
	return true
}

func TestCheck(t *testing.T) {
	r := vlib.New(t, "C01")
	defer r.Finish()
	r.Rule("every ordered tuple of R replicas, each replica any subset of a G-point grid x phase {0,+1ms,+step/2 [t, R<=2: +step/2+1]} x step {1s,10s}; " +
		"(R,G) q: (1,5) (2,5) (3,4) (4,2), t: (1,7) (2,7) (3,5) (4,3) on a grid at +100 s, and q: (1,4) (2,4) (3,3), t: (1,5) (2,5) (3,4) (4,2) on a grid that straddles 0 " +
		"(negative, zero and positive timestamps); f {\"\", max_over_time for R<=2}; every layout of identical replicas also with equal values; " +
		"counter hint f=rate (timestamp clauses only) q: (2,4), t: (2,5) (3,3) (4,2); " +
		"each case read Next-only and, by a fresh iterator that calls Seek first, for every seek target in {u-1,u,u+1 around every sample timestamp u} + {-1, 0} + " +
		"{MinInt64, MinInt64+1, MaxInt64}; non-trivial = distinct cases whose Next-only output mixes samples of >= 2 replicas")
	r.Assume("replica iterators are the production ones (query.NewPromSeriesSet over one raw XOR chunk per replica, unbounded mint/maxt), each behind a transparent "+
		"call-counting delegate (step budget instead of a wall-clock hang guard); an empty replica is a zero-sample chunk; sample timestamps are small (|t| <= 200 s); float samples only",
		"for the counter hint (outside the statement's quantifier for the provenance/unchanged clauses) only strictly increasing timestamps and the seek-suffix equality of timestamps are asserted")
	vlib.ForEach(r, gen(r), func(c Case) { evalCase(r, c) })
	r.Set("step_budget_max_used_permille", maxUsedPermille.Load())
	r.Add("seek_first_runs", nSeek.Load())
	r.Add("seek_first_runs_extreme_targets", nSeekExtreme.Load())
	r.Add("identical_replica_cases", nIdentical.Load())
	r.Add("counter_hint_cases", nCounter.Load())
	r.Add("cases_grid_straddles_zero", nZero.Load())
	r.Add("cases_4_replicas", nFour.Load())
}

// evidence counters (atomics: the reporter's mutex is too contended for per-case updates)
var nSeek, nSeekExtreme, nIdentical, nCounter, nZero, nFour atomic.Int64

// largest share of the step budget any reader used (evidence that the budget is far from the real cost)
var maxUsedPermille atomic.Int64

func noteUsed(left, limit int) {
	u := int64(limit-left) * 1000 / int64(limit)
	for {
		cur := maxUsedPermille.Load()
		if u <= cur || maxUsedPermille.CompareAndSwap(cur, u) {
			return
		}
	}
}

// extreme seek targets: the ends of the int64 domain (sentinel values of the implementation live there).
var extremeTargets = []int64{math.MinInt64, math.MinInt64 + 1, math.MaxInt64}

// far seek targets: plain values that are not derived from the sample timestamps.
var farTargets = []int64{-1, 0}

func reportPanic(r *vlib.R, c Case, p any, during string) {
	if _, ok := p.(errBudget); ok {
		r.Violation("reader-does-not-finish-within-step-budget", during+": the replica iterators received more Next/Seek calls than 16x(samples+2)xreplicas+64 (non-terminating loop)", c)
		return
	}
	r.Violation("panic-in-code-under-test", fmt.Sprintf("%s: panic: %v", during, p), c)
}

func evalCase(r *vlib.R, c Case) {
	reps := c.samples()
	counter := isCounterHint(c.F)
	chks := make([]storepb.AggrChunk, len(reps))
	held := map[sample]int{}
	var union []int64
	total := 0
	for i, ss := range reps {
		chks[i] = replicaChunk(ss)
		total += len(ss)
		for _, s := range ss {
			if _, ok := held[s]; !ok {
				held[s] = i
			}
			union = append(union, s.T)
		}
	}
	r.Sample(c)
	// the counter hint adjusts values (C02's subject): only timestamps are compared there
	norm := func(ss []sample) []sample {
		if counter {
			for i := range ss {
				ss[i].V = 0
			}
		}
		return ss
	}

	limit := 16*(total+2)*len(reps) + 64
	bud := &budget{left: limit}
	var (
		ser  storage.Series
		set  storage.SeriesSet
		ok   bool
		out  []sample
		bad  bool
		more bool
		ierr error
	)
	if p := guarded(func() { ser, set, ok = newDedupSeries(chks, c.F, bud) }); p != nil {
		reportPanic(r, c, p, "building the merged series")
		return
	}
	if !ok {
		r.Violation("no-series-returned", fmt.Sprintf("dedup set yielded no series (err %v)", set.Err()), c)
		return
	}
	if p := guarded(func() {
		bud.left = limit
		it := ser.Iterator(nil)
		out, bad = drain(it, total)
		more = set.Next()
		ierr = it.Err()
	}); p != nil {
		reportPanic(r, c, p, "Next-only reader")
		return
	}
	noteUsed(bud.left, limit)
	out = norm(out)
	if more {
		r.Violation("replicas-not-merged-into-one-series", "dedup set yielded more than one series for equal label sets", c)
	}
	if ierr != nil {
		r.Violation("iterator-error", ierr.Error(), c)
		return
	}
	if bad {
		r.Violation("non-float-value-type", "Next returned a non-float value type for float replicas", c)
	}
	// clause 1: strictly increasing timestamps
	for i := 1; i < len(out); i++ {
		if out[i].T <= out[i-1].T {
			r.Violation("timestamps-not-strictly-increasing", fmt.Sprintf("Next-only output %v: t[%d]=%d after %d", out, i, out[i].T, out[i-1].T), c)
			break
		}
	}
	if counter {
		nCounter.Add(1)
	} else {
		// clause 2: provenance
		from := map[int]bool{}
		for _, s := range out {
			ri, ok := held[s]
			if !ok {
				r.Violation("sample-not-held-by-any-replica", fmt.Sprintf("Next-only output %v: (%d,%v) is in no replica %v", out, s.T, s.V, reps), c)
				break
			}
			from[ri] = true
		}
		if !c.SameVals && len(from) >= 2 {
			r.Nontrivial(c.key())
		}
		// clause 3: a single replica / identical replicas come out unchanged
		if len(reps) == 1 && !eq(out, reps[0]) {
			r.Violation("single-replica-changed", fmt.Sprintf("got %v want %v", out, reps[0]), c)
		}
		if len(reps) > 1 && c.identical() {
			nIdentical.Add(1)
			if !eq(out, reps[0]) {
				r.Violation("identical-replicas-changed", fmt.Sprintf("got %v want %v", out, reps[0]), c)
			}
		}
	}

	// clause 4: Seek(t) first == suffix of the Next-only reader, for ordinary targets first, then the int64 extremes
	ord := map[int64]bool{}
	for _, u := range union {
		ord[u-1], ord[u], ord[u+1] = true, true, true
	}
	if len(union) == 0 {
		ord[base+c.Off] = true
	}
	for _, x := range farTargets {
		ord[x] = true
	}
	targets := make([]int64, 0, len(ord)+len(extremeTargets))
	for x := range ord {
		targets = append(targets, x)
	}
	sort.Slice(targets, func(i, j int) bool { return targets[i] < targets[j] })
	nOrd := len(targets)
	targets = append(targets, extremeTargets...)

	// first timestamp held by the replicas other than the last one (the `a` side of the outermost merge)
	var leadFirst int64
	haveLead := false
	for _, ss := range reps[:len(reps)-1] {
		if len(ss) > 0 && (!haveLead || ss[0].T < leadFirst) {
			leadFirst, haveLead = ss[0].T, true
		}
	}
	suffix := ""
	if counter {
		suffix = "-counter-hint-timestamps"
	}
	seen := map[string]bool{}
	ordFailed := false
	for ti, tg := range targets {
		var want []sample
		for _, s := range out {
			if s.T >= tg {
				want = append(want, s)
			}
		}
		var got []sample
		if p := guarded(func() {
			bud.left = limit
			it := ser.Iterator(nil)
			if vt := it.Seek(tg); vt != chunkenc.ValNone {
				ts, v := it.At()
				got = append(got, sample{ts, v})
				rest, _ := drain(it, total)
				got = append(got, rest...)
			}
		}); p != nil {
			reportPanic(r, c, p, fmt.Sprintf("Seek(%d)-first reader", tg))
			return
		}
		noteUsed(bud.left, limit)
		got = norm(got)
		if eq(got, want) {
			continue
		}
		sig := "seek-first-reader-not-suffix"
		switch {
		case len(reps) == 1 && tg == math.MinInt64 && !ordFailed:
			// narrow class: no merge at all (one replica is handed through: the production chunk iterator answers itself) and
			// the first call is Seek(MinInt64), the conventional "from the beginning"; every other target is answered correctly.
			sig = "single-replica-seek-first-to-min-int64-not-suffix"
		case ti >= nOrd && !ordFailed:
			// narrow class: every ordinary target of this case (around the samples, -1, 0) is answered correctly, only an end
			// of the int64 domain is not: a sentinel/overflow collision with a legal seek target.
			sig = "seek-first-at-int64-extreme-target-not-suffix"
		case len(reps) > 1 && haveLead && tg <= leadFirst:
			// narrow class: Seek issued before any Next on a merged (>= 2 replicas) iterator with a target at or
			// before the first sample of the leading replicas (all but the last one): Seek answers from them
			// alone, without selecting a sample through Next.
			sig = "seek-before-first-next-target-at-or-before-first-sample-not-suffix"
		}
		if ti < nOrd {
			ordFailed = true
		}
		sig += suffix
		if seen[sig] {
			continue // one counter-example per class and case
		}
		seen[sig] = true
		r.Violation(sig, fmt.Sprintf("Seek(%d) first then Next: got %v, want the >=%d suffix %v of the Next-only output %v; replicas %v", tg, got, tg, want, out, reps), c)
	}
	nSeek.Add(int64(len(targets)))
	nSeekExtreme.Add(int64(len(extremeTargets)))
	if c.Off != 0 {
		nZero.Add(1)
	}
	if len(reps) == 4 {
		nFour.Add(1)
	}
}
