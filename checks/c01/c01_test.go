// C01: penalty replica deduplication yields a well-formed merge of replica samples.
// Engine E4: every ordered tuple of R replicas, each replica = any subset of a G-point time grid shifted by a
// per-replica phase, merged by the real dedup.NewSeriesSet(.., f, "penalty") over the production replica
// iterators (query.NewPromSeriesSet over XOR chunks); read once with Next only and once per seek target with
// Seek first.
package c01

import (
	"encoding/json"
	"fmt"
	"iter"
	"sort"
	"testing"

	"github.com/prometheus/prometheus/tsdb/chunkenc"
	"github.com/thanos-io/thanos/pkg/store/storepb"

	"verif/vlib"
)

type Rep struct {
	Mask  uint64 `json:"mask"`  // bit i: the replica has a sample at grid point i
	Phase int64  `json:"phase"` // ms added to every timestamp of the replica (scrape offset / jitter)
}

type Case struct {
	Step     int64  `json:"step"` // grid step in ms
	G        int    `json:"g"`    // grid points
	Reps     []Rep  `json:"reps"`
	SameVals bool   `json:"same_vals"` // values depend on the timestamp only (identical replicas possible)
	F        string `json:"f"`         // query function hint (non-counter)
}

const base = int64(100000) // first grid instant

func phasesFor(step int64, thorough bool) []int64 {
	ph := []int64{0, 1, step / 2}
	if thorough {
		ph = append(ph, step/2+1) // one past the 5000 ms initial penalty when step = 10 s
	}
	return ph
}

func (c Case) samples() [][]sample {
	out := make([][]sample, len(c.Reps))
	for r, rp := range c.Reps {
		for i := 0; i < c.G; i++ {
			if rp.Mask&(1<<uint(i)) == 0 {
				continue
			}
			t := base + int64(i)*c.Step + rp.Phase
			v := float64(t)
			if !c.SameVals {
				v += float64(r+1) * 1e7 // encodes the replica: provenance is checkable
			}
			out[r] = append(out[r], sample{t, v})
		}
	}
	return out
}

func (c Case) identical() bool {
	for _, rp := range c.Reps[1:] {
		if rp != c.Reps[0] {
			return false
		}
	}
	return c.SameVals
}

type shape struct{ r, g int }

func gen(r *vlib.R) iter.Seq[Case] {
	// (replica count, grid size): quick and thorough.
	shapes := vlib.Pick(r,
		[]shape{{1, 5}, {2, 5}, {3, 4}},
		[]shape{{1, 7}, {2, 7}, {3, 5}, {4, 3}})
	fs := []string{"", "max_over_time"}
	return func(yield func(Case) bool) {
		for _, sh := range shapes {
			for _, step := range []int64{1000, 10000} {
				ph := phasesFor(step, r.Thorough() && sh.r <= 2)
				per := (1 << uint(sh.g)) * len(ph)
				for tup := range vlib.Tuples(sh.r, per) {
					reps := make([]Rep, sh.r)
					for i, x := range tup {
						reps[i] = Rep{Mask: uint64(x / len(ph)), Phase: ph[x%len(ph)]}
					}
					for fi, f := range fs {
						if fi > 0 && sh.r > 2 {
							break // the second function hint (same code path in dedup) only for R <= 2
						}
						c := Case{Step: step, G: sh.g, Reps: reps, F: f}
						if !yield(c) {
							return
						}
						// identical replicas need equal values: the same layout once more with t-only values
						c.SameVals = true
						if sh.r > 1 && c.identical() {
							if !yield(c) {
								return
							}
						}
					}
				}
			}
		}
	}
}

func eq(a, b []sample) bool {
	if len(a) != len(b) {
		return false
	}
	for i := range a {
		if a[i] != b[i] {
			return false
		}
	}
	return true
}

func TestCheck(t *testing.T) {
	r := vlib.New(t, "C01")
	defer r.Finish()
	r.Rule("every ordered tuple of R replicas (q: R=1,2 on a 5-point grid, R=3 on 4 points; t: R=1,2 on 7, R=3 on 5, R=4 on 3), each replica any subset " +
		"of the grid x phase {0,+1ms,+step/2 [t, R<=2: +step/2+1]} x step {1s,10s} x f {\"\", max_over_time for R<=2}; every layout of identical replicas also with equal values; " +
		"each case read Next-only and, for every seek target u-1,u,u+1 around every sample timestamp u, with Seek first; " +
		"non-trivial = distinct cases whose Next-only output mixes samples of >= 2 replicas")
	r.Assume("replica iterators are the production ones (query.NewPromSeriesSet over one raw XOR chunk per replica, unbounded mint/maxt); " +
		"an empty replica is a zero-sample chunk; timestamps are > 0; float samples only")
	vlib.ForEach(r, gen(r), func(c Case) { evalCase(r, c) })
}

func evalCase(r *vlib.R, c Case) {
	reps := c.samples()
	chks := make([]storepb.AggrChunk, len(reps))
	held := map[sample]int{}
	var union []int64
	total := 0
	for i, ss := range reps {
		chks[i] = replicaChunk(ss)
		total += len(ss)
		for _, s := range ss {
			if _, ok := held[s]; !ok {
				held[s] = i
			}
			union = append(union, s.T)
		}
	}
	r.Sample(c)

	it, set, ok := newDedupIterator(chks, c.F)
	if !ok {
		r.Violation("no-series-returned", fmt.Sprintf("dedup set yielded no series (err %v)", set.Err()), c)
		return
	}
	out, bad := drain(it, total)
	if set.Next() {
		r.Violation("replicas-not-merged-into-one-series", "dedup set yielded more than one series for equal label sets", c)
	}
	if err := it.Err(); err != nil {
		r.Violation("iterator-error", err.Error(), c)
		return
	}
	if bad {
		r.Violation("non-float-value-type", "Next returned a non-float value type for float replicas", c)
	}
	// clause 1: strictly increasing timestamps
	for i := 1; i < len(out); i++ {
		if out[i].T <= out[i-1].T {
			r.Violation("timestamps-not-strictly-increasing", fmt.Sprintf("Next-only output %v: t[%d]=%d after %d", out, i, out[i].T, out[i-1].T), c)
			break
		}
	}
	// clause 2: provenance
	from := map[int]bool{}
	for _, s := range out {
		ri, ok := held[s]
		if !ok {
			r.Violation("sample-not-held-by-any-replica", fmt.Sprintf("Next-only output %v: (%d,%v) is in no replica %v", out, s.T, s.V, reps), c)
			break
		}
		from[ri] = true
	}
	if !c.SameVals && len(from) >= 2 {
		b, _ := json.Marshal(c)
		r.Nontrivial(string(b))
	}
	// clause 3: a single replica / identical replicas come out unchanged
	if len(reps) == 1 && !eq(out, reps[0]) {
		r.Violation("single-replica-changed", fmt.Sprintf("got %v want %v", out, reps[0]), c)
	}
	if len(reps) > 1 && c.identical() {
		r.Add("identical_replica_cases", 1)
		if !eq(out, reps[0]) {
			r.Violation("identical-replicas-changed", fmt.Sprintf("got %v want %v", out, reps[0]), c)
		}
	}

	// clause 4: Seek(t) first == suffix of the Next-only reader
	sort.Slice(union, func(i, j int) bool { return union[i] < union[j] })
	var targets []int64
	add := func(x int64) {
		if n := len(targets); n == 0 || targets[n-1] < x {
			targets = append(targets, x)
		}
	}
	for _, u := range union {
		add(u - 1)
		add(u)
		add(u + 1)
	}
	if len(targets) == 0 {
		targets = []int64{base}
	}
	// first timestamp held by the replicas other than the last one (the `a` side of the outermost merge)
	leadFirst := int64(-1)
	for _, ss := range reps[:len(reps)-1] {
		if len(ss) > 0 && (leadFirst < 0 || ss[0].T < leadFirst) {
			leadFirst = ss[0].T
		}
	}
	seen := map[string]bool{}
	for _, tg := range targets {
		var want []sample
		for _, s := range out {
			if s.T >= tg {
				want = append(want, s)
			}
		}
		it, _, ok := newDedupIterator(chks, c.F)
		if !ok {
			return
		}
		var got []sample
		if vt := it.Seek(tg); vt != chunkenc.ValNone {
			ts, v := it.At()
			got = append(got, sample{ts, v})
			rest, _ := drain(it, total)
			got = append(got, rest...)
		}
		r.Add("seek_first_runs", 1)
		if !eq(got, want) {
			sig := "seek-first-reader-not-suffix"
			if len(reps) > 1 && tg <= leadFirst {
				// narrow class: Seek issued before any Next on a merged (>= 2 replicas) iterator with a target at or
				// before the first sample of the leading replicas (all but the last one): Seek answers from them
				// alone, without selecting a sample through Next.
				sig = "seek-before-first-next-target-at-or-before-first-sample-not-suffix"
			}
			if seen[sig] {
				continue // one counter-example per class and case
			}
			seen[sig] = true
			r.Violation(sig, fmt.Sprintf("Seek(%d) first then Next: got %v, want the >=%d suffix %v of the Next-only output %v; replicas %v", tg, got, tg, want, out, reps), c)
		}
	}
}
