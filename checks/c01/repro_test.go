package c01

// Plain reproduction of the Seek-before-first-Next defect of dedupSeriesIterator, independent of the check's
// helpers: Prometheus list series as replicas, exported Thanos API only. Informational (never fails); run with
//   go test -tags slicelabels,verif -vet=off -count=1 -run TestRepro -v ./checks/c01/
import (
	"math"
	"testing"

	"github.com/prometheus/prometheus/model/histogram"
	"github.com/prometheus/prometheus/model/labels"
	"github.com/prometheus/prometheus/storage"
	"github.com/prometheus/prometheus/tsdb/chunkenc"
	"github.com/prometheus/prometheus/tsdb/chunks"
	"github.com/prometheus/prometheus/util/annotations"

	"github.com/thanos-io/thanos/pkg/dedup"
	"github.com/thanos-io/thanos/pkg/query"
	"github.com/thanos-io/thanos/pkg/store/storepb"
)

type fs struct {
	t int64
	f float64
}

func (s fs) T() int64                      { return s.t }
func (s fs) F() float64                    { return s.f }
func (s fs) H() *histogram.Histogram       { return nil }
func (s fs) FH() *histogram.FloatHistogram { return nil }
func (s fs) Type() chunkenc.ValueType      { return chunkenc.ValFloat }
func (s fs) Copy() chunks.Sample           { return s }

type listSet struct {
	ss []storage.Series
	i  int
}

func (l *listSet) Next() bool                        { l.i++; return l.i <= len(l.ss) }
func (l *listSet) At() storage.Series                { return l.ss[l.i-1] }
func (l *listSet) Err() error                        { return nil }
func (l *listSet) Warnings() annotations.Annotations { return nil }

func reproRead(t *testing.T, seek *int64, reps ...[]chunks.Sample) (out [][2]float64) {
	lset := labels.FromStrings("a", "1")
	ls := &listSet{}
	for _, r := range reps {
		ls.ss = append(ls.ss, storage.NewListSeries(lset, r))
	}
	set := dedup.NewSeriesSet(ls, "", dedup.AlgorithmPenalty)
	if !set.Next() {
		t.Fatal("no series")
	}
	it := set.At().Iterator(nil)
	if seek != nil {
		if it.Seek(*seek) == chunkenc.ValNone {
			return nil
		}
		ts, v := it.At()
		out = append(out, [2]float64{float64(ts), v})
	}
	for it.Next() != chunkenc.ValNone && len(out) < 10 {
		ts, v := it.At()
		out = append(out, [2]float64{float64(ts), v})
	}
	return out
}

func TestReproSeekBeforeFirstNext(t *testing.T) {
	three, five := int64(3), int64(5)
	a := []chunks.Sample{fs{10, 1}, fs{20, 1}}
	b := []chunks.Sample{fs{10, 2}, fs{20, 2}}
	t.Logf("identical timestamps: Next-only %v", reproRead(t, nil, a, b))
	t.Logf("identical timestamps: Seek(5) first %v   (before fix dea1353e9: first sample emitted twice)", reproRead(t, &five, a, b))
	a = []chunks.Sample{fs{10, 1}}
	b = []chunks.Sample{fs{5, 2}}
	t.Logf("a=[10] b=[5]: Next-only %v", reproRead(t, nil, a, b))
	t.Logf("a=[10] b=[5]: Seek(3) first %v   (before fix dea1353e9: replica b ignored by Seek, then time went backwards)", reproRead(t, &three, a, b))
}

// Plain reproduction of the single-replica Seek(MinInt64)-first defect (query.chunkSeriesIterator.Seek compares the
// timestamp of a chunk iterator that has not read a sample yet, math.MinInt64, with the target). Exported API only:
// the querier's promSeriesSet over one XOR chunk, handed through dedup.NewSeriesSet unmerged (one replica).
// Informational (never fails); run with
//
//	go test -tags slicelabels,verif -vet=off -count=1 -run TestReproSingle -v ./checks/c01/
func TestReproSingleReplicaSeekMinInt64(t *testing.T) {
	read := func(seek *int64) (out [][2]float64) {
		c := chunkenc.NewXORChunk()
		app, _ := c.Appender()
		app.Append(10, 1)
		app.Append(20, 2)
		one := &pbSet{lset: labels.FromStrings("a", "1"), chks: []storepb.AggrChunk{{MinTime: 10, MaxTime: 20, Raw: &storepb.Chunk{Type: storepb.Chunk_XOR, Data: c.Bytes()}}}}
		in := query.NewPromSeriesSet(one, math.MinInt64, math.MaxInt64, []storepb.Aggr{storepb.Aggr_COUNT, storepb.Aggr_SUM}, nil)
		set := dedup.NewSeriesSet(in, "", dedup.AlgorithmPenalty)
		if !set.Next() {
			t.Fatal("no series")
		}
		it := set.At().Iterator(nil)
		if seek != nil {
			if it.Seek(*seek) == chunkenc.ValNone {
				return nil
			}
			ts, v := it.At()
			out = append(out, [2]float64{float64(ts), v})
		}
		for it.Next() != chunkenc.ValNone && len(out) < 10 {
			ts, v := it.At()
			out = append(out, [2]float64{float64(ts), v})
		}
		return out
	}
	lo, lo1 := int64(math.MinInt64), int64(math.MinInt64+1)
	t.Logf("one replica [10,20]: Next-only          %v", read(nil))
	t.Logf("one replica [10,20]: Seek(MinInt64+1)   %v", read(&lo1))
	t.Logf("one replica [10,20]: Seek(MinInt64)     %v   <- no sample at all", read(&lo))
}
