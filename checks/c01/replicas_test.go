// Shared helper (copied between c01 and c02): builds the *production* replica iterators the querier
// hands to dedup.NewSeriesSet, i.e. query.NewPromSeriesSet over storepb XOR chunks (one series entry
// per replica, equal label sets because replica labels are already removed at that point).
package c01

import (
	"math"

	"github.com/prometheus/prometheus/model/labels"
	"github.com/prometheus/prometheus/storage"
	"github.com/prometheus/prometheus/tsdb/chunkenc"

	"github.com/thanos-io/thanos/pkg/dedup"
	"github.com/thanos-io/thanos/pkg/query"
	"github.com/thanos-io/thanos/pkg/store/storepb"
)

type sample struct {
	T int64
	V float64
}

// replicaChunk encodes one replica as one raw XOR AggrChunk (zero samples give a zero-sample chunk).
func replicaChunk(ss []sample) storepb.AggrChunk {
	c := chunkenc.NewXORChunk()
	app, err := c.Appender()
	if err != nil {
		panic(err)
	}
	for _, s := range ss {
		app.Append(s.T, s.V)
	}
	ac := storepb.AggrChunk{Raw: &storepb.Chunk{Type: storepb.Chunk_XOR, Data: c.Bytes()}}
	if len(ss) > 0 {
		ac.MinTime, ac.MaxTime = ss[0].T, ss[len(ss)-1].T
	}
	return ac
}

// pbSet is a storepb.SeriesSet with one entry per replica, all under the same label set.
type pbSet struct {
	lset labels.Labels
	chks []storepb.AggrChunk
	i    int
}

func (s *pbSet) Next() bool { s.i++; return s.i <= len(s.chks) }
func (s *pbSet) At() (labels.Labels, []storepb.AggrChunk) {
	return s.lset, []storepb.AggrChunk{s.chks[s.i-1]}
}
func (s *pbSet) Err() error { return nil }

var seriesLset = labels.FromStrings("__name__", "m", "job", "j")

// aggrsFor mirrors query.aggrsFromFunc for the functions used here (raw chunks are served for all of them).
func aggrsFor(f string) []storepb.Aggr {
	switch f {
	case "max_over_time":
		return []storepb.Aggr{storepb.Aggr_MAX}
	case "rate", "irate", "increase", "resets":
		return []storepb.Aggr{storepb.Aggr_COUNTER}
	}
	return []storepb.Aggr{storepb.Aggr_COUNT, storepb.Aggr_SUM}
}

// budget is a step budget shared by all replica iterators of one reader: every Next/Seek the code under test
// issues on a replica iterator costs one step; running out panics with errBudget (a loop that never ends on a
// broken tree becomes a recoverable panic, no wall clock involved).
type budget struct{ left int }

type errBudget struct{}

func (b *budget) step() {
	b.left--
	if b.left < 0 {
		panic(errBudget{})
	}
}

// The b* types are transparent delegates around the production series set / series / iterators.
type bSet struct {
	storage.SeriesSet
	b *budget
}

func (s bSet) At() storage.Series { return bSeries{Series: s.SeriesSet.At(), b: s.b} }

type bSeries struct {
	storage.Series
	b *budget
}

func (s bSeries) Iterator(it chunkenc.Iterator) chunkenc.Iterator {
	return &bIter{Iterator: s.Series.Iterator(it), b: s.b}
}

type bIter struct {
	chunkenc.Iterator
	b *budget
}

func (i *bIter) Next() chunkenc.ValueType        { i.b.step(); return i.Iterator.Next() }
func (i *bIter) Seek(t int64) chunkenc.ValueType { i.b.step(); return i.Iterator.Seek(t) }

// newDedupSeries runs the real seam: promSeriesSet -> dedup.NewSeriesSet(penalty) -> the single merged series.
// Every Iterator(nil) call on it builds fresh production replica iterators (chunkSeries.Iterator decodes the chunk
// bytes anew), so one series serves all readers of a case. ok=false when the set yields no series.
func newDedupSeries(chks []storepb.AggrChunk, f string, b *budget) (storage.Series, storage.SeriesSet, bool) {
	in := query.NewPromSeriesSet(&pbSet{lset: seriesLset, chks: chks}, math.MinInt64, math.MaxInt64, aggrsFor(f), nil)
	set := dedup.NewSeriesSet(bSet{SeriesSet: in, b: b}, f, dedup.AlgorithmPenalty)
	if !set.Next() {
		return nil, set, false
	}
	return set.At(), set, true
}

// guarded runs fn (calls into the code under test); a panic of the code under test is returned, not propagated.
func guarded(fn func()) (p any) {
	defer func() { p = recover() }()
	fn()
	return nil
}

// drain reads the iterator with Next only.
func drain(it chunkenc.Iterator, limit int) (out []sample, badType bool) {
	for len(out) <= limit {
		vt := it.Next()
		if vt == chunkenc.ValNone {
			return out, badType
		}
		if vt != chunkenc.ValFloat {
			badType = true
		}
		t, v := it.At()
		out = append(out, sample{t, v})
	}
	return out, badType
}
