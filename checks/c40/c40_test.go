// C40: offline (compactor) penalty deduplication of overlapping downsampled chunks keeps every aggregate sample.
// Engine E4: every pair of replica series of nA / nB aggregated samples (real downsample.DownsampleRaw output at
// 5m resolution) x window offset of B against A x raw scrape phase of B, merged by the real
// dedup.NewChunkSeriesMerger(); in the merged result every aggregate must have a sample at every timestamp of the
// merged count aggregate.
package c40

import (
	"fmt"
	"iter"
	"sort"
	"testing"

	"github.com/prometheus/prometheus/model/histogram"
	"github.com/prometheus/prometheus/model/labels"
	"github.com/prometheus/prometheus/storage"
	"github.com/prometheus/prometheus/tsdb/chunkenc"
	"github.com/prometheus/prometheus/tsdb/chunks"

	"github.com/thanos-io/thanos/pkg/compact/downsample"
	"github.com/thanos-io/thanos/pkg/dedup"

	"verif/vlib"
)

type Case struct {
	NA     int   `json:"na"`      // aggregated samples (5m windows) of replica A
	NB     int   `json:"nb"`      // aggregated samples of replica B
	Off    int   `json:"off"`     // B starts Off windows after A
	PhaseB int64 `json:"phase_b"` // raw scrape phase of B inside the window (ms); A scrapes at +10s
	PerWin int   `json:"per_win"` // raw samples per 5m window
}

const (
	res   = downsample.ResLevel1 // 300000 ms
	base  = int64(10) * res      // first window of A
	phase = int64(10000)
)

type fsample struct {
	t int64
	v float64
}

func (s fsample) T() int64                      { return s.t }
func (s fsample) F() float64                    { return s.v }
func (s fsample) H() *histogram.Histogram       { return nil }
func (s fsample) FH() *histogram.FloatHistogram { return nil }
func (s fsample) Type() chunkenc.ValueType      { return chunkenc.ValFloat }
func (s fsample) Copy() chunks.Sample           { return s }

// replica builds the downsampled chunks of one replica: n windows starting at window index w0, perWin raw
// samples per window at raw phase ph, a slowly growing counter as value.
func replica(n, w0 int, ph int64, perWin int, salt float64) []chunks.Meta {
	raw := make([]chunks.Sample, 0, n*perWin)
	for w := 0; w < n; w++ {
		for k := 0; k < perWin; k++ {
			t := base + int64(w0+w)*res + ph + int64(k)*(res/int64(perWin))
			raw = append(raw, fsample{t, float64(t)/1000 + salt})
		}
	}
	return downsample.DownsampleRaw(downsample.SamplesFromTSDBSamples(raw), res)
}

var names = [5]string{"count", "sum", "min", "max", "counter"}

// aggrTimestamps returns the timestamps of every aggregate of an aggregate chunk (nil slice = aggregate absent).
func aggrTimestamps(c chunkenc.Chunk) (out [5][]int64, err error) {
	ac, ok := c.(*downsample.AggrChunk)
	if !ok {
		return out, fmt.Errorf("output chunk is %T (encoding %v), not an aggregate chunk", c, c.Encoding())
	}
	for i := downsample.AggrCount; i <= downsample.AggrCounter; i++ {
		sub, gerr := ac.Get(i)
		if gerr != nil {
			continue
		}
		it := sub.Iterator(nil)
		out[i] = []int64{}
		for it.Next() != chunkenc.ValNone {
			out[i] = append(out[i], it.AtT())
		}
		if it.Err() != nil {
			return out, it.Err()
		}
	}
	return out, nil
}

func series(ms []chunks.Meta) storage.ChunkSeries {
	return &storage.ChunkSeriesEntry{
		Lset: labels.FromStrings("a", "b"),
		ChunkIteratorFn: func(chunks.Iterator) chunks.Iterator {
			return storage.NewListChunkSeriesIterator(ms...)
		},
	}
}

func lengths(r *vlib.R) []int {
	if !r.Thorough() {
		return []int{1, 2, 3, 60, 119, 120, 121, 140, 141, 240, 241, 400}
	}
	var out []int
	for _, rg := range [][2]int{{1, 30}, {55, 65}, {115, 125}, {136, 145}, {176, 185}, {236, 245}, {276, 285}, {355, 365}, {395, 400}} {
		for n := rg[0]; n <= rg[1]; n++ {
			out = append(out, n)
		}
	}
	return out
}

func gen(r *vlib.R) iter.Seq[Case] {
	ls := lengths(r)
	return func(yield func(Case) bool) {
		for _, perWin := range []int{1, 2} {
			for _, na := range ls {
				for _, nb := range ls {
					// offsets: same start, one window, half of A, last window of A, adjacent, beyond the end
					offs := map[int]bool{0: true, 1: true, na / 2: true, na - 1: true, na: true, na + 1: true}
					var ol []int
					for o := range offs {
						ol = append(ol, o)
					}
					sort.Ints(ol)
					for _, off := range ol {
						for _, ph := range []int64{phase, phase + 1, phase + res/2} {
							if !yield(Case{NA: na, NB: nb, Off: off, PhaseB: ph, PerWin: perWin}) {
								return
							}
						}
					}
				}
			}
		}
	}
}

func TestCheck(t *testing.T) {
	r := vlib.New(t, "C40")
	defer r.Finish()
	r.Rule("pairs of replicas with nA,nB aggregated samples from {1,2,3,60,119,120,121,140,141,240,241,400} (t: 99 lengths: 1..30 and +-5 around 60, 120, 140, 180, 240, 280, 360, 400) x window offset of B " +
		"{0,1,nA/2,nA-1,nA,nA+1} x raw phase of B {same, +1ms, +half window} x raw samples per window {1,2}; inputs are real DownsampleRaw(5m) chunks; " +
		"non-trivial = distinct cases whose merge re-encodes overlapping chunks into >= 2 output chunks (merged count > 120 samples)")
	r.Assume("float series only; input chunks are what downsample.DownsampleRaw produces for each replica (counter aggregate carries the first and last raw value)")
	vlib.ForEach(r, gen(r), func(c Case) { evalCase(r, c) })
}

func evalCase(r *vlib.R, c Case) {
	a := replica(c.NA, 0, phase, c.PerWin, 0)
	b := replica(c.NB, c.Off, c.PhaseB, c.PerWin, 0.5)
	r.Sample(c)
	merged := dedup.NewChunkSeriesMerger()(series(a), series(b))
	out, err := storage.ExpandChunks(merged.Iterator(nil))
	if err != nil {
		r.Violation("merge-error", err.Error(), c)
		return
	}
	have := [5]map[int64]bool{}
	for i := range have {
		have[i] = map[int64]bool{}
	}
	type cut struct {
		first     int64 // first count timestamp of the chunk
		afterFull bool  // the preceding output chunk holds exactly 120 count samples and is contiguous (a re-encoded merge was cut)
	}
	var cuts []cut
	prevCount := 0
	for _, m := range out {
		ts, err := aggrTimestamps(m.Chunk)
		if err != nil {
			r.Violation("output-chunk-unreadable", err.Error(), c)
			return
		}
		for i := range ts {
			for _, t := range ts[i] {
				have[i][t] = true
			}
		}
		if len(ts[0]) > 0 {
			cuts = append(cuts, cut{ts[0][0], prevCount == 120})
		}
		prevCount = len(ts[0])
	}
	reencodedCuts := 0
	for _, ct := range cuts {
		if ct.afterFull {
			reencodedCuts++
		}
	}
	if reencodedCuts > 0 {
		r.Nontrivial(fmt.Sprint(c))
	}
	var cts []int64
	for t := range have[0] {
		cts = append(cts, t)
	}
	sort.Slice(cts, func(i, j int) bool { return cts[i] < cts[j] })
	seen := map[string]bool{}
	for _, t := range cts {
		for i := 1; i < 5; i++ {
			if have[i][t] {
				continue
			}
			// The counter aggregate has its own timestamps in the inputs (first and last raw value), so it is merged
			// with different penalties than the other aggregates: one class, whatever the position.
			sig := "counter-aggregate-misses-count-timestamp"
			if i != int(downsample.AggrCounter) {
				sig = "sum-min-max-aggregate-misses-count-timestamp"
				for _, ct := range cuts {
					if ct.first == t && ct.afterFull {
						// narrow class: the first sample of an output chunk that follows a full (120 sample) re-encoded chunk
						sig = "sum-min-max-aggregate-misses-first-sample-of-output-chunk-after-120-sample-cut"
					}
				}
			}
			if seen[sig] {
				continue
			}
			seen[sig] = true
			r.Violation(sig, fmt.Sprintf("merged count aggregate has a sample at t=%d, the %s aggregate has none there (%d output chunks, %d count samples, %d %s samples)",
				t, names[i], len(out), len(have[0]), len(have[i]), names[i]), c)
		}
	}
}
