package c40

// Plain reproductions (informational, never fail):
//   go test -tags slicelabels,verif -vet=off -count=1 -run TestRepro -v ./checks/c40/
import (
	"testing"

	"github.com/prometheus/prometheus/storage"
	"github.com/prometheus/prometheus/tsdb/chunks"

	"github.com/thanos-io/thanos/pkg/compact/downsample"
	"github.com/thanos-io/thanos/pkg/dedup"
)

func rawSeries(start int64, n int, step int64) []chunks.Meta {
	var raw []chunks.Sample
	for i := 0; i < n; i++ {
		t := start + int64(i)*step
		raw = append(raw, fsample{t, float64(t)})
	}
	return downsample.DownsampleRaw(downsample.SamplesFromTSDBSamples(raw), downsample.ResLevel1)
}

func dump(t *testing.T, what string, in ...[]chunks.Meta) {
	var ss []storage.ChunkSeries
	for _, m := range in {
		ss = append(ss, series(m))
	}
	out, err := storage.ExpandChunks(dedup.NewChunkSeriesMerger()(ss...).Iterator(nil))
	if err != nil {
		t.Fatal(err)
	}
	t.Logf("%s: %d output chunks", what, len(out))
	for ci, m := range out {
		ts, err := aggrTimestamps(m.Chunk)
		if err != nil {
			t.Fatal(err)
		}
		for i := range ts {
			if len(ts[i]) > 6 {
				t.Logf("  chunk %d %-7s %3d samples, first %v", ci, names[i], len(ts[i]), ts[i][:3])
			} else {
				t.Logf("  chunk %d %-7s %3d samples %v", ci, names[i], len(ts[i]), ts[i])
			}
		}
	}
}

// The inputs of the suite's own "two overlapping series" case (TestDedupChunkSeriesMergerDownsampledChunks): its
// expected value already has a count sample at 540000 without a counter sample there.
func TestReproCounterMisaligned(t *testing.T) {
	dump(t, "1m raw samples 0..9m and 2m..11m", rawSeries(0, 10, 60000), rawSeries(120000, 10, 60000))
}

// 150 five-minute windows in replica A, replica B starts 75 windows later: the merge is cut into 120 + n samples and
// sum/min/max/counter lose the first sample of the second output chunk.
func TestReproFirstSampleOfSecondChunkLost(t *testing.T) {
	dump(t, "A: windows 0..149, B: windows 75..224", rawSeries(10000, 150, 300000), rawSeries(10000+75*300000, 150, 300000))
}
