// C08: stores present their external labels consistently. Every series sent by TSDBStore.Series and
// BucketStore.Series carries the store's external labels (overriding same-named stored labels) minus the labels
// the request drops as replica labels; a request whose selectors contradict the external labels gets no series.
//
// Engine E4: external label sets x stored label sets colliding with them by name x replica-label lists x selector
// sets (agreeing / contradicting / on stored labels) x time ranges x frame size limits (TSDBStore) or
// lazy-postings/batch configurations (BucketStore).
package c08

import (
	"context"
	"fmt"
	"iter"
	"path/filepath"
	"sort"
	"strings"
	"sync"
	"sync/atomic"
	"testing"

	"github.com/prometheus/prometheus/model/labels"
	"github.com/prometheus/prometheus/tsdb"

	"github.com/thanos-io/thanos/pkg/component"
	"github.com/thanos-io/thanos/pkg/store"
	"github.com/thanos-io/thanos/pkg/store/labelpb"
	"github.com/thanos-io/thanos/pkg/store/storepb"

	"verif/vlib"
)

var dense = []int64{0, 50, 100, 150, 200, 250} // chunks [0,50] [100,150] [200,250] with chunk range 100

// stored data: label names e, r, a, z also occur in external label sets / replica label lists
var stored = []SeriesSpec{
	{L: []string{"a", "x"}, T: dense},
	{L: []string{"a", "x", "e", "9"}, T: []int64{0, 50, 100, 150}}, // e collides, other value
	{L: []string{"a", "y", "e", "1"}, T: []int64{150}},             // e collides, same value as the external one
	{L: []string{"a", "y", "r", "0"}, T: []int64{0, 250}},          // r collides
	{L: []string{"e", "9"}, T: []int64{250}},                       // nothing but a colliding label
	{L: []string{"a", "x", "e", "9", "r", "1", "z", "k"}, T: dense},
	{L: []string{"b", "p"}, T: []int64{100}}, // no collision at all
}

var extSets = [][]string{
	{"e", "1"},
	{"e", "1", "r", "0"},
	{"a", "z"},
	{"r", "0", "z", "k"},
	{}, // TSDBStore only: a bucket block must have external labels
}

// bucket universes: one block per external label set, plus one bucket holding two blocks with different sets
var bucketUniverses = [][]int{{0}, {1}, {2}, {3}, {0, 3}}

var replicaLists = [][]string{{}, {"e"}, {"r"}, {"a"}, {"e", "r"}, {"e", "a"}, {"r", "a"}, {"e", "r", "a"}, {"z"}}

func matcherAlphabet(thorough bool) []M {
	out := []M{
		{0, "e", "1"},   // agrees with e=1
		{0, "e", "9"},   // contradicts e=1 but equals a stored value
		{1, "e", "1"},   // contradicts
		{0, "e", ""},    // contradicts any store that has e
		{2, "e", "1|9"}, // agrees
		{0, "a", "x"},   // stored label; contradicts a=z
		{0, "a", "z"},   // agrees with a=z, matches no stored value
		{2, "a", ".+"},  //
		{0, "r", "0"},   // agrees with r=0
		{1, "r", "0"},   // contradicts r=0
		{0, "z", "k"},   //
		{2, "b", ".*"},  // matches everything, on a name no external set has
		{1, "a", "x"},   //
	}
	if thorough {
		out = append(out, M{3, "e", "1"}, M{2, "e", ".*"}, M{1, "e", ""}, M{0, "r", "1"}, M{2, "r", "0|1"}, M{0, "r", ""}, M{1, "z", "k"}, M{0, "b", "p"}, M{3, "a", "z|y"})
	}
	return out
}

func selectorSets(thorough bool) [][]M {
	al := matcherAlphabet(thorough)
	var out [][]M
	for i := range al {
		out = append(out, []M{al[i]})
	}
	for i := range al {
		for j := i + 1; j < len(al); j++ {
			out = append(out, []M{al[i], al[j]})
		}
	}
	return out
}

var ranges = [][2]int64{{0, 1000}, {150, 150}, {51, 99}}
var frameLimits = []int{1, 64, 100, 1 << 20}

type Case struct {
	Store string   `json:"store"` // tsdb | bucket
	Ext   int      `json:"ext"`   // tsdb: index into extSets; bucket: index into bucketUniverses
	Frame int      `json:"frame,omitempty"`
	Cfg   Config   `json:"cfg"`
	Drop  []string `json:"drop"`
	Ms    []M      `json:"ms"`
	MinT  int64    `json:"mint"`
	MaxT  int64    `json:"maxt"`
}

type env struct {
	r    *vlib.R
	db   *tsdb.DB
	unis []*universe
	hdr  []string
	mu   sync.Mutex
	idle map[string][]*gateway
	all  []*gateway

	calls, nonEmpty, contradicting, collided, dropped, multiFrame, errs atomic.Int64
}

func bucketConfigs(thorough bool) []Config {
	var out []Config
	lazies := []int{0, 2}
	batches := []int{1, 10000}
	if thorough {
		lazies = []int{0, 1, 2, 3}
		batches = []int{1, 2, 10000}
	}
	for _, l := range lazies {
		for _, b := range batches {
			out = append(out, Config{Sampling: 32, Lazy: l, Est: 1, Batch: b, Cache: 0, Gap: 1})
		}
	}
	return out
}

func (e *env) gen(thorough bool) iter.Seq[Case] {
	sets := selectorSets(thorough)
	nr := 2
	if thorough {
		nr = len(ranges)
	}
	return func(yield func(Case) bool) {
		for xi := range extSets {
			for _, fl := range frameLimits {
				for _, drop := range replicaLists {
					for _, ms := range sets {
						for _, rg := range ranges[:nr] {
							if !yield(Case{Store: "tsdb", Ext: xi, Frame: fl, Drop: drop, Ms: ms, MinT: rg[0], MaxT: rg[1]}) {
								return
							}
						}
					}
				}
			}
		}
		for ui := range bucketUniverses {
			for _, cfg := range bucketConfigs(thorough) {
				for _, drop := range replicaLists {
					for _, ms := range sets {
						for _, rg := range ranges[:nr] {
							if !yield(Case{Store: "bucket", Ext: ui, Cfg: cfg, Drop: drop, Ms: ms, MinT: rg[0], MaxT: rg[1]}) {
								return
							}
						}
					}
				}
			}
		}
	}
}

func (e *env) acquire(ctx context.Context, u int, cfg Config) *gateway {
	k := fmt.Sprintf("%d/%s", u, cfg)
	e.mu.Lock()
	if l := e.idle[k]; len(l) > 0 {
		g := l[len(l)-1]
		e.idle[k] = l[:len(l)-1]
		e.mu.Unlock()
		return g
	}
	e.mu.Unlock()
	g, err := newGateway(ctx, e.unis[u], cfg, nil, e.hdr[u], nil)
	if err != nil {
		panic(fmt.Sprintf("HARNESS-ERROR store does not start: %v", err))
	}
	e.mu.Lock()
	e.all = append(e.all, g)
	e.mu.Unlock()
	return g
}

func (e *env) release(u int, cfg Config, g *gateway) {
	k := fmt.Sprintf("%d/%s", u, cfg)
	e.mu.Lock()
	e.idle[k] = append(e.idle[k], g)
	e.mu.Unlock()
}

// expected label set of a stored series as presented by a store with external labels ext for a request dropping
// `drop`: (stored - drop) overridden by (ext - drop)
func present(storedL, ext labels.Labels, drop []string) string {
	m := storedL.Map()
	for k, v := range ext.Map() {
		m[k] = v
	}
	for _, d := range drop {
		delete(m, d)
	}
	return labels.FromMap(m).String()
}

func contradicts(ext labels.Labels, ms []M) bool {
	for _, m := range promMatchers(ms) {
		if v := ext.Get(m.Name); v != "" && !m.Matches(v) {
			return true
		}
	}
	return false
}

func (e *env) eval(c Case) {
	r := e.r
	ctx := context.Background()
	req := &storepb.SeriesRequest{MinTime: c.MinT, MaxTime: c.MaxT, Matchers: pbMatchers(c.Ms), WithoutReplicaLabels: c.Drop}
	srv := &seriesServer{ctx: ctx}
	var exts []labels.Labels // external label sets of the store (one per block set)
	var err error
	switch c.Store {
	case "tsdb":
		if c.Ext < 0 || c.Ext >= len(extSets) {
			panic("HARNESS-ERROR bad ext index")
		}
		ext := lbls(extSets[c.Ext])
		exts = []labels.Labels{ext}
		st := store.NewTSDBStore(nil, e.db, component.Rule, ext)
		store.VerifC08SetMaxBytesPerFrame(st, c.Frame)
		err = st.Series(req, srv)
	case "bucket":
		if c.Ext < 0 || c.Ext >= len(bucketUniverses) {
			panic("HARNESS-ERROR bad universe index")
		}
		for _, xi := range bucketUniverses[c.Ext] {
			exts = append(exts, lbls(extSets[xi]))
		}
		g := e.acquire(ctx, c.Ext, c.Cfg)
		err = g.st.Series(req, srv)
		e.release(c.Ext, c.Cfg, g)
	default:
		panic("HARNESS-ERROR unknown store kind " + c.Store)
	}
	e.calls.Add(1)
	where := fmt.Sprintf("%s store ext=%v drop=%v frame=%d %s selectors %v range [%d,%d]", c.Store, exts, c.Drop, c.Frame, c.Cfg, c.Ms, c.MinT, c.MaxT)

	// external label sets whose values no selector contradicts
	var live []labels.Labels
	for _, x := range exts {
		if !contradicts(x, c.Ms) {
			live = append(live, x)
		}
	}
	if len(live) < len(exts) {
		e.contradicting.Add(1)
	}
	if err != nil {
		// a failed call delivers no usable series; the statement is about what is returned
		e.errs.Add(1)
		if len(srv.series) == 0 {
			return
		}
	}
	if len(live) == 0 {
		if len(srv.series) > 0 {
			r.Violation("series-returned-although-selectors-contradict-external-labels",
				fmt.Sprintf("%s: %d series, first %s", where, len(srv.series), labelpb.ZLabelsToPromLabels(srv.series[0].Labels)), c)
		}
		r.Nontrivial("contra|" + c.Store + fmt.Sprint(c.Ext, c.Ms))
		return
	}
	if len(srv.series) == 0 {
		return
	}
	e.nonEmpty.Add(1)
	// every label set a correct presentation can produce from the stored series, per live external label set
	expected := map[string]struct{}{}
	for _, x := range live {
		for _, s := range stored {
			expected[present(lbls(s.L), x, c.Drop)] = struct{}{}
		}
	}
	perSeries := map[string]int{}
	for _, s := range srv.series {
		seen := map[string]bool{}
		for _, l := range s.Labels {
			if seen[l.Name] {
				r.Violation("label-name-twice-in-a-series", fmt.Sprintf("%s: series %v", where, s.Labels), c)
				return
			}
			seen[l.Name] = true
		}
		got := labelpb.ZLabelsToPromLabels(s.Labels)
		k := labels.FromMap(got.Map()).String()
		perSeries[k]++
		if _, ok := expected[k]; ok {
			continue
		}
		// classify what is wrong with it
		sig := "series-labels-are-not-stored-labels-overridden-by-external-labels"
		for _, d := range c.Drop {
			if got.Has(d) {
				sig = "dropped-replica-label-still-present"
			}
		}
		missesExt := true
		for _, x := range live {
			all := true
			x.Range(func(l labels.Label) {
				dropped := false
				for _, d := range c.Drop {
					if d == l.Name {
						dropped = true
					}
				}
				if !dropped && got.Get(l.Name) != l.Value {
					all = false
				}
			})
			if all {
				missesExt = false
			}
		}
		if missesExt && sig != "dropped-replica-label-still-present" {
			sig = "external-label-missing-or-not-overriding"
		}
		var exp []string
		for k := range expected {
			exp = append(exp, k)
		}
		sort.Strings(exp)
		r.Violation(sig, fmt.Sprintf("%s: returned series %s; possible presentations of the stored series: %s", where, got, strings.Join(exp, " ")), c)
		return
	}
	for _, n := range perSeries {
		if n > 1 {
			e.multiFrame.Add(1)
			break
		}
	}
	if len(c.Drop) > 0 {
		e.dropped.Add(1)
	}
	r.Nontrivial(fmt.Sprintf("%s|%d|%v|%v", c.Store, c.Ext, c.Drop, c.Ms))
}

func TestCheck(t *testing.T) {
	r := vlib.New(t, "C08")
	defer r.Finish()
	r.Rule("7 stored series whose label names e, r, a, z collide with the external label sets {e=1},{e=1,r=0},{a=z},{r=0,z=k},{} served by (a) TSDBStore over a real tsdb.DB head " +
		"with frame limits {1,64,100,1MiB} and (b) BucketStore over one block per external set and over a bucket with two differently labelled blocks (lazy postings off/on, batch 1/1e4); " +
		"x 9 replica-label lists x all sets of <=2 matchers from an alphabet of agreeing/contradicting/stored-label matchers x time ranges; " +
		"non-trivial = distinct (store, ext, drop, selectors) that returned series, plus distinct contradicting requests")
	r.Assume("oracle per returned series: its label set equals (stored - dropped) overridden by (external - dropped) for some stored series and some external label set of the store that no selector contradicts; "+
		"completeness of the answer and chunk contents are C10's subject and not asserted here",
		"a selector contradicts an external label set when it is on one of its label names and does not match the value",
		"calls that fail (e.g. TSDBStore rejects requests with no matcher besides external ones) return nothing and are counted in 'failed_calls'",
		"PrometheusStore (remote read against a live Prometheus) is not driven")
	ctx := context.Background()
	root := t.TempDir()
	e := &env{r: r, idle: map[string][]*gateway{}}

	// TSDB head shared by all TSDBStore instances (read only after the appends)
	opts := tsdb.DefaultOptions()
	opts.MinBlockDuration = 100
	opts.MaxBlockDuration = 100
	opts.RetentionDuration = 0
	db, err := tsdb.Open(filepath.Join(root, "db"), nil, nil, opts, nil)
	if err != nil {
		t.Fatalf("HARNESS-ERROR %v", err)
	}
	db.DisableCompactions()
	defer db.Close()
	tsSet := map[int64]bool{}
	for _, s := range stored {
		for _, ts := range s.T {
			tsSet[ts] = true
		}
	}
	var tss []int64
	for ts := range tsSet {
		tss = append(tss, ts)
	}
	sort.Slice(tss, func(i, j int) bool { return tss[i] < tss[j] })
	for _, ts := range tss {
		app := db.Appender(ctx)
		for _, s := range stored {
			for _, st := range s.T {
				if st == ts {
					if _, err := app.Append(0, lbls(s.L), ts, float64(lbls(s.L).Hash()%1000)+float64(ts)/7); err != nil {
						t.Fatalf("HARNESS-ERROR append: %v", err)
					}
				}
			}
		}
		if err := app.Commit(); err != nil {
			t.Fatalf("HARNESS-ERROR %v", err)
		}
	}
	e.db = db

	for ui, xs := range bucketUniverses {
		var specs []BlockSpec
		for _, xi := range xs {
			specs = append(specs, BlockSpec{Ext: extSets[xi], MinT: 0, MaxT: 300, ChunkRange: 100, Series: stored})
		}
		name := fmt.Sprintf("b%d", ui)
		u, err := buildUniverse(ctx, root, name, specs)
		if err != nil {
			t.Fatalf("HARNESS-ERROR %v", err)
		}
		defer u.close()
		e.unis = append(e.unis, u)
		hdr := filepath.Join(root, "hdr-"+name)
		g, err := newGateway(ctx, u, Config{Sampling: 32, Batch: 10000, Gap: 1}, nil, hdr, nil)
		if err != nil {
			t.Fatalf("HARNESS-ERROR warm-up store for %s: %v", name, err)
		}
		g.close()
		e.hdr = append(e.hdr, hdr)
	}

	vlib.ForEach(r, e.gen(r.Thorough()), func(c Case) {
		r.Sample(c)
		e.eval(c)
	})
	for _, g := range e.all {
		g.close()
	}
	r.Set("series_calls", e.calls.Load())
	r.Set("calls_returning_series", e.nonEmpty.Load())
	r.Set("calls_contradicting_an_external_set", e.contradicting.Load())
	r.Set("calls_returning_series_with_dropped_labels", e.dropped.Load())
	r.Set("calls_with_a_series_split_over_frames_or_merged", e.multiFrame.Load())
	r.Set("failed_calls", e.errs.Load())
	if !r.Replaying() && (e.nonEmpty.Load() == 0 || e.contradicting.Load() == 0 || e.dropped.Load() == 0 || e.multiFrame.Load() == 0) {
		r.Cap("a class of cases was never observed (see counters)")
	}
}
