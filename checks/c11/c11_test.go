// C11: the binary index-header answers exactly like the full TSDB index.
// Engine E4. For every generated index (byte layout of the Prometheus index.Writer, format v2; buildIndex, cross-checked
// byte for byte against the writer), every in-memory sampling rate and every sorted list of requested values (present,
// absent, repeated) the real BinaryReader (and, once per index, the LazyBinaryReader) is compared with the Prometheus
// index.Reader of the same bytes: label names, label values, symbols, and posting-list locations
// (index.Reader.PostingsRanges). Reader panics are recovered; lookups that never return are cut by a step budget on the
// header's byte source (adapter VerifC11WrapBytes) - both are reported as violations.
//
// Index families:
//
//	small: label "a" with every non-empty subset of 8 candidate values, combined with a following label "b" that is
//	       absent / has one value / has all 8 values (so "a" is the last name of the table or is followed by another name,
//	       and "b" is looked up behind a name with many values). The universe of requested values interleaves the 8
//	       candidates with 9 never-present values (before the first, between any two, after the last).
//	big:   one label with N values (odd numbers) in a universe of 2N+1 values; sampling rates up to beyond N.
//	v1:    the format-v1 index of the repository's testdata (the only complete v1 index available; the writer emits v2 only).
//	long:  label names and label values whose byte length straddles the 1-byte/2-byte boundary of the uvarint length
//	       prefix used by the symbol table and the postings offset table (1, 127, 128, 129, 300; thorough also 16383,
//	       16384): first name X of every length x second name Y absent or of every length x value sets {4 one-byte values,
//	       one value of every length, three values of one long length}, each as format v2 and as format v1 (the same
//	       bytes with the version byte set to 1: symbol table, postings, postings offset table and TOC have the same layout
//	       in both versions, only the series section - never read here - differs). Requested values: every present value,
//	       the same value one byte shorter and one byte longer, short absent values around them; requested names
//	       additionally each name one byte shorter and one byte longer.
package c11

import (
	"bytes"
	"context"
	"encoding/binary"
	"fmt"
	"hash/crc32"
	"iter"
	"os"
	"path/filepath"
	"slices"
	"sort"
	"strings"
	"testing"

	"github.com/go-kit/log"
	"github.com/oklog/ulid/v2"
	"github.com/prometheus/prometheus/model/labels"
	"github.com/prometheus/prometheus/storage"
	"github.com/prometheus/prometheus/tsdb/encoding"
	"github.com/prometheus/prometheus/tsdb/index"
	"github.com/thanos-io/objstore"

	"github.com/thanos-io/thanos/pkg/block/indexheader"

	"verif/vlib"
)

type Case struct {
	Fam string `json:"fam"` // small | big | v1 | long
	Sa  uint64 `json:"sa,omitempty"`
	Sb  int    `json:"sb,omitempty"` // 0 none, 1 one value, 2 all candidates
	N   int    `json:"n,omitempty"`
	// long family
	LX int  `json:"lx,omitempty"` // byte length of the first label name
	LY int  `json:"ly,omitempty"` // byte length of the second label name, 0 = no second name
	VL int  `json:"vl,omitempty"` // values: 0 = four 1-byte values, -1 = one value of every length of the alphabet, l>1 = three values of l bytes
	V1 bool `json:"v1,omitempty"` // the index is marked format v1
}

// byte lengths around the uvarint boundaries 2^7 (and, thorough, 2^14)
func lengthAlphabet(r *vlib.R) []int {
	return vlib.Pick(r, []int{1, 127, 128, 129, 300}, []int{1, 127, 128, 129, 300, 16383, 16384})
}

var valueLetters = "bdfhjlnprt"

func padTo(first byte, pad string, n int) string {
	return string(first) + strings.Repeat(pad, n-1)
}

// sh abbreviates long strings in messages.
func sh(s string) string {
	if len(s) <= 24 {
		return fmt.Sprintf("%q", s)
	}
	return fmt.Sprintf("%q..(%d bytes)", s[:4], len(s))
}

func shl(l []string) string {
	o := make([]string, len(l))
	for i, s := range l {
		o[i] = sh(s)
	}
	return "[" + strings.Join(o, " ") + "]"
}

type bs []byte

func (b bs) Len() int                    { return len(b) }
func (b bs) Range(start, end int) []byte { return b[start:end] }

var (
	candidates = []string{"b", "d", "f", "h", "j", "l", "n", "p"}
	universeS  = []string{"a", "b", "c", "d", "e", "f", "g", "h", "i", "j", "k", "l", "m", "n", "o", "p", "q"}
	blockID    = ulid.MustParse("01ARZ3NDEKTSV4RRFFQ69G5FAV")
)

func gen(r *vlib.R) iter.Seq[Case] {
	bigN := vlib.Pick(r, 20, 70)
	return func(yield func(Case) bool) {
		if !yield(Case{Fam: "v1"}) {
			return
		}
		la := lengthAlphabet(r)
		for _, v1 := range []bool{false, true} {
			for _, lx := range la {
				for _, ly := range append([]int{0}, la...) {
					for _, vl := range append([]int{0, -1}, la[1:]...) {
						if !yield(Case{Fam: "long", LX: lx, LY: ly, VL: vl, V1: v1}) {
							return
						}
					}
				}
			}
		}
		if !yield(Case{Fam: "big", N: bigN}) {
			return
		}
		for sb := 0; sb < 3; sb++ {
			for sa := uint64(1); sa < 256; sa++ {
				if !r.Thorough() && sb == 2 && sa != 255 && sa&(sa-1) != 0 {
					continue // quick: the 8-value label b only behind single-value and full label a
				}
				if !yield(Case{Fam: "small", Sa: sa, Sb: sb}) {
					return
				}
			}
		}
	}
}

// names -> sorted values of the index described by c, and the universe of values to request.
func describe(c Case, la []int) (map[string][]string, []string) {
	names := map[string][]string{}
	switch c.Fam {
	case "long":
		var vals []string
		switch {
		case c.VL == 0:
			vals = []string{"b", "d", "f", "h"}
		case c.VL < 0:
			for i, l := range la {
				vals = append(vals, padTo(valueLetters[i], "v", l))
			}
		default:
			for i := 0; i < 3; i++ {
				vals = append(vals, padTo(valueLetters[i], "v", c.VL))
			}
		}
		names[padTo('a', "n", c.LX)] = vals
		if c.LY > 0 {
			names[padTo('b', "n", c.LY)] = vals
		}
		// requested values: present ones, one byte shorter, one byte longer, short absent ones before/between/after
		seen := map[string]struct{}{"a": {}, "~": {}}
		for _, v := range vals {
			seen[v] = struct{}{}
			if len(v) > 1 {
				seen[v[:len(v)-1]] = struct{}{}
			}
			seen[v+"v"] = struct{}{}
			seen[string(v[0]+1)] = struct{}{}
		}
		var uni []string
		for v := range seen {
			uni = append(uni, v)
		}
		sort.Strings(uni)
		return names, uni
	case "small":
		for _, i := range vlib.Bits(c.Sa) {
			names["a"] = append(names["a"], candidates[i])
		}
		switch c.Sb {
		case 1:
			names["b"] = []string{"h"}
		case 2:
			names["b"] = append([]string(nil), candidates...)
		}
		return names, universeS
	case "big":
		var uni []string
		for i := 0; i <= 2*c.N; i++ {
			v := fmt.Sprintf("%03d", i)
			uni = append(uni, v)
			if i%2 == 1 {
				names["n"] = append(names["n"], v)
			}
		}
		return names, uni
	}
	return nil, nil
}

var castagnoli = crc32.MakeTable(crc32.Castagnoli)

// buildIndex produces, in memory, the format-v2 index that the Prometheus index.Writer writes for one single-label series
// per (name, value) - see writeIndex, which is the ground truth: sameAsWriter cases are written with both and must be
// byte-identical (the Prometheus writer allocates ~20 MB of buffers and fsyncs three files per index, which dominated the
// run time). Layout: header | symbols | series (16-byte aligned) | postings (4-byte aligned) | postings offset table | TOC.
func buildIndex(names map[string][]string) []byte {
	lnames, syms := namesAndSymbols(names)
	symIdx := make(map[string]uint32, len(syms))
	for i, s := range syms {
		symIdx[s] = uint32(i)
	}
	var out []byte
	var e encoding.Encbuf
	be32 := func(b []byte, v int) []byte { return binary.BigEndian.AppendUint32(b, uint32(v)) }
	pad := func(b []byte, n int) []byte {
		for len(b)%n != 0 {
			b = append(b, 0)
		}
		return b
	}
	section := func(b []byte) []byte { // <len> content <crc32 of content>
		b = be32(b, e.Len())
		b = append(b, e.Get()...)
		return be32(b, int(crc32.Checksum(e.Get(), castagnoli)))
	}
	out = be32(out, index.MagicIndex)
	out = append(out, index.FormatV2)

	tocSymbols := len(out)
	e.Reset()
	e.PutBE32int(len(syms))
	for _, s := range syms {
		e.PutUvarintStr(s)
	}
	out = section(out)

	tocSeries := len(out)
	type posting struct {
		name, value string
		refs        []uint32
		off         int
	}
	postings := []*posting{{}}
	for _, n := range lnames {
		for _, v := range sortedCopy(names[n]) {
			out = pad(out, 16)
			ref := uint32(len(out) / 16)
			e.Reset()
			e.PutUvarint(1) // one label
			e.PutUvarint32(symIdx[n])
			e.PutUvarint32(symIdx[v])
			e.PutUvarint(0) // no chunks
			out = binary.AppendUvarint(out, uint64(e.Len()))
			out = append(out, e.Get()...)
			out = be32(out, int(crc32.Checksum(e.Get(), castagnoli)))
			postings[0].refs = append(postings[0].refs, ref)
			postings = append(postings, &posting{name: n, value: v, refs: []uint32{ref}})
		}
	}

	tocLabelIndices := len(out)
	tocPostings := len(out)
	out = pad(out, 4)
	postingsStart := len(out)
	var tmp []byte
	for _, p := range postings {
		tmp = pad(tmp, 4)
		p.off = len(tmp) + postingsStart
		e.Reset()
		e.PutBE32int(len(p.refs))
		for _, r := range p.refs {
			e.PutBE32(r)
		}
		tmp = section(tmp)
	}
	out = append(out, tmp...)

	tocPostingsTable := len(out)
	e.Reset()
	e.PutBE32int(len(postings))
	for _, p := range postings {
		e.PutUvarint(2)
		e.PutUvarintStr(p.name)
		e.PutUvarintStr(p.value)
		e.PutUvarint64(uint64(p.off))
	}
	out = section(out)

	e.Reset()
	for _, o := range []int{tocSymbols, tocSeries, tocLabelIndices, tocPostingsTable, tocPostings, tocPostingsTable} {
		e.PutBE64(uint64(o))
	}
	out = append(out, e.Get()...)
	return be32(out, int(crc32.Checksum(e.Get(), castagnoli)))
}

func sortedCopy(l []string) []string {
	o := append([]string(nil), l...)
	sort.Strings(o)
	return o
}

func namesAndSymbols(names map[string][]string) (lnames, syms []string) {
	symSet := map[string]struct{}{}
	for n, vs := range names {
		lnames = append(lnames, n)
		symSet[n] = struct{}{}
		for _, v := range vs {
			symSet[v] = struct{}{}
		}
	}
	for s := range symSet {
		syms = append(syms, s)
	}
	sort.Strings(syms)
	sort.Strings(lnames)
	return lnames, syms
}

// sameAsWriter: the cases whose generated index is compared byte for byte with the Prometheus index.Writer's.
func sameAsWriter(r *vlib.R, c Case) bool {
	if r.Thorough() || r.Replaying() {
		return true
	}
	switch c.Fam {
	case "big":
		return true
	case "long":
		return !c.V1 && c.VL == -1 && (c.LY == 0 || c.LY == 128) // every first-name length, with and without a long second name
	case "small":
		return c.Sa == 255
	}
	return false
}

func writeIndex(dir string, names map[string][]string) ([]byte, error) {
	ctx := context.Background()
	fn := filepath.Join(dir, "index")
	w, err := index.NewWriter(ctx, fn)
	if err != nil {
		return nil, err
	}
	lnames, syms := namesAndSymbols(names)
	for _, s := range syms {
		if err := w.AddSymbol(s); err != nil {
			return nil, err
		}
	}
	ref := storage.SeriesRef(0)
	for _, n := range lnames {
		vs := append([]string(nil), names[n]...)
		sort.Strings(vs)
		for _, v := range vs {
			ref++
			if err := w.AddSeries(ref, labels.FromStrings(n, v)); err != nil {
				return nil, err
			}
		}
	}
	if err := w.Close(); err != nil {
		return nil, err
	}
	return os.ReadFile(fn)
}

type ref struct {
	idx     []byte
	version int
	names   []string
	values  map[string][]string
	symbols []string
	symRefs []uint32 // reference of symbols[i]: its position in the table (v2) / its byte offset in the index (v1)
	ranges  map[labels.Label]index.Range
	last    labels.Label // last entry of the postings offset table (its End may be over-estimated by the header)
}

func loadRef(b []byte) (*ref, error) {
	ctx := context.Background()
	ir, err := index.NewReader(bs(b), index.DecodePostingsRaw)
	if err != nil {
		return nil, err
	}
	defer ir.Close()
	rf := &ref{idx: b, version: ir.Version(), values: map[string][]string{}}
	if rf.names, err = ir.LabelNames(ctx); err != nil {
		return nil, err
	}
	for _, n := range rf.names {
		if rf.values[n], err = ir.SortedLabelValues(ctx, n, nil); err != nil {
			return nil, err
		}
	}
	it := ir.Symbols()
	for it.Next() {
		rf.symbols = append(rf.symbols, it.At())
	}
	if it.Err() != nil {
		return nil, it.Err()
	}
	if rf.ranges, err = ir.PostingsRanges(); err != nil {
		return nil, err
	}
	toc, err := index.NewTOCFromByteSlice(bs(b))
	if err != nil {
		return nil, err
	}
	syms, err := index.NewSymbols(bs(b), rf.version, int(toc.Symbols))
	if err != nil {
		return nil, err
	}
	for i, s := range rf.symbols {
		o, err := syms.ReverseLookup(s)
		if err != nil {
			return nil, err
		}
		if back, err := syms.Lookup(o); err != nil || back != s || (rf.version != index.FormatV1 && o != uint32(i)) {
			return nil, fmt.Errorf("reference symbol table: symbol %d has reference %d which resolves to %s, %v", i, o, sh(back), err)
		}
		rf.symRefs = append(rf.symRefs, o)
	}
	err = index.ReadPostingsOffsetTable(bs(b), toc.PostingsTable, func(name, value []byte, _ uint64, _ int) error {
		rf.last = labels.Label{Name: string(name), Value: string(value)}
		return nil
	})
	return rf, err
}

// sortedLists yields every non-decreasing list of length 0..maxLen over universe.
func sortedLists(universe []string, maxLen int) iter.Seq[[]string] {
	return func(yield func([]string) bool) {
		for n := 0; n <= maxLen; n++ {
			l := make([]string, n) // reused: neither the readers nor the checker keep a requested list
			for ms := range vlib.Multisets(n, len(universe)) {
				for i, x := range ms {
					l[i] = universe[x]
				}
				if !yield(l) {
					return
				}
			}
		}
	}
}

type checker struct {
	r  *vlib.R
	c  Case
	rf *ref

	nviol map[string]int
	// the reader call in progress and the number of reads of the header bytes it made (step budget)
	steps   int
	curKind string
	curName string
	curList []string
}

// listedPerSig: counter-examples of one signature that are formatted and listed per index; the rest is only counted.
const listedPerSig = 3

func (k *checker) viol(sig, format string, a ...any) {
	if k.nviol == nil {
		k.nviol = map[string]int{}
	}
	k.nviol[sig]++
	if k.nviol[sig] > listedPerSig {
		k.r.Add("further_counter_examples_not_listed", 1)
		return
	}
	k.r.Violation(sig, fmt.Sprintf(format, a...), k.c)
}

// stepBudget bounds the reads of the header bytes (index.ByteSlice.Range) a single reader call may make. A correct lookup of
// n values positions a decoder on the postings offset table at most n+1 times (2 reads each); a lookup loop that stops
// advancing through the requested values re-positions the decoder forever and is cut here instead of hanging the check.
const stepBudget = 2000

type stepBudgetExceeded struct{}

type budgetBytes struct {
	index.ByteSlice
	k *checker
}

func (b budgetBytes) Range(start, end int) []byte {
	b.k.steps++
	if b.k.steps > stepBudget {
		panic(stepBudgetExceeded{})
	}
	return b.ByteSlice.Range(start, end)
}

func (k *checker) wrap(b index.ByteSlice) index.ByteSlice { return budgetBytes{b, k} }

// call notes which reader call is about to run and resets its step budget.
func (k *checker) call(kind, name string, list []string) {
	k.steps, k.curKind, k.curName, k.curList = 0, kind, name, list
}

// rangeOK: header range equals the full index' range; the End of the table's last entry may be over-estimated (documented in
// indexheader.Reader: "The end offset might be bigger than the actual posting ending, but not larger than the whole index file").
func (k *checker) rangeOK(l labels.Label, got index.Range) bool {
	want := k.rf.ranges[l]
	if got.Start != want.Start {
		return false
	}
	if l == k.rf.last {
		return got.End >= want.End && got.End <= int64(len(k.rf.idx))
	}
	return got.End == want.End
}

// lookNames: every label name of the index, every name one byte shorter and one byte longer (unknown unless it is a name
// itself) and an unrelated unknown name.
func (k *checker) lookNames() []string {
	out := append([]string(nil), k.rf.names...)
	if k.c.Fam == "long" {
		for _, n := range k.rf.names {
			if len(n) > 1 {
				out = append(out, n[:len(n)-1])
			}
			out = append(out, n+"n")
		}
	}
	out = append(out, "zz-unknown")
	slices.Sort(out)
	return slices.Compact(out)
}

// guard runs f and turns a panic of the code under test into a violation.
func (k *checker) guard(who string, f func()) {
	defer func() {
		if p := recover(); p != nil {
			if s, ok := p.(string); ok && strings.HasPrefix(s, "HARNESS-ERROR") {
				panic(p)
			}
			if _, ok := p.(stepBudgetExceeded); ok {
				k.viol("reader-call-does-not-terminate", "%s: %s(%s,%s) read the header bytes more than %d times without returning (a correct lookup needs at most %d reads)",
					who, k.curKind, sh(k.curName), shl(k.curList), stepBudget, 2*(len(k.curList)+1))
				return
			}
			k.viol("panic-in-index-header", "%s: %s(%s,%s): panic: %v", who, k.curKind, sh(k.curName), shl(k.curList), p)
		}
	}()
	f()
}

func (k *checker) static(h indexheader.Reader, who string) {
	ctx := context.Background()
	rf := k.rf
	k.call("IndexVersion", "", nil)
	if v, err := h.IndexVersion(); err != nil || v != rf.version {
		k.viol("index-version-differs", "%s: IndexVersion()=%d,%v want %d", who, v, err, rf.version)
	}
	k.call("LabelNames", "", nil)
	names, err := h.LabelNames()
	if err != nil || !slices.Equal(names, rf.names) {
		k.viol("label-names-differ", "%s: LabelNames()=%s,%v want %s", who, shl(names), err, shl(rf.names))
	}
	for _, n := range k.lookNames() {
		k.call("LabelValues", n, nil)
		vals, err := h.LabelValues(n)
		if err != nil || !slices.Equal(vals, rf.values[n]) {
			k.viol("label-values-differ", "%s: LabelValues(%s)=%s,%v want %s", who, sh(n), shl(vals), err, shl(rf.values[n]))
		}
	}
	for pass := 0; pass < 2; pass++ { // second pass is served from the symbol caches
		for i, s := range rf.symbols {
			k.call("LookupSymbol", "", nil)
			got, err := h.LookupSymbol(ctx, rf.symRefs[i])
			if err != nil || got != s {
				k.viol("symbol-differs", "%s: LookupSymbol(%d)=%s,%v want %s (symbol %d, pass %d)", who, rf.symRefs[i], sh(got), err, sh(s), i, pass)
			}
		}
	}
	if rf.version != index.FormatV1 {
		k.call("LookupSymbol", "", nil)
		if got, err := h.LookupSymbol(ctx, uint32(len(rf.symbols))); err == nil {
			k.viol("symbol-beyond-table-found", "%s: LookupSymbol(%d)=%s although the index has %d symbols", who, len(rf.symbols), sh(got), len(rf.symbols))
		}
	}
	an, av := index.AllPostingsKey()
	k.call("PostingsOffset", an, nil)
	if rng, err := h.PostingsOffset(an, av); err != nil || !k.rangeOK(labels.Label{Name: an, Value: av}, rng) {
		k.viol("all-postings-location-differs", "%s: PostingsOffset(all postings key)=%v,%v want %v", who, rng, err, rf.ranges[labels.Label{Name: an, Value: av}])
	}
}

func (k *checker) lookups(h indexheader.Reader, who string, universe []string, maxLen int) (n, mixed int64) {
	rf := k.rf
	for _, name := range k.lookNames() {
		_, known := rf.values[name]
		for vi, v := range universe {
			l := labels.Label{Name: name, Value: v}
			_, present := rf.ranges[l]
			k.steps, k.curKind, k.curName, k.curList = 0, "PostingsOffset", name, universe[vi:vi+1]
			rng, err := h.PostingsOffset(name, v)
			n++
			switch {
			case present && (err != nil || !k.rangeOK(l, rng)):
				k.viol("single-lookup-location-differs", "%s: PostingsOffset(%s,%s)=%v,%v want %v", who, sh(name), sh(v), rng, err, rf.ranges[l])
			case !present && err != indexheader.NotFoundRangeErr:
				k.viol("single-lookup-missing-value-not-reported", "%s: PostingsOffset(%s,%s)=%v,%v want NotFoundRangeErr", who, sh(name), sh(v), rng, err)
			}
		}
		for list := range sortedLists(universe, maxLen) {
			k.steps, k.curKind, k.curName, k.curList = 0, "PostingsOffsets", name, list
			rngs, err := h.PostingsOffsets(name, list...)
			n++
			if err != nil {
				k.viol("multi-lookup-error", "%s: PostingsOffsets(%s,%s) failed: %v", who, sh(name), shl(list), err)
				continue
			}
			if !known || len(list) == 0 {
				// unknown name / nothing requested: "no posting" (header.go); an empty answer or all-not-found are both that
				for _, g := range rngs {
					if g != indexheader.NotFoundRange {
						k.viol("multi-lookup-unknown-name-found", "%s: PostingsOffsets(%s,%s)=%v", who, sh(name), shl(list), rngs)
						break
					}
				}
				continue
			}
			if len(rngs) != len(list) {
				sig := "multi-lookup-answer-not-aligned-with-request"
				if rf.version == index.FormatV1 {
					sig = "v1-index:missing-values-dropped-from-multi-lookup"
				}
				k.viol(sig, "%s: PostingsOffsets(%s,%s) returned %d ranges %v for %d requested values", who, sh(name), shl(list), len(rngs), rngs, len(list))
				continue
			}
			np := 0
			for i, v := range list {
				l := labels.Label{Name: name, Value: v}
				if _, present := rf.ranges[l]; present {
					np++
					if !k.rangeOK(l, rngs[i]) {
						k.viol("multi-lookup-location-differs", "%s: PostingsOffsets(%s,%s)=%v: position %d (%s) want %v", who, sh(name), shl(list), rngs, i, sh(v), rf.ranges[l])
						break
					}
				} else if rngs[i] != indexheader.NotFoundRange {
					k.viol("multi-lookup-missing-value-not-reported", "%s: PostingsOffsets(%s,%s)=%v: position %d (%s) is not in the index", who, sh(name), shl(list), rngs, i, sh(v))
					break
				}
			}
			if np > 0 && np < len(list) {
				mixed++
			}
		}
	}
	return n, mixed
}

func TestCheck(t *testing.T) {
	r := vlib.New(t, "C11")
	defer r.Finish()
	r.Rule("indexes: small = label a with every non-empty subset of 8 candidate values x label b {absent, 1 value, 8 values}; big = one label with N values; v1 = " +
		"testdata index (format v1); long = first label name of 1/127/128/129/300 bytes (thorough also 16383/16384) x second name absent or of each of these lengths x " +
		"values {four 1-byte values, one value of each of these lengths, three values of one long length} x format {v2, v1 = same bytes marked v1}, requested values/names " +
		"include each present one a byte shorter and a byte longer; per index every sampling rate (small 1..9, big 1..N+2 and 2N, long 1..values+1 and 64, v1 1/3/32) x every sorted value list with repetition of length <= L over the " +
		"universe (candidates interleaved with never-present values) x every label name and an unknown name, plus all single lookups, names, values, symbols; " +
		"non-trivial = distinct (index, sampling>1) whose multi-value lookups include lists mixing present and absent values; extra: lookups, mixed lookups")
	r.Assume("Reference = Prometheus index.Reader (LabelNames, SortedLabelValues, Symbols, PostingsRanges) over the same index bytes.",
		"As documented on indexheader.Reader, the End of the last entry of the postings offset table may exceed the exact end (bounded by the index size); Start must be exact.",
		"For an unknown label name or an empty request an empty answer counts as 'not found' (header.go: 'no posting').",
		"Generated format-v1 indexes are format-v2 files of the Prometheus writer with the version byte set to 1: symbol table, postings, postings offset table and TOC are laid out identically in v1 and v2; "+
			"the series section (which would differ) is read neither by the index-header nor by the reference methods used. Symbol references are taken from index.Symbols.ReverseLookup (table position in v2, byte offset in v1).")
	listLen := vlib.Pick(r, 3, 5)
	bigListLen := vlib.Pick(r, 2, 3)
	la := lengthAlphabet(r)
	root := t.TempDir()
	logger := log.NewNopLogger()

	vlib.ForEach(r, gen(r), func(c Case) {
		ctx := context.Background()
		if r.Expired("remaining indexes skipped") {
			return
		}
		r.Sample(c)
		dir, err := os.MkdirTemp(root, "c11")
		if err != nil {
			t.Errorf("HARNESS-ERROR %v", err)
			return
		}
		defer os.RemoveAll(dir)

		var idx []byte
		var universe []string
		var samplings []int
		ll := listLen
		switch c.Fam {
		case "v1":
			repo := os.Getenv("VERIF_REPO")
			if repo == "" {
				repo = "/repo"
			}
			idx, err = os.ReadFile(filepath.Join(repo, "pkg/block/indexheader/testdata/index_format_v1/index"))
			samplings = []int{1, 3, 32}
		default:
			var names map[string][]string
			names, universe = describe(c, la)
			idx = buildIndex(names)
			if sameAsWriter(r, c) {
				var widx []byte
				if widx, err = writeIndex(dir, names); err == nil && !bytes.Equal(idx, widx) {
					err = fmt.Errorf("generated index (%d bytes) differs from the index written by the Prometheus index.Writer (%d bytes)", len(idx), len(widx))
				}
				r.Add("indexes_compared_with_prometheus_writer", 1)
			}
			switch c.Fam {
			case "small":
				samplings = []int{1, 2, 3, 4, 5, 6, 7, 8, 9}
			case "long":
				ll = bigListLen
				if c.V1 {
					if err == nil {
						idx[4] = index.FormatV1 // same symbol table / postings / postings offset table / TOC layout; series are never read
					}
					samplings = []int{1, 3, 32}
					break
				}
				for _, vs := range names {
					for s := 1; s <= len(vs)+1; s++ {
						samplings = append(samplings, s)
					}
					break
				}
				samplings = append(samplings, 64)
			default:
				for s := 1; s <= c.N+2; s++ {
					samplings = append(samplings, s)
				}
				samplings = append(samplings, 2*c.N)
				ll = bigListLen
			}
		}
		if err != nil {
			t.Errorf("HARNESS-ERROR building index for %+v: %v", c, err)
			return
		}
		rf, err := loadRef(idx)
		if err != nil {
			t.Errorf("HARNESS-ERROR reading index for %+v with the Prometheus reader: %v", c, err)
			return
		}
		if (c.Fam == "v1" || c.V1) != (rf.version == index.FormatV1) {
			t.Errorf("HARNESS-ERROR index of %+v has format version %d", c, rf.version)
			return
		}
		if c.Fam == "v1" {
			if rf.version != index.FormatV1 {
				t.Errorf("HARNESS-ERROR testdata index is not format v1")
				return
			}
			// universe: the values of the first label name interleaved with absent ones (prefix/suffix variations)
			seen := map[string]struct{}{"": {}}
			for _, n := range rf.names {
				for _, v := range rf.values[n] {
					seen[v] = struct{}{}
					seen[v+"~"] = struct{}{}
				}
				if len(seen) > 12 {
					break
				}
			}
			for v := range seen {
				universe = append(universe, v)
			}
			sort.Strings(universe)
			if len(universe) > 16 {
				universe = universe[:16]
			}
			ll = 3
		}
		bkt := objstore.NewInMemBucket()
		if err := bkt.Upload(ctx, filepath.Join(blockID.String(), "index"), bytes.NewReader(idx)); err != nil {
			t.Errorf("HARNESS-ERROR upload: %v", err)
			return
		}
		k := &checker{r: r, c: c, rf: rf}
		metrics := indexheader.NewBinaryReaderMetrics(nil)
		// the lazy reader once per index; it writes the index-header file into dir (WriteBinary to a file, mmap)
		func() {
			const who = "LazyBinaryReader(sampling=3)"
			var lz *indexheader.LazyBinaryReader
			var err error
			k.guard("NewLazyBinaryReader", func() {
				lz, err = indexheader.NewLazyBinaryReader(ctx, logger, bkt, dir, blockID, 3, indexheader.NewLazyBinaryReaderMetrics(nil), metrics, nil, false)
			})
			if err != nil {
				k.viol("header-not-built", "NewLazyBinaryReader failed: %v", err)
				return
			}
			if lz == nil {
				return // panicked, reported
			}
			k.guard(who, func() {
				k.call("IndexVersion", "", nil)
				if _, err := lz.IndexVersion(); err != nil { // loads the header
					k.viol("header-not-built", "%s: loading failed: %v", who, err)
					return
				}
				if !indexheader.VerifC11WrapBytes(lz, k.wrap) {
					panic("HARNESS-ERROR lazy reader holds no loaded reader after IndexVersion()")
				}
				k.static(lz, who)
				n, _ := k.lookups(lz, who, universe, 2)
				r.Add("lookups", n)
			})
			if err := lz.Close(); err != nil {
				t.Errorf("HARNESS-ERROR closing lazy reader: %v", err)
			}
		}()
		// BinaryReader at every sampling rate: the first one builds the header in memory (WriteBinary without a file), the others
		// open the header file in dir (written by the lazy reader above; re-written by NewBinaryReader if it cannot be read).
		for i, s := range samplings {
			if r.Expired("sampling rates of an index cut short") {
				return
			}
			hdir, how := dir, "file"
			if i == 0 {
				hdir, how = "", "memory"
			}
			who := fmt.Sprintf("BinaryReader(sampling=%d,%s)", s, how)
			var h *indexheader.BinaryReader
			var err error
			k.guard(who, func() { h, err = indexheader.NewBinaryReader(ctx, logger, bkt, hdir, blockID, s, metrics) })
			if err != nil {
				k.viol("header-not-built", "NewBinaryReader(sampling %d, %s) failed: %v", s, how, err)
				continue
			}
			if h == nil {
				continue // panicked, reported
			}
			var n, mixed int64
			indexheader.VerifC11WrapBytes(h, k.wrap)
			k.guard(who, func() {
				k.static(h, who)
				n, mixed = k.lookups(h, who, universe, ll)
			})
			_ = h.Close()
			r.Add("lookups", n)
			r.Add("lookups_mixing_present_and_absent", mixed)
			if s > 1 && mixed > 0 {
				r.Nontrivial(fmt.Sprint(c, s))
			}
		}
		if c.Fam == "long" {
			r.Add("long_family_indexes", 1)
			for _, nm := range rf.names {
				if len(nm) >= 128 {
					r.Add("label_names_of_128_bytes_or_more_compared", 1)
				}
				for _, v := range rf.values[nm] {
					if len(v) >= 128 {
						r.Add("label_values_of_128_bytes_or_more_compared", 1)
					}
				}
			}
		}
	})
}
