// C11: the binary index-header answers exactly like the full TSDB index.
// Engine E4. For every generated index (written with the Prometheus index.Writer, format v2), every in-memory sampling
// rate and every sorted list of requested values (present, absent, repeated) the real BinaryReader (and, once per index,
// the LazyBinaryReader) is compared with the Prometheus index.Reader of the same bytes: label names, label values,
// symbols, and posting-list locations (index.Reader.PostingsRanges).
//
// Index families:
//
//	small: label "a" with every non-empty subset of 8 candidate values, combined with a following label "b" that is
//	       absent / has one value / has all 8 values (so "a" is the last name of the table or is followed by another name,
//	       and "b" is looked up behind a name with many values). The universe of requested values interleaves the 8
//	       candidates with 9 never-present values (before the first, between any two, after the last).
//	big:   one label with N values (odd numbers) in a universe of 2N+1 values; sampling rates up to beyond N.
//	v1:    the format-v1 index of the repository's testdata (the only v1 index available; the writer emits v2 only).
package c11

import (
	"bytes"
	"context"
	"fmt"
	"iter"
	"os"
	"path/filepath"
	"sort"
	"testing"

	"github.com/go-kit/log"
	"github.com/oklog/ulid/v2"
	"github.com/prometheus/prometheus/model/labels"
	"github.com/prometheus/prometheus/storage"
	"github.com/prometheus/prometheus/tsdb/index"
	"github.com/thanos-io/objstore"

	"github.com/thanos-io/thanos/pkg/block/indexheader"

	"verif/vlib"
)

type Case struct {
	Fam string `json:"fam"` // small | big | v1
	Sa  uint64 `json:"sa,omitempty"`
	Sb  int    `json:"sb,omitempty"` // 0 none, 1 one value, 2 all candidates
	N   int    `json:"n,omitempty"`
}

type bs []byte

func (b bs) Len() int                    { return len(b) }
func (b bs) Range(start, end int) []byte { return b[start:end] }

var (
	candidates = []string{"b", "d", "f", "h", "j", "l", "n", "p"}
	universeS  = []string{"a", "b", "c", "d", "e", "f", "g", "h", "i", "j", "k", "l", "m", "n", "o", "p", "q"}
	blockID    = ulid.MustParse("01ARZ3NDEKTSV4RRFFQ69G5FAV")
)

func gen(r *vlib.R) iter.Seq[Case] {
	bigN := vlib.Pick(r, 20, 70)
	return func(yield func(Case) bool) {
		if !yield(Case{Fam: "v1"}) {
			return
		}
		if !yield(Case{Fam: "big", N: bigN}) {
			return
		}
		for sb := 0; sb < 3; sb++ {
			for sa := uint64(1); sa < 256; sa++ {
				if !r.Thorough() && sb == 2 && sa != 255 && sa&(sa-1) != 0 {
					continue // quick: the 8-value label b only behind single-value and full label a
				}
				if !yield(Case{Fam: "small", Sa: sa, Sb: sb}) {
					return
				}
			}
		}
	}
}

// names -> sorted values of the index described by c, and the universe of values to request.
func describe(c Case) (map[string][]string, []string) {
	names := map[string][]string{}
	switch c.Fam {
	case "small":
		for _, i := range vlib.Bits(c.Sa) {
			names["a"] = append(names["a"], candidates[i])
		}
		switch c.Sb {
		case 1:
			names["b"] = []string{"h"}
		case 2:
			names["b"] = append([]string(nil), candidates...)
		}
		return names, universeS
	case "big":
		var uni []string
		for i := 0; i <= 2*c.N; i++ {
			v := fmt.Sprintf("%03d", i)
			uni = append(uni, v)
			if i%2 == 1 {
				names["n"] = append(names["n"], v)
			}
		}
		return names, uni
	}
	return nil, nil
}

func writeIndex(dir string, names map[string][]string) ([]byte, error) {
	ctx := context.Background()
	fn := filepath.Join(dir, "index")
	w, err := index.NewWriter(ctx, fn)
	if err != nil {
		return nil, err
	}
	symSet := map[string]struct{}{}
	var lnames []string
	for n, vs := range names {
		lnames = append(lnames, n)
		symSet[n] = struct{}{}
		for _, v := range vs {
			symSet[v] = struct{}{}
		}
	}
	var syms []string
	for s := range symSet {
		syms = append(syms, s)
	}
	sort.Strings(syms)
	sort.Strings(lnames)
	for _, s := range syms {
		if err := w.AddSymbol(s); err != nil {
			return nil, err
		}
	}
	ref := storage.SeriesRef(0)
	for _, n := range lnames {
		vs := append([]string(nil), names[n]...)
		sort.Strings(vs)
		for _, v := range vs {
			ref++
			if err := w.AddSeries(ref, labels.FromStrings(n, v)); err != nil {
				return nil, err
			}
		}
	}
	if err := w.Close(); err != nil {
		return nil, err
	}
	return os.ReadFile(fn)
}

type ref struct {
	idx     []byte
	version int
	names   []string
	values  map[string][]string
	symbols []string
	ranges  map[labels.Label]index.Range
	last    labels.Label // last entry of the postings offset table (its End may be over-estimated by the header)
}

func loadRef(b []byte) (*ref, error) {
	ctx := context.Background()
	ir, err := index.NewReader(bs(b), index.DecodePostingsRaw)
	if err != nil {
		return nil, err
	}
	defer ir.Close()
	rf := &ref{idx: b, version: ir.Version(), values: map[string][]string{}}
	if rf.names, err = ir.LabelNames(ctx); err != nil {
		return nil, err
	}
	for _, n := range rf.names {
		if rf.values[n], err = ir.SortedLabelValues(ctx, n, nil); err != nil {
			return nil, err
		}
	}
	it := ir.Symbols()
	for it.Next() {
		rf.symbols = append(rf.symbols, it.At())
	}
	if it.Err() != nil {
		return nil, it.Err()
	}
	if rf.ranges, err = ir.PostingsRanges(); err != nil {
		return nil, err
	}
	toc, err := index.NewTOCFromByteSlice(bs(b))
	if err != nil {
		return nil, err
	}
	err = index.ReadPostingsOffsetTable(bs(b), toc.PostingsTable, func(name, value []byte, _ uint64, _ int) error {
		rf.last = labels.Label{Name: string(name), Value: string(value)}
		return nil
	})
	return rf, err
}

// sortedLists yields every non-decreasing list of length 0..maxLen over universe.
func sortedLists(universe []string, maxLen int) iter.Seq[[]string] {
	return func(yield func([]string) bool) {
		for n := 0; n <= maxLen; n++ {
			for ms := range vlib.Multisets(n, len(universe)) {
				l := make([]string, n)
				for i, x := range ms {
					l[i] = universe[x]
				}
				if !yield(l) {
					return
				}
			}
		}
	}
}

type checker struct {
	r  *vlib.R
	c  Case
	rf *ref
}

func (k *checker) viol(sig, format string, a ...any) {
	k.r.Violation(sig, fmt.Sprintf(format, a...), k.c)
}

// rangeOK: header range equals the full index' range; the End of the table's last entry may be over-estimated (documented in
// indexheader.Reader: "The end offset might be bigger than the actual posting ending, but not larger than the whole index file").
func (k *checker) rangeOK(l labels.Label, got index.Range) bool {
	want := k.rf.ranges[l]
	if got.Start != want.Start {
		return false
	}
	if l == k.rf.last {
		return got.End >= want.End && got.End <= int64(len(k.rf.idx))
	}
	return got.End == want.End
}

func (k *checker) static(h indexheader.Reader, who string) {
	ctx := context.Background()
	rf := k.rf
	if v, err := h.IndexVersion(); err != nil || v != rf.version {
		k.viol("index-version-differs", "%s: IndexVersion()=%d,%v want %d", who, v, err, rf.version)
	}
	names, err := h.LabelNames()
	if err != nil || fmt.Sprint(names) != fmt.Sprint(rf.names) {
		k.viol("label-names-differ", "%s: LabelNames()=%v,%v want %v", who, names, err, rf.names)
	}
	for _, n := range append(append([]string(nil), rf.names...), "zz-unknown") {
		vals, err := h.LabelValues(n)
		if err != nil || len(vals) != len(rf.values[n]) || fmt.Sprint(vals) != fmt.Sprint(rf.values[n]) {
			k.viol("label-values-differ", "%s: LabelValues(%q)=%v,%v want %v", who, n, vals, err, rf.values[n])
		}
	}
	if rf.version == index.FormatV2 {
		for pass := 0; pass < 2; pass++ { // second pass is served from the symbol caches
			for i, s := range rf.symbols {
				got, err := h.LookupSymbol(ctx, uint32(i))
				if err != nil || got != s {
					k.viol("symbol-differs", "%s: LookupSymbol(%d)=%q,%v want %q (pass %d)", who, i, got, err, s, pass)
				}
			}
		}
		if got, err := h.LookupSymbol(ctx, uint32(len(rf.symbols))); err == nil {
			k.viol("symbol-beyond-table-found", "%s: LookupSymbol(%d)=%q although the index has %d symbols", who, len(rf.symbols), got, len(rf.symbols))
		}
	}
	an, av := index.AllPostingsKey()
	if rng, err := h.PostingsOffset(an, av); err != nil || !k.rangeOK(labels.Label{Name: an, Value: av}, rng) {
		k.viol("all-postings-location-differs", "%s: PostingsOffset(all postings key)=%v,%v want %v", who, rng, err, rf.ranges[labels.Label{Name: an, Value: av}])
	}
}

func (k *checker) lookups(h indexheader.Reader, who string, universe []string, maxLen int) (n, mixed int64) {
	rf := k.rf
	lookNames := append(append([]string(nil), rf.names...), "zz-unknown")
	for _, name := range lookNames {
		_, known := rf.values[name]
		for _, v := range universe {
			l := labels.Label{Name: name, Value: v}
			_, present := rf.ranges[l]
			rng, err := h.PostingsOffset(name, v)
			n++
			switch {
			case present && (err != nil || !k.rangeOK(l, rng)):
				k.viol("single-lookup-location-differs", "%s: PostingsOffset(%q,%q)=%v,%v want %v", who, name, v, rng, err, rf.ranges[l])
			case !present && err != indexheader.NotFoundRangeErr:
				k.viol("single-lookup-missing-value-not-reported", "%s: PostingsOffset(%q,%q)=%v,%v want NotFoundRangeErr", who, name, v, rng, err)
			}
		}
		for list := range sortedLists(universe, maxLen) {
			rngs, err := h.PostingsOffsets(name, list...)
			n++
			if err != nil {
				k.viol("multi-lookup-error", "%s: PostingsOffsets(%q,%q) failed: %v", who, name, list, err)
				continue
			}
			if !known || len(list) == 0 {
				// unknown name / nothing requested: "no posting" (header.go); an empty answer or all-not-found are both that
				for _, g := range rngs {
					if g != indexheader.NotFoundRange {
						k.viol("multi-lookup-unknown-name-found", "%s: PostingsOffsets(%q,%q)=%v", who, name, list, rngs)
						break
					}
				}
				continue
			}
			if len(rngs) != len(list) {
				sig := "multi-lookup-answer-not-aligned-with-request"
				if rf.version == index.FormatV1 {
					sig = "v1-index:missing-values-dropped-from-multi-lookup"
				}
				k.viol(sig, "%s: PostingsOffsets(%q,%q) returned %d ranges %v for %d requested values", who, name, list, len(rngs), rngs, len(list))
				continue
			}
			np := 0
			for i, v := range list {
				l := labels.Label{Name: name, Value: v}
				if _, present := rf.ranges[l]; present {
					np++
					if !k.rangeOK(l, rngs[i]) {
						k.viol("multi-lookup-location-differs", "%s: PostingsOffsets(%q,%q)=%v: position %d (%q) want %v", who, name, list, rngs, i, v, rf.ranges[l])
						break
					}
				} else if rngs[i] != indexheader.NotFoundRange {
					k.viol("multi-lookup-missing-value-not-reported", "%s: PostingsOffsets(%q,%q)=%v: position %d (%q) is not in the index", who, name, list, rngs, i, v)
					break
				}
			}
			if np > 0 && np < len(list) {
				mixed++
			}
		}
	}
	return n, mixed
}

func TestCheck(t *testing.T) {
	r := vlib.New(t, "C11")
	defer r.Finish()
	r.Rule("indexes: small = label a with every non-empty subset of 8 candidate values x label b {absent, 1 value, 8 values}; big = one label with N values; v1 = " +
		"testdata index (format v1); per index every sampling rate (small 1..9, big 1..N+2 and 2N) x every sorted value list with repetition of length <= L over the " +
		"universe (candidates interleaved with never-present values) x every label name and an unknown name, plus all single lookups, names, values, symbols; " +
		"non-trivial = distinct (index, sampling>1) whose multi-value lookups include lists mixing present and absent values; extra: lookups, mixed lookups")
	r.Assume("Reference = Prometheus index.Reader (LabelNames, SortedLabelValues, Symbols, PostingsRanges) over the same index bytes.",
		"As documented on indexheader.Reader, the End of the last entry of the postings offset table may exceed the exact end (bounded by the index size); Start must be exact.",
		"For an unknown label name or an empty request an empty answer counts as 'not found' (header.go: 'no posting').")
	listLen := vlib.Pick(r, 3, 5)
	bigListLen := vlib.Pick(r, 2, 3)
	root := t.TempDir()
	logger := log.NewNopLogger()

	vlib.ForEach(r, gen(r), func(c Case) {
		ctx := context.Background()
		r.Sample(c)
		dir, err := os.MkdirTemp(root, "c11")
		if err != nil {
			t.Errorf("HARNESS-ERROR %v", err)
			return
		}
		defer os.RemoveAll(dir)

		var idx []byte
		var universe []string
		var samplings []int
		ll := listLen
		switch c.Fam {
		case "v1":
			repo := os.Getenv("VERIF_REPO")
			if repo == "" {
				repo = "/repo"
			}
			idx, err = os.ReadFile(filepath.Join(repo, "pkg/block/indexheader/testdata/index_format_v1/index"))
			samplings = []int{1, 3, 32}
		default:
			var names map[string][]string
			names, universe = describe(c)
			idx, err = writeIndex(dir, names)
			if c.Fam == "small" {
				samplings = []int{1, 2, 3, 4, 5, 6, 7, 8, 9}
			} else {
				for s := 1; s <= c.N+2; s++ {
					samplings = append(samplings, s)
				}
				samplings = append(samplings, 2*c.N)
				ll = bigListLen
			}
		}
		if err != nil {
			t.Errorf("HARNESS-ERROR building index for %+v: %v", c, err)
			return
		}
		rf, err := loadRef(idx)
		if err != nil {
			t.Errorf("HARNESS-ERROR reading index for %+v with the Prometheus reader: %v", c, err)
			return
		}
		if c.Fam == "v1" {
			if rf.version != index.FormatV1 {
				t.Errorf("HARNESS-ERROR testdata index is not format v1")
				return
			}
			// universe: the values of the first label name interleaved with absent ones (prefix/suffix variations)
			seen := map[string]struct{}{"": {}}
			for _, n := range rf.names {
				for _, v := range rf.values[n] {
					seen[v] = struct{}{}
					seen[v+"~"] = struct{}{}
				}
				if len(seen) > 12 {
					break
				}
			}
			for v := range seen {
				universe = append(universe, v)
			}
			sort.Strings(universe)
			if len(universe) > 16 {
				universe = universe[:16]
			}
			ll = 3
		}
		bkt := objstore.NewInMemBucket()
		if err := bkt.Upload(ctx, filepath.Join(blockID.String(), "index"), bytes.NewReader(idx)); err != nil {
			t.Errorf("HARNESS-ERROR upload: %v", err)
			return
		}
		k := &checker{r: r, c: c, rf: rf}
		metrics := indexheader.NewBinaryReaderMetrics(nil)
		for _, s := range samplings {
			if r.Expired("sampling rates of an index cut short") {
				return
			}
			h, err := indexheader.NewBinaryReader(ctx, logger, bkt, "", blockID, s, metrics)
			if err != nil {
				k.viol("header-not-built", "NewBinaryReader(sampling %d) failed: %v", s, err)
				continue
			}
			who := fmt.Sprintf("BinaryReader(sampling=%d)", s)
			k.static(h, who)
			n, mixed := k.lookups(h, who, universe, ll)
			_ = h.Close()
			r.Add("lookups", n)
			r.Add("lookups_mixing_present_and_absent", mixed)
			if s > 1 && mixed > 0 {
				r.Nontrivial(fmt.Sprint(c, s))
			}
		}
		// the lazy reader (header file on disk, mmap) once per index
		lz, err := indexheader.NewLazyBinaryReader(ctx, logger, bkt, dir, blockID, 3, indexheader.NewLazyBinaryReaderMetrics(nil), metrics, nil, false)
		if err != nil {
			k.viol("header-not-built", "NewLazyBinaryReader failed: %v", err)
			return
		}
		k.static(lz, "LazyBinaryReader(sampling=3)")
		n, _ := k.lookups(lz, "LazyBinaryReader(sampling=3)", universe, 2)
		r.Add("lookups", n)
		if err := lz.Close(); err != nil {
			t.Errorf("HARNESS-ERROR closing lazy reader: %v", err)
		}
	})
}

