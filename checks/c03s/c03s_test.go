// C03 (schedule part): the fan-out merge returns every series once, sorted, with all chunks, on every
// schedule of the retrieval pipeline.
package c03s

import (
	"encoding/json"
	"testing"

	"verif/vexplore"
	"verif/vlib"
)

func TestCheck(t *testing.T) {
	r := vlib.New(t, "C03")
	defer r.Finish()
	r.Rule("scenarios = 2-3 healthy scripted stores (<=2 frames each, overlapping label sets, duplicate chunks across stores, Batch frames) x {lazy buf 1-2, eager} x ResponseBatchSize {0,2} x every schedule of receiver goroutines and consumer within the deviation bound (no frame timeout: no timer can fail a store); " +
		"distinct_nontrivial = distinct (scenario, response) observations - exactly one response per scenario is expected")
	type sb struct {
		c Case
		b int
	}
	// store 0 and 1 share label set 1 ({x=1,y=1}); chunk c1 (id 0) is sent by both, c1h (id 1) is the same bytes with a hash
	s0 := StoreSpec{E: []Entry{{L: 0, C: []int{ChC1}}, {L: 1, C: []int{ChC1, ChC2}}}}
	s1 := StoreSpec{E: []Entry{{L: 1, C: []int{ChC1h, ChC3}}, {L: 2, C: []int{ChC2}}}}
	s1b := StoreSpec{E: []Entry{{L: 1, C: []int{ChC1h}}, {L: 1, C: []int{ChC3}}, {L: 2, C: []int{ChC2}}}, F: []int{0, 2}}
	s2 := StoreSpec{E: []Entry{{L: 0, C: u(2, 0)}, {L: 2, C: u(2, 1)}}}
	ps := []sb{
		{Case{Stores: []StoreSpec{s0, s1}, Lazy: true, Buf: 1}, 2},
		{Case{Stores: []StoreSpec{s0, s1b}, Lazy: true, Buf: 2, Batch: 2}, 2},
		{Case{Stores: []StoreSpec{s0, s1b}, Lazy: true, Buf: 1}, 1},
		{Case{Stores: []StoreSpec{s0, s1}, Lazy: false}, 2},
	}
	if r.Thorough() {
		ps = []sb{
			{Case{Stores: []StoreSpec{s0, s1}, Lazy: true, Buf: 1}, 3},
			{Case{Stores: []StoreSpec{s0, s1b}, Lazy: true, Buf: 2, Batch: 2}, 3},
			{Case{Stores: []StoreSpec{s0, s1b}, Lazy: true, Buf: 1}, 2},
			{Case{Stores: []StoreSpec{s0, s1}, Lazy: false}, 3},
			{Case{Stores: []StoreSpec{s0, s1, s2}, Lazy: true, Buf: 1}, 2},
			{Case{Stores: []StoreSpec{s0, s1b, s2}, Lazy: false, Batch: 2}, 2},
		}
	}
	var named []vexplore.Named
	for _, p := range ps {
		named = append(named, vexplore.Named{S: scenario(p.c), Params: p.c, Bound: p.b, UseBound: true})
	}
	vexplore.Drive(r, named, 2, func(c vexplore.Case) *vexplore.Scenario {
		var p Case
		if err := json.Unmarshal(c.Params, &p); err != nil {
			return nil
		}
		return scenario(p)
	})
}
