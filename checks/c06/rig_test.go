// In-process rig for driving store.ProxyStore.Series: fake store.Clients that stream a scripted sequence
// of frames (optionally failing at a scripted point) and a collecting Store_SeriesServer.
// Everything is deterministic: no sleeps, no timers, no randomness. Real goroutines of the proxy decide
// the interleaving; nothing here depends on it.
package c06

import (
	"context"
	"fmt"
	"io"
	"sync/atomic"

	"github.com/cespare/xxhash/v2"
	"github.com/pkg/errors"
	"github.com/prometheus/prometheus/model/labels"
	"github.com/prometheus/prometheus/tsdb/chunkenc"
	"google.golang.org/grpc"
	"google.golang.org/grpc/codes"
	"google.golang.org/grpc/status"

	"github.com/thanos-io/thanos/pkg/info/infopb"
	"github.com/thanos-io/thanos/pkg/store/labelpb"
	"github.com/thanos-io/thanos/pkg/store/storepb"
)

// ---- label universe -------------------------------------------------------------------------------

// ReplicaLabel sorts before every other label name, so that removing it can reorder series.
const ReplicaLabel = "r"

// finalLabels are the label sets of the universe without the replica label, in labels.Compare order
// (L1 extends L0: a proper-prefix pair).
var finalLabels = [][]string{
	{"x", "1"},
	{"x", "1", "y", "1"},
	{"x", "2"},
}

// lset builds label set L with replica value R (0 = no replica label).
func lset(l, r int) labels.Labels {
	kv := append([]string(nil), finalLabels[l]...)
	if r > 0 {
		kv = append(kv, ReplicaLabel, fmt.Sprint(r))
	}
	return labels.FromStrings(kv...) // FromStrings sorts by name
}

// ---- chunk alphabet -------------------------------------------------------------------------------

const (
	ChC1  = 0 // raw [0,10]
	ChC1h = 1 // the same chunk as c1 (same bytes), Hash field populated by the store
	ChC2  = 2 // raw [11,20]
	ChC3  = 3 // raw [5,15], overlaps c1 and c2
	ChG   = 4 // aggregated (downsampled) chunk [0,10] with count and sum sub-chunks
	ChG2  = 5 // aggregated chunk [0,10]: the same count sub-chunk as g, a different sum (a distinct chunk)
	// ids >= ChUniq are raw chunks that are unique per id, window [1000+10*id, 1000+10*id+9]
	ChUniq = 100
)

func xorData(mint, maxt int64, salt float64) []byte {
	c := chunkenc.NewXORChunk()
	app, err := c.Appender()
	if err != nil {
		panic(err)
	}
	app.Append(mint, salt)
	app.Append(maxt, salt+0.5)
	return c.Bytes()
}

var (
	dataC1   = xorData(0, 10, 1)
	dataC2   = xorData(11, 20, 2)
	dataC3   = xorData(5, 15, 3)
	dataCnt  = xorData(0, 10, 4)
	dataSum  = xorData(0, 10, 5)
	dataSum2 = xorData(0, 10, 6)
)

func rawChunk(data []byte, hash bool) *storepb.Chunk {
	c := &storepb.Chunk{Type: storepb.Chunk_XOR, Data: data}
	if hash {
		c.Hash = xxhash.Sum64(data)
	}
	return c
}

// mkChunk builds a fresh AggrChunk for a chunk id (the byte slices are shared and never written).
func mkChunk(id int) storepb.AggrChunk {
	switch {
	case id == ChC1:
		return storepb.AggrChunk{MinTime: 0, MaxTime: 10, Raw: rawChunk(dataC1, false)}
	case id == ChC1h:
		return storepb.AggrChunk{MinTime: 0, MaxTime: 10, Raw: rawChunk(dataC1, true)}
	case id == ChC2:
		return storepb.AggrChunk{MinTime: 11, MaxTime: 20, Raw: rawChunk(dataC2, false)}
	case id == ChC3:
		return storepb.AggrChunk{MinTime: 5, MaxTime: 15, Raw: rawChunk(dataC3, false)}
	case id == ChG:
		return storepb.AggrChunk{MinTime: 0, MaxTime: 10, Count: rawChunk(dataCnt, false), Sum: rawChunk(dataSum, false)}
	case id == ChG2:
		return storepb.AggrChunk{MinTime: 0, MaxTime: 10, Count: rawChunk(dataCnt, false), Sum: rawChunk(dataSum2, false)}
	case id >= ChUniq:
		lo := int64(1000 + 10*id)
		return storepb.AggrChunk{MinTime: lo, MaxTime: lo + 9, Raw: rawChunk(xorData(lo, lo+9, float64(id)), false)}
	}
	panic(fmt.Sprintf("HARNESS-ERROR unknown chunk id %d", id))
}

// chunkIdentity is what makes two chunks "the same chunk": time range and the bytes of every
// sub-chunk. The Hash field is transport metadata and is ignored.
func chunkIdentity(c storepb.AggrChunk) string {
	s := fmt.Sprintf("[%d,%d]", c.MinTime, c.MaxTime)
	for i, f := range []*storepb.Chunk{c.Raw, c.Count, c.Sum, c.Min, c.Max, c.Counter} {
		if f != nil {
			s += fmt.Sprintf("|%d:%d:%x", i, f.Type, f.Data)
		}
	}
	return s
}

func isAggregate(c storepb.AggrChunk) bool { return c.Raw == nil }

// ---- scripted store -------------------------------------------------------------------------------

// Entry is one series message of a store's stream: label set L, replica value R, chunk ids C.
type Entry struct {
	L int   `json:"l"`
	R int   `json:"r"`
	C []int `json:"c"`
}

// StoreSpec scripts one store. E is the stream in the order the store sends it. F cuts it into frames:
// 0 = next entry as a single Series response, k>0 = next k entries in one Batch response; an empty F
// means every entry as a single Series response.
// Fault: "" none, "open" = Series() returns an error, "recv" = the At-th Recv (0-based) returns an error
// instead of a frame (At = number of frames: instead of EOF), "hang" = the At-th Recv never delivers: it
// blocks until the call's context is cancelled (by the proxy's frame timeout) and returns the context error.
// "hang" is only meaningful with a response timeout and inside testing/synctest.
// Kind is the KIND of error value the store fails with (see errKinds / hangKinds): "" is the plain error
// (open, recv) resp. the bare context error (hang) of an in-process client.
type StoreSpec struct {
	E     []Entry `json:"e"`
	F     []int   `json:"f,omitempty"`
	NoWRL bool    `json:"nowrl,omitempty"` // store cannot strip replica labels
	Fault string  `json:"fault,omitempty"`
	At    int     `json:"at,omitempty"`
	Kind  string  `json:"kind,omitempty"`
}

// errKinds is the alphabet of error values an "open" or "recv" fault returns. Every one of them is a non-nil
// error other than io.EOF, i.e. a failure of the store's stream (Store_SeriesClient.Recv: "It returns io.EOF
// when the stream completes successfully. On any other error, the stream is aborted").
//   - ""                 plain error (errors.Errorf), what an in-process client / a test mock returns
//   - "grpc-canceled"    status code Canceled: what a real gRPC client stream returns when the call context was
//     cancelled, and what grpc-go makes of a downstream handler that returns context.Canceled
//   - "grpc-deadline"    status code DeadlineExceeded: the call's or the downstream's deadline expired
//   - "grpc-unavailable" status code Unavailable: connection lost (grpc-go's message really ends in "EOF")
//   - "grpc-aborted"     status code Aborted: what a downstream Thanos proxy returns under its own abort strategy
//   - "ctx-canceled"     the bare context.Canceled sentinel (in-process client whose work was cancelled)
//   - "ctx-deadline"     the bare context.DeadlineExceeded sentinel
//   - "unexpected-eof"   io.ErrUnexpectedEOF: a truncated stream; not io.EOF
var errKinds = []string{"", "grpc-canceled", "grpc-deadline", "grpc-unavailable", "grpc-aborted", "ctx-canceled", "ctx-deadline", "unexpected-eof"}

// hangKinds: what a hanging Recv returns once the proxy has cancelled the call: "" the bare ctx.Err() (in-process
// client), "grpc" the status error a real gRPC client stream makes of it (status.FromContextError: code Canceled).
var hangKinds = []string{"", "grpc"}

func mkErr(kind, what, name string) error {
	switch kind {
	case "":
		return errors.Errorf("injected %s failure of %s", what, name)
	case "grpc-canceled":
		return status.Error(codes.Canceled, "context canceled")
	case "grpc-deadline":
		return status.Error(codes.DeadlineExceeded, "context deadline exceeded")
	case "grpc-unavailable":
		return status.Error(codes.Unavailable, "error reading from server: EOF")
	case "grpc-aborted":
		return status.Error(codes.Aborted, "receive series from downstream: injected")
	case "ctx-canceled":
		return context.Canceled
	case "ctx-deadline":
		return context.DeadlineExceeded
	case "unexpected-eof":
		return io.ErrUnexpectedEOF
	}
	panic("HARNESS-ERROR unknown error kind " + kind)
}

// series builds one series message; strip = the store was asked for WithoutReplicaLabels and supports it, so it
// sends the series without the replica label (the per-store order is unaffected: one replica value per store).
func (s StoreSpec) series(e Entry, strip bool) *storepb.Series {
	r := e.R
	if strip {
		r = 0
	}
	ser := &storepb.Series{Labels: labelpb.ZLabelsFromPromLabels(lset(e.L, r))}
	for _, id := range e.C {
		ser.Chunks = append(ser.Chunks, mkChunk(id))
	}
	return ser
}

// frames builds fresh response objects (the proxy may modify them in place).
func (s StoreSpec) frames(strip bool) []*storepb.SeriesResponse {
	var out []*storepb.SeriesResponse
	i := 0
	cut := s.F
	if len(cut) == 0 {
		cut = make([]int, len(s.E))
	}
	for _, k := range cut {
		if k == 0 {
			out = append(out, storepb.NewSeriesResponse(s.series(s.E[i], strip)))
			i++
			continue
		}
		var b []*storepb.Series
		for j := 0; j < k; j++ {
			b = append(b, s.series(s.E[i], strip))
			i++
		}
		out = append(out, storepb.NewBatchResponse(b))
	}
	if i != len(s.E) {
		panic("HARNESS-ERROR frame cut does not cover the stream")
	}
	return out
}

type fakeStore struct {
	name  string
	spec  StoreSpec
	asked atomic.Int32
}

func (c *fakeStore) LabelSets() []labels.Labels         { return nil }
func (c *fakeStore) TimeRange() (int64, int64)          { return -1 << 63, 1<<63 - 1 }
func (c *fakeStore) TSDBInfos() []infopb.TSDBInfo       { return nil }
func (c *fakeStore) SupportsSharding() bool             { return true }
func (c *fakeStore) SupportsWithoutReplicaLabels() bool { return !c.spec.NoWRL }
func (c *fakeStore) String() string                     { return c.name }
func (c *fakeStore) Addr() (string, bool)               { return c.name, false }
func (c *fakeStore) Matches([]*labels.Matcher) bool     { return true }

func (c *fakeStore) errorf(what string) error { return mkErr(c.spec.Kind, what, c.name) }

func (c *fakeStore) Series(ctx context.Context, req *storepb.SeriesRequest, _ ...grpc.CallOption) (storepb.Store_SeriesClient, error) {
	c.asked.Add(1)
	if c.spec.Fault == "open" {
		return nil, c.errorf("open")
	}
	// a store that supports without_replica_labels removes the requested replica label itself; for one that
	// does not (NoWRL) the proxy removes it and re-sorts
	strip := false
	for _, l := range req.WithoutReplicaLabels {
		if l == ReplicaLabel && c.SupportsWithoutReplicaLabels() {
			strip = true
		}
	}
	st := &stream{ctx: ctx, frames: c.spec.frames(strip), failAt: -1, hangAt: -1}
	switch c.spec.Fault {
	case "recv":
		st.failAt = c.spec.At
		st.err = c.errorf("recv")
	case "hang":
		st.hangAt = c.spec.At
		switch c.spec.Kind {
		case "":
		case "grpc":
			st.grpcCtxErr = true
		default:
			panic("HARNESS-ERROR unknown hang kind " + c.spec.Kind)
		}
	case "":
	default:
		panic("HARNESS-ERROR unknown fault " + c.spec.Fault)
	}
	return st, nil
}
func (c *fakeStore) LabelNames(context.Context, *storepb.LabelNamesRequest, ...grpc.CallOption) (*storepb.LabelNamesResponse, error) {
	return &storepb.LabelNamesResponse{}, nil
}
func (c *fakeStore) LabelValues(context.Context, *storepb.LabelValuesRequest, ...grpc.CallOption) (*storepb.LabelValuesResponse, error) {
	return &storepb.LabelValuesResponse{}, nil
}

// stream is the Store_SeriesClient of one call. It is used by one receiver goroutine only.
type stream struct {
	grpc.ClientStream
	ctx    context.Context
	frames []*storepb.SeriesResponse
	i      int
	failAt int
	hangAt int
	err    error
	// grpcCtxErr: report the cancellation of the call as a real gRPC client stream does (status code Canceled /
	// DeadlineExceeded) instead of the bare context error
	grpcCtxErr bool
}

func (s *stream) Recv() (*storepb.SeriesResponse, error) {
	if s.failAt == s.i {
		return nil, s.err
	}
	if s.hangAt == s.i {
		<-s.ctx.Done() // durably blocked inside the synctest bubble until the frame timeout cancels the call
		if s.grpcCtxErr {
			return nil, status.FromContextError(s.ctx.Err()).Err()
		}
		return nil, s.ctx.Err()
	}
	if s.i >= len(s.frames) {
		return nil, io.EOF
	}
	f := s.frames[s.i]
	s.i++
	return f, nil
}
func (s *stream) Context() context.Context { return s.ctx }
func (s *stream) CloseSend() error         { return nil }

// ---- collecting server ----------------------------------------------------------------------------

type collectServer struct {
	grpc.ServerStream
	ctx      context.Context
	series   []*storepb.Series
	warnings []string
	frames   []int // shape of what was sent: 0 single series, k batch of k, -1 warning, -2 other
}

func (s *collectServer) Context() context.Context { return s.ctx }
func (s *collectServer) Send(r *storepb.SeriesResponse) error {
	switch {
	case r.GetWarning() != "":
		s.warnings = append(s.warnings, r.GetWarning())
		s.frames = append(s.frames, -1)
	case r.GetSeries() != nil:
		s.series = append(s.series, r.GetSeries())
		s.frames = append(s.frames, 0)
	case r.GetBatch() != nil:
		s.series = append(s.series, r.GetBatch().Series...)
		s.frames = append(s.frames, len(r.GetBatch().Series))
	default:
		s.frames = append(s.frames, -2)
	}
	return nil
}
