// Querier family of C06: the same scripted stores and faults, but the request is made the way a PromQL query makes
// it: query.NewQueryableCreator(...)(...).Querier(...).Select(...) over the real ProxyStore, and what is judged is
// the storage.SeriesSet that Select returns: its series, Err() and Warnings().
package c06

import (
	"context"
	"fmt"
	"time"

	"github.com/prometheus/prometheus/model/labels"
	"github.com/prometheus/prometheus/tsdb/chunkenc"

	"github.com/thanos-io/thanos/pkg/dedup"
	"github.com/thanos-io/thanos/pkg/query"
	"github.com/thanos-io/thanos/pkg/store/storepb"
)

// guardedProxy passes Series through to the real ProxyStore. The querier calls it on a goroutine of its own, where
// a panic of the code under test would kill the whole check; it is recovered here, remembered, and raised again on
// the goroutine that consumes the series set (runQuerier), where runInBubble reports it as a violation.
type guardedProxy struct {
	storepb.StoreServer
	crash string
}

func (g *guardedProxy) Series(req *storepb.SeriesRequest, srv storepb.Store_SeriesServer) (err error) {
	defer func() {
		if p := recover(); p != nil {
			g.crash = fmt.Sprintf("ProxyStore.Series panicked: %v", p)
			err = fmt.Errorf("%s", g.crash)
		}
	}()
	return g.StoreServer.Series(req, srv)
}

const (
	queryMint = 0
	queryMaxt = 1 << 40 // every chunk of the alphabet lies in [0, 1<<40]
	// step budget for draining one series iterator / the series set (the alphabet has <= 4 stores x 3 series x 2 samples)
	maxSteps = 1000
)

func sampleID(t int64, v float64) string { return fmt.Sprintf("%d=%g", t, v) }

// wantIDs: the identities of chunk id's data as the observation point reports them: the chunk itself (proxy
// response frames) or its samples (series returned by the querier).
func wantIDs(via string, id int) []string {
	ch := mkChunk(id)
	if via == "" {
		return []string{chunkIdentity(ch)}
	}
	if ch.Raw == nil {
		panic("HARNESS-ERROR querier family uses raw chunks only")
	}
	c, err := chunkenc.FromData(chunkenc.EncXOR, ch.Raw.Data)
	if err != nil {
		panic("HARNESS-ERROR " + err.Error())
	}
	var out []string
	it := c.Iterator(nil)
	for it.Next() == chunkenc.ValFloat {
		t, v := it.At()
		out = append(out, sampleID(t, v))
	}
	return out
}

func runQuerier(c Case) (*obs, error) {
	g := &guardedProxy{StoreServer: buildProxy(c)}
	creator := query.NewQueryableCreator(nil, nil, g, 4, time.Minute, dedup.AlgorithmPenalty, c.Batch)
	// partialResponse=true is the warn strategy, false the abort strategy; max resolution 0 = raw data only
	q, err := creator(c.Dedup, []string{ReplicaLabel}, nil, 0, !c.Abort, false, nil, query.NoopSeriesStatsReporter).Querier(queryMint, queryMaxt)
	if err != nil {
		panic("HARNESS-ERROR Querier: " + err.Error())
	}
	defer q.Close()
	set := q.Select(context.Background(), false, nil, labels.MustNewMatcher(labels.MatchRegexp, "x", ".+"))
	o := &obs{got: map[string]map[string]bool{}, data: !c.Dedup}
	// consumed as the PromQL engine consumes it: all series first, then Err() and Warnings()
	for set.Next() {
		if o.nseries++; o.nseries > maxSteps {
			panic("series set did not end within the step budget")
		}
		s := set.At()
		k := s.Labels().String()
		o.add(k)
		it := s.Iterator(nil)
		for n := 0; ; n++ {
			if n > maxSteps {
				panic("series iterator did not end within the step budget")
			}
			vt := it.Next()
			if vt == chunkenc.ValNone {
				break
			}
			if vt == chunkenc.ValFloat {
				t, v := it.At()
				o.add(k, sampleID(t, v))
			}
		}
	}
	if g.crash != "" {
		panic(g.crash)
	}
	serr := set.Err()
	for _, w := range set.Warnings().AsErrors() {
		o.warnings = append(o.warnings, w.Error())
	}
	return o, serr
}
