// C06 (E4 part): the partial-response strategy is honoured under store failures.
//
// Seam: store.ProxyStore.Series over scripted in-process store.Clients (rig_test.go). The schedule part
// (E1, controlled scheduler) is a separate check; here real goroutines run inside a testing/synctest bubble
// (virtual clock, so the frame timeout is exercised deterministically and instantly) and the oracle is
// schedule independent.
//
// Fault matrix: 1..3 stores (thorough 4); per store a stream shape (empty, one frame, two frames, one Batch
// frame, thorough: three frames with a series split over two of them) and a fault: none | Series() returns an
// error | the k-th Recv returns an error for every k in 0..#frames (k = #frames: error instead of EOF) | the
// k-th Recv hangs until the proxy's frame timeout cancels the call (only with a response timeout). Every
// combination with at least one failing store x strategy {WARN, ABORT, legacy PartialResponseDisabled bit alone}
// x retrieval {eager, lazy buffer 1..2 (thorough ..3)} x ResponseBatchSize {0,2 (thorough 3)} x response
// timeout {none, 1s virtual}.
// Error-kind blocks (1..2 stores): every failing store additionally ranges over the KIND of error value it fails
// with (rig_test.go errKinds / hangKinds: plain, gRPC status Canceled / DeadlineExceeded / Unavailable / Aborted,
// bare context errors, io.ErrUnexpectedEOF; a hanging Recv returns the bare context error or the gRPC status a
// real client stream makes of it). A fake that only fails with plain errors never exercises code that classifies
// Recv errors by status code.
//
// Oracle = the statement: with the abort strategy Series returns an error; with the warn strategy Series
// returns nil, there is at least one warning naming each failed store, and every series (label set and all
// its chunks) of every store that did not fail is in the response.
package c06

import (
	"context"
	"encoding/json"
	"fmt"
	"iter"
	"sort"
	"strings"
	"testing"
	"testing/synctest"
	"time"

	"github.com/prometheus/prometheus/model/labels"

	"github.com/thanos-io/thanos/pkg/component"
	"github.com/thanos-io/thanos/pkg/store"
	"github.com/thanos-io/thanos/pkg/store/labelpb"
	"github.com/thanos-io/thanos/pkg/store/storepb"

	"verif/vlib"
)

type Case struct {
	Stores   []StoreSpec `json:"stores"`
	Abort    bool        `json:"abort"`    // PartialResponseStrategy ABORT (else WARN, which is also the zero value)
	Disabled bool        `json:"disabled"` // legacy way to ask for abort: PartialResponseDisabled=true with the strategy field unset
	Lazy     bool        `json:"lazy"`
	Buf      int         `json:"buf"`
	Batch    int         `json:"batch"`
	Timeout  bool        `json:"timeout"` // proxy response (frame) timeout of 1s, else none
	// Via: "" = ProxyStore.Series is called directly and the response frames are judged; "querier" = the request goes
	// through the real pkg/query querier (NewQueryableCreator(..)(..).Querier(..).Select(..)) over the real ProxyStore
	// and the storage.SeriesSet that Select returns (series, Err(), Warnings()) is judged.
	Via string `json:"via,omitempty"`
	// Dedup: replica-label deduplication (replica label "r") is on: the querier's deduplicate flag, and the request
	// carries without_replica_labels=["r"].
	Dedup bool `json:"dedup,omitempty"`
}

// shape builds store i's stream for a shape id. Label sets overlap between neighbouring stores so that the
// merge has to join series of failing and healthy stores.
func shape(i, id int) StoreSpec {
	a, b := i%3, (i+1)%3
	if a > b {
		a, b = b, a
	}
	u := func(j int) []int { return []int{ChUniq + 8*i + j} }
	switch id {
	case 0:
		return StoreSpec{}
	case 1:
		return StoreSpec{E: []Entry{{L: a, C: u(0)}}}
	case 2:
		return StoreSpec{E: []Entry{{L: a, C: u(0)}, {L: b, C: u(1)}}}
	case 3:
		return StoreSpec{E: []Entry{{L: a, C: u(0)}, {L: b, C: u(1)}}, F: []int{2}}
	case 4:
		return StoreSpec{E: []Entry{{L: a, C: u(0)}, {L: a, C: u(1)}, {L: b, C: u(2)}}}
	}
	panic("HARNESS-ERROR unknown shape")
}

func nframes(s StoreSpec) int {
	if len(s.F) > 0 {
		return len(s.F)
	}
	return len(s.E)
}

// storeOptions: every (shape, fault, error kind) for store i; the first option of each shape is the healthy one.
// ekinds = error kinds of the open and recv faults, hkinds = error kinds of the hang fault (nil: no hang faults).
func storeOptions(i int, shapes []int, ekinds, hkinds []string) []StoreSpec {
	var out []StoreSpec
	for _, id := range shapes {
		base := shape(i, id)
		out = append(out, base)
		for _, ek := range ekinds {
			f := base
			f.Fault, f.Kind = "open", ek
			out = append(out, f)
		}
		for _, fault := range []string{"recv", "hang"} {
			kinds := ekinds
			if fault == "hang" {
				kinds = hkinds
			}
			for _, ek := range kinds {
				for k := 0; k <= nframes(base); k++ {
					f := base
					f.Fault, f.At, f.Kind = fault, k, ek
					out = append(out, f)
				}
			}
		}
	}
	return out
}

// block: k stores over the given shapes. kinds=false: the failing stores fail with the plain error / the bare
// context error only; kinds=true: every failing store independently ranges over the whole error-kind alphabet
// (errKinds for open and recv faults, hangKinds for hang faults); the assignments in which every failing store
// has the plain kind are skipped there, they are part of the kinds=false block with the same k.
// via="querier": the block runs through the real querier (see Case.Via) with the querier configurations.
type block struct {
	k      int
	shapes []int
	kinds  bool
	via    string
}

// variant is how replica labels are involved in a querier run: repl = store i's series carry the replica label
// r=i+1 (else no series has a replica label), dedup = deduplication by that label is on, nowrl = the stores do not
// support without_replica_labels (the proxy then removes the label and re-sorts, always eagerly).
type variant struct{ repl, dedup, nowrl bool }

var variants = []variant{{false, false, false}, {true, false, false}, {true, true, false}, {true, true, true}}

func (v variant) apply(stores []StoreSpec) []StoreSpec {
	out := make([]StoreSpec, len(stores))
	for i, sp := range stores {
		if v.repl {
			sp.E = append([]Entry(nil), sp.E...)
			for j := range sp.E {
				sp.E[j].R = i + 1
			}
		}
		sp.NoWRL = v.nowrl
		out[i] = sp
	}
	return out
}

func gen(r *vlib.R) iter.Seq[Case] {
	// the querier family comes first: it is small, and a deadline then cuts the tail of the big proxy family
	blocks := []block{{1, []int{0, 1, 2, 3}, false, "querier"}, {2, []int{0, 2}, false, "querier"}, {3, []int{0, 1}, false, "querier"},
		{1, []int{0, 1, 2, 3}, false, ""}, {2, []int{0, 1, 2, 3}, false, ""}, {3, []int{1, 2}, false, ""},
		{1, []int{0, 1, 2, 3}, true, ""}, {2, []int{0, 2}, true, ""}}
	bufs, batches := []int{1, 2}, []int{0, 2}
	if r.Thorough() {
		blocks = []block{{1, []int{0, 1, 2, 3, 4}, false, "querier"}, {2, []int{0, 1, 2, 3, 4}, false, "querier"}, {3, []int{0, 1, 2}, false, "querier"},
			{1, []int{0, 1, 2, 3, 4}, true, "querier"},
			{1, []int{0, 1, 2, 3, 4}, false, ""}, {2, []int{0, 1, 2, 3, 4}, false, ""}, {3, []int{0, 1, 2, 3, 4}, false, ""}, {4, []int{1, 2}, false, ""},
			{1, []int{0, 1, 2, 3, 4}, true, ""}, {2, []int{0, 1, 2, 3, 4}, true, ""}}
		bufs, batches = []int{1, 2, 3}, []int{0, 2, 3}
	}
	type cfg struct {
		abort, disabled, lazy bool
		buf, batch            int
		v                     *variant
	}
	var cfgs, qcfgs []cfg
	// WARN; ABORT; the deprecated PartialResponseDisabled bit alone (strategy field left at its zero value,
	// which is what a client predating partial_response_strategy sends).
	for _, st := range [][2]bool{{false, false}, {true, false}, {false, true}} {
		for _, b := range batches {
			cfgs = append(cfgs, cfg{st[0], st[1], false, 0, b, nil})
			for _, buf := range bufs {
				cfgs = append(cfgs, cfg{st[0], st[1], true, buf, b, nil})
			}
		}
	}
	// querier: partial response on (WARN) / off (ABORT) - the querier cannot send the legacy bit - x replica-label
	// variant x {eager, lazy buffer 1 (thorough ..2)} x series response batch size
	for _, abort := range []bool{false, true} {
		for vi := range variants {
			for _, b := range batches[:2] {
				qcfgs = append(qcfgs, cfg{abort, false, false, 0, b, &variants[vi]})
				for _, buf := range bufs[:len(bufs)-1] {
					qcfgs = append(qcfgs, cfg{abort, false, true, buf, b, &variants[vi]})
				}
			}
		}
	}
	return func(yield func(Case) bool) {
		for _, timeout := range []bool{false, true} {
			for _, b := range blocks {
				opts := make([][]StoreSpec, b.k)
				radix := make([]int, b.k)
				ekinds, hkinds := []string{""}, []string{""}
				if b.kinds {
					ekinds, hkinds = errKinds, hangKinds
				}
				if !timeout {
					hkinds = nil
				}
				for i := range opts {
					opts[i] = storeOptions(i, b.shapes, ekinds, hkinds)
					radix[i] = len(opts[i])
				}
				bcfgs := cfgs
				if b.via != "" {
					bcfgs = qcfgs
				}
				n := int64(0)
				for idx := range vlib.Odometer(radix...) {
					stores := make([]StoreSpec, b.k)
					failing, kinded := 0, 0
					for i, j := range idx {
						stores[i] = opts[i][j]
						if stores[i].Fault != "" {
							failing++
						}
						if stores[i].Kind != "" {
							kinded++
						}
					}
					if failing == 0 {
						continue // not a fault sequence
					}
					if b.kinds && kinded == 0 {
						continue // enumerated by the plain block
					}
					n++
					var byVariant [][]StoreSpec
					if b.via != "" {
						for _, v := range variants {
							byVariant = append(byVariant, v.apply(stores))
						}
					}
					for _, c := range bcfgs {
						cs := Case{Stores: stores, Abort: c.abort, Disabled: c.disabled, Lazy: c.lazy, Buf: c.buf, Batch: c.batch, Timeout: timeout, Via: b.via}
						if c.v != nil {
							for vi := range variants {
								if c.v == &variants[vi] {
									cs.Stores = byVariant[vi]
								}
							}
							cs.Dedup = c.v.dedup
						}
						if !yield(cs) {
							return
						}
					}
				}
				key := fmt.Sprintf("block_stores=%d_timeout=%v", b.k, timeout)
				if b.via != "" {
					key = b.via + "_" + key
				}
				if b.kinds {
					key += "_errkinds"
				}
				r.Set(key, fmt.Sprintf("%d fault assignments (shapes %v) x %d configurations", n, b.shapes, len(bcfgs)))
			}
		}
	}
}

func buildProxy(c Case) *store.ProxyStore {
	clients := make([]store.Client, len(c.Stores))
	for i, sp := range c.Stores {
		clients[i] = &fakeStore{name: fmt.Sprintf("store-%d", i), spec: sp}
	}
	strategy := store.EagerRetrieval
	if c.Lazy {
		strategy = store.LazyRetrieval
	}
	var timeout time.Duration
	if c.Timeout {
		timeout = time.Second
	}
	return store.NewProxyStore(nil, nil, func() []store.Client { return clients }, component.Query, labels.EmptyLabels(),
		timeout, strategy, store.WithLazyRetrievalMaxBufferedResponsesForProxy(c.Buf))
}

// obs is what the caller of the request observed besides the error: the warnings, and per returned label set
// the identities of the data returned with it (proxy: chunks; querier: samples; nil data = not looked at).
type obs struct {
	warnings []string
	nseries  int
	got      map[string]map[string]bool
	data     bool
}

func (o *obs) add(lset string, ids ...string) {
	if o.got[lset] == nil {
		o.got[lset] = map[string]bool{}
	}
	for _, id := range ids {
		o.got[lset][id] = true
	}
}

func runProxy(c Case) (*obs, error) {
	p := buildProxy(c)
	req := &storepb.SeriesRequest{
		MinTime:                 -1 << 63,
		MaxTime:                 1<<63 - 1,
		Matchers:                []storepb.LabelMatcher{{Type: storepb.LabelMatcher_RE, Name: "x", Value: ".+"}},
		ResponseBatchSize:       int64(c.Batch),
		PartialResponseDisabled: c.Disabled,
		PartialResponseStrategy: storepb.PartialResponseStrategy_WARN,
	}
	if c.Abort {
		req.PartialResponseStrategy = storepb.PartialResponseStrategy_ABORT
	}
	if c.Dedup {
		req.WithoutReplicaLabels = []string{ReplicaLabel}
	}
	srv := &collectServer{ctx: context.Background()}
	err := p.Series(req, srv)
	o := &obs{warnings: srv.warnings, nseries: len(srv.series), got: map[string]map[string]bool{}, data: true}
	for _, s := range srv.series {
		k := labelpb.ZLabelsToPromLabels(s.Labels).String()
		o.add(k)
		for _, ch := range s.Chunks {
			o.add(k, chunkIdentity(ch))
		}
	}
	return o, err
}

// faultName names a store's fault in violation signatures: open | recv | timeout, followed (showKind) by the
// error kind in parentheses when it is not the plain one, e.g. "recv(grpc-canceled)", "timeout(grpc)".
func faultName(sp StoreSpec, showKind bool) string {
	k := sp.Fault
	if k == "hang" {
		k = "timeout"
	}
	if showKind && sp.Kind != "" {
		k += "(" + sp.Kind + ")"
	}
	return k
}

type verdict struct{ sig, desc string }

// result of one run: what was observed, the error of the request (proxy: what Series returned; querier: Err() of
// the series set after it was drained), and crash != "" when the run panicked or never returned.
type result struct {
	o     *obs
	err   error
	crash string
}

// judge is the oracle: the statement of C06 applied to one finished run.
func judge(c Case, res result, showKind bool) (out []verdict) {
	srv, err, crash := res.o, res.err, res.crash
	// pre: which observation point the class belongs to; call: what was called
	pre, call, unit := "", "Series", "chunk"
	if c.Via == "querier" {
		pre, call, unit = "querier-", "Select", "sample"
	}
	var failed, healthy []int
	kinds := map[string]bool{}
	for i, sp := range c.Stores {
		if sp.Fault != "" {
			failed = append(failed, i)
			kinds[faultName(sp, showKind)] = true
		} else {
			healthy = append(healthy, i)
		}
	}
	var ks []string
	for k := range kinds {
		ks = append(ks, k)
	}
	sort.Strings(ks)
	kindStr := strings.Join(ks, "+")
	retr := "eager"
	if c.Lazy {
		retr = "lazy"
	}
	where := ""
	if c.Via == "querier" {
		where = fmt.Sprintf("through the querier (dedup=%v): ", c.Dedup)
	}
	describe := func(i int) string {
		sp := c.Stores[i]
		if sp.Fault == "open" {
			return fmt.Sprintf("store-%d failed (open, error kind %q)", i, sp.Kind)
		}
		return fmt.Sprintf("store-%d failed (%s at %d, error kind %q)", i, sp.Fault, sp.At, sp.Kind)
	}
	var all []string
	for _, i := range failed {
		all = append(all, describe(i))
	}
	allFailed := strings.Join(all, ", ")
	allFailed = where + allFailed
	if crash != "" {
		// a panic of the call on the calling goroutine, or a bubble in which every goroutine is blocked for good
		// with no timer left (the call never returns): neither "fails" nor "succeeds" as the statement requires
		sig := "series-call-panicked-"
		if strings.Contains(crash, "deadlock") || strings.Contains(crash, "did not end") {
			sig = "series-call-never-returns-"
		}
		return []verdict{{pre + sig + "on-" + kindStr + "-failure-" + retr, allFailed + "; " + crash}}
	}
	if c.Abort || c.Disabled {
		if err == nil {
			what := "abort"
			if !c.Abort {
				what = "legacy-disabled"
			}
			out = append(out, verdict{fmt.Sprintf("%s%s-request-succeeded-despite-%s-failure-%s", pre, what, kindStr, retr),
				fmt.Sprintf("%s but %s returned no error (warnings: %v, %d series)", allFailed, call, srv.warnings, srv.nseries)})
		}
		return out
	}
	if err != nil {
		return []verdict{{fmt.Sprintf("%swarn-request-failed-on-%s-failure-%s", pre, kindStr, retr), fmt.Sprintf("%s and %s returned %v", allFailed, call, err)}}
	}
	for _, i := range failed {
		name := fmt.Sprintf("store-%d", i)
		found := false
		for _, w := range srv.warnings {
			if strings.Contains(w, name) {
				found = true
			}
		}
		if !found {
			out = append(out, verdict{fmt.Sprintf("%swarn-no-warning-for-store-with-%s-failure-%s", pre, faultName(c.Stores[i], showKind), retr),
				fmt.Sprintf("%s%s but no warning names it; warnings: %v; %d series returned", where, describe(i), srv.warnings, srv.nseries)})
		}
	}
	for _, i := range healthy {
		for _, e := range c.Stores[i].E {
			// with deduplication on the series is returned without its replica label
			want := lset(e.L, e.R)
			if c.Dedup {
				want = lset(e.L, 0)
			}
			k := want.String()
			if srv.got[k] == nil {
				out = append(out, verdict{pre + "warn-series-of-healthy-store-missing-" + retr, fmt.Sprintf("store-%d did not fail but its series %s is not in the response (%s)", i, k, allFailed)})
				continue
			}
			if !srv.data {
				continue
			}
			for _, id := range e.C {
				for _, w := range wantIDs(c.Via, id) {
					if !srv.got[k][w] {
						out = append(out, verdict{pre + "warn-" + unit + "-of-healthy-store-missing-" + retr, fmt.Sprintf("store-%d did not fail but %s %s (chunk %d) of its series %s is not in the response (%s)", i, unit, w, id, k, allFailed)})
					}
				}
			}
		}
	}
	return out
}

// runInBubble runs the request inside a fresh synctest bubble. crash is non-empty when the call panicked on the
// calling goroutine or when synctest found the bubble deadlocked (all goroutines durably blocked, no timer
// pending), which it reports by panicking in the goroutine that called synctest.Test.
func runInBubble(t *testing.T, c Case) (res result) {
	defer func() {
		if p := recover(); p != nil {
			if s := fmt.Sprint(p); strings.Contains(s, "HARNESS-ERROR") {
				panic(p)
			}
			res.crash = fmt.Sprintf("synctest: %v", p)
		}
	}()
	synctest.Test(t, func(t *testing.T) {
		defer func() {
			if p := recover(); p != nil {
				if s, ok := p.(string); ok && strings.HasPrefix(s, "HARNESS-ERROR") {
					panic(p)
				}
				res.crash = fmt.Sprintf("panic in the call: %v", p)
			}
		}()
		switch c.Via {
		case "":
			res.o, res.err = runProxy(c)
		case "querier":
			res.o, res.err = runQuerier(c)
		default:
			panic("HARNESS-ERROR unknown via " + c.Via)
		}
	})
	if res.o == nil && res.crash == "" {
		res.crash = "synctest bubble ended without a result"
	}
	return res
}

func TestCheck(t *testing.T) {
	r := vlib.New(t, "C06")
	defer r.Finish()
	r.Rule("fault assignments = product over stores of (stream shape x {healthy, open error, Recv error at every k in 0..#frames, hang at every k in 0..#frames (timeout runs only)}) with >= 1 failing store " +
		"(sizes in coverage.block_*); in the *_errkinds blocks (1..2 stores) every failing store additionally ranges over the error KIND it fails with: open/recv x {plain, gRPC status Canceled, DeadlineExceeded, Unavailable, Aborted, bare context.Canceled, bare context.DeadlineExceeded, io.ErrUnexpectedEOF}, hang x {bare context error, gRPC status made of it}; each x {WARN, ABORT, legacy PartialResponseDisabled bit alone (= abort)} x {eager, lazy buf 1..2(3)} x batch {0,2(,3)} x response timeout {none, 1s}; " +
		"querier_block_*: the same fault assignments (1..3 stores, including every assignment whose merged response has zero series) through the real querier's Select over the real ProxyStore x partial response {on = WARN, off = ABORT} x {no replica labels, replica label r=i+1 on store i without dedup, with dedup, with dedup over stores that cannot strip replica labels} x {eager, lazy buf 1(..2)} x batch {0,2} x response timeout {none, 1s}, judged on the series set Select returns (Err(), Warnings(), series; samples when dedup is off); " +
		"non-trivial = distinct fault assignment+configuration in which a healthy store with data coexists with a failing store, or a store fails after having delivered >= 1 frame, or (querier) a store failed and the result has zero series")
	r.Assume("every run happens inside a testing/synctest bubble: the 1s frame timeout elapses on the virtual clock exactly when all goroutines are durably blocked, so a hanging Recv is cancelled deterministically",
		"a hanging store returns the context error once the proxy cancels the call: the bare ctx.Err() (in-process client) or, kind grpc, status.FromContextError(ctx.Err()) = code Canceled, which is what a real gRPC client stream returns",
		"every error value of the kind alphabet is a non-nil error other than io.EOF, hence a failure of the stream (grpc.ClientStream.RecvMsg: io.EOF on success, 'on any other error the stream is aborted'); no wrapped io.EOF is injected",
		"a request with the deprecated PartialResponseDisabled bit and no strategy is an abort request (rpc.proto: 'Deprecated. Use partial_response_strategy instead'); it gets its own violation signature; the bit combined with an explicit ABORT adds nothing and is not enumerated",
		"goroutine interleavings are whatever the Go scheduler picks (the E1 part of C06 explores them); the oracle does not depend on them",
		"querier runs: the series set is consumed the way the PromQL engine does (Next until false, then Err and Warnings); a fake store that supports without_replica_labels removes the replica label itself when asked; with dedup on only the presence of the healthy stores' series (without replica label) is required, not their samples (which samples survive the penalty deduplication is C01's subject)")

	vlib.ForEach(r, gen(r), func(c Case) {
		r.Sample(c)
		var failed, healthy []int
		midstream, healthyData := false, false
		for i, sp := range c.Stores {
			if sp.Fault != "" {
				failed = append(failed, i)
				if sp.Fault != "open" && sp.At > 0 {
					midstream = true
				}
			} else {
				healthy = append(healthy, i)
				if len(sp.E) > 0 {
					healthyData = true
				}
			}
		}
		if len(failed) == 0 {
			panic("HARNESS-ERROR case without a failing store")
		}
		kinded := false
		for _, i := range failed {
			if ek := c.Stores[i].Kind; ek != "" {
				kinded = true
				r.Add("failing_stores_with_error_kind_"+c.Stores[i].Fault+"/"+ek, 1)
			}
		}

		res := runInBubble(t, c)
		zeroSeries := false
		if res.crash == "" {
			pre := ""
			if c.Via != "" {
				pre = c.Via + "_"
				if res.err == nil && res.o.nseries == 0 {
					zeroSeries = true
					r.Add(pre+"warn_runs_with_zero_series_result", 1)
				}
			}
			for _, w := range res.o.warnings {
				if strings.Contains(w, "failed to receive any data in 1s") {
					r.Add(pre+"runs_with_frame_timeout_warning", 1)
					break
				}
			}
			switch {
			case (c.Abort || c.Disabled) && res.err != nil:
				r.Add(pre+"abort_runs_failed_as_required", 1)
				if strings.Contains(res.err.Error(), "failed to receive any data in 1s") {
					r.Add(pre+"abort_runs_failed_by_frame_timeout", 1)
				}
			case !(c.Abort || c.Disabled) && res.err == nil:
				r.Add(pre+"warn_runs_succeeded_as_required", 1)
			}
		}
		if healthyData || midstream || zeroSeries {
			b, _ := json.Marshal(c)
			r.Nontrivial(string(b))
		}
		// ec: the case the violation class is named after (see below); the counter-example is always c itself
		ec, eres := c, res
		vs := judge(ec, eres, true)
		note := ""
		if len(vs) > 0 && c.Via != "" {
			// Is the querier involved at all? Re-run the same case against ProxyStore.Series directly. If that violates
			// too, the counter-example is filed under the proxy's signature (the class the proxy family reports);
			// otherwise the class is one of the querier ("querier-..."). This only names the class.
			pc := c
			pc.Via = ""
			pres := runInBubble(t, pc)
			if pvs := judge(pc, pres, true); len(pvs) > 0 {
				ec, eres, vs = pc, pres, pvs
				note = "seen through the querier's Select and through ProxyStore.Series alone; "
			}
		}
		if len(vs) > 0 && kinded {
			// Does the error KIND matter? Re-run the same case with every failing store failing with the plain
			// error instead. If that violates too, the kind is irrelevant and the counter-example is filed under
			// the signature without kinds (the class the plain blocks report); otherwise the kinds are part of the
			// class. This only names the class; the verdict is the one of the case itself.
			plain := ec
			plain.Stores = append([]StoreSpec(nil), ec.Stores...)
			for i := range plain.Stores {
				plain.Stores[i].Kind = ""
			}
			if len(judge(plain, runInBubble(t, plain), false)) > 0 {
				vs = judge(ec, eres, false)
			}
		}
		for _, v := range vs {
			r.Violation(v.sig, note+v.desc, c)
		}
	})
}
