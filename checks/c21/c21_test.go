// C21: with shuffle sharding a tenant gets the same set of nodes every time (cached or not), the set holds the
// configured number of nodes per availability zone (the configured total without zone awareness) and every replica
// of the tenant's series is placed inside the set.
//
// Engine E4: node layouts x default shard size x override lists (exact / glob / matcher type left at its default /
// several overrides / bad pattern) x zone awareness x RF x cache size, tenants chosen per matcher branch. Real
// NewMultiHashring, real GetN; the tenant's sub-ring nodes are read through an in-package adapter from the real
// getTenantShard (fresh) and getTenantShardCached (what GetN answers from).
//
// Second family (positions of the draws): the same shuffle-sharded ring built over a base ketama ring with 1..3
// sections per node instead of 1000, so that a tenant's random draws land before the first, between and after the
// last section of every node (and of every not yet selected node) all the time instead of once in a thousand
// tenants; node layouts x shard sizes x zone awareness x sections per node x a bounded family of tenant names.
package c21

import (
	"fmt"
	"iter"
	"math/bits"
	"math/rand"
	"os"
	"path/filepath"
	"slices"
	"sort"
	"strings"
	"sync"
	"testing"

	"github.com/prometheus/client_golang/prometheus"
	"github.com/thanos-io/thanos/pkg/receive"
	"github.com/thanos-io/thanos/pkg/store/labelpb"
	"github.com/thanos-io/thanos/pkg/store/storepb/prompb"

	"verif/vlib"
)

type Override struct {
	Matcher string   `json:"matcher"` // "exact" | "glob" | "" (left out in the configuration; documented default: exact)
	Tenants []string `json:"tenants"`
	Size    int      `json:"size"`
}

type Case struct {
	Zones     []int      `json:"zones"` // zone sizes, zone i named "az-<i>", nodes assigned blockwise
	ShardSize int        `json:"shard_size"`
	Overrides []Override `json:"overrides"`
	ZAD       bool       `json:"zone_awareness_disabled"`
	RF        int        `json:"rf"`
	CacheSize int        `json:"cache_size"` // 0 = default (100)
	// SPN = 0: loaded with NewMultiHashring (base ring with the production 1000 sections per node). SPN > 0: the
	// shuffle-sharded ring over a base ketama ring with SPN sections per node (second family).
	SPN int `json:"base_sections_per_node,omitempty"`
	// Tenants observed; empty = one tenant per matcher branch (a, ab, b1, other, "").
	Tenants []string `json:"tenants,omitempty"`
	// Reps > 0 (third family): a tenant that more than one override matches is computed Reps more times uncached on
	// the same ring, Reps times after eviction from the cache (cache size 1) and once on each of Reps further rings.
	Reps int `json:"reps,omitempty"`
}

var tenants = []string{"a", "ab", "b1", "other", ""}

// tenantsFor: the tenants observed under an override list: one per distinct way the list can treat a tenant
// (listed exactly, matched by a glob, matched by both, by a later override, by none; the empty tenant once).
func tenantsFor(ov []Override) []string {
	switch {
	case len(ov) == 0:
		return []string{"a", ""}
	case len(ov) == 2 && ov[0].Matcher == "glob":
		return []string{"a", "ab", "b1", "other"}
	default:
		return []string{"a", "ab", "other"}
	}
}

func (c Case) n() int {
	s := 0
	for _, z := range c.Zones {
		s += z
	}
	return s
}

func (c Case) endpoints() []receive.Endpoint {
	var out []receive.Endpoint
	k := 0
	for zi, sz := range c.Zones {
		for i := 0; i < sz; i++ {
			a := fmt.Sprintf("node-%d:10901", k)
			out = append(out, receive.Endpoint{Address: a, CapNProtoAddress: a, AZ: fmt.Sprintf("az-%d", zi)})
			k++
		}
	}
	return out
}

func (c Case) config() []receive.HashringConfig {
	sc := receive.ShuffleShardingConfig{ShardSize: c.ShardSize, CacheSize: c.CacheSize, ZoneAwarenessDisabled: c.ZAD}
	for _, o := range c.Overrides {
		oc := receive.ShuffleShardingOverrideConfig{ShardSize: o.Size, Tenants: append([]string(nil), o.Tenants...)}
		switch o.Matcher {
		case "exact":
			oc.TenantMatcherType = receive.TenantMatcherTypeExact
		case "glob":
			oc.TenantMatcherType = receive.TenantMatcherGlob
		}
		sc.Overrides = append(sc.Overrides, oc)
	}
	return []receive.HashringConfig{{Hashring: "h", Endpoints: c.endpoints(), ShuffleShardingConfig: sc}}
}

// configured: the shard sizes of the overrides that name the tenant, in the order of the configuration (exact
// membership; matcher type left out = exact, as documented; glob = filepath.Match, a malformed pattern matches
// nothing), else the default. The first one is the configured size: the overrides are an ordered list and the first
// override that matches the tenant applies. firstViaDefault: that override leaves the matcher type out. matches: the
// number of overrides that match; from: where the sizes come from, in words.
func (c Case) configured(tenant string) (sizes []int, firstViaDefault bool, matches int, from string) {
	from = "shard sizes of the overrides that match the tenant, in the order of the configuration"
	for _, o := range c.Overrides {
		hit := false
		switch o.Matcher {
		case "glob":
			for _, p := range o.Tenants {
				if ok, err := filepath.Match(p, tenant); err == nil && ok {
					hit = true
				}
			}
		default:
			hit = slices.Contains(o.Tenants, tenant)
		}
		if hit {
			if len(sizes) == 0 && o.Matcher == "" {
				firstViaDefault = true
			}
			sizes = append(sizes, o.Size)
		}
	}
	matches = len(sizes)
	if matches == 0 {
		sizes, from = []int{c.ShardSize}, "the default: no override matches the tenant"
	}
	return
}

// perZone: how many nodes of each zone (or in total, zone awareness disabled) a shard of the given size has, and
// whether the layout and RF can provide it.
func (c Case) perZone(size int) (take int, satisfiable bool) {
	z := len(c.Zones)
	if c.ZAD {
		return size, size >= 1 && size <= c.n() && size >= c.RF
	}
	take = (size + z - 1) / z
	for _, s := range c.Zones {
		if take > s {
			return take, false
		}
	}
	return take, take >= 1 && take*z >= c.RF
}

func partsAtMost(n, k int) [][]int {
	var out [][]int
	var rec func(rem, lo int, acc []int)
	rec = func(rem, lo int, acc []int) {
		if rem == 0 {
			out = append(out, append([]int(nil), acc...))
			return
		}
		if len(acc) == k {
			return
		}
		for p := lo; p <= rem; p++ {
			rec(rem-p, p, append(acc, p))
		}
	}
	rec(n, 1, nil)
	return out
}

func overrideLists(n, ss int) [][]Override {
	out := [][]Override{nil}
	for _, s2 := range []int{1, n, n + 1} {
		if s2 == ss {
			continue
		}
		s3 := s2%n + 1
		out = append(out,
			[]Override{{Matcher: "exact", Tenants: []string{"a"}, Size: s2}},
			[]Override{{Matcher: "glob", Tenants: []string{"a*"}, Size: s2}},
			[]Override{{Matcher: "", Tenants: []string{"a"}, Size: s2}},
			[]Override{{Matcher: "glob", Tenants: []string{"[", "b*"}, Size: s2}, {Matcher: "exact", Tenants: []string{"ab", "other"}, Size: s3}},
			[]Override{{Matcher: "exact", Tenants: []string{"a"}, Size: s2}, {Matcher: "glob", Tenants: []string{"a*"}, Size: s3}},
		)
	}
	return out
}

func gen(minN, maxN, maxRF int, caches []int) iter.Seq[Case] {
	return func(yield func(Case) bool) {
		for n := minN; n <= maxN; n++ {
			for _, z := range partsAtMost(n, 3) {
				for ss := 1; ss <= n; ss++ {
					for _, ov := range overrideLists(n, ss) {
						for _, zad := range []bool{false, true} {
							if len(z) == 1 && zad {
								continue
							}
							for rf := 1; rf <= maxRF; rf++ {
								for _, cs := range caches {
									if !yield(Case{Zones: z, ShardSize: ss, Overrides: ov, ZAD: zad, RF: rf, CacheSize: cs, Tenants: tenantsFor(ov)}) {
										return
									}
								}
							}
						}
					}
				}
			}
		}
	}
}

// smallSizes: the shard sizes of the second family. Without zone awareness every size 1..n; with it one size per
// distinct per-zone take ceil(size/zones) (the largest; rounding is the first family's subject).
func smallSizes(zones []int, zad bool) []int {
	n, z := 0, len(zones)
	for _, s := range zones {
		n += s
	}
	var out []int
	for ss := 1; ss <= n; ss++ {
		if zad || ss == n || (ss+z)/z != (ss+z-1)/z {
			out = append(out, ss)
		}
	}
	return out
}

// genSmall: second family, one tenant per case.
//
// Without zone awareness all nodes form one zone: where the draws land depends on the number of nodes only, and
// with RF 1 so does everything else. allZAD=false keeps two layouts per node count for it ([1,n-1], [1,1,n-2]).
func genSmall(minN, maxN, maxRF int, spns []int, nTenants int, allZAD bool) iter.Seq[Case] {
	return func(yield func(Case) bool) {
		for n := minN; n <= maxN; n++ {
			for _, z := range partsAtMost(n, 3) {
				for _, zad := range []bool{false, true} {
					if len(z) == 1 && zad {
						continue
					}
					if zad && !allZAD && !(z[0] == 1 && (len(z) == 2 || z[1] == 1)) {
						continue
					}
					for _, ss := range smallSizes(z, zad) {
						for _, spn := range spns {
							for rf := 1; rf <= maxRF; rf++ {
								for t := 0; t < nTenants; t++ {
									if !yield(Case{Zones: z, ShardSize: ss, ZAD: zad, RF: rf, SPN: spn, Tenants: []string{fmt.Sprintf("t%d", t)}}) {
										return
									}
								}
							}
						}
					}
				}
			}
		}
	}
}

// ---- third family: overlapping overrides

type layout struct {
	zones []int
	zad   bool
	spns  []int // base ring sections per node; 0 = production ring through NewMultiHashring
}

func ovG(size int, pats ...string) Override {
	return Override{Matcher: "glob", Tenants: pats, Size: size}
}
func ovE(size int, ts ...string) Override { return Override{Matcher: "exact", Tenants: ts, Size: size} }
func ovD(size int, ts ...string) Override { return Override{Matcher: "", Tenants: ts, Size: size} }

// overlapLists: override lists in which at least one of the tenants a, ab matches two or three overrides. S: three
// shard sizes that give different results (the last one no shard); lo: a size every zone can provide (for the catch-all pattern, which also
// matches the tenant used to evict the cache entry). allPairs=false: the two glob-glob lists get every ordered pair
// of sizes, the other lists (S[0], S[1]), (S[0], S[2]) and (S[2], S[0]).
func overlapLists(S [3]int, lo int, allPairs bool) [][]Override {
	var out [][]Override
	for i := 0; i < 3; i++ {
		for j := 0; j < 3; j++ {
			if i == j {
				continue
			}
			p, q := S[i], S[j]
			out = append(out,
				[]Override{ovG(p, "ab*"), ovG(q, "a*")}, // specific before general
				[]Override{ovG(p, "a*"), ovG(q, "ab*")}, // general before specific
			)
			if !allPairs && !(i == 0 || i == 2 && j == 0) {
				continue
			}
			out = append(out,
				[]Override{ovG(p, "a*"), ovG(q, "a*")},             // the same pattern twice
				[]Override{ovG(p, "a*", "?b"), ovG(q, "*b", "a?")}, // two matching patterns in each
				[]Override{ovG(p, "a*"), ovE(q, "ab")},             // exact entry after a matching glob
				[]Override{ovE(p, "ab"), ovG(q, "a*")},             // and before it
				[]Override{ovG(p, "a*"), ovD(q, "ab")},             // the same with the matcher type left out
				[]Override{ovD(p, "ab"), ovG(q, "a*")},
				[]Override{ovE(p, "a"), ovE(q, "a")},             // the same exact entry twice
				[]Override{ovE(p, "a", "ab"), ovD(q, "ab", "a")}, // exact and matcher type left out
				[]Override{ovG(p, "[", "a*"), ovG(q, "a?")},      // malformed pattern next to the matching one
				[]Override{ovG(p, "a?"), ovG(q, "[", "a*")},
			)
		}
	}
	three := []Override{ovG(S[0], "a*"), ovG(S[1], "*b"), ovG(S[2], "??")} // ab matches all, a and b1 one each
	for _, pm := range [][3]int{{0, 1, 2}, {0, 2, 1}, {1, 0, 2}, {1, 2, 0}, {2, 0, 1}, {2, 1, 0}} {
		out = append(out, []Override{three[pm[0]], three[pm[1]], three[pm[2]]})
	}
	out = append(out,
		[]Override{ovG(S[1], "a*"), ovE(S[2], "ab"), ovG(lo, "*")}, // catch-all last, first, in the middle
		[]Override{ovG(lo, "*"), ovE(S[2], "ab"), ovG(S[1], "a*")},
		[]Override{ovE(S[2], "ab"), ovG(lo, "*"), ovG(S[1], "a*")},
	)
	return out
}

var overlapTenants = []string{"ab", "a", "b1", ""}

// evictor: the tenant served in between to push the observed tenant out of a cache of one entry. Of the patterns
// above only the catch-all matches it.
const evictor = "evictor"

// genOverlap: third family, one tenant per case. Shard sizes: z and 2z (z = zones, 1 without zone awareness) and
// n+1, which no layout can provide. A sub-ring costs ~1 ms to build (1000 sections per node), an error nothing:
// tenants whose configured size is n+1 (every computation must fail; a computation that follows a later override
// instead returns a shard) are repeated deep times on the cheap small base rings, all others reps times.
// wide=false: per override list the tenants that several overrides match and one that exactly one matches (tenants
// no override matches get the default size: first family).
func genOverlap(layouts []layout, maxRF int, caches []int, reps, deep int, allPairs, wide bool) iter.Seq[Case] {
	return func(yield func(Case) bool) {
		for _, l := range layouts {
			u, n := len(l.zones), 0
			if l.zad {
				u = 1
			}
			for _, z := range l.zones {
				n += z
			}
			S := [3]int{u, 2 * u, n + 1}
			for rf := 1; rf <= maxRF; rf++ {
				probe := Case{Zones: l.zones, ZAD: l.zad, RF: rf}
				var sat []int
				for _, s := range []int{u, 2 * u, 3 * u} {
					if _, ok := probe.perZone(s); ok {
						sat = append(sat, s)
					}
				}
				if _, ok := probe.perZone(S[2]); ok || len(sat) < 2 {
					panic("HARNESS-ERROR overlap family: layout without two providable sizes and one that cannot be provided")
				}
				for _, ov := range overlapLists(S, sat[0], allPairs) {
					// default size: one the layout can provide (the evictor needs a shard) other than the first override's
					def := sat[0]
					if def == ov[0].Size {
						def = sat[1]
					}
					var tns []string
					single := false
					for _, tn := range overlapTenants {
						_, _, m, _ := Case{Overrides: ov}.configured(tn)
						if wide || m >= 2 || m == 1 && !single {
							tns = append(tns, tn)
							single = single || m == 1
						}
					}
					for _, cs := range caches {
						for _, spn := range l.spns {
							for _, tn := range tns {
								c := Case{Zones: l.zones, ShardSize: def, Overrides: ov, ZAD: l.zad, RF: rf, CacheSize: cs, SPN: spn, Tenants: []string{tn}, Reps: reps}
								if sizes, _, _, _ := c.configured(tn); spn > 0 && sizes[0] == S[2] {
									c.Reps = deep
								}
								if !yield(c) {
									return
								}
							}
						}
					}
				}
			}
		}
	}
}

func series(i int) *prompb.TimeSeries {
	return &prompb.TimeSeries{Labels: []labelpb.ZLabel{{Name: "__name__", Value: "m"}, {Name: "i", Value: fmt.Sprint(i)}}}
}

// obs is one observation of a tenant's shard: a node set (bitmask) or an error.
type obs struct {
	how string
	i   int // repetition (third family), 0 = none
	set uint64
	err string
}

func (o obs) String() string {
	how := o.how
	if o.i > 0 {
		how = fmt.Sprintf("%s (repetition %d)", o.how, o.i)
	}
	if o.err != "" {
		return fmt.Sprintf("%s: error %q", how, o.err)
	}
	return fmt.Sprintf("%s: nodes %b", how, o.set)
}

type checker struct {
	r *vlib.R

	mu       sync.Mutex
	gapSeen  map[string]struct{} // (ring, zone, draw index, gap) a draw of some tenant landed in
	gapTotal map[string]int      // ring -> number of (zone, draw index, gap) combinations it has
}

// drawStats replays, on the sections of the base ring (read through the adapter), where the draws of the tenant
// land: the documented procedure (per zone a generator seeded with ShuffleShardSeed(tenant, zone), one 64-bit draw
// per node to take, walk clockwise to the first section of a node not yet taken). It only classifies the case
// (non-trivial or not, which gaps were hit); the verdict never depends on it.
type drawStats struct {
	draws        int
	beforeFirst  int // at or before the zone's first section
	afterLast    int // after the zone's last section
	pastUnpicked int // not after the zone's last section, but every section from there to the end belongs to nodes already taken
}

func (k *checker) drawStats(c Case, secs []receive.VerifC21Section, tenant string, take int) drawStats {
	var st drawStats
	byAZ := map[string][]receive.VerifC21Section{}
	for _, s := range secs {
		az := s.Node.AZ
		if c.ZAD {
			az = ""
		}
		byAZ[az] = append(byAZ[az], s)
	}
	ring := fmt.Sprint(c.Zones, c.ZAD, c.SPN, take)
	total := 0
	var hit []string
	for az, zs := range byAZ {
		sort.Slice(zs, func(i, j int) bool { return zs[i].Hash < zs[j].Hash })
		nodes := map[receive.Endpoint]struct{}{}
		for _, s := range zs {
			nodes[s.Node] = struct{}{}
		}
		if take > len(nodes) {
			return drawStats{} // no shard for this size
		}
		total += take * (len(zs) + 1)
		rnd := rand.New(rand.NewSource(receive.ShuffleShardSeed(tenant, az)))
		taken := map[receive.Endpoint]struct{}{}
		for i := 0; i < take; i++ {
			p := rnd.Uint64()
			g := sort.Search(len(zs), func(x int) bool { return zs[x].Hash >= p })
			st.draws++
			hit = append(hit, fmt.Sprint(ring, az, i, g))
			switch {
			case g == 0:
				st.beforeFirst++
			case g == len(zs):
				st.afterLast++
			}
			if g < len(zs) && len(taken) > 0 {
				free := false
				for _, s := range zs[g:] {
					if _, ok := taken[s.Node]; !ok {
						free = true
						break
					}
				}
				if !free {
					st.pastUnpicked++
				}
			}
			for j := 0; j < len(zs); j++ {
				s := zs[(g+j)%len(zs)]
				if _, ok := taken[s.Node]; !ok {
					taken[s.Node] = struct{}{}
					break
				}
			}
		}
	}
	k.mu.Lock()
	k.gapTotal[ring] = total
	for _, h := range hit {
		k.gapSeen[h] = struct{}{}
	}
	k.mu.Unlock()
	return st
}

func (k *checker) eval(c Case) {
	r := k.r
	if r.Expired("configurations left unevaluated") {
		return
	}
	r.Sample(c)
	defer func() {
		if p := recover(); p != nil {
			if s, ok := p.(string); ok && strings.HasPrefix(s, "HARNESS-ERROR") {
				panic(p)
			}
			r.Violation("panic-in-code-under-test", fmt.Sprintf("tenants %q: panic: %v", c.Tenants, p), c)
		}
	}()
	small := c.SPN > 0
	overlap := c.Reps > 0
	eps := c.endpoints()
	ix := map[receive.Endpoint]int{}
	for i, e := range eps {
		ix[e] = i
	}
	zoneOf := make([]int, 0, len(eps))
	for zi, sz := range c.Zones {
		for i := 0; i < sz; i++ {
			zoneOf = append(zoneOf, zi)
		}
	}
	toSet := func(es []receive.Endpoint) (uint64, bool) {
		var m uint64
		for _, e := range es {
			i, ok := ix[e]
			if !ok || m&(1<<uint(i)) != 0 {
				return 0, false
			}
			m |= 1 << uint(i)
		}
		return m, true
	}
	mk := func() receive.Hashring {
		var h receive.Hashring
		var err error
		if small {
			h, err = receive.VerifC21SmallRing(c.endpoints(), c.SPN, uint64(c.RF), c.config()[0].ShuffleShardingConfig)
		} else {
			h, err = receive.NewMultiHashring(receive.AlgorithmKetama, uint64(c.RF), c.config(), prometheus.NewRegistry())
		}
		if err != nil {
			return nil
		}
		return h
	}
	A, B := mk(), mk()
	if A == nil || B == nil {
		// RF above the node count or similar: no shuffle-sharded ring exists, nothing to observe.
		r.Add("configurations_rejected_at_load", 1)
		return
	}
	defer A.Close()
	defer B.Close()
	shard := func(h receive.Hashring, how, tenant string, cached bool) obs {
		nodes, err := receive.VerifC21Shard(h, tenant, cached)
		if err != nil {
			return obs{how: how, err: err.Error()}
		}
		s, ok := toSet(nodes)
		if !ok {
			return obs{how: how, err: fmt.Sprintf("!sub-ring nodes %v are not distinct configured endpoints", nodes)}
		}
		return obs{how: how, set: s}
	}
	var secs []receive.VerifC21Section
	if small && !overlap {
		var err error
		if secs, err = receive.VerifC21BaseSections(A); err != nil || len(secs) != c.n()*c.SPN {
			panic(fmt.Sprintf("HARNESS-ERROR base ring sections: %v (%d)", err, len(secs)))
		}
	}
	tns := c.Tenants
	if len(tns) == 0 {
		tns = tenants
	}
	// with a cache of one entry the observation after another tenant was served is a second computation on the
	// same instance anyway
	again := (!small || overlap) && c.CacheSize != 1
	nSeries := 24
	if small {
		nSeries = 8
	}
	other := "evict-"
	if overlap {
		other = evictor
	}

	for _, tn := range tns {
		var seen []obs
		seen = append(seen, shard(A, "computed", tn, false))
		if again {
			seen = append(seen, shard(A, "computed again", tn, false))
		}
		// GetN: fills the cache; every replica must be inside the set the cache then holds.
		var placed uint64
		getnErr := ""
		for i := 0; i < nSeries && getnErr == ""; i++ {
			for j := 0; j < c.RF; j++ {
				e, err := A.GetN(tn, series(i), uint64(j))
				if err != nil {
					getnErr = err.Error()
					break
				}
				b, ok := ix[e]
				if !ok {
					r.Violation("replica-is-not-a-configured-endpoint", fmt.Sprintf("tenant %q: GetN returned %v", tn, e), c)
					return
				}
				placed |= 1 << uint(b)
			}
		}
		seen = append(seen, shard(A, "cached after GetN", tn, true))
		if !small || overlap {
			// another tenant in between: with cache size 1 it evicts the entry
			if !overlap {
				other = "evict-" + tn
			}
			_, _ = A.GetN(other, series(0), 0)
			seen = append(seen, shard(A, "cached after another tenant was served", tn, true))
		}
		seen = append(seen, shard(B, "computed on a second instance of the same configuration", tn, false))
		sizes, viaDefault, matches, from := c.configured(tn)
		if overlap && matches >= 2 {
			// several overrides match: whatever decides between them must decide the same way every time
			reps := c.Reps
			if seen[0].err == "" && reps > 64 {
				// deep repetition is for computations that fail (free); a shard costs ~1 ms to build
				reps = 64
			}
			same := func(o obs) bool { return (o.err == "") == (seen[0].err == "") && o.set == seen[0].set }
			more := func(how string, i int, h receive.Hashring, cached bool) bool {
				o := shard(h, how, tn, cached)
				o.i = i
				seen = append(seen, o)
				return same(o)
			}
			ok := true
			for i := 1; ok && i <= reps; i++ {
				ok = more("computed again", i, A, false)
			}
			if c.CacheSize == 1 {
				evicted, rounds := 0, 0
				for i := 1; ok && i <= reps; i++ {
					rounds++
					if _, err := A.GetN(other, series(0), 0); err == nil {
						evicted++
					}
					ok = more("read through the cache of one entry after another tenant was served", i, A, true)
				}
				r.Add("overlap_recomputations_after_eviction", int64(evicted))
				r.Add("overlap_eviction_rounds_in_which_the_other_tenant_got_no_shard", int64(rounds-evicted))
			}
			for i := 1; ok && i <= reps; i++ {
				X := mk()
				if X == nil {
					r.Violation("configuration-rejected-on-a-further-instance", fmt.Sprintf("tenant %q: two rings were built from the configuration, building it again (repetition %d) failed", tn, i), c)
					return
				}
				ok = more("computed on a further instance of the same configuration", i, X, false)
				X.Close()
			}
			r.Add("overlap_tenant_observations", int64(len(seen)))
		}

		first := seen[0]
		for _, o := range seen[1:] {
			if (o.err == "") != (first.err == "") || o.set != first.set {
				r.Violation("tenant-shard-differs-between-calls", fmt.Sprintf("tenant %q: %v but %v", tn, first, o), c)
				return
			}
		}
		// the configured size: that of the first override that matches
		exp := sizes[0]
		const laterSig = "shard-size-of-a-later-matching-override"
		// what a shard of that size looks like: no shard at all (-1) or the number of nodes per zone / in total
		look := func(size int) int {
			take, ok := c.perZone(size)
			if !ok {
				return -1
			}
			return take
		}
		laterDiffers := false
		for _, s := range sizes[1:] {
			if look(s) != look(exp) {
				laterDiffers = true
			}
		}
		if overlap && laterDiffers {
			r.Nontrivial(fmt.Sprint(c, tn))
			r.Add("nontrivial_overlapping_overrides", 1)
			r.Add(fmt.Sprintf("nontrivial_overlapping_overrides_repeated_%d_times_per_path", c.Reps), 1)
		}
		if first.err != "" {
			if first.err[0] == '!' {
				r.Violation("shard-nodes-not-distinct-configured-endpoints", fmt.Sprintf("tenant %q: %s", tn, first.err[1:]), c)
				return
			}
			if look(exp) >= 0 {
				// an error although the layout can provide the configured size
				laterUnsat := false
				for _, s := range sizes[1:] {
					if look(s) < 0 {
						laterUnsat = true
					}
				}
				switch {
				case viaDefault && !laterUnsat && look(c.ShardSize) < 0:
					// the error is the one the default size produces: the override was not applied
					r.Violation("override-without-matcher-type-not-applied", fmt.Sprintf("tenant %q: configured shard size %d through an override without tenant_matcher_type, but the error of the default size %d is returned: %s", tn, exp, c.ShardSize, first.err), c)
				case laterUnsat:
					r.Violation(laterSig, fmt.Sprintf("tenant %q: the overrides that match it have shard sizes %v in the order of the configuration (zones %v, RF %d, zone awareness disabled=%v, %s); the first one can be provided, but: %s", tn, sizes, c.Zones, c.RF, c.ZAD, c.base(), first.err), c)
				default:
					r.Violation("satisfiable-shard-size-rejected", fmt.Sprintf("tenant %q (configured shard size %d, zones %v, RF %d, zone awareness disabled=%v, %s): %s", tn, exp, c.Zones, c.RF, c.ZAD, c.base(), first.err), c)
				}
				return
			}
			if getnErr == "" {
				r.Violation("getn-answers-although-tenant-has-no-shard", fmt.Sprintf("tenant %q: %v but GetN returned nodes %b", tn, first, placed), c)
				return
			}
			r.Outcome("error")
			continue
		}
		// ---- a node set: its size
		var cnt [8]int
		for m := first.set; m != 0; m &= m - 1 {
			cnt[zoneOf[bits.TrailingZeros64(m)]]++
		}
		total := bits.OnesCount64(first.set)
		has := func(size int) bool {
			take, _ := c.perZone(size)
			if c.ZAD {
				return total == take
			}
			for zi := range c.Zones {
				if cnt[zi] != take {
					return false
				}
			}
			return true
		}
		if !has(exp) {
			sig := "shard-has-wrong-number-of-nodes"
			if viaDefault {
				sig = "override-without-matcher-type-not-applied"
			} else {
				for _, s := range sizes[1:] {
					if has(s) {
						sig = laterSig
					}
				}
			}
			r.Violation(sig, fmt.Sprintf("tenant %q: configured shard size %d (%s: %v; default %d), zones %v, zone awareness disabled=%v, %s, but the sub-ring has per-zone node counts %v (total %d)",
				tn, exp, from, sizes, c.ShardSize, c.Zones, c.ZAD, c.base(), cnt[:len(c.Zones)], total), c)
			return
		}
		// ---- replicas inside the set
		if getnErr != "" {
			r.Violation("getn-error-although-tenant-has-a-shard", fmt.Sprintf("tenant %q: shard %b, GetN: %s", tn, first.set, getnErr), c)
			return
		}
		if placed&^first.set != 0 {
			r.Violation("replica-outside-tenant-shard", fmt.Sprintf("tenant %q: shard nodes %b, replicas placed on %b", tn, first.set, placed), c)
			return
		}
		r.Outcome(fmt.Sprintf("shard of %d nodes", total))
		if overlap {
			continue
		}
		if !small {
			if total < c.n() {
				r.Nontrivial(fmt.Sprint(c, tn))
				r.Add("nontrivial_production_ring", 1)
			}
			continue
		}
		take, _ := c.perZone(c.ShardSize)
		st := k.drawStats(c, secs, tn, take)
		r.Add("small_ring_draws", int64(st.draws))
		r.Add("small_ring_draws_before_first_section_of_zone", int64(st.beforeFirst))
		r.Add("small_ring_draws_after_last_section_of_zone", int64(st.afterLast))
		r.Add("small_ring_draws_after_last_section_of_every_unselected_node_but_not_of_zone", int64(st.pastUnpicked))
		if st.afterLast+st.pastUnpicked > 0 {
			r.Nontrivial(fmt.Sprint(c, tn))
			r.Add("nontrivial_small_ring", 1)
		}
		if st.pastUnpicked > 0 {
			r.Add("nontrivial_small_ring_walk_wraps_over_selected_tail", 1)
		}
	}
	if !small && c.CacheSize == 1 {
		if l := receive.VerifC21CacheLen(A); l > 1 {
			r.Note("cache size 1 but %d entries cached", l)
		}
	}
}

func (c Case) base() string {
	if c.SPN > 0 {
		return fmt.Sprintf("base ring with %d section(s) per node", c.SPN)
	}
	return "production base ring"
}

func TestCheck(t *testing.T) {
	r := vlib.New(t, "C21")
	defer r.Finish()
	minN := 3
	maxN := vlib.Pick(r, 5, 7)
	maxRF := vlib.Pick(r, 2, 3)
	caches := vlib.Pick(r, []int{1}, []int{1, 0})
	sMaxN := 6
	sMaxRF := vlib.Pick(r, 1, 2)
	spns := []int{1, 2, 3}
	nTen := vlib.Pick(r, 40, 200)
	allZAD := r.Thorough()
	oLayouts := []layout{{[]int{3}, false, []int{0, 3}}, {[]int{2, 2}, false, []int{3}}, {[]int{1, 2}, true, []int{3}}}
	if r.Thorough() {
		both := []int{0, 3}
		oLayouts = []layout{{[]int{3}, false, both}, {[]int{2, 2}, false, both}, {[]int{1, 2}, true, both},
			{[]int{3, 3}, false, both}, {[]int{2, 3, 3}, false, both}, {[]int{2, 2}, true, both}}
	}
	oMaxRF := vlib.Pick(r, 1, 2)
	oCaches := []int{1}
	oReps := vlib.Pick(r, 4, 64)
	oDeep := 320
	oAllPairs := r.Thorough()
	var oDesc []string
	for _, l := range oLayouts {
		oDesc = append(oDesc, fmt.Sprintf("%v zone-aware=%v base ring sections per node %v", l.zones, !l.zad, l.spns))
	}
	r.Rule(fmt.Sprintf("(1) production ring: every multiset of <= 3 zone sizes with %d..%d nodes x default shard size 1..n x 16 override lists (none; exact / glob / matcher type left out / glob with bad pattern + exact / overlapping exact + glob, "+
		"override sizes from {1, n, n+1}) x zone awareness on/off x RF 1..%d x cache sizes %v; per configuration one tenant per way the override list can treat it (of %q), each observed 4 times with a cache of one entry (computed, cached after GetN, after another tenant was served = evicted and recomputed, on a second instance; once more with the default cache) and 24 series through GetN. "+
		"Non-trivial = (configuration, tenant) pairs whose shard is a proper subset of the nodes. "+
		"(2) positions of the draws: the same ring over a base ketama ring with %v sections per node: every multiset of <= 3 zone sizes with %d..%d nodes x shard size 1..n (zone-aware: one size per distinct per-zone take, up to take = zone size) x zone awareness on/off x RF 1..%d x tenants t0..t%d, "+
		"each observed 3 times (computed, cached after GetN, second instance) and 8 series through GetN. Non-trivial = (configuration, tenant) pairs in which a draw landed after the last section of every not yet selected node of its zone "+
		"(positions replayed in the harness from the base ring's sections; extras give the split and the covered (zone, draw index, gap) combinations). "+
		"(3) overlapping overrides: layouts %v (0 sections = production ring through NewMultiHashring) x three shard sizes z, 2z (z = zones, 1 without zone awareness) and n+1 (no shard) x override lists in which two or three overrides match the same tenant with different sizes "+
		"(glob ab* before / after glob a*; the same glob twice; two matching patterns in each of two globs; exact entry before / after a matching glob, also with the matcher type left out; the same exact entry twice; exact + matcher type left out; a malformed pattern next to the matching one; "+
		"all 6 orders of three overlapping globs a*, *b, ??; a catch-all * first / in the middle / last; sizes: every ordered pair for the two ab*/a* lists, all=%v for the others (else (z, 2z), (z, n+1), (n+1, z))) x RF 1..%d x cache size %v, default size = a providable size other than the first override's, "+
		"tenants of %q one per case (quick: those that several overrides match and one that exactly one matches); a tenant that several overrides match is, beyond the 5 observations of (1), computed R more times uncached on the same ring, read R times through the cache of one entry after the tenant %q evicted it, and computed once on each of R further ring instances, R = %d, and R = %d where the configured size is n+1 and the base ring small (every computation must fail, which costs nothing; one that follows a later override returns a shard). "+
		"Non-trivial = (configuration, tenant) pairs where a later matching override would give a different number of nodes per zone (or no shard) than the first",
		minN, maxN, maxRF, caches, tenants, spns, minN, sMaxN, sMaxRF, nTen-1,
		oDesc, oAllPairs, oMaxRF, oCaches, overlapTenants, evictor, oReps, oDeep))
	r.Assume("configured number per zone = ceil(shard_size / zones) (docs: shard_size/number_of_azs chosen from each availability zone); an override applies to a tenant when it lists it (matcher exact or left out, documented default) or a glob pattern matches it (filepath.Match; a malformed pattern matches nothing); the overrides are an ordered list: if several match, the first one configures the size (what getShardSize documents by returning at the first match; a size of a later matching override is reported as shard-size-of-a-later-matching-override)",
		"a choice that depends on Go's map iteration order is random per range statement, so family (3) repeats every computation R times per path (see rule). If a computation deviates with probability d, a (configuration, tenant) pair escapes with probability (1-d)^(3R+4) when the choice is made per computation and (1-d)^(R+2) when it is made once per ring instance. A uniform choice among k >= 2 candidates has d >= 1/2; a Go 1.26 map of two entries starts its iteration at one of 8 slots, d = 1/8 (measured on the r3 seed). Every kind of overlap (two globs, glob and exact entry, the same entry twice, three globs, catch-all) has pairs with R = 320: (7/8)^322 < 2^-61 per pair in the worst case above; pairs with R = 4 (64 thorough) only add to that",
		"a tenant whose configured size cannot be provided (more than a zone has, fewer nodes than RF) must consistently get an error",
		"RF <= 3: larger RF multiplies the cost of every sub-ring",
		"family (2) builds the shuffle-sharded ring with newKetamaHashring(endpoints, 1..3, rf) + newShuffleShardHashring as newHashring does with 1000 sections per node; the tenant's sub-ring is still built by the real getTenantShard")
	k := &checker{r: r, gapSeen: map[string]struct{}{}, gapTotal: map[string]int{}}
	// diagnostic only (cost of one family): VERIF_C21_FAMILIES=3 or 13 ...; such a run is marked as capped
	fams := os.Getenv("VERIF_C21_FAMILIES")
	if fams != "" {
		r.Cap("VERIF_C21_FAMILIES=" + fams + ": only these families were enumerated")
	}
	on := func(f string) bool { return fams == "" || strings.Contains(fams, f) }
	all := func(yield func(Case) bool) {
		// The newest and smallest family first, then the production ring, the small base rings last: when a loaded
		// machine makes the deadline cut the tail, it cuts the family whose interesting cases are spread most evenly.
		for c := range genOverlap(oLayouts, oMaxRF, oCaches, oReps, oDeep, oAllPairs, r.Thorough()) {
			if !on("3") {
				break
			}
			if !yield(c) {
				return
			}
		}
		for c := range gen(minN, maxN, maxRF, caches) {
			if !on("1") {
				break
			}
			if !yield(c) {
				return
			}
		}
		for c := range genSmall(minN, sMaxN, sMaxRF, spns, nTen, allZAD) {
			if !on("2") {
				break
			}
			if !yield(c) {
				return
			}
		}
	}
	vlib.ForEach(r, all, k.eval)
	tot := 0
	for _, n := range k.gapTotal {
		tot += n
	}
	if tot > 0 {
		r.Set("small_ring_draw_positions_covered", fmt.Sprintf("%d of %d (base ring, zone, draw index, gap before/between/after the zone's sections)", len(k.gapSeen), tot))
	}
}
