// C21: with shuffle sharding a tenant gets the same set of nodes every time (cached or not), the set holds the
// configured number of nodes per availability zone (the configured total without zone awareness) and every replica
// of the tenant's series is placed inside the set.
//
// Engine E4: node layouts x default shard size x override lists (exact / glob / matcher type left at its default /
// several overrides / bad pattern) x zone awareness x RF x cache size, tenants chosen per matcher branch. Real
// NewMultiHashring, real GetN; the tenant's sub-ring nodes are read through an in-package adapter from the real
// getTenantShard (fresh) and getTenantShardCached (what GetN answers from).
//
// Second family (positions of the draws): the same shuffle-sharded ring built over a base ketama ring with 1..3
// sections per node instead of 1000, so that a tenant's random draws land before the first, between and after the
// last section of every node (and of every not yet selected node) all the time instead of once in a thousand
// tenants; node layouts x shard sizes x zone awareness x sections per node x a bounded family of tenant names.
package c21

import (
	"fmt"
	"iter"
	"math/bits"
	"math/rand"
	"path/filepath"
	"runtime/debug"
	"slices"
	"sort"
	"testing"

	"github.com/prometheus/client_golang/prometheus"
	"github.com/thanos-io/thanos/pkg/receive"
	"github.com/thanos-io/thanos/pkg/store/labelpb"
	"github.com/thanos-io/thanos/pkg/store/storepb/prompb"

	"verif/vlib"
)

type Override struct {
	Matcher string   `json:"matcher"` // "exact" | "glob" | "" (left out in the configuration; documented default: exact)
	Tenants []string `json:"tenants"`
	Size    int      `json:"size"`
}

type Case struct {
	Zones     []int      `json:"zones"` // zone sizes, zone i named "az-<i>", nodes assigned blockwise
	ShardSize int        `json:"shard_size"`
	Overrides []Override `json:"overrides"`
	ZAD       bool       `json:"zone_awareness_disabled"`
	RF        int        `json:"rf"`
	CacheSize int        `json:"cache_size"` // 0 = default (100)
	// SPN = 0: loaded with NewMultiHashring (base ring with the production 1000 sections per node). SPN > 0: the
	// shuffle-sharded ring over a base ketama ring with SPN sections per node (second family).
	SPN int `json:"base_sections_per_node,omitempty"`
	// Tenants observed; empty = one tenant per matcher branch (a, ab, b1, other, "").
	Tenants []string `json:"tenants,omitempty"`
}

var tenants = []string{"a", "ab", "b1", "other", ""}

func (c Case) n() int {
	s := 0
	for _, z := range c.Zones {
		s += z
	}
	return s
}

func (c Case) endpoints() []receive.Endpoint {
	var out []receive.Endpoint
	k := 0
	for zi, sz := range c.Zones {
		for i := 0; i < sz; i++ {
			a := fmt.Sprintf("node-%d:10901", k)
			out = append(out, receive.Endpoint{Address: a, CapNProtoAddress: a, AZ: fmt.Sprintf("az-%d", zi)})
			k++
		}
	}
	return out
}

func (c Case) config() []receive.HashringConfig {
	sc := receive.ShuffleShardingConfig{ShardSize: c.ShardSize, CacheSize: c.CacheSize, ZoneAwarenessDisabled: c.ZAD}
	for _, o := range c.Overrides {
		oc := receive.ShuffleShardingOverrideConfig{ShardSize: o.Size, Tenants: append([]string(nil), o.Tenants...)}
		switch o.Matcher {
		case "exact":
			oc.TenantMatcherType = receive.TenantMatcherTypeExact
		case "glob":
			oc.TenantMatcherType = receive.TenantMatcherGlob
		}
		sc.Overrides = append(sc.Overrides, oc)
	}
	return []receive.HashringConfig{{Hashring: "h", Endpoints: c.endpoints(), ShuffleShardingConfig: sc}}
}

// configuredSizes: the shard sizes the configuration gives the tenant: those of every override that names it
// (exact membership; matcher type left out = exact, as documented; glob = filepath.Match), else the default.
// With several matching overrides any of their sizes is accepted (precedence is not documented).
func (c Case) configuredSizes(tenant string) (sizes []int, viaDefaultMatcher bool) {
	for _, o := range c.Overrides {
		hit := false
		switch o.Matcher {
		case "glob":
			for _, p := range o.Tenants {
				if ok, err := filepath.Match(p, tenant); err == nil && ok {
					hit = true
				}
			}
		default:
			hit = slices.Contains(o.Tenants, tenant)
		}
		if hit {
			sizes = append(sizes, o.Size)
			if o.Matcher == "" {
				viaDefaultMatcher = true
			}
		}
	}
	if len(sizes) == 0 {
		sizes = []int{c.ShardSize}
	}
	return
}

// perZone: how many nodes of each zone (or in total, zone awareness disabled) a shard of the given size has, and
// whether the layout and RF can provide it.
func (c Case) perZone(size int) (take int, satisfiable bool) {
	z := len(c.Zones)
	if c.ZAD {
		return size, size >= 1 && size <= c.n() && size >= c.RF
	}
	take = (size + z - 1) / z
	for _, s := range c.Zones {
		if take > s {
			return take, false
		}
	}
	return take, take >= 1 && take*z >= c.RF
}

func partsAtMost(n, k int) [][]int {
	var out [][]int
	var rec func(rem, lo int, acc []int)
	rec = func(rem, lo int, acc []int) {
		if rem == 0 {
			out = append(out, append([]int(nil), acc...))
			return
		}
		if len(acc) == k {
			return
		}
		for p := lo; p <= rem; p++ {
			rec(rem-p, p, append(acc, p))
		}
	}
	rec(n, 1, nil)
	return out
}

func overrideLists(n, ss int) [][]Override {
	out := [][]Override{nil}
	for _, s2 := range []int{1, n, n + 1} {
		if s2 == ss {
			continue
		}
		s3 := s2%n + 1
		out = append(out,
			[]Override{{Matcher: "exact", Tenants: []string{"a"}, Size: s2}},
			[]Override{{Matcher: "glob", Tenants: []string{"a*"}, Size: s2}},
			[]Override{{Matcher: "", Tenants: []string{"a"}, Size: s2}},
			[]Override{{Matcher: "glob", Tenants: []string{"[", "b*"}, Size: s2}, {Matcher: "exact", Tenants: []string{"ab", "other"}, Size: s3}},
			[]Override{{Matcher: "exact", Tenants: []string{"a"}, Size: s2}, {Matcher: "glob", Tenants: []string{"a*"}, Size: s3}},
		)
	}
	return out
}

func gen(minN, maxN, maxRF int, caches []int) iter.Seq[Case] {
	return func(yield func(Case) bool) {
		for n := minN; n <= maxN; n++ {
			for _, z := range partsAtMost(n, 3) {
				for ss := 1; ss <= n; ss++ {
					for _, ov := range overrideLists(n, ss) {
						for _, zad := range []bool{false, true} {
							if len(z) == 1 && zad {
								continue
							}
							for rf := 1; rf <= maxRF; rf++ {
								for _, cs := range caches {
									if !yield(Case{Zones: z, ShardSize: ss, Overrides: ov, ZAD: zad, RF: rf, CacheSize: cs}) {
										return
									}
								}
							}
						}
					}
				}
			}
		}
	}
}

func series(i int) *prompb.TimeSeries {
	return &prompb.TimeSeries{Labels: []labelpb.ZLabel{{Name: "__name__", Value: "m"}, {Name: "i", Value: fmt.Sprint(i)}}}
}

// obs is one observation of a tenant's shard: a node set (bitmask) or an error.
type obs struct {
	how string
	set uint64
	err string
}

func (o obs) String() string {
	if o.err != "" {
		return fmt.Sprintf("%s: error %q", o.how, o.err)
	}
	return fmt.Sprintf("%s: nodes %b", o.how, o.set)
}

type checker struct{ r *vlib.R }

func (k *checker) eval(c Case) {
	r := k.r
	if r.Expired("configurations left unevaluated") {
		return
	}
	r.Sample(c)
	eps := c.endpoints()
	ix := map[receive.Endpoint]int{}
	for i, e := range eps {
		ix[e] = i
	}
	zoneOf := make([]int, 0, len(eps))
	for zi, sz := range c.Zones {
		for i := 0; i < sz; i++ {
			zoneOf = append(zoneOf, zi)
		}
	}
	toSet := func(es []receive.Endpoint) (uint64, bool) {
		var m uint64
		for _, e := range es {
			i, ok := ix[e]
			if !ok || m&(1<<uint(i)) != 0 {
				return 0, false
			}
			m |= 1 << uint(i)
		}
		return m, true
	}
	mk := func() receive.Hashring {
		h, err := receive.NewMultiHashring(receive.AlgorithmKetama, uint64(c.RF), c.config(), prometheus.NewRegistry())
		if err != nil {
			return nil
		}
		return h
	}
	A, B := mk(), mk()
	if A == nil || B == nil {
		// RF above the node count or similar: no shuffle-sharded ring exists, nothing to observe.
		r.Add("configurations_rejected_at_load", 1)
		return
	}
	defer A.Close()
	defer B.Close()
	shard := func(h receive.Hashring, how, tenant string, cached bool) obs {
		nodes, err := receive.VerifC21Shard(h, tenant, cached)
		if err != nil {
			return obs{how: how, err: err.Error()}
		}
		s, ok := toSet(nodes)
		if !ok {
			return obs{how: how, err: fmt.Sprintf("!sub-ring nodes %v are not distinct configured endpoints", nodes)}
		}
		return obs{how: how, set: s}
	}

	for _, tn := range tenants {
		var seen []obs
		seen = append(seen, shard(A, "computed", tn, false), shard(A, "computed again", tn, false))
		// GetN: fills the cache; every replica must be inside the set the cache then holds.
		var placed uint64
		getnErr := ""
		for i := 0; i < 24 && getnErr == ""; i++ {
			for j := 0; j < c.RF; j++ {
				e, err := A.GetN(tn, series(i), uint64(j))
				if err != nil {
					getnErr = err.Error()
					break
				}
				b, ok := ix[e]
				if !ok {
					r.Violation("replica-is-not-a-configured-endpoint", fmt.Sprintf("tenant %q: GetN returned %v", tn, e), c)
					return
				}
				placed |= 1 << uint(b)
			}
		}
		seen = append(seen, shard(A, "cached after GetN", tn, true))
		// another tenant in between: with cache size 1 it evicts the entry
		_, _ = A.GetN("evict-"+tn, series(0), 0)
		_, _ = A.GetN("evict2-"+tn, series(0), 0)
		seen = append(seen, shard(A, "cached after other tenants were served", tn, true))
		seen = append(seen, shard(B, "computed on a second instance of the same configuration", tn, false))
		for i := 0; i < 3; i++ {
			seen = append(seen, shard(B, "computed once more", tn, false))
		}

		first := seen[0]
		for _, o := range seen[1:] {
			if (o.err == "") != (first.err == "") || o.set != first.set {
				r.Violation("tenant-shard-differs-between-calls", fmt.Sprintf("tenant %q: %v but %v", tn, first, o), c)
				return
			}
		}
		sizes, viaDefault := c.configuredSizes(tn)
		if first.err != "" {
			if first.err[0] == '!' {
				r.Violation("shard-nodes-not-distinct-configured-endpoints", fmt.Sprintf("tenant %q: %s", tn, first.err[1:]), c)
				return
			}
			anyUnsat := false
			for _, s := range sizes {
				if _, ok := c.perZone(s); !ok {
					anyUnsat = true
				}
			}
			if _, defOK := c.perZone(c.ShardSize); !anyUnsat && viaDefault && !defOK {
				// the error is the one the default size produces: the override was not applied
				r.Violation("override-without-matcher-type-not-applied", fmt.Sprintf("tenant %q: configured shard size %v through an override without tenant_matcher_type, but the error of the default size %d is returned: %s", tn, sizes, c.ShardSize, first.err), c)
				return
			}
			if !anyUnsat {
				r.Violation("satisfiable-shard-size-rejected", fmt.Sprintf("tenant %q (configured shard size %v, zones %v, RF %d, zone awareness disabled=%v): %s", tn, sizes, c.Zones, c.RF, c.ZAD, first.err), c)
				return
			}
			if getnErr == "" {
				r.Violation("getn-answers-although-tenant-has-no-shard", fmt.Sprintf("tenant %q: %v but GetN returned nodes %b", tn, first, placed), c)
				return
			}
			r.Outcome("error")
			continue
		}
		// ---- a node set: its size
		var cnt [8]int
		for m := first.set; m != 0; m &= m - 1 {
			cnt[zoneOf[bits.TrailingZeros64(m)]]++
		}
		total := bits.OnesCount64(first.set)
		okSize := false
		for _, s := range sizes {
			take, _ := c.perZone(s)
			good := true
			if c.ZAD {
				good = total == take
			} else {
				for zi := range c.Zones {
					if cnt[zi] != take {
						good = false
					}
				}
			}
			okSize = okSize || good
		}
		if !okSize {
			sig := "shard-has-wrong-number-of-nodes"
			if viaDefault {
				sig = "override-without-matcher-type-not-applied"
			}
			r.Violation(sig, fmt.Sprintf("tenant %q: configured shard size %v (default %d), zones %v, zone awareness disabled=%v, but the sub-ring has per-zone node counts %v (total %d)",
				tn, sizes, c.ShardSize, c.Zones, c.ZAD, cnt[:len(c.Zones)], total), c)
			return
		}
		// ---- replicas inside the set
		if getnErr != "" {
			r.Violation("getn-error-although-tenant-has-a-shard", fmt.Sprintf("tenant %q: shard %b, GetN: %s", tn, first.set, getnErr), c)
			return
		}
		if placed&^first.set != 0 {
			r.Violation("replica-outside-tenant-shard", fmt.Sprintf("tenant %q: shard nodes %b, replicas placed on %b", tn, first.set, placed), c)
			return
		}
		r.Outcome(fmt.Sprintf("shard of %d nodes", total))
		if total < c.n() {
			r.Nontrivial(fmt.Sprint(c, tn))
		}
	}
	if c.CacheSize == 1 {
		if l := receive.VerifC21CacheLen(A); l > 1 {
			r.Note("cache size 1 but %d entries cached", l)
		}
	}
}

func TestCheck(t *testing.T) {
	r := vlib.New(t, "C21")
	defer r.Finish()
	minN := 3
	maxN := vlib.Pick(r, 5, 7)
	maxRF := vlib.Pick(r, 2, 3)
	caches := vlib.Pick(r, []int{1}, []int{1, 0})
	r.Rule(fmt.Sprintf("layouts: every multiset of <= 3 zone sizes with %d..%d nodes x default shard size 1..n x 16 override lists (none; exact / glob / matcher type left out / glob with bad pattern + exact / overlapping exact + glob, "+
		"override sizes from {1, n, n+1}) x zone awareness on/off x RF 1..%d x cache sizes %v; per configuration the tenants %q, each observed 8 times (computed twice, cached after GetN, after serving other tenants, on a second instance) and 24 series through GetN. "+
		"Non-trivial = (configuration, tenant) pairs whose shard is a proper subset of the nodes", minN, maxN, maxRF, caches, tenants))
	r.Assume("configured number per zone = ceil(shard_size / zones) (docs: shard_size/number_of_azs chosen from each availability zone); an override applies to a tenant when it lists it (matcher exact or left out, documented default) or a glob pattern matches it; if several overrides match, any of their sizes is accepted",
		"a tenant whose configured size cannot be provided (more than a zone has, fewer nodes than RF) must consistently get an error",
		"RF <= 3: larger RF can make the sub-ring construction spin forever on unbalanced sub-rings (C19), which would block this check")
	k := &checker{r: r}
	vlib.ForEach(r, gen(minN, maxN, maxRF, caches), k.eval)
}
