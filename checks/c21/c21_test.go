// C21: with shuffle sharding a tenant gets the same set of nodes every time (cached or not), the set holds the
// configured number of nodes per availability zone (the configured total without zone awareness) and every replica
// of the tenant's series is placed inside the set.
//
// Engine E4: node layouts x default shard size x override lists (exact / glob / matcher type left at its default /
// several overrides / bad pattern) x zone awareness x RF x cache size, tenants chosen per matcher branch. Real
// NewMultiHashring, real GetN; the tenant's sub-ring nodes are read through an in-package adapter from the real
// getTenantShard (fresh) and getTenantShardCached (what GetN answers from).
//
// Second family (positions of the draws): the same shuffle-sharded ring built over a base ketama ring with 1..3
// sections per node instead of 1000, so that a tenant's random draws land before the first, between and after the
// last section of every node (and of every not yet selected node) all the time instead of once in a thousand
// tenants; node layouts x shard sizes x zone awareness x sections per node x a bounded family of tenant names.
package c21

import (
	"fmt"
	"iter"
	"math/bits"
	"math/rand"
	"path/filepath"
	"slices"
	"sort"
	"sync"
	"testing"

	"github.com/prometheus/client_golang/prometheus"
	"github.com/thanos-io/thanos/pkg/receive"
	"github.com/thanos-io/thanos/pkg/store/labelpb"
	"github.com/thanos-io/thanos/pkg/store/storepb/prompb"

	"verif/vlib"
)

type Override struct {
	Matcher string   `json:"matcher"` // "exact" | "glob" | "" (left out in the configuration; documented default: exact)
	Tenants []string `json:"tenants"`
	Size    int      `json:"size"`
}

type Case struct {
	Zones     []int      `json:"zones"` // zone sizes, zone i named "az-<i>", nodes assigned blockwise
	ShardSize int        `json:"shard_size"`
	Overrides []Override `json:"overrides"`
	ZAD       bool       `json:"zone_awareness_disabled"`
	RF        int        `json:"rf"`
	CacheSize int        `json:"cache_size"` // 0 = default (100)
	// SPN = 0: loaded with NewMultiHashring (base ring with the production 1000 sections per node). SPN > 0: the
	// shuffle-sharded ring over a base ketama ring with SPN sections per node (second family).
	SPN int `json:"base_sections_per_node,omitempty"`
	// Tenants observed; empty = one tenant per matcher branch (a, ab, b1, other, "").
	Tenants []string `json:"tenants,omitempty"`
}

var tenants = []string{"a", "ab", "b1", "other", ""}

// tenantsFor: the tenants observed under an override list: one per distinct way the list can treat a tenant
// (listed exactly, matched by a glob, matched by both, by a later override, by none; the empty tenant once).
func tenantsFor(ov []Override) []string {
	switch {
	case len(ov) == 0:
		return []string{"a", ""}
	case len(ov) == 2 && ov[0].Matcher == "glob":
		return []string{"a", "ab", "b1", "other"}
	default:
		return []string{"a", "ab", "other"}
	}
}

func (c Case) n() int {
	s := 0
	for _, z := range c.Zones {
		s += z
	}
	return s
}

func (c Case) endpoints() []receive.Endpoint {
	var out []receive.Endpoint
	k := 0
	for zi, sz := range c.Zones {
		for i := 0; i < sz; i++ {
			a := fmt.Sprintf("node-%d:10901", k)
			out = append(out, receive.Endpoint{Address: a, CapNProtoAddress: a, AZ: fmt.Sprintf("az-%d", zi)})
			k++
		}
	}
	return out
}

func (c Case) config() []receive.HashringConfig {
	sc := receive.ShuffleShardingConfig{ShardSize: c.ShardSize, CacheSize: c.CacheSize, ZoneAwarenessDisabled: c.ZAD}
	for _, o := range c.Overrides {
		oc := receive.ShuffleShardingOverrideConfig{ShardSize: o.Size, Tenants: append([]string(nil), o.Tenants...)}
		switch o.Matcher {
		case "exact":
			oc.TenantMatcherType = receive.TenantMatcherTypeExact
		case "glob":
			oc.TenantMatcherType = receive.TenantMatcherGlob
		}
		sc.Overrides = append(sc.Overrides, oc)
	}
	return []receive.HashringConfig{{Hashring: "h", Endpoints: c.endpoints(), ShuffleShardingConfig: sc}}
}

// configuredSizes: the shard sizes the configuration gives the tenant: those of every override that names it
// (exact membership; matcher type left out = exact, as documented; glob = filepath.Match), else the default.
// With several matching overrides any of their sizes is accepted (precedence is not documented).
func (c Case) configuredSizes(tenant string) (sizes []int, viaDefaultMatcher bool) {
	for _, o := range c.Overrides {
		hit := false
		switch o.Matcher {
		case "glob":
			for _, p := range o.Tenants {
				if ok, err := filepath.Match(p, tenant); err == nil && ok {
					hit = true
				}
			}
		default:
			hit = slices.Contains(o.Tenants, tenant)
		}
		if hit {
			sizes = append(sizes, o.Size)
			if o.Matcher == "" {
				viaDefaultMatcher = true
			}
		}
	}
	if len(sizes) == 0 {
		sizes = []int{c.ShardSize}
	}
	return
}

// perZone: how many nodes of each zone (or in total, zone awareness disabled) a shard of the given size has, and
// whether the layout and RF can provide it.
func (c Case) perZone(size int) (take int, satisfiable bool) {
	z := len(c.Zones)
	if c.ZAD {
		return size, size >= 1 && size <= c.n() && size >= c.RF
	}
	take = (size + z - 1) / z
	for _, s := range c.Zones {
		if take > s {
			return take, false
		}
	}
	return take, take >= 1 && take*z >= c.RF
}

func partsAtMost(n, k int) [][]int {
	var out [][]int
	var rec func(rem, lo int, acc []int)
	rec = func(rem, lo int, acc []int) {
		if rem == 0 {
			out = append(out, append([]int(nil), acc...))
			return
		}
		if len(acc) == k {
			return
		}
		for p := lo; p <= rem; p++ {
			rec(rem-p, p, append(acc, p))
		}
	}
	rec(n, 1, nil)
	return out
}

func overrideLists(n, ss int) [][]Override {
	out := [][]Override{nil}
	for _, s2 := range []int{1, n, n + 1} {
		if s2 == ss {
			continue
		}
		s3 := s2%n + 1
		out = append(out,
			[]Override{{Matcher: "exact", Tenants: []string{"a"}, Size: s2}},
			[]Override{{Matcher: "glob", Tenants: []string{"a*"}, Size: s2}},
			[]Override{{Matcher: "", Tenants: []string{"a"}, Size: s2}},
			[]Override{{Matcher: "glob", Tenants: []string{"[", "b*"}, Size: s2}, {Matcher: "exact", Tenants: []string{"ab", "other"}, Size: s3}},
			[]Override{{Matcher: "exact", Tenants: []string{"a"}, Size: s2}, {Matcher: "glob", Tenants: []string{"a*"}, Size: s3}},
		)
	}
	return out
}

func gen(minN, maxN, maxRF int, caches []int) iter.Seq[Case] {
	return func(yield func(Case) bool) {
		for n := minN; n <= maxN; n++ {
			for _, z := range partsAtMost(n, 3) {
				for ss := 1; ss <= n; ss++ {
					for _, ov := range overrideLists(n, ss) {
						for _, zad := range []bool{false, true} {
							if len(z) == 1 && zad {
								continue
							}
							for rf := 1; rf <= maxRF; rf++ {
								for _, cs := range caches {
									if !yield(Case{Zones: z, ShardSize: ss, Overrides: ov, ZAD: zad, RF: rf, CacheSize: cs, Tenants: tenantsFor(ov)}) {
										return
									}
								}
							}
						}
					}
				}
			}
		}
	}
}

// smallSizes: the shard sizes of the second family. Without zone awareness every size 1..n; with it one size per
// distinct per-zone take ceil(size/zones) (the largest; rounding is the first family's subject).
func smallSizes(zones []int, zad bool) []int {
	n, z := 0, len(zones)
	for _, s := range zones {
		n += s
	}
	var out []int
	for ss := 1; ss <= n; ss++ {
		if zad || ss == n || (ss+z)/z != (ss+z-1)/z {
			out = append(out, ss)
		}
	}
	return out
}

// genSmall: second family, one tenant per case.
//
// Without zone awareness all nodes form one zone: where the draws land depends on the number of nodes only, and
// with RF 1 so does everything else. allZAD=false keeps two layouts per node count for it ([1,n-1], [1,1,n-2]).
func genSmall(minN, maxN, maxRF int, spns []int, nTenants int, allZAD bool) iter.Seq[Case] {
	return func(yield func(Case) bool) {
		for n := minN; n <= maxN; n++ {
			for _, z := range partsAtMost(n, 3) {
				for _, zad := range []bool{false, true} {
					if len(z) == 1 && zad {
						continue
					}
					if zad && !allZAD && !(z[0] == 1 && (len(z) == 2 || z[1] == 1)) {
						continue
					}
					for _, ss := range smallSizes(z, zad) {
						for _, spn := range spns {
							for rf := 1; rf <= maxRF; rf++ {
								for t := 0; t < nTenants; t++ {
									if !yield(Case{Zones: z, ShardSize: ss, ZAD: zad, RF: rf, SPN: spn, Tenants: []string{fmt.Sprintf("t%d", t)}}) {
										return
									}
								}
							}
						}
					}
				}
			}
		}
	}
}

func series(i int) *prompb.TimeSeries {
	return &prompb.TimeSeries{Labels: []labelpb.ZLabel{{Name: "__name__", Value: "m"}, {Name: "i", Value: fmt.Sprint(i)}}}
}

// obs is one observation of a tenant's shard: a node set (bitmask) or an error.
type obs struct {
	how string
	set uint64
	err string
}

func (o obs) String() string {
	if o.err != "" {
		return fmt.Sprintf("%s: error %q", o.how, o.err)
	}
	return fmt.Sprintf("%s: nodes %b", o.how, o.set)
}

type checker struct {
	r *vlib.R

	mu       sync.Mutex
	gapSeen  map[string]struct{} // (ring, zone, draw index, gap) a draw of some tenant landed in
	gapTotal map[string]int      // ring -> number of (zone, draw index, gap) combinations it has
}

// drawStats replays, on the sections of the base ring (read through the adapter), where the draws of the tenant
// land: the documented procedure (per zone a generator seeded with ShuffleShardSeed(tenant, zone), one 64-bit draw
// per node to take, walk clockwise to the first section of a node not yet taken). It only classifies the case
// (non-trivial or not, which gaps were hit); the verdict never depends on it.
type drawStats struct {
	draws        int
	beforeFirst  int // at or before the zone's first section
	afterLast    int // after the zone's last section
	pastUnpicked int // not after the zone's last section, but every section from there to the end belongs to nodes already taken
}

func (k *checker) drawStats(c Case, secs []receive.VerifC21Section, tenant string, take int) drawStats {
	var st drawStats
	byAZ := map[string][]receive.VerifC21Section{}
	for _, s := range secs {
		az := s.Node.AZ
		if c.ZAD {
			az = ""
		}
		byAZ[az] = append(byAZ[az], s)
	}
	ring := fmt.Sprint(c.Zones, c.ZAD, c.SPN, take)
	total := 0
	var hit []string
	for az, zs := range byAZ {
		sort.Slice(zs, func(i, j int) bool { return zs[i].Hash < zs[j].Hash })
		nodes := map[receive.Endpoint]struct{}{}
		for _, s := range zs {
			nodes[s.Node] = struct{}{}
		}
		if take > len(nodes) {
			return drawStats{} // no shard for this size
		}
		total += take * (len(zs) + 1)
		rnd := rand.New(rand.NewSource(receive.ShuffleShardSeed(tenant, az)))
		taken := map[receive.Endpoint]struct{}{}
		for i := 0; i < take; i++ {
			p := rnd.Uint64()
			g := sort.Search(len(zs), func(x int) bool { return zs[x].Hash >= p })
			st.draws++
			hit = append(hit, fmt.Sprint(ring, az, i, g))
			switch {
			case g == 0:
				st.beforeFirst++
			case g == len(zs):
				st.afterLast++
			}
			if g < len(zs) && len(taken) > 0 {
				free := false
				for _, s := range zs[g:] {
					if _, ok := taken[s.Node]; !ok {
						free = true
						break
					}
				}
				if !free {
					st.pastUnpicked++
				}
			}
			for j := 0; j < len(zs); j++ {
				s := zs[(g+j)%len(zs)]
				if _, ok := taken[s.Node]; !ok {
					taken[s.Node] = struct{}{}
					break
				}
			}
		}
	}
	k.mu.Lock()
	k.gapTotal[ring] = total
	for _, h := range hit {
		k.gapSeen[h] = struct{}{}
	}
	k.mu.Unlock()
	return st
}

func (k *checker) eval(c Case) {
	r := k.r
	if r.Expired("configurations left unevaluated") {
		return
	}
	r.Sample(c)
	small := c.SPN > 0
	eps := c.endpoints()
	ix := map[receive.Endpoint]int{}
	for i, e := range eps {
		ix[e] = i
	}
	zoneOf := make([]int, 0, len(eps))
	for zi, sz := range c.Zones {
		for i := 0; i < sz; i++ {
			zoneOf = append(zoneOf, zi)
		}
	}
	toSet := func(es []receive.Endpoint) (uint64, bool) {
		var m uint64
		for _, e := range es {
			i, ok := ix[e]
			if !ok || m&(1<<uint(i)) != 0 {
				return 0, false
			}
			m |= 1 << uint(i)
		}
		return m, true
	}
	mk := func() receive.Hashring {
		var h receive.Hashring
		var err error
		if small {
			h, err = receive.VerifC21SmallRing(c.endpoints(), c.SPN, uint64(c.RF), c.config()[0].ShuffleShardingConfig)
		} else {
			h, err = receive.NewMultiHashring(receive.AlgorithmKetama, uint64(c.RF), c.config(), prometheus.NewRegistry())
		}
		if err != nil {
			return nil
		}
		return h
	}
	A, B := mk(), mk()
	if A == nil || B == nil {
		// RF above the node count or similar: no shuffle-sharded ring exists, nothing to observe.
		r.Add("configurations_rejected_at_load", 1)
		return
	}
	defer A.Close()
	defer B.Close()
	shard := func(h receive.Hashring, how, tenant string, cached bool) obs {
		nodes, err := receive.VerifC21Shard(h, tenant, cached)
		if err != nil {
			return obs{how: how, err: err.Error()}
		}
		s, ok := toSet(nodes)
		if !ok {
			return obs{how: how, err: fmt.Sprintf("!sub-ring nodes %v are not distinct configured endpoints", nodes)}
		}
		return obs{how: how, set: s}
	}
	var secs []receive.VerifC21Section
	if small {
		var err error
		if secs, err = receive.VerifC21BaseSections(A); err != nil || len(secs) != c.n()*c.SPN {
			panic(fmt.Sprintf("HARNESS-ERROR base ring sections: %v (%d)", err, len(secs)))
		}
	}
	tns := c.Tenants
	if len(tns) == 0 {
		tns = tenants
	}
	// with a cache of one entry the observation after another tenant was served is a second computation on the
	// same instance anyway
	again := !small && c.CacheSize != 1
	nSeries := 24
	if small {
		nSeries = 8
	}

	for _, tn := range tns {
		var seen []obs
		seen = append(seen, shard(A, "computed", tn, false))
		if again {
			seen = append(seen, shard(A, "computed again", tn, false))
		}
		// GetN: fills the cache; every replica must be inside the set the cache then holds.
		var placed uint64
		getnErr := ""
		for i := 0; i < nSeries && getnErr == ""; i++ {
			for j := 0; j < c.RF; j++ {
				e, err := A.GetN(tn, series(i), uint64(j))
				if err != nil {
					getnErr = err.Error()
					break
				}
				b, ok := ix[e]
				if !ok {
					r.Violation("replica-is-not-a-configured-endpoint", fmt.Sprintf("tenant %q: GetN returned %v", tn, e), c)
					return
				}
				placed |= 1 << uint(b)
			}
		}
		seen = append(seen, shard(A, "cached after GetN", tn, true))
		if !small {
			// another tenant in between: with cache size 1 it evicts the entry
			_, _ = A.GetN("evict-"+tn, series(0), 0)
			seen = append(seen, shard(A, "cached after another tenant was served", tn, true))
		}
		seen = append(seen, shard(B, "computed on a second instance of the same configuration", tn, false))

		first := seen[0]
		for _, o := range seen[1:] {
			if (o.err == "") != (first.err == "") || o.set != first.set {
				r.Violation("tenant-shard-differs-between-calls", fmt.Sprintf("tenant %q: %v but %v", tn, first, o), c)
				return
			}
		}
		sizes, viaDefault := c.configuredSizes(tn)
		if first.err != "" {
			if first.err[0] == '!' {
				r.Violation("shard-nodes-not-distinct-configured-endpoints", fmt.Sprintf("tenant %q: %s", tn, first.err[1:]), c)
				return
			}
			anyUnsat := false
			for _, s := range sizes {
				if _, ok := c.perZone(s); !ok {
					anyUnsat = true
				}
			}
			if _, defOK := c.perZone(c.ShardSize); !anyUnsat && viaDefault && !defOK {
				// the error is the one the default size produces: the override was not applied
				r.Violation("override-without-matcher-type-not-applied", fmt.Sprintf("tenant %q: configured shard size %v through an override without tenant_matcher_type, but the error of the default size %d is returned: %s", tn, sizes, c.ShardSize, first.err), c)
				return
			}
			if !anyUnsat {
				r.Violation("satisfiable-shard-size-rejected", fmt.Sprintf("tenant %q (configured shard size %v, zones %v, RF %d, zone awareness disabled=%v, %s): %s", tn, sizes, c.Zones, c.RF, c.ZAD, c.base(), first.err), c)
				return
			}
			if getnErr == "" {
				r.Violation("getn-answers-although-tenant-has-no-shard", fmt.Sprintf("tenant %q: %v but GetN returned nodes %b", tn, first, placed), c)
				return
			}
			r.Outcome("error")
			continue
		}
		// ---- a node set: its size
		var cnt [8]int
		for m := first.set; m != 0; m &= m - 1 {
			cnt[zoneOf[bits.TrailingZeros64(m)]]++
		}
		total := bits.OnesCount64(first.set)
		okSize := false
		for _, s := range sizes {
			take, _ := c.perZone(s)
			good := true
			if c.ZAD {
				good = total == take
			} else {
				for zi := range c.Zones {
					if cnt[zi] != take {
						good = false
					}
				}
			}
			okSize = okSize || good
		}
		if !okSize {
			sig := "shard-has-wrong-number-of-nodes"
			if viaDefault {
				sig = "override-without-matcher-type-not-applied"
			}
			r.Violation(sig, fmt.Sprintf("tenant %q: configured shard size %v (default %d), zones %v, zone awareness disabled=%v, %s, but the sub-ring has per-zone node counts %v (total %d)",
				tn, sizes, c.ShardSize, c.Zones, c.ZAD, c.base(), cnt[:len(c.Zones)], total), c)
			return
		}
		// ---- replicas inside the set
		if getnErr != "" {
			r.Violation("getn-error-although-tenant-has-a-shard", fmt.Sprintf("tenant %q: shard %b, GetN: %s", tn, first.set, getnErr), c)
			return
		}
		if placed&^first.set != 0 {
			r.Violation("replica-outside-tenant-shard", fmt.Sprintf("tenant %q: shard nodes %b, replicas placed on %b", tn, first.set, placed), c)
			return
		}
		r.Outcome(fmt.Sprintf("shard of %d nodes", total))
		if !small {
			if total < c.n() {
				r.Nontrivial(fmt.Sprint(c, tn))
				r.Add("nontrivial_production_ring", 1)
			}
			continue
		}
		take, _ := c.perZone(c.ShardSize)
		st := k.drawStats(c, secs, tn, take)
		r.Add("small_ring_draws", int64(st.draws))
		r.Add("small_ring_draws_before_first_section_of_zone", int64(st.beforeFirst))
		r.Add("small_ring_draws_after_last_section_of_zone", int64(st.afterLast))
		r.Add("small_ring_draws_after_last_section_of_every_unselected_node_but_not_of_zone", int64(st.pastUnpicked))
		if st.afterLast+st.pastUnpicked > 0 {
			r.Nontrivial(fmt.Sprint(c, tn))
			r.Add("nontrivial_small_ring", 1)
		}
		if st.pastUnpicked > 0 {
			r.Add("nontrivial_small_ring_walk_wraps_over_selected_tail", 1)
		}
	}
	if !small && c.CacheSize == 1 {
		if l := receive.VerifC21CacheLen(A); l > 1 {
			r.Note("cache size 1 but %d entries cached", l)
		}
	}
}

func (c Case) base() string {
	if c.SPN > 0 {
		return fmt.Sprintf("base ring with %d section(s) per node", c.SPN)
	}
	return "production base ring"
}

func TestCheck(t *testing.T) {
	r := vlib.New(t, "C21")
	defer r.Finish()
	minN := 3
	maxN := vlib.Pick(r, 5, 7)
	maxRF := vlib.Pick(r, 2, 3)
	caches := vlib.Pick(r, []int{1}, []int{1, 0})
	sMaxN := 6
	sMaxRF := vlib.Pick(r, 1, 2)
	spns := []int{1, 2, 3}
	nTen := vlib.Pick(r, 40, 200)
	allZAD := r.Thorough()
	r.Rule(fmt.Sprintf("(1) production ring: every multiset of <= 3 zone sizes with %d..%d nodes x default shard size 1..n x 16 override lists (none; exact / glob / matcher type left out / glob with bad pattern + exact / overlapping exact + glob, "+
		"override sizes from {1, n, n+1}) x zone awareness on/off x RF 1..%d x cache sizes %v; per configuration one tenant per way the override list can treat it (of %q), each observed 4 times with a cache of one entry (computed, cached after GetN, after another tenant was served = evicted and recomputed, on a second instance; once more with the default cache) and 24 series through GetN. "+
		"Non-trivial = (configuration, tenant) pairs whose shard is a proper subset of the nodes. "+
		"(2) positions of the draws: the same ring over a base ketama ring with %v sections per node: every multiset of <= 3 zone sizes with %d..%d nodes x shard size 1..n (zone-aware: one size per distinct per-zone take, up to take = zone size) x zone awareness on/off x RF 1..%d x tenants t0..t%d, "+
		"each observed 3 times (computed, cached after GetN, second instance) and 8 series through GetN. Non-trivial = (configuration, tenant) pairs in which a draw landed after the last section of every not yet selected node of its zone "+
		"(positions replayed in the harness from the base ring's sections; extras give the split and the covered (zone, draw index, gap) combinations)",
		minN, maxN, maxRF, caches, tenants, spns, minN, sMaxN, sMaxRF, nTen-1))
	r.Assume("configured number per zone = ceil(shard_size / zones) (docs: shard_size/number_of_azs chosen from each availability zone); an override applies to a tenant when it lists it (matcher exact or left out, documented default) or a glob pattern matches it; if several overrides match, any of their sizes is accepted",
		"a tenant whose configured size cannot be provided (more than a zone has, fewer nodes than RF) must consistently get an error",
		"RF <= 3: larger RF multiplies the cost of every sub-ring",
		"family (2) builds the shuffle-sharded ring with newKetamaHashring(endpoints, 1..3, rf) + newShuffleShardHashring as newHashring does with 1000 sections per node; the tenant's sub-ring is still built by the real getTenantShard")
	k := &checker{r: r, gapSeen: map[string]struct{}{}, gapTotal: map[string]int{}}
	all := func(yield func(Case) bool) {
		for c := range genSmall(minN, sMaxN, sMaxRF, spns, nTen, allZAD) {
			if !yield(c) {
				return
			}
		}
		for c := range gen(minN, maxN, maxRF, caches) {
			if !yield(c) {
				return
			}
		}
	}
	vlib.ForEach(r, all, k.eval)
	tot := 0
	for _, n := range k.gapTotal {
		tot += n
	}
	if tot > 0 {
		r.Set("small_ring_draw_positions_covered", fmt.Sprintf("%d of %d (base ring, zone, draw index, gap before/between/after the zone's sections)", len(k.gapSeen), tot))
	}
}
