// Selector part of C05: the proxy runs with a TSDB selector (relabel configuration) and the stores behind
// it are real components that honour the request they receive.
//
// With a TSDB selector the proxy does not only decide which stores to ask: it also narrows the request
// it forwards (ProxyStore.matchingStores unions the label sets the selector kept, MatchersForLabelSets
// turns the union into extra external-label matchers, and the same narrowed request goes to every
// matched store). Whether a store is skipped is then decided in two places: by the proxy, and by the
// store's own external-label pruning applied to the forwarded request (matchesExternalLabels in a
// TSDB/Prometheus store, storeMatches/LabelSetsMatch in a nested proxy). Recording fakes that ignore the
// request see only the first half. Here a top-level store advertising one label set is a real
// store.TSDBStore (ruler/receiver tenant), one advertising several is a real nested store.ProxyStore over
// one real store.TSDBStore per label set (multi-tenant receiver, nested querier); only the TSDB below a
// TSDBStore is a stub that records that it was reached.
//
// Oracle (the statement, over the composed decision): a label set that the selector keeps is selected
// data. If the maximal dataset of such a label set holds a series matching the query's selectors inside
// the query range, the TSDB behind it must be reached (or the store must answer with an explicit error,
// which is not a skip), and the matchers it is asked with must let through every series of that label set
// that matches the query and carries no label that is an external label elsewhere (a request that none of
// the store's own series can satisfy is a skip in effect). Label sets the selector drops are excluded by
// configuration: nothing is asserted about them. Series that use an external label name of another store
// as an ordinary label are outside the selector's design and are not judged.
package c05

import (
	"context"
	"fmt"
	"io"
	"iter"
	"regexp"
	"sort"
	"strings"
	"sync/atomic"
	"time"

	"github.com/prometheus/common/model"
	"github.com/prometheus/prometheus/model/labels"
	"github.com/prometheus/prometheus/model/relabel"
	"github.com/prometheus/prometheus/storage"
	"google.golang.org/grpc"

	"github.com/thanos-io/thanos/pkg/component"
	"github.com/thanos-io/thanos/pkg/info/infopb"
	"github.com/thanos-io/thanos/pkg/store"
	"github.com/thanos-io/thanos/pkg/store/storepb"

	"verif/vlib"
)

// RelabelRule is one keep/drop rule of the TSDB selector's relabel configuration.
type RelabelRule struct {
	Action string   `json:"action"` // "keep" | "drop"
	Src    []string `json:"src"`
	Sep    string   `json:"sep"`
	Re     string   `json:"re"`
}

// StoreSpec is one top-level store: the label sets it advertises and its advertised time range.
type StoreSpec struct {
	LS   []map[string]string `json:"ls"`
	MinT int64               `json:"mint"`
	MaxT int64               `json:"maxt"`
}

// SelSpec is the selector-part extension of a Case.
type SelSpec struct {
	Relabel []RelabelRule `json:"relabel"` // non-nil, possibly empty (= keep everything)
	Stores  []StoreSpec   `json:"stores"`
}

// selectorConfigs: one symbol per way the selector can cut a store's label sets. Every rule is a plain
// keep/drop on external labels, the documented use of --selector.relabel-config.
func selectorConfigs() [][]RelabelRule {
	k := func(action, re string, src ...string) RelabelRule { return RelabelRule{Action: action, Src: src, Sep: ";", Re: re} }
	return [][]RelabelRule{
		{},                      // non-nil empty configuration: every label set is kept
		{k("keep", "x", "a")},   // keeps sets with a="x"
		{k("drop", "x", "a")},   // keeps sets with a!="x" (absent included)
		{k("keep", "x|y", "a")}, // keeps sets that have a
		{k("drop", "x|y", "a")}, // keeps sets that lack a (the empty set included)
		{k("keep", "x|y", "a"), k("drop", "y", "b")}, // two rules
		{k("keep", "x;.*", "a", "b")},                // two source labels across the separator
	}
}

func lsetToMap(ls labels.Labels) map[string]string {
	m := map[string]string{}
	ls.Range(func(l labels.Label) { m[l.Name] = l.Value })
	return m
}

func mapToLset(m map[string]string) labels.Labels {
	names := make([]string, 0, len(m))
	for n := range m {
		names = append(names, n)
	}
	sort.Strings(names)
	b := labels.NewScratchBuilder(len(m))
	for _, n := range names {
		b.Add(n, m[n])
	}
	return b.Labels()
}

// selQueries: the query side. Every matcher of the main alphabet on the names that can be external (quick:
// without the values x|y and .*, which decide like .+ and like "always" on external values {x,y}),
// each together with c!="" - a query always carries a matcher that no external label can consume (the
// metric name in practice); a TSDB store rejects a query without one instead of answering it. Plus two
// queries on c alone. Thorough adds unordered pairs of matchers on a,b over the quick values.
func selQueries(r *vlib.R) [][]MatcherSpec {
	inner := MatcherSpec{"c", 1, ""}
	var ms []MatcherSpec
	for _, m := range allMatchers() {
		if m.N == "c" || (!r.Thorough() && (m.V == "x|y" || m.V == ".*")) {
			continue
		}
		ms = append(ms, m)
	}
	var out [][]MatcherSpec
	for _, m := range ms {
		out = append(out, []MatcherSpec{m, inner})
	}
	out = append(out, []MatcherSpec{{"c", 0, "x"}}, []MatcherSpec{inner})
	if r.Thorough() {
		plain := func(m MatcherSpec) bool { return m.V != "x|y" && m.V != ".*" }
		for i := range ms {
			for j := i + 1; j < len(ms); j++ {
				if plain(ms[i]) && plain(ms[j]) {
					out = append(out, []MatcherSpec{ms[i], ms[j], inner})
				}
			}
		}
	}
	return out
}

// metaValueConfigs: the proxy writes the kept label sets into a regular expression, values joined by "|".
// One external label value that contains that separator (any regexp metacharacter behaves alike), alone
// and next to a plain value of the same name.
func metaValueConfigs() [][]labels.Labels {
	return [][]labels.Labels{
		{labels.FromStrings("a", "x|y")},
		{labels.FromStrings("a", "x"), labels.FromStrings("a", "x|y")},
	}
}

// onlyMetaValuesRejected: at least one forwarded matcher rejects an external label of ls, and every one
// that does is on a label whose value contains regexp metacharacters.
func onlyMetaValuesRejected(ls labels.Labels, fwd []storepb.LabelMatcher) bool {
	rejected, onlyMeta := false, true
	for _, fm := range fwd {
		m, err := storepb.MatcherToPromMatcher(fm)
		if err != nil || !ls.Has(m.Name) {
			continue
		}
		if v := ls.Get(m.Name); !m.Matches(v) {
			rejected = true
			if regexp.QuoteMeta(v) == v {
				onlyMeta = false
			}
		}
	}
	return rejected && onlyMeta
}

// selGen: selector configuration x set of 1..2 stores x query matcher set. A store advertises 1..maxSets
// label sets over {a,b}x{x,y} (the empty set included); two stores together advertise at most maxTotal
// label sets (3 is the smallest size with one fully and one partially selected store). Time ranges are
// fixed and overlapping: the time dimension is covered by the main part and does not interact with the
// forwarded matchers.
func selGen(r *vlib.R, base [][]labels.Labels, maxTotal int) iter.Seq[Case] {
	cfgs := append(append([][]labels.Labels(nil), base...), metaValueConfigs()...)
	msets := selQueries(r)
	spec := func(cfg []labels.Labels) StoreSpec {
		s := StoreSpec{MinT: 1, MaxT: 2, LS: []map[string]string{}}
		for _, ls := range cfg {
			s.LS = append(s.LS, lsetToMap(ls))
		}
		return s
	}
	return func(yield func(Case) bool) {
		emit := func(rc []RelabelRule, stores ...StoreSpec) bool {
			for _, m := range msets {
				if !yield(Case{M: m, QMin: 1, QMax: 2, Sel: &SelSpec{Relabel: rc, Stores: stores}}) {
					return false
				}
			}
			return true
		}
		for _, rc := range selectorConfigs() {
			for i := range cfgs {
				if len(cfgs[i]) == 0 {
					continue // a store advertising nothing is never judged and adds nothing to the union
				}
				if !emit(rc, spec(cfgs[i])) {
					return
				}
				for j := i; j < len(cfgs); j++ {
					if len(cfgs[j]) == 0 || len(cfgs[i])+len(cfgs[j]) > maxTotal {
						continue
					}
					if !emit(rc, spec(cfgs[i]), spec(cfgs[j])) {
						return
					}
				}
			}
		}
	}
}

// ---- reference model of the selector -------------------------------------------------------------------

type refRule struct {
	drop bool
	src  []string
	sep  string
	re   *regexp.Regexp
}

func compileRef(rules []RelabelRule) ([]refRule, []*relabel.Config, error) {
	var ref []refRule
	cfg := []*relabel.Config{}
	for _, ru := range rules {
		re, err := regexp.Compile("^(?s:" + ru.Re + ")$")
		if err != nil {
			return nil, nil, err
		}
		rre, err := relabel.NewRegexp(ru.Re)
		if err != nil {
			return nil, nil, err
		}
		c := &relabel.Config{Separator: ru.Sep, Regex: rre}
		for _, s := range ru.Src {
			c.SourceLabels = append(c.SourceLabels, model.LabelName(s))
		}
		switch ru.Action {
		case "keep":
			c.Action = relabel.Keep
		case "drop":
			c.Action = relabel.Drop
		default:
			return nil, nil, fmt.Errorf("bad action %q", ru.Action)
		}
		ref = append(ref, refRule{drop: ru.Action == "drop", src: ru.Src, sep: ru.Sep, re: re})
		cfg = append(cfg, c)
	}
	return ref, cfg, nil
}

// refKeeps: keep/drop semantics of relabelling, written out: the source label values (absent = "") joined
// by the separator must (keep) / must not (drop) fully match the regular expression, for every rule.
func refKeeps(rules []refRule, ls map[string]string) bool {
	for _, ru := range rules {
		vals := make([]string, len(ru.src))
		for i, s := range ru.src {
			vals[i] = ls[s]
		}
		if ru.re.MatchString(strings.Join(vals, ru.sep)) == ru.drop {
			return false
		}
	}
	return true
}

// ---- real downstream ---------------------------------------------------------------------------------

// stubTSDB is the only fake below a top-level store: it records that the TSDBStore got past its
// external-label test and asked the database, and with which matchers.
type stubTSDB struct {
	mint    int64
	reached atomic.Int32
	sel     atomic.Pointer[[]*labels.Matcher]
}

func (d *stubTSDB) ChunkQuerier(int64, int64) (storage.ChunkQuerier, error) {
	d.reached.Add(1)
	return &stubQuerier{ChunkQuerier: storage.NoopChunkedQuerier(), db: d}, nil
}
func (d *stubTSDB) StartTime() (int64, error) { return d.mint, nil }

type stubQuerier struct {
	storage.ChunkQuerier
	db *stubTSDB
}

func (q *stubQuerier) Select(ctx context.Context, sorted bool, h *storage.SelectHints, ms ...*labels.Matcher) storage.ChunkSeriesSet {
	cp := append([]*labels.Matcher(nil), ms...)
	q.db.sel.Store(&cp)
	return q.ChunkQuerier.Select(ctx, sorted, h, ms...)
}

// starved: the TSDB behind label set ls was asked with matchers dbm. Its own series carry, besides the
// external labels ls (which the TSDB does not store), only labels that are external nowhere, i.e. c. If
// one of them matches the query (with ls attached, inside the range) it must also pass dbm, otherwise the
// store was asked for nothing it can hold. Returns the witness.
func starved(ls labels.Labels, pm, dbm []*labels.Matcher) (string, bool) {
	for _, v := range innerValues {
		get := func(name string, withExt bool) string {
			if name == "c" {
				return v
			}
			if withExt {
				return ls.Get(name)
			}
			return ""
		}
		ok := true
		for _, m := range pm {
			if !m.Matches(get(m.Name, true)) {
				ok = false
				break
			}
		}
		if !ok {
			continue
		}
		for _, m := range dbm {
			if !m.Matches(get(m.Name, false)) {
				return fmt.Sprintf("{c=%q}", v), true
			}
		}
	}
	return "", false
}

// serverClient turns a storepb.StoreServer into a store.Client by calling it synchronously (what
// storepb.ServerAsClient does, without the goroutine), with the given advertisement.
type serverClient struct {
	name       string
	srv        storepb.StoreServer
	lsets      []labels.Labels
	mint, maxt int64
	asked      atomic.Int32
	errs       atomic.Int32
	panics     atomic.Int32
	lastReq    atomic.Pointer[storepb.SeriesRequest]
}

func (c *serverClient) LabelSets() []labels.Labels         { return c.lsets }
func (c *serverClient) TimeRange() (int64, int64)          { return c.mint, c.maxt }
func (c *serverClient) TSDBInfos() []infopb.TSDBInfo       { return nil }
func (c *serverClient) SupportsSharding() bool             { return true }
func (c *serverClient) SupportsWithoutReplicaLabels() bool { return true }
func (c *serverClient) String() string                     { return c.name }
func (c *serverClient) Addr() (string, bool)               { return c.name, true }
func (c *serverClient) Matches([]*labels.Matcher) bool     { return true }

func (c *serverClient) Series(ctx context.Context, req *storepb.SeriesRequest, _ ...grpc.CallOption) (storepb.Store_SeriesClient, error) {
	c.asked.Add(1)
	c.lastReq.Store(req)
	srv := &collectServer{ctx: ctx}
	err := func() (err error) {
		defer func() {
			if p := recover(); p != nil {
				c.panics.Add(1)
				err = fmt.Errorf("panic: %v", p)
			}
		}()
		return c.srv.Series(req, srv)
	}()
	if err != nil {
		c.errs.Add(1)
	}
	return &replayStream{ctx: ctx, err: err}, nil
}
func (c *serverClient) LabelNames(ctx context.Context, r *storepb.LabelNamesRequest, _ ...grpc.CallOption) (*storepb.LabelNamesResponse, error) {
	return c.srv.LabelNames(ctx, r)
}
func (c *serverClient) LabelValues(ctx context.Context, r *storepb.LabelValuesRequest, _ ...grpc.CallOption) (*storepb.LabelValuesResponse, error) {
	return c.srv.LabelValues(ctx, r)
}

// replayStream delivers the outcome of a synchronous server call: the stub TSDB holds nothing, so there
// are no series to pass on, only the final status.
type replayStream struct {
	grpc.ClientStream
	ctx context.Context
	err error
}

func (s *replayStream) Recv() (*storepb.SeriesResponse, error) {
	if s.err != nil {
		return nil, s.err
	}
	return nil, io.EOF
}
func (s *replayStream) Context() context.Context { return s.ctx }
func (s *replayStream) CloseSend() error         { return nil }

type selLeaf struct {
	lset   labels.Labels
	spec   map[string]string
	db     *stubTSDB
	client *serverClient
}

type selStore struct {
	spec   StoreSpec
	leaves []*selLeaf
	client *serverClient
}

func buildSelStore(i int, sp StoreSpec) *selStore {
	st := &selStore{spec: sp}
	var adv []labels.Labels
	var leafClients []store.Client
	for k, m := range sp.LS {
		ls := mapToLset(m)
		adv = append(adv, ls)
		db := &stubTSDB{mint: sp.MinT}
		ts := store.NewTSDBStore(nil, db, component.Receive, ls)
		lc := &serverClient{name: fmt.Sprintf("s%d/tsdb%d", i, k), srv: ts, lsets: []labels.Labels{ls}, mint: sp.MinT, maxt: sp.MaxT}
		st.leaves = append(st.leaves, &selLeaf{lset: ls, spec: m, db: db, client: lc})
		leafClients = append(leafClients, lc)
	}
	if len(st.leaves) == 1 {
		st.client = st.leaves[0].client // a single TSDB store, asked directly
		st.client.name = fmt.Sprintf("s%d", i)
		return st
	}
	nested := store.NewProxyStore(nil, nil, func() []store.Client { return leafClients }, component.Store, labels.EmptyLabels(), 0*time.Second, store.EagerRetrieval)
	st.client = &serverClient{name: fmt.Sprintf("s%d", i), srv: nested, lsets: adv, mint: sp.MinT, maxt: sp.MaxT}
	return st
}

func fmtMatchers(ms []storepb.LabelMatcher) string {
	out := make([]string, 0, len(ms))
	for _, m := range ms {
		pm, err := storepb.MatcherToPromMatcher(m)
		if err != nil {
			out = append(out, fmt.Sprintf("%s<%v>%q", m.Name, m.Type, m.Value))
			continue
		}
		out = append(out, pm.String())
	}
	sort.Strings(out)
	return "{" + strings.Join(out, ",") + "}"
}

func evalSel(r *vlib.R, c Case, pm []*labels.Matcher, sm []storepb.LabelMatcher) {
	ref, cfg, err := compileRef(c.Sel.Relabel)
	if err != nil {
		panic(fmt.Sprintf("HARNESS-ERROR bad selector configuration %v: %v", c.Sel.Relabel, err))
	}
	stores := make([]*selStore, len(c.Sel.Stores))
	clients := make([]store.Client, len(c.Sel.Stores))
	for i, sp := range c.Sel.Stores {
		stores[i] = buildSelStore(i, sp)
		clients[i] = stores[i].client
	}
	p := store.NewProxyStore(nil, nil, func() []store.Client { return clients }, component.Query, labels.EmptyLabels(), 0*time.Second, store.EagerRetrieval,
		store.WithTSDBSelector(store.NewTSDBSelector(cfg)))
	srv := &collectServer{ctx: context.Background()}
	if err := seriesRecover(p, &storepb.SeriesRequest{MinTime: c.QMin, MaxTime: c.QMax, Matchers: sm}, srv); err != nil {
		r.Violation("valid-request-rejected", fmt.Sprintf("Series with selector %v returned %v", c.Sel.Relabel, err), c)
		return
	}

	var judged, reached, pruned, errored, unselected int64
	full, partial, narrowed := false, false, false
	for _, st := range stores {
		kept := 0
		for _, lf := range st.leaves {
			if refKeeps(ref, lf.spec) {
				kept++
			}
		}
		if kept == len(st.leaves) {
			full = true
		} else if kept > 0 {
			partial = true
		}
		if req := st.client.lastReq.Load(); req != nil && len(req.Matchers) > len(sm) {
			narrowed = true
		}
		if len(st.leaves) > 1 && st.client.panics.Load() > 0 {
			r.Violation("panic-in-store-behind-proxy", fmt.Sprintf("nested proxy of store %s panicked on forwarded request", st.client.name), c)
		}
		for _, lf := range st.leaves {
			if lf.client.panics.Load() > 0 {
				r.Violation("panic-in-store-behind-proxy", fmt.Sprintf("TSDB store %s %v panicked on forwarded request", lf.client.name, lf.lset), c)
			}
			if !refKeeps(ref, lf.spec) {
				unselected++ // excluded by configuration: not judged
				continue
			}
			judged++
			switch {
			case lf.db.reached.Load() > 0:
				reached++
				if dbm := lf.db.sel.Load(); dbm != nil && c.QMin <= st.spec.MaxT && c.QMax >= st.spec.MinT {
					if w, bad := starved(lf.lset, pm, *dbm); bad {
						r.Violation("selected-label-set-asked-with-forwarded-matchers-its-own-series-cannot-satisfy",
							fmt.Sprintf("selector %v keeps label set %v of store %s (advertising %v); for query %v the TSDB behind it was asked with matchers %v, which its series %s (external labels %v attached: matches the query) cannot satisfy",
								c.Sel.Relabel, lf.lset, st.client.name, st.client.lsets, pm, *dbm, w, lf.lset), c)
					}
				}
				continue
			case lf.client.errs.Load() > 0:
				errored++ // an explicit error is not a skip
				continue
			}
			pruned++
			if !holds([]labels.Labels{lf.lset}, st.spec.MinT, st.spec.MaxT, pm, c.QMin, c.QMax) {
				continue
			}
			if st.client.asked.Load() == 0 {
				sig := "store-with-matching-data-skipped-on-external-labels"
				if store.LabelSetsMatch(pm, st.client.lsets...) {
					sig = "selected-store-with-matching-data-not-asked"
				}
				r.Violation(sig, fmt.Sprintf("selector %v keeps label set %v of store %s advertising %v range=[%d,%d]; the store was not asked for matchers %v range [%d,%d] but that label set's maximal dataset has a matching series",
					c.Sel.Relabel, lf.lset, st.client.name, st.client.lsets, st.spec.MinT, st.spec.MaxT, pm, c.QMin, c.QMax), c)
				continue
			}
			fwd := "?"
			if req := st.client.lastReq.Load(); req != nil {
				fwd = fmtMatchers(req.Matchers)
			}
			sig := "selected-label-set-with-matching-data-pruned-by-forwarded-external-label-matchers"
			if req := st.client.lastReq.Load(); req != nil && onlyMetaValuesRejected(lf.lset, req.Matchers) {
				// narrower class: the only forwarded matchers that reject this label set's external labels are
				// on labels whose value is not a literal when read as a regular expression
				sig = "selected-label-set-whose-external-label-value-has-regexp-metacharacters-pruned-by-forwarded-matchers"
			}
			r.Violation(sig,
				fmt.Sprintf("selector %v keeps label set %v of store %s (advertising %v); the proxy forwarded matchers %s for query %v and the store behind it pruned that label set on its external labels although its maximal dataset has a matching series",
					c.Sel.Relabel, lf.lset, st.client.name, st.client.lsets, fwd, pm), c)
		}
	}
	if narrowed && pruned > 0 {
		r.Nontrivial(fmt.Sprint(c.M, c.Sel))
	}
	r.Add("sel_cases", 1)
	if full && partial {
		r.Add("sel_cases_with_fully_and_partially_selected_store", 1)
	}
	if narrowed {
		r.Add("sel_cases_with_narrowed_request", 1)
	}
	r.Add("sel_label_sets_judged", judged)
	r.Add("sel_label_sets_reached", reached)
	r.Add("sel_label_sets_pruned", pruned)
	r.Add("sel_label_sets_answered_with_error(not a skip)", errored)
	r.Add("sel_label_sets_dropped_by_selector(not judged)", unselected)
}

// seriesRecover runs ProxyStore.Series and turns a panic of the code under test into an error.
func seriesRecover(p *store.ProxyStore, req *storepb.SeriesRequest, srv storepb.Store_SeriesServer) (err error) {
	defer func() {
		if x := recover(); x != nil {
			err = fmt.Errorf("panic: %v", x)
		}
	}()
	return p.Series(req, srv)
}
