// In-process rig for driving store.ProxyStore.Series: a fake store.Client that records whether it was
// asked, and a collecting Store_SeriesServer. No sleeps, no timers: everything is deterministic.
package c05

import (
	"context"
	"io"
	"sync/atomic"

	"github.com/prometheus/prometheus/model/labels"
	"google.golang.org/grpc"

	"github.com/thanos-io/thanos/pkg/info/infopb"
	"github.com/thanos-io/thanos/pkg/store/storepb"
)

// fakeClient implements store.Client. It advertises label sets and a time range and counts Series calls.
type fakeClient struct {
	name       string
	lsets      []labels.Labels
	mint, maxt int64
	asked      atomic.Int32
}

func (c *fakeClient) LabelSets() []labels.Labels         { return c.lsets }
func (c *fakeClient) TimeRange() (int64, int64)          { return c.mint, c.maxt }
func (c *fakeClient) TSDBInfos() []infopb.TSDBInfo       { return nil }
func (c *fakeClient) SupportsSharding() bool             { return true }
func (c *fakeClient) SupportsWithoutReplicaLabels() bool { return true }
func (c *fakeClient) String() string                     { return c.name }
func (c *fakeClient) Addr() (string, bool)               { return c.name, false }
func (c *fakeClient) Matches([]*labels.Matcher) bool     { return true }

func (c *fakeClient) Series(ctx context.Context, _ *storepb.SeriesRequest, _ ...grpc.CallOption) (storepb.Store_SeriesClient, error) {
	c.asked.Add(1)
	return &emptyStream{ctx: ctx}, nil
}
func (c *fakeClient) LabelNames(context.Context, *storepb.LabelNamesRequest, ...grpc.CallOption) (*storepb.LabelNamesResponse, error) {
	return &storepb.LabelNamesResponse{}, nil
}
func (c *fakeClient) LabelValues(context.Context, *storepb.LabelValuesRequest, ...grpc.CallOption) (*storepb.LabelValuesResponse, error) {
	return &storepb.LabelValuesResponse{}, nil
}

// emptyStream is a Store_SeriesClient that is immediately at EOF.
type emptyStream struct {
	grpc.ClientStream
	ctx context.Context
}

func (s *emptyStream) Recv() (*storepb.SeriesResponse, error) { return nil, io.EOF }
func (s *emptyStream) Context() context.Context               { return s.ctx }
func (s *emptyStream) CloseSend() error                       { return nil }

// collectServer is a Store_SeriesServer that keeps what it is sent.
type collectServer struct {
	grpc.ServerStream
	ctx      context.Context
	series   []*storepb.Series
	warnings []string
}

func (s *collectServer) Context() context.Context { return s.ctx }
func (s *collectServer) Send(r *storepb.SeriesResponse) error {
	switch {
	case r.GetWarning() != "":
		s.warnings = append(s.warnings, r.GetWarning())
	case r.GetSeries() != nil:
		s.series = append(s.series, r.GetSeries())
	case r.GetBatch() != nil:
		s.series = append(s.series, r.GetBatch().Series...)
	}
	return nil
}
