// C05: store pruning never skips a store that holds matching data.
//
// Engine E4. Seam: store.ProxyStore.Series with fake store.Clients that record whether Series was called
// on them. One case = (selector set, query time range); every case is run against the whole family of
// stores (every advertised label-set configuration x every advertised time range) in one proxy call, so
// the full product selectors x query range x label sets x store range is covered.
//
// Oracle (the statement, literally): a store that was NOT asked must hold no series matching all
// selectors with a sample inside the query range. "Holds" is evaluated on the maximal dataset that is
// consistent with the advertisement: every advertised label set extended by every assignment of the
// remaining label names {a,b,c} to a value of {absent, x, y, z}, with a sample at every instant of the
// advertised [mint,maxt]. Soundness on the maximal dataset implies soundness for every real subset.
// The oracle is one-directional: asking a store that holds nothing is never a violation.
package c05

import (
	"context"
	"fmt"
	"iter"
	"math"
	"testing"
	"time"

	"github.com/prometheus/prometheus/model/labels"

	"github.com/thanos-io/thanos/pkg/component"
	"github.com/thanos-io/thanos/pkg/store"
	"github.com/thanos-io/thanos/pkg/store/storepb"

	"verif/vlib"
)

type MatcherSpec struct {
	N string `json:"n"`
	T int    `json:"t"` // storepb.LabelMatcher_Type: 0 EQ, 1 NEQ, 2 RE, 3 NRE
	V string `json:"v"`
}

type Case struct {
	M    []MatcherSpec `json:"m"`
	QMin int64         `json:"qmin"`
	QMax int64         `json:"qmax"`
	// Sel, when set, makes this a case of the selector part (sel_test.go): the proxy runs with a TSDB
	// selector over the listed real stores instead of the recording fakes of the main part.
	Sel *SelSpec `json:"sel,omitempty"`
}

var (
	matcherNames  = []string{"a", "b", "c"} // a,b can be external labels; c never is
	matcherValues = []string{"", "x", "y", "x|y", ".*", ".+"}
	// z stands for "any other non-empty value": together with absent/x/y it realises every truth
	// assignment the matcher alphabet can distinguish.
	innerValues = []string{"", "x", "y", "z"}
	extNames    = []string{"a", "b"}
	extValues   = []string{"", "x", "y"} // "" = name not in the external label set
	// two adjacent interior instants are enough to put each of the two time comparisons exactly at,
	// one below and one above its boundary; thorough adds a third.
	timePointsQuick    = []int64{math.MinInt64, 1, 2, math.MaxInt64}
	timePointsThorough = []int64{math.MinInt64, 1, 2, 3, math.MaxInt64}
)

type trange struct{ lo, hi int64 }

// ranges: every interval lo<=hi over timePoints plus two inverted (empty) ones.
func ranges(timePoints []int64) []trange {
	var out []trange
	for i, lo := range timePoints {
		for _, hi := range timePoints[i:] {
			out = append(out, trange{lo, hi})
		}
	}
	out = append(out, trange{2, 1}, trange{math.MaxInt64, math.MinInt64})
	return out
}

func allMatchers() []MatcherSpec {
	var out []MatcherSpec
	for _, n := range matcherNames {
		for t := 0; t < 4; t++ {
			for _, v := range matcherValues {
				out = append(out, MatcherSpec{n, t, v})
			}
		}
	}
	return out
}

// singleLabelSets: the 9 external label sets over extNames x extValues (including the empty set).
func singleLabelSets() []labels.Labels {
	var out []labels.Labels
	for _, va := range extValues {
		for _, vb := range extValues {
			b := labels.NewScratchBuilder(2)
			if va != "" {
				b.Add(extNames[0], va)
			}
			if vb != "" {
				b.Add(extNames[1], vb)
			}
			b.Sort()
			out = append(out, b.Labels())
		}
	}
	return out
}

// labelSetConfigs: every set of 0..maxSets distinct label sets.
func labelSetConfigs(maxSets int) [][]labels.Labels {
	single := singleLabelSets()
	out := [][]labels.Labels{nil}
	var rec func(start int, acc []labels.Labels)
	rec = func(start int, acc []labels.Labels) {
		if len(acc) > 0 {
			out = append(out, append([]labels.Labels(nil), acc...))
		}
		if len(acc) == maxSets {
			return
		}
		for i := start; i < len(single); i++ {
			rec(i+1, append(acc, single[i]))
		}
	}
	rec(0, nil)
	return out
}

func gen(r *vlib.R, rgs []trange) iter.Seq[Case] {
	ms := allMatchers()
	ordered := r.Thorough()
	return func(yield func(Case) bool) {
		emit := func(m []MatcherSpec) bool {
			for _, q := range rgs {
				if !yield(Case{M: m, QMin: q.lo, QMax: q.hi}) {
					return false
				}
			}
			return true
		}
		for _, m := range ms {
			if !emit([]MatcherSpec{m}) {
				return
			}
		}
		for i := range ms {
			for j := range ms {
				if !ordered && j < i {
					continue
				}
				if !emit([]MatcherSpec{ms[i], ms[j]}) {
					return
				}
			}
		}
	}
}

var promTypes = []labels.MatchType{labels.MatchEqual, labels.MatchNotEqual, labels.MatchRegexp, labels.MatchNotRegexp}

// holds is the reference model: does the maximal dataset of a store advertising (lsets, [smin,smax])
// contain a series matching every matcher with a sample in [qmin,qmax]?
func holds(lsets []labels.Labels, smin, smax int64, ms []*labels.Matcher, qmin, qmax int64) bool {
	lo, hi := smin, smax
	if qmin > lo {
		lo = qmin
	}
	if qmax < hi {
		hi = qmax
	}
	if lo > hi {
		return false // no instant lies in both ranges
	}
	if len(lsets) == 0 {
		lsets = []labels.Labels{labels.EmptyLabels()} // nothing advertised: any series may be there
	}
	for _, ls := range lsets {
		all := true
		for _, name := range matcherNames {
			cands := innerValues
			if ls.Has(name) {
				cands = []string{ls.Get(name)} // external labels are on every series of that set
			}
			found := false
			for _, v := range cands {
				ok := true
				for _, m := range ms {
					if m.Name == name && !m.Matches(v) {
						ok = false
						break
					}
				}
				if ok {
					found = true
					break
				}
			}
			if !found {
				all = false
				break
			}
		}
		if all {
			return true
		}
	}
	return false
}

func TestCheck(t *testing.T) {
	r := vlib.New(t, "C05")
	defer r.Finish()
	cfgs := labelSetConfigs(vlib.Pick(r, 2, 3))
	rgs := ranges(vlib.Pick(r, timePointsQuick, timePointsThorough))
	names := make([]string, len(cfgs)*len(rgs))
	for i := range names {
		names[i] = fmt.Sprintf("st-%d-%d", i/len(rgs), i%len(rgs))
	}
	r.Rule(fmt.Sprintf("cases = selector sets (1..2 matchers over names {a,b,c} x {=,!=,=~,!~} x values {\"\",x,y,x|y,.*,.+}; unordered pairs quick, ordered pairs thorough) "+
		"x %d query ranges (all intervals over {MinInt64,1,2[,3 thorough],MaxInt64} + 2 inverted); each case is evaluated against %d stores = %d label-set configurations "+
		"(0..%d label sets over {a,b}x{x,y}, incl. the empty set) x %d advertised ranges; non-trivial = distinct case in which at least one store was skipped that store.LabelSetsMatch rejects "+
		"(pruned on external labels) || selector part: %d TSDB-selector relabel configurations (keep/drop rules on a, on a and b, two rules, the empty non-nil configuration) x every set of 1..2 stores "+
		"advertising 1..%d label sets each and at most %d together (same label-set alphabet, plus one value containing the regexp separator: a=\"x|y\") x %d queries (matchers on a,b each with c!=\"\"; thorough adds pairs); "+
		"stores are real TSDBStores (one label set) or real nested ProxyStores over TSDBStores; non-trivial = distinct case in which the forwarded request carried added external-label matchers and a selector-kept label set was pruned behind the proxy",
		len(rgs), len(cfgs)*len(rgs), len(cfgs), vlib.Pick(r, 2, 3), len(rgs), len(selectorConfigs()), vlib.Pick(r, 2, 3), vlib.Pick(r, 3, 4), len(selQueries(r))))
	r.Assume("a store 'holds' at most the maximal dataset consistent with its advertisement: every series carries all labels of one advertised label set (any series if none is advertised) and all samples lie in the advertised [mint,maxt] (both ends inclusive)",
		"proxy selector labels, the store-debug-matcher context value and Client.Matches filters are configuration-driven exclusions, not pruning by advertisement; they are left at their defaults (empty / none / true). Main part: TSDBSelector at its no-op default",
		"selector part: label sets dropped by the TSDB selector are excluded by configuration and not judged; a label set it keeps (reference: keep/drop relabel semantics written out in the check) is selected data. The TSDB below each real TSDBStore is a stub recording that, and with which matchers, it was queried; an explicit error answer is not a skip",
		"selector part, series level: a store's own series carry no label whose name is an external label of another store (the premise of the selector's added matchers); only such series are required to pass the forwarded matchers",
		"fake clients model LabelSets()/TimeRange() verbatim; transformations done by pkg/query endpointRef before the proxy sees them are out of scope")

	main := gen(r, rgs)
	sel := selGen(r, cfgs, vlib.Pick(r, 3, 4))
	both := func(yield func(Case) bool) {
		// the selector part is the smaller one: it goes first so that a slow machine cuts the larger part
		for c := range sel {
			if !yield(c) {
				return
			}
		}
		for c := range main {
			if !yield(c) {
				return
			}
		}
	}
	vlib.ForEach(r, both, func(c Case) {
		r.Sample(c)
		var pm []*labels.Matcher
		var sm []storepb.LabelMatcher
		for _, m := range c.M {
			if m.T < 0 || m.T > 3 {
				panic(fmt.Sprintf("HARNESS-ERROR bad matcher type %d", m.T))
			}
			pm = append(pm, labels.MustNewMatcher(promTypes[m.T], m.N, m.V))
			sm = append(sm, storepb.LabelMatcher{Type: storepb.LabelMatcher_Type(m.T), Name: m.N, Value: m.V})
		}
		if c.Sel != nil {
			evalSel(r, c, pm, sm)
			return
		}
		fakes := make([]*fakeClient, 0, len(cfgs)*len(rgs))
		clients := make([]store.Client, 0, len(cfgs)*len(rgs))
		for ci, cfg := range cfgs {
			for ri, rg := range rgs {
				f := &fakeClient{name: names[ci*len(rgs)+ri], lsets: cfg, mint: rg.lo, maxt: rg.hi}
				fakes = append(fakes, f)
				clients = append(clients, f)
			}
		}
		p := store.NewProxyStore(nil, nil, func() []store.Client { return clients }, component.Query, labels.EmptyLabels(), 0*time.Second, store.EagerRetrieval)
		srv := &collectServer{ctx: context.Background()}
		err := seriesRecover(p, &storepb.SeriesRequest{MinTime: c.QMin, MaxTime: c.QMax, Matchers: sm}, srv)
		if err != nil {
			// every enumerated request is well-formed: the proxy must evaluate it.
			r.Violation("valid-request-rejected", fmt.Sprintf("Series returned %v", err), c)
			return
		}
		var skipTime, skipLabels, asked, askedEmpty int64
		for _, f := range fakes {
			h := holds(f.lsets, f.mint, f.maxt, pm, c.QMin, c.QMax)
			if f.asked.Load() > 0 {
				asked++
				if !h {
					askedEmpty++
				}
				continue
			}
			// Which test pruned it is only needed for statistics and for the violation signature:
			// the exported label test says whether the external labels could have been the reason.
			byLabels := !store.LabelSetsMatch(pm, f.lsets...)
			if byLabels {
				skipLabels++
			} else {
				skipTime++
			}
			if h {
				sig := "store-with-matching-data-skipped-on-external-labels"
				if !byLabels {
					sig = "store-with-matching-data-skipped-on-time-range"
				}
				r.Violation(sig, fmt.Sprintf("store %s advertising labelsets=%v range=[%d,%d] was not asked for matchers %v range [%d,%d] but its maximal dataset has a matching series",
					f.name, f.lsets, f.mint, f.maxt, pm, c.QMin, c.QMax), c)
			}
		}
		if skipLabels > 0 {
			r.Nontrivial(fmt.Sprint(c))
		}
		r.Add("store_decisions", int64(len(fakes)))
		r.Add("skipped_time_range", skipTime)
		r.Add("skipped_external_labels", skipLabels)
		r.Add("asked", asked)
		r.Add("asked_although_empty(precision, not a violation)", askedEmpty)
	})
}
