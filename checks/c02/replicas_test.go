// Shared helper (copied from c01): builds the *production* replica iterators the querier
// hands to dedup.NewSeriesSet, i.e. query.NewPromSeriesSet over storepb XOR chunks (one series entry
// per replica, equal label sets because replica labels are already removed at that point).
package c02

import (
	"math"

	"github.com/prometheus/prometheus/model/labels"
	"github.com/prometheus/prometheus/storage"
	"github.com/prometheus/prometheus/tsdb/chunkenc"

	"github.com/thanos-io/thanos/pkg/dedup"
	"github.com/thanos-io/thanos/pkg/query"
	"github.com/thanos-io/thanos/pkg/store/storepb"
)

type sample struct {
	T int64
	V float64
}

// replicaChunk encodes one replica as one raw XOR AggrChunk (zero samples give a zero-sample chunk).
func replicaChunk(ss []sample) storepb.AggrChunk {
	c := chunkenc.NewXORChunk()
	app, err := c.Appender()
	if err != nil {
		panic(err)
	}
	for _, s := range ss {
		app.Append(s.T, s.V)
	}
	ac := storepb.AggrChunk{Raw: &storepb.Chunk{Type: storepb.Chunk_XOR, Data: c.Bytes()}}
	if len(ss) > 0 {
		ac.MinTime, ac.MaxTime = ss[0].T, ss[len(ss)-1].T
	}
	return ac
}

// pbSet is a storepb.SeriesSet with one entry per replica, all under the same label set.
type pbSet struct {
	lset labels.Labels
	chks []storepb.AggrChunk
	i    int
}

func (s *pbSet) Next() bool { s.i++; return s.i <= len(s.chks) }
func (s *pbSet) At() (labels.Labels, []storepb.AggrChunk) {
	return s.lset, []storepb.AggrChunk{s.chks[s.i-1]}
}
func (s *pbSet) Err() error { return nil }

var seriesLset = labels.FromStrings("__name__", "m", "job", "j")

// aggrsFor mirrors query.aggrsFromFunc for the functions used here (raw chunks are served for all of them).
func aggrsFor(f string) []storepb.Aggr {
	switch f {
	case "max_over_time":
		return []storepb.Aggr{storepb.Aggr_MAX}
	case "rate", "irate", "increase", "resets":
		return []storepb.Aggr{storepb.Aggr_COUNTER}
	}
	return []storepb.Aggr{storepb.Aggr_COUNT, storepb.Aggr_SUM}
}

// newDedupIterator runs the real seam: promSeriesSet -> dedup.NewSeriesSet(penalty) -> the single series' iterator.
// ok=false when the set does not yield exactly one series.
func newDedupIterator(chks []storepb.AggrChunk, f string) (chunkenc.Iterator, storage.SeriesSet, bool) {
	in := query.NewPromSeriesSet(&pbSet{lset: seriesLset, chks: chks}, math.MinInt64, math.MaxInt64, aggrsFor(f), nil)
	set := dedup.NewSeriesSet(in, f, dedup.AlgorithmPenalty)
	if !set.Next() {
		return nil, set, false
	}
	return set.At().Iterator(nil), set, true
}

// drain reads the iterator with Next only.
func drain(it chunkenc.Iterator, limit int) (out []sample, badType bool) {
	for len(out) <= limit {
		vt := it.Next()
		if vt == chunkenc.ValNone {
			return out, badType
		}
		if vt != chunkenc.ValFloat {
			badType = true
		}
		t, v := it.At()
		out = append(out, sample{t, v})
	}
	return out, badType
}
