// C02: counter deduplication never fabricates counter resets.
// Engine E4: every ordered tuple of R monotone replicas (subset of a time grid x phase x start value x
// per-sample increments x value scale), merged by the real dedup.NewSeriesSet(.., f, "penalty") with a counter
// function hint over the production replica iterators; the Next-only output values must never decrease.
package c02

import (
	"encoding/json"
	"fmt"
	"iter"
	"math"
	"testing"

	"github.com/thanos-io/thanos/pkg/store/storepb"

	"verif/vlib"
)

type Rep struct {
	Mask  uint64 `json:"mask"`  // bit i: sample at grid point i
	Phase int64  `json:"phase"` // ms added to every timestamp (scrape offset)
	Start int    `json:"start"` // first value (before scaling)
	Incs  []int  `json:"incs"`  // increment (>= 0) before each further sample
}

type Case struct {
	Step  int64  `json:"step"`
	G     int    `json:"g"`
	Pos   []int  `json:"pos,omitempty"` // grid point i is at Pos[i] steps (default i): sparse grids allow repeated switching
	Reps  []Rep  `json:"reps"`
	Tenth bool   `json:"tenth"` // all values multiplied by 0.1 (fractional counters, e.g. *_seconds_total)
	F     string `json:"f"`
}

const base = int64(100000)

func (c Case) samples() [][]sample {
	out := make([][]sample, len(c.Reps))
	for r, rp := range c.Reps {
		v, k := rp.Start, 0
		for i := 0; i < c.G; i++ {
			if rp.Mask&(1<<uint(i)) == 0 {
				continue
			}
			if k > 0 {
				v += rp.Incs[k-1]
			}
			k++
			fv := float64(v)
			if c.Tenth {
				fv *= 0.1 // monotone: x <= y implies fl(0.1x) <= fl(0.1y)
			}
			p := i
			if c.Pos != nil {
				p = c.Pos[i]
			}
			out[r] = append(out[r], sample{base + int64(p)*c.Step + rp.Phase, fv})
		}
	}
	return out
}

// shape = one sub-space: R replicas on a G-point grid with its own alphabets.
type shape struct {
	r, g   int
	starts []int
	incs   []int
	phases int // how many of the phase alphabet {0, step/2, 1, step/2+1}
	fs     []string
	pos    []int // nil: regular grid 0..g-1
	maxK   int   // max samples per replica (0: no limit)
}

func phaseAlphabet(step int64, n int) []int64 {
	return []int64{0, step / 2, 1, step/2 + 1}[:n]
}

// replicaOptions lists every replica over the shape's alphabets (mask, increments, start, phase).
func replicaOptions(sh shape, step int64) []Rep {
	var out []Rep
	for m := range vlib.Subsets(sh.g) {
		k := len(vlib.Bits(m))
		if sh.maxK > 0 && k > sh.maxK {
			continue
		}
		starts := sh.starts
		nInc := k - 1
		if k == 0 {
			starts, nInc = []int{0}, 0
		}
		for inc := range vlib.Tuples(nInc, len(sh.incs)) {
			incs := make([]int, len(inc))
			for i, x := range inc {
				incs[i] = sh.incs[x]
			}
			for _, st := range starts {
				for _, ph := range phaseAlphabet(step, sh.phases) {
					out = append(out, Rep{Mask: m, Phase: ph, Start: st, Incs: incs})
				}
			}
		}
	}
	return out
}

func gen(r *vlib.R) iter.Seq[Case] {
	all := []string{"rate", "irate", "increase", "resets"}
	rate := all[:1]
	// sparse grid: a=[0,4] b=[1,17] switches a -> b -> a -> b, so that a replica is adjusted more than once
	sparse := []int{0, 1, 4, 5, 16, 17}
	quick := []shape{
		{r: 2, g: 3, starts: []int{0, 7, 100}, incs: []int{0, 1, 5}, phases: 3, fs: all},
		{r: 2, g: 4, starts: []int{0, 7, 100}, incs: []int{0, 1, 5}, phases: 2, fs: rate},
		{r: 2, g: 5, starts: []int{0, 100}, incs: []int{5}, phases: 3, fs: rate}, // long enough for a -> b -> a
		{r: 2, g: 6, starts: []int{0, 100}, incs: []int{0, 5}, phases: 1, fs: rate, pos: sparse, maxK: 3},
		{r: 3, g: 3, starts: []int{0, 100}, incs: []int{0, 5}, phases: 2, fs: rate},
	}
	thorough := []shape{
		{r: 2, g: 3, starts: []int{0, 7, 100}, incs: []int{0, 1, 5}, phases: 4, fs: all},
		{r: 2, g: 5, starts: []int{0, 100}, incs: []int{0, 1, 5}, phases: 3, fs: rate},
		{r: 2, g: 6, starts: []int{0, 100}, incs: []int{0, 5}, phases: 2, fs: rate, pos: sparse},
		{r: 3, g: 3, starts: []int{0, 7, 100}, incs: []int{0, 1, 5}, phases: 2, fs: rate},
		{r: 3, g: 5, starts: []int{0, 100}, incs: []int{5}, phases: 1, fs: rate},
		{r: 3, g: 6, starts: []int{0, 100}, incs: []int{0, 5}, phases: 1, fs: rate, pos: sparse, maxK: 2},
		{r: 4, g: 2, starts: []int{0, 100}, incs: []int{0, 1, 5}, phases: 2, fs: rate},
	}
	return func(yield func(Case) bool) {
		for _, sh := range vlib.Pick(r, quick, thorough) {
			for _, step := range []int64{1000, 10000} {
				opts := replicaOptions(sh, step)
				for tup := range vlib.Tuples(sh.r, len(opts)) {
					reps := make([]Rep, sh.r)
					for i, x := range tup {
						reps[i] = opts[x]
					}
					for _, f := range sh.fs {
						for _, tenth := range []bool{false, true} {
							if !yield(Case{Step: step, G: sh.g, Pos: sh.pos, Reps: reps, Tenth: tenth, F: f}) {
								return
							}
						}
					}
				}
			}
		}
	}
}

func TestCheck(t *testing.T) {
	r := vlib.New(t, "C02")
	defer r.Finish()
	r.Rule("every ordered tuple of R monotone replicas: subset of a G-point grid x phase {0,step/2,+1ms[,step/2+1]} x start {0,7,100} x per-sample increments {0,1,5} " +
		"x step {1s,10s} x value scale {1, 0.1}; q: (R,G)=(2,3) for rate/irate/increase/resets, (2,4 two phases), (2,5 reduced alphabet), (3,3 reduced), " +
		"(2, sparse grid {0,1,4,5,16,17} with <=3 samples, reduced alphabet: reaches a->b->a->b) for rate; " +
		"t: (2,3) all f, (2,5), (2,sparse full), (3,3), (3,5 reduced), (3,sparse <=2 samples), (4,2) for rate; read Next-only; " +
		"non-trivial = distinct integer-valued cases whose output contains a value no replica holds at that timestamp (an adjustment after a replica switch was applied)")
	r.Assume("replica iterators are the production ones for counter hints (bounded(ApplyCounterResets(raw XOR chunk)), unbounded mint/maxt); " +
		"only the Next-only reader is judged; float samples only, no stale markers")
	vlib.ForEach(r, gen(r), func(c Case) { evalCase(r, c) })
}

func evalCase(r *vlib.R, c Case) {
	reps := c.samples()
	chks := make([]storepb.AggrChunk, len(reps))
	held := map[sample]bool{}
	total := 0
	for i, ss := range reps {
		for j := 1; j < len(ss); j++ {
			if ss[j].V < ss[j-1].V {
				panic("harness: replica not monotone")
			}
		}
		chks[i] = replicaChunk(ss)
		total += len(ss)
		for _, s := range ss {
			held[s] = true
		}
	}
	r.Sample(c)
	it, set, ok := newDedupIterator(chks, c.F)
	if !ok {
		r.Violation("no-series-returned", fmt.Sprintf("dedup set yielded no series (err %v)", set.Err()), c)
		return
	}
	out, _ := drain(it, total)
	if err := it.Err(); err != nil {
		r.Violation("iterator-error", err.Error(), c)
		return
	}
	adjusted := false
	for i, s := range out {
		if !held[s] {
			adjusted = true
		}
		if i == 0 {
			continue
		}
		if s.T <= out[i-1].T {
			r.Note("timestamps not increasing (not judged here, see C01): %v", out)
		}
		if !(s.V >= out[i-1].V) {
			sig := "counter-decreases"
			if d := out[i-1].V - s.V; d <= 1e-9*math.Abs(out[i-1].V) {
				// narrow class: the value after an adjustment is below the previous one by floating point rounding only
				sig = "counter-decreases-by-float-rounding-of-adjustment"
			}
			r.Violation(sig, fmt.Sprintf("output %v: value %v at t=%d after %v at t=%d (drop %g); replicas %v", out, s.V, s.T, out[i-1].V, out[i-1].T, out[i-1].V-s.V, reps), c)
			break
		}
	}
	if adjusted && !c.Tenth {
		b, _ := json.Marshal(c)
		r.Nontrivial(string(b))
	}
}
