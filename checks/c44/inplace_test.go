// In-place rewrite family (round 3): label_replace / label_join whose DESTINATION label is also one of the labels the
// call reads. Such a call changes the value of a label the stored series already carry, so a grouping on that label
// groups by the rewritten value while a shard matcher can only hash the stored one. The rewrites are non-injective
// on the data (first character, constant, removal, separator-less concatenation), i.e. series with different stored
// values end in one output group. Same oracle as everything else: merged sharded answer == unsharded answer.
package c44

import (
	"context"
	"strings"
	"sync"
	"time"

	"github.com/prometheus/prometheus/model/labels"
	"github.com/prometheus/prometheus/promql"
	"github.com/prometheus/prometheus/promql/parser"

	"github.com/thanos-io/thanos/pkg/store/storepb"

	"verif/vlib"
)

// rewrite = one label function call that writes to a label it also reads.
type rewrite struct {
	name string
	dst  string
	call func(x string) string
}

var rewrites = []rewrite{
	{"replace-first-char-b", "b", func(x string) string { return `label_replace(` + x + `, "b", "$1", "b", "(.).*")` }},
	{"replace-first-char-a", "a", func(x string) string { return `label_replace(` + x + `, "a", "$1", "a", "(.).*")` }},
	{"replace-constant-b", "b", func(x string) string { return `label_replace(` + x + `, "b", "k", "b", ".*")` }},
	{"replace-remove-b", "b", func(x string) string { return `label_replace(` + x + `, "b", "", "b", ".*")` }},
	{"replace-first-char-b-parenthesised-args", "b", func(x string) string { return `label_replace(` + x + `, ("b"), "$1", ("b"), "(.).*")` }},
	{"replace-name", "__name__", func(x string) string { return `label_replace(` + x + `, "__name__", "k", "__name__", ".*")` }},
	{"join-dst-first-source", "a", func(x string) string { return `label_join(` + x + `, "a", "", "a", "b")` }},
	{"join-dst-last-source", "b", func(x string) string { return `label_join(` + x + `, "b", "", "a", "b")` }},
	{"join-dst-first-source-separator", "a", func(x string) string { return `label_join(` + x + `, "a", "-", "a", "b")` }}, // injective
	{"join-dst-only-source", "b", func(x string) string { return `label_join(` + x + `, "b", "", "b")` }},                 // identity
}

const multiSel = `{__name__=~"m|n"}`

// inplacePrograms: aggregations (by / without the rewritten label, the other label, the metric name) over the
// rewrites, aggregation over aggregation, binary operations matching on the rewritten label. Programs that the
// first-round grammar already contains are left out.
func inplacePrograms(old []string) []string {
	seen := map[string]bool{}
	for _, q := range old {
		seen[q] = true
	}
	var out []string
	add := func(q string) {
		if !seen[q] {
			if _, err := parser.ParseExpr(q); err == nil {
				seen[q] = true
				out = append(out, q)
			}
		}
	}
	groupings := []string{"", "by (a)", "by (b)", "by (a, b)", "by (a, c)", "without (a)", "without (b)", "without (a, b)", "without (c)", "by (__name__, b)", "by (__name__, a)"}
	for _, rw := range rewrites {
		for _, x := range []string{"m", multiSel} {
			e := rw.call(x)
			for _, g := range groupings {
				for _, op := range []string{"sum", "topk", "count_values"} {
					add(agg(op, g, e))
				}
			}
		}
		// aggregation over aggregation
		for _, inner := range []string{"by (a, b)", "without (a)", "without (c)"} {
			z := agg("sum", inner, rw.call("m"))
			for _, g := range groupings {
				add(agg("max", g, z))
			}
		}
		// binary operations: the rewritten label is (not) a matching label
		for _, rhs := range []string{"n", rw.call("n")} {
			for _, m := range []string{"", "on (a)", "on (b)", "on (a, b)", "ignoring (a)", "ignoring (b)", "on (b) group_left", "ignoring (a) group_left"} {
				for _, op := range []string{"+", "or", "unless"} {
					sp := " "
					if m != "" {
						sp = " " + m + " "
					}
					add(rw.call("m") + " " + op + sp + rhs)
				}
			}
		}
	}
	return out
}

var inPlaceCache sync.Map // query -> bool

// inPlaceRewrite reports whether the program contains a label_replace / label_join call whose destination label is
// one of its source labels.
func inPlaceRewrite(q string) bool {
	if !strings.Contains(q, "label_replace") && !strings.Contains(q, "label_join") {
		return false
	}
	if v, ok := inPlaceCache.Load(q); ok {
		return v.(bool)
	}
	found := false
	if expr, err := parser.ParseExpr(q); err == nil {
		str := func(e parser.Expr) (string, bool) {
			for {
				switch v := e.(type) {
				case *parser.ParenExpr:
					e = v.Expr
				case *parser.StepInvariantExpr:
					e = v.Expr
				case *parser.StringLiteral:
					return v.Val, true
				default:
					return "", false
				}
			}
		}
		parser.Inspect(expr, func(n parser.Node, _ []parser.Node) error {
			c, ok := n.(*parser.Call)
			if !ok || c.Func == nil || len(c.Args) < 4 {
				return nil
			}
			var src []parser.Expr
			switch c.Func.Name {
			case "label_replace":
				src = c.Args[3:4]
			case "label_join":
				src = c.Args[3:]
			default:
				return nil
			}
			dst, _ := str(c.Args[1])
			for _, a := range src {
				if s, ok := str(a); ok && s == dst {
					found = true
				}
			}
			return nil
		})
	}
	inPlaceCache.Store(q, found)
	return found
}

// collisionStats measures that the family is not vacuous, independently of the analyzer: for every rewrite, series
// set and shard count it looks for two stored series with DIFFERENT stored values of the destination label, the
// SAME rewritten value, and different shards when the stored series are hashed by the destination label alone.
// (Rewritten values are computed by the Prometheus engine, one series at a time.)
func collisionStats(r *vlib.R, shardCounts []int) {
	total, colliding := 0, 0
	perRewrite := map[string]int{}
	for _, rw := range rewrites {
		for _, set := range seriesSets {
			newVal := make([]string, len(set))
			have := make([]bool, len(set))
			for i, l := range set {
				if n := l.Get("__name__"); n != "m" && n != "n" {
					continue
				}
				qry, err := engine.NewInstantQuery(context.Background(), memQueryable{set: []labels.Labels{l}}, nil, rw.call(multiSel), time.UnixMilli(t0+2*step))
				if err != nil {
					panic("HARNESS-ERROR " + err.Error())
				}
				res := qry.Exec(context.Background())
				if v, ok := res.Value.(promql.Vector); ok && res.Err == nil && len(v) == 1 {
					newVal[i], have[i] = v[0].Metric.Get(rw.dst), true
				}
				qry.Close()
			}
			for _, n := range shardCounts {
				total++
				shardOf := make([]int, len(set))
				for i, l := range set {
					for s := 0; s < n; s++ {
						m := (&storepb.ShardInfo{TotalShards: int64(n), ShardIndex: int64(s), By: true, Labels: []string{rw.dst}}).Matcher(&bufPool)
						if m.MatchesLabels(l) {
							shardOf[i] = s
						}
						m.Close()
					}
				}
				hit := false
				for i := range set {
					for j := i + 1; j < len(set) && !hit; j++ {
						if have[i] && have[j] && newVal[i] == newVal[j] && set[i].Get(rw.dst) != set[j].Get(rw.dst) && shardOf[i] != shardOf[j] {
							hit = true
						}
					}
				}
				if hit {
					colliding++
					perRewrite[rw.name]++
				}
			}
		}
	}
	r.Set("inplace_rewrite_x_set_x_shards", total)
	r.Set("inplace_rewrite_x_set_x_shards_colliding_across_shards", colliding)
	r.Set("inplace_colliding_per_rewrite", perRewrite)
}
