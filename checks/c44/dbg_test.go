package c44

import (
	"fmt"
	"testing"

	"github.com/thanos-io/thanos/pkg/queryfrontend"
)

func TestDbg(t *testing.T) {
	d := downstream{set: seriesSets[0]}
	p, _ := queryfrontend.VerifC44Tripperware(0, d)
	s, _ := queryfrontend.VerifC44Tripperware(2, d)
	for _, q := range []string{"sum by (a) (m)", `sum without (a) ({__name__=~"m|n"})`} {
		for _, inst := range []bool{false, true} {
			c := Case{Query: q, Set: 0, Shards: 2, Instant: inst}
			fmt.Printf("%v\n plain   %+v\n sharded %+v\n", c, ask(p, c), ask(s, c))
		}
	}
}
