// C44: sharded query execution returns the unsharded result.
// Engine E4 over programs: every PromQL program of a small grammar x series sets x shard counts goes through
// the real frontend tripperware with vertical sharding (real analyzer, real querySharder, real codecs incl.
// MergeResponse). The downstream is a harness that evaluates each (sub-)request with Prometheus' promql.Engine over
// an in-memory storage filtered by the request's storepb.ShardInfo.Matcher(...).MatchesLabels - what every store
// does with the shard info. Oracle: for every program the analyzer calls shardable, the answer equals the answer of
// the same tripperware without the sharding middleware; every series is in exactly one shard; series that agree on
// the sharding labels are in the same shard.
package c44

import (
	"context"
	"encoding/json"
	"fmt"
	"io"
	"iter"
	"math"
	"net/http"
	"net/url"
	"sort"
	"strconv"
	"strings"
	"sync"
	"testing"
	"time"

	"github.com/prometheus/prometheus/model/histogram"
	"github.com/prometheus/prometheus/model/labels"
	"github.com/prometheus/prometheus/promql"
	"github.com/prometheus/prometheus/promql/parser"
	"github.com/prometheus/prometheus/storage"
	"github.com/prometheus/prometheus/tsdb/chunkenc"
	"github.com/prometheus/prometheus/tsdb/chunks"
	"github.com/prometheus/prometheus/util/annotations"
	"github.com/weaveworks/common/user"

	"github.com/thanos-io/thanos/pkg/queryfrontend"
	"github.com/thanos-io/thanos/pkg/querysharding"
	"github.com/thanos-io/thanos/pkg/store/storepb"

	"verif/vlib"
)

type Case struct {
	Query   string `json:"query"`
	Set     int    `json:"set"`     // series set
	Shards  int    `json:"shards"`  // --query-frontend.vertical-shards
	Instant bool   `json:"instant"` // /api/v1/query instead of /api/v1/query_range
}

// ---- data ----------------------------------------------------------------------------------------------

const (
	t0   = int64(1700000040000) // multiple of 60s
	step = int64(60000)
)

func ls(kv ...string) labels.Labels { return labels.FromStrings(kv...) }

// seriesSets: small, asymmetric (labels missing on some series, an extra label, a pre-existing "c" that
// label_replace/label_join overwrite, two metric names with equal label sets, histogram buckets).
var seriesSets = [][]labels.Labels{
	{ // 0: full grid
		ls("__name__", "m", "a", "1", "b", "1"), ls("__name__", "m", "a", "1", "b", "2"), ls("__name__", "m", "a", "2", "b", "1"), ls("__name__", "m", "a", "2", "b", "2"),
		ls("__name__", "n", "a", "1", "b", "1"), ls("__name__", "n", "a", "1", "b", "2"), ls("__name__", "n", "a", "2", "b", "1"), ls("__name__", "n", "a", "2", "b", "2"),
		ls("__name__", "h_bucket", "a", "1", "b", "1", "le", "1"), ls("__name__", "h_bucket", "a", "1", "b", "1", "le", "+Inf"),
		ls("__name__", "h_bucket", "a", "2", "b", "1", "le", "1"), ls("__name__", "h_bucket", "a", "2", "b", "1", "le", "+Inf"),
	},
	{ // 1: holes and extras
		ls("__name__", "m", "a", "1", "b", "1"), ls("__name__", "m", "a", "1", "b", "2"), ls("__name__", "m", "a", "2"), ls("__name__", "m", "b", "3"),
		ls("__name__", "n", "a", "1", "b", "1"), ls("__name__", "n", "b", "2"), ls("__name__", "n", "a", "2", "b", "2", "c", "z"), ls("__name__", "n", "a", "3", "b", "3"),
		ls("__name__", "h_bucket", "a", "1", "le", "1"), ls("__name__", "h_bucket", "a", "1", "le", "+Inf"),
		ls("__name__", "h_bucket", "a", "2", "b", "2", "le", "1"), ls("__name__", "h_bucket", "a", "2", "b", "2", "le", "2"), ls("__name__", "h_bucket", "a", "2", "b", "2", "le", "+Inf"),
	},
	{ // 2: more values (spreads over 5 shards), series that differ only in the label label_replace writes
		ls("__name__", "m", "a", "1", "b", "1", "c", "x"), ls("__name__", "m", "a", "1", "b", "1", "c", "y"), ls("__name__", "m", "a", "2", "b", "1"), ls("__name__", "m", "a", "3", "b", "2"),
		ls("__name__", "m", "a", "4", "b", "2"), ls("__name__", "m", "a", "5", "b", "3"), ls("__name__", "m", "a", "6", "b", "3"),
		ls("__name__", "n", "a", "1", "b", "1"), ls("__name__", "n", "a", "2", "b", "1"), ls("__name__", "n", "a", "3", "b", "2"), ls("__name__", "n", "a", "4", "b", "9"), ls("__name__", "n", "a", "7", "b", "3"),
		ls("__name__", "h_bucket", "a", "1", "b", "1", "le", "0.5"), ls("__name__", "h_bucket", "a", "1", "b", "1", "le", "+Inf"),
		ls("__name__", "h_bucket", "a", "1", "b", "2", "le", "0.5"), ls("__name__", "h_bucket", "a", "1", "b", "2", "le", "+Inf"),
	},
	{ // 3: multi-character values for the in-place rewrite family (inplace_test.go): several stored values share a first
		// character, (a=1,b=12) and (a=11,b=2) concatenate to the same string, one series has no b. Only that family runs on it.
		ls("__name__", "m", "a", "1", "b", "12"), ls("__name__", "m", "a", "11", "b", "2"), ls("__name__", "m", "a", "1", "b", "13"), ls("__name__", "m", "a", "12", "b", "13"),
		ls("__name__", "m", "a", "2", "b", "21"), ls("__name__", "m", "a", "21", "b", "1"), ls("__name__", "m", "a", "22", "b", "22"), ls("__name__", "m", "a", "3", "b", "1"),
		ls("__name__", "n", "a", "1", "b", "12"), ls("__name__", "n", "a", "11", "b", "2"), ls("__name__", "n", "a", "13", "b", "10"), ls("__name__", "n", "a", "2", "b", "20"),
		ls("__name__", "n", "a", "20", "b", "3"), ls("__name__", "n", "a", "1"),
	},
}

// oldSets: the series sets the first-round programs run on (set 3 only serves the in-place family).
const oldSets = 3

// value of series i at sample k: 2^i + k, so every subset of series has a different sum.
func val(i, k int) float64 { return math.Pow(2, float64(i)) + float64(k) }

type memQueryable struct {
	set   []labels.Labels
	shard *storepb.ShardInfo
}

var bufPool = sync.Pool{New: func() any { b := make([]byte, 0, 128); return &b }}

func (q memQueryable) Querier(_, _ int64) (storage.Querier, error) { return memQuerier(q), nil }

type memQuerier memQueryable

func (q memQuerier) Select(_ context.Context, _ bool, _ *storage.SelectHints, ms ...*labels.Matcher) storage.SeriesSet {
	sm := q.shard.Matcher(&bufPool)
	defer sm.Close()
	var out []storage.Series
	for i, l := range q.set {
		ok := true
		for _, m := range ms {
			if !m.Matches(l.Get(m.Name)) {
				ok = false
				break
			}
		}
		if !ok || !sm.MatchesLabels(l) {
			continue
		}
		var smp []chunks.Sample
		for k := 0; k < 6; k++ {
			smp = append(smp, fsample{t0 + int64(k)*step, val(i, k)})
		}
		out = append(out, storage.NewListSeries(l, smp))
	}
	sort.Slice(out, func(i, j int) bool { return labels.Compare(out[i].Labels(), out[j].Labels()) < 0 })
	return &sliceSet{s: out, i: -1}
}
func (memQuerier) LabelValues(context.Context, string, *storage.LabelHints, ...*labels.Matcher) ([]string, annotations.Annotations, error) {
	return nil, nil, nil
}
func (memQuerier) LabelNames(context.Context, *storage.LabelHints, ...*labels.Matcher) ([]string, annotations.Annotations, error) {
	return nil, nil, nil
}
func (memQuerier) Close() error { return nil }

type fsample struct {
	t int64
	f float64
}

func (s fsample) T() int64                      { return s.t }
func (s fsample) F() float64                    { return s.f }
func (s fsample) H() *histogram.Histogram       { return nil }
func (s fsample) FH() *histogram.FloatHistogram { return nil }
func (s fsample) Type() chunkenc.ValueType      { return chunkenc.ValFloat }
func (s fsample) Copy() chunks.Sample           { return s }

type sliceSet struct {
	s []storage.Series
	i int
}

func (s *sliceSet) Next() bool                        { s.i++; return s.i < len(s.s) }
func (s *sliceSet) At() storage.Series                { return s.s[s.i] }
func (s *sliceSet) Err() error                        { return nil }
func (s *sliceSet) Warnings() annotations.Annotations { return nil }

var engine = promql.NewEngine(promql.EngineOpts{MaxSamples: 10000000, Timeout: time.Minute, LookbackDelta: 5 * time.Minute, EnableAtModifier: true, EnableNegativeOffset: true})

// downstream = a querier: evaluates the request with the Prometheus engine over the shard's series.
type downstream struct{ set []labels.Labels }

func fmtVal(v float64) string {
	switch {
	case math.IsNaN(v):
		return "NaN"
	case math.IsInf(v, 1):
		return "+Inf"
	case math.IsInf(v, -1):
		return "-Inf"
	}
	return strconv.FormatFloat(v, 'f', -1, 64)
}

func metricJSON(l labels.Labels) string {
	m := map[string]string{}
	l.Range(func(x labels.Label) { m[x.Name] = x.Value })
	b, _ := json.Marshal(m)
	return string(b)
}

func (d downstream) RoundTrip(r *http.Request) (resp *http.Response, err error) {
	if err := r.ParseForm(); err != nil {
		return nil, err
	}
	reply := func(code int, body string) (*http.Response, error) {
		return &http.Response{StatusCode: code, Header: http.Header{"Content-Type": {"application/json"}}, Body: io.NopCloser(strings.NewReader(body)), Request: r}, nil
	}
	defer func() { // this runs on goroutines of the tripperware: a panic of the shard matcher must not kill the process
		if p := recover(); p != nil {
			resp, err = reply(422, fmt.Sprintf(`{"status":"error","errorType":"execution","error":%q}`, fmt.Sprint("panic while evaluating the shard: ", p)))
		}
	}()
	var shard *storepb.ShardInfo
	if s := r.Form.Get("shard_info"); s != "" {
		shard = &storepb.ShardInfo{}
		if err := json.Unmarshal([]byte(s), shard); err != nil {
			return reply(400, `{"status":"error","errorType":"bad_data","error":"shard_info"}`)
		}
	}
	ms := func(k string) int64 {
		f, _ := strconv.ParseFloat(r.Form.Get(k), 64)
		return int64(math.Round(f * 1000))
	}
	q := memQueryable{set: d.set, shard: shard}
	var qry promql.Query
	instant := strings.HasSuffix(r.URL.Path, "/query")
	if instant {
		qry, err = engine.NewInstantQuery(r.Context(), q, nil, r.Form.Get("query"), time.UnixMilli(ms("time")))
	} else {
		qry, err = engine.NewRangeQuery(r.Context(), q, nil, r.Form.Get("query"), time.UnixMilli(ms("start")), time.UnixMilli(ms("end")), time.Duration(ms("step"))*time.Millisecond)
	}
	if err != nil {
		return reply(400, fmt.Sprintf(`{"status":"error","errorType":"bad_data","error":%q}`, err.Error()))
	}
	defer qry.Close()
	res := qry.Exec(r.Context())
	if res.Err != nil {
		return reply(422, fmt.Sprintf(`{"status":"error","errorType":"execution","error":%q}`, res.Err.Error()))
	}
	var sb strings.Builder
	switch v := res.Value.(type) {
	case promql.Matrix:
		sb.WriteString(`{"status":"success","data":{"resultType":"matrix","result":[`)
		for i, s := range v {
			if i > 0 {
				sb.WriteByte(',')
			}
			fmt.Fprintf(&sb, `{"metric":%s,"values":[`, metricJSON(s.Metric))
			for j, p := range s.Floats {
				if j > 0 {
					sb.WriteByte(',')
				}
				fmt.Fprintf(&sb, `[%s,"%s"]`, strconv.FormatFloat(float64(p.T)/1000, 'f', -1, 64), fmtVal(p.F))
			}
			sb.WriteString(`]}`)
		}
		sb.WriteString(`]}}`)
	case promql.Vector:
		sb.WriteString(`{"status":"success","data":{"resultType":"vector","result":[`)
		for i, s := range v {
			if i > 0 {
				sb.WriteByte(',')
			}
			fmt.Fprintf(&sb, `{"metric":%s,"value":[%s,"%s"]}`, metricJSON(s.Metric), strconv.FormatFloat(float64(s.T)/1000, 'f', -1, 64), fmtVal(s.F))
		}
		sb.WriteString(`]}}`)
	default:
		return reply(422, `{"status":"error","errorType":"execution","error":"harness: unsupported result type"}`)
	}
	return reply(200, sb.String())
}

// ---- programs --------------------------------------------------------------------------------------------

func agg(op, g, x string) string {
	if g != "" {
		g = " " + g + " "
	}
	switch op {
	case "topk":
		return "topk" + g + "(1, " + x + ")"
	case "count_values":
		return "count_values" + g + `("v", ` + x + ")"
	case "quantile":
		return "quantile" + g + "(0.5, " + x + ")"
	}
	return op + g + "(" + x + ")"
}

func programs(r *vlib.R) []string {
	multi := `{__name__=~"m|n"}`
	groupings := []string{"", "by (a)", "by (b)", "by (a, b)", "by (a, c)", "without (a)", "without (b)", "without (a, b)", "without (c)"}
	ops := []string{"sum", "count", "max", "topk", "count_values"}
	lr := func(x string) []string {
		return []string{
			`label_replace(` + x + `, "c", "$1", "b", "(.*)")`,  // new / overwritten label c from b
			`label_replace(` + x + `, "a", "x$1", "b", "(.*)")`, // overwrites a grouping label
			`label_join(` + x + `, "c", "-", "a", "b")`,
		}
	}
	x1 := []string{"m", "n", multi}
	x1 = append(x1, lr("m")...)
	x1 = append(x1, lr(multi)...)
	seen := map[string]bool{}
	var out []string
	add := func(q string) {
		if !seen[q] {
			if _, err := parser.ParseExpr(q); err == nil {
				seen[q] = true
				out = append(out, q)
			}
		}
	}
	// depth 1-2: aggregation over selectors / label functions
	var agg1 []string
	for _, x := range x1 {
		for _, g := range groupings {
			for _, op := range ops {
				q := agg(op, g, x)
				add(q)
				if (op == "sum" || op == "count") && (x == "m" || x == multi || x == x1[3]) {
					agg1 = append(agg1, q)
				}
			}
		}
	}
	// histogram_quantile over buckets, and aggregations over it
	var hq []string
	for _, y := range []string{"h_bucket", "sum by (le) (h_bucket)", "sum by (le, a) (h_bucket)", "sum without (b) (h_bucket)", "sum without (a) (h_bucket)", "max by (a) (h_bucket)"} {
		q := "histogram_quantile(0.5, " + y + ")"
		add(q)
		hq = append(hq, q)
	}
	for _, h := range hq {
		for _, g := range groupings {
			for _, op := range []string{"sum", "max"} {
				add(agg(op, g, h))
			}
		}
	}
	// depth 3: aggregation over aggregation
	for _, z := range agg1 {
		for _, g := range groupings {
			for _, op := range []string{"sum", "max", "count_values", "topk"} {
				add(agg(op, g, z))
			}
		}
	}
	// binary operations with vector matching
	matchings := []string{"", "on (a)", "on (b)", "on (a, b)", "ignoring (a)", "ignoring (b)", "on (a) group_left", "ignoring (b) group_left", "on ()"}
	operands := []string{"m", "n", multi, "sum by (a) (m)", "sum by (a) (n)", "sum by (a, b) (m)", "sum without (b) (n)", "sum without (a) (" + multi + ")", "max by (b) (n)", x1[3]}
	var bins []string
	for _, l := range operands {
		for _, rr := range operands {
			for _, m := range matchings {
				for _, op := range []string{"+", "and", "unless", "or", ">"} {
					sp := " "
					if m != "" {
						sp = " " + m + " "
					}
					q := l + " " + op + sp + rr
					add(q)
					if (op == "+" || op == "and") && (l == "m" || l == "n" || l == "sum by (a) (m)") && (rr == "m" || rr == "n" || rr == "sum by (a) (m)") {
						bins = append(bins, q)
					}
				}
			}
		}
	}
	// depth 3: aggregation over binary operation
	for _, b := range bins {
		if _, err := parser.ParseExpr(b); err != nil {
			continue
		}
		for _, g := range groupings {
			for _, op := range []string{"sum", "count"} {
				add(agg(op, g, "("+b+")"))
			}
		}
	}
	return out
}

// analyze calls the real analyzer; a panic of the code under test comes back as text.
func analyze(an querysharding.Analyzer, q string) (a querysharding.QueryAnalysis, err error, panicked string) {
	defer func() {
		if p := recover(); p != nil {
			panicked = fmt.Sprint(p)
		}
	}()
	a, err = an.Analyze(q)
	return a, err, ""
}

func gen(r *vlib.R) iter.Seq[Case] {
	progs := programs(r)
	r.Set("programs", len(progs))
	inpl := inplacePrograms(progs)
	r.Set("inplace_programs", len(inpl))
	shardCounts := vlib.Pick(r, []int{2, 3}, []int{1, 2, 3, 4, 5})
	an := querysharding.NewQueryAnalyzer()
	return func(yield func(Case) bool) {
		// the in-place family first (small, newest), then the first-round programs
		for fam, list := range [][]string{inpl, progs} {
			nShardable := 0
			nSets := oldSets
			if fam == 0 {
				nSets = len(seriesSets)
			}
			for _, q := range list {
				a, err, pan := analyze(an, q)
				if pan != "" { // reported by the evaluation of this one case
					if !yield(Case{Query: q, Set: 0, Shards: shardCounts[0]}) {
						return
					}
					continue
				}
				if err != nil || !a.IsShardable() {
					continue
				}
				nShardable++
				for set := 0; set < nSets; set++ {
					for _, n := range shardCounts {
						for _, inst := range []bool{false, true} {
							if !yield(Case{Query: q, Set: set, Shards: n, Instant: inst}) {
								return
							}
						}
					}
				}
			}
			r.Set([]string{"inplace_programs_the_analyzer_shards", "programs_the_analyzer_shards"}[fam], nShardable)
		}
	}
}

// ---- evaluation --------------------------------------------------------------------------------------------

type answer struct {
	Err    string
	Series map[string][]string // metric -> "t=v" list
}

func ask(rt http.RoundTripper, c Case) (out answer) {
	defer func() {
		if p := recover(); p != nil {
			out = answer{Err: fmt.Sprint("panic: ", p)}
		}
	}()
	f := url.Values{}
	f.Set("query", c.Query)
	path := "/api/v1/query_range"
	if c.Instant {
		path = "/api/v1/query"
		f.Set("time", strconv.FormatInt((t0+2*step)/1000, 10))
	} else {
		f.Set("start", strconv.FormatInt((t0+step)/1000, 10))
		f.Set("end", strconv.FormatInt((t0+3*step)/1000, 10))
		f.Set("step", "60")
	}
	req, err := http.NewRequestWithContext(user.InjectOrgID(context.Background(), "t"), http.MethodGet, "http://fe"+path+"?"+f.Encode(), nil)
	if err != nil {
		return answer{Err: err.Error()}
	}
	resp, err := rt.RoundTrip(req)
	if err != nil {
		return answer{Err: "error: " + err.Error()}
	}
	body, _ := io.ReadAll(resp.Body)
	resp.Body.Close()
	if resp.StatusCode != 200 {
		return answer{Err: fmt.Sprintf("status %d: %s", resp.StatusCode, body)}
	}
	var pr struct {
		Status string `json:"status"`
		Data   struct {
			ResultType string `json:"resultType"`
			Result     []struct {
				Metric map[string]string `json:"metric"`
				Values [][]any           `json:"values"`
				Value  []any             `json:"value"`
			} `json:"result"`
		} `json:"data"`
	}
	if err := json.Unmarshal(body, &pr); err != nil || pr.Status != "success" {
		return answer{Err: fmt.Sprintf("undecodable answer %q: %v", body, err)}
	}
	a := answer{Series: map[string][]string{}}
	for _, s := range pr.Data.Result {
		mk, _ := json.Marshal(s.Metric) // map keys are sorted by encoding/json
		vals := s.Values
		if s.Value != nil {
			vals = append(vals, s.Value)
		}
		for _, v := range vals {
			a.Series[string(mk)] = append(a.Series[string(mk)], fmt.Sprintf("%v=%v", v[0], v[1]))
		}
	}
	return a
}

// feature names the construct classes of a program (for signatures).
func feature(q string) string {
	var f []string
	for _, k := range []struct{ sub, name string }{{"without", "without"}, {"by (", "by"}, {`=~"m|n"`, "multi-name-selector"}, {"label_replace", "label_replace"},
		{"label_join", "label_join"}, {"histogram_quantile", "histogram_quantile"}, {" on (", "on"}, {"ignoring", "ignoring"}, {"group_left", "group_left"},
		{"topk", "topk"}, {"count_values", "count_values"}} {
		if strings.Contains(q, k.sub) {
			f = append(f, k.name)
		}
	}
	if inPlaceRewrite(q) {
		f = append(f, "destination-is-source")
	}
	return strings.Join(f, "+")
}

func TestCheck(t *testing.T) {
	r := vlib.New(t, "C44")
	defer r.Finish()
	r.Rule("PromQL programs up to depth 3: {sum,count,max,topk,count_values} x 9 by/without groupings over selectors (one matching two metric names), label_replace/label_join " +
		"(destination inside / outside the grouping), histogram_quantile over 6 bucket expressions, aggregation over aggregation, binary ops {+,and,unless,or,>} x 9 vector matchings x 10 operands, " +
		"aggregation over binary op; x 3 series sets x shard counts (quick 2,3; thorough 1..5) x {range, instant}. " +
		"In-place family: 10 label_replace/label_join calls whose destination is one of their own source labels (first character, constant, removal, __name__, parenthesised arguments, " +
		"join with the destination as first / last / only source; non-injective on the data) under {sum,topk,count_values} x 11 groupings (by/without the rewritten label, the other label, __name__), " +
		"aggregation over aggregation, binary ops {+,or,unless} x 8 matchings; x 4 series sets (one with multi-character values: several stored values map to one rewritten value). " +
		"Only programs the analyzer shards are evaluated. " +
		"non-trivial = distinct cases with a non-empty unsharded result whose series are spread over >= 2 shards")
	r.Assume("each shard evaluates the unchanged query with Prometheus' promql.Engine over the series selected by ShardInfo.Matcher().MatchesLabels (the store-side contract)",
		"reference = same tripperware without the sharding middleware over the same harness; cases whose reference evaluation fails (duplicate label sets, many-to-many) are skipped and counted",
		"float samples, no staleness, no native histograms; result order is not compared")

	rigs := sync.Map{} // (set,shards) -> [2]http.RoundTripper
	type pair struct{ sharded, plain http.RoundTripper }
	get := func(set, n int) pair {
		k := [2]int{set, n}
		if v, ok := rigs.Load(k); ok {
			return v.(pair)
		}
		d := downstream{set: seriesSets[set]}
		s, err := queryfrontend.VerifC44Tripperware(n, d)
		if err != nil {
			panic(fmt.Sprintf("HARNESS-ERROR %v", err))
		}
		p, err := queryfrontend.VerifC44Tripperware(0, d)
		if err != nil {
			panic(fmt.Sprintf("HARNESS-ERROR %v", err))
		}
		v, _ := rigs.LoadOrStore(k, pair{s, p})
		return v.(pair)
	}
	an := querysharding.NewQueryAnalyzer()
	func() {
		defer func() {
			if p := recover(); p != nil {
				if s, ok := p.(string); ok && strings.HasPrefix(s, "HARNESS-ERROR") {
					panic(p)
				}
				r.Note("collision statistics of the in-place family not computed, the shard matcher panics: %v", p)
			}
		}()
		collisionStats(r, vlib.Pick(r, []int{2, 3}, []int{1, 2, 3, 4, 5}))
	}()

	vlib.ForEach(r, gen(r), func(c Case) {
		r.Sample(c)
		defer func() {
			if p := recover(); p != nil {
				if s, ok := p.(string); ok && strings.HasPrefix(s, "HARNESS-ERROR") {
					panic(p)
				}
				r.Violation("panic-in-code-under-test:"+feature(c.Query), fmt.Sprintf("query %q, %d shards: %v", c.Query, c.Shards, p), c)
			}
		}()
		a, err, pan := analyze(an, c.Query)
		if pan != "" {
			r.Violation("analyzer-panics:"+feature(c.Query), fmt.Sprintf("Analyze(%q) panics: %s", c.Query, pan), c)
			return
		}
		if err != nil || !a.IsShardable() {
			r.Add("not_sharded", 1)
			return
		}
		if inPlaceRewrite(c.Query) {
			r.Add("inplace_cases", 1)
		}
		set := seriesSets[c.Set]
		// (1) partition: every series in exactly one shard; agreeing on the sharding labels => same shard
		by, lbls := a.ShardBy(), a.ShardingLabels()
		inSet := map[string]bool{}
		for _, l := range lbls {
			inSet[l] = true
		}
		shardOf := make([]int, len(set))
		used := map[int]bool{}
		projShard := map[string]int{}
		for i, l := range set {
			cnt := 0
			for s := 0; s < c.Shards; s++ {
				m := (&storepb.ShardInfo{TotalShards: int64(c.Shards), ShardIndex: int64(s), By: by, Labels: lbls}).Matcher(&bufPool)
				if m.MatchesLabels(l) {
					cnt++
					shardOf[i] = s
				}
				m.Close()
			}
			if cnt != 1 {
				r.Violation("series-not-in-exactly-one-shard", fmt.Sprintf("series %s matches %d of %d shards (by=%v labels=%v)", l, cnt, c.Shards, by, lbls), c)
				return
			}
			used[shardOf[i]] = true
			var proj []string
			l.Range(func(x labels.Label) {
				if inSet[x.Name] == by {
					proj = append(proj, x.Name+"\x00"+x.Value)
				}
			})
			pk := strings.Join(proj, "\x01")
			if s, ok := projShard[pk]; ok && s != shardOf[i] {
				r.Violation("series-agreeing-on-sharding-labels-in-different-shards", fmt.Sprintf("series %s (by=%v labels=%v)", l, by, lbls), c)
				return
			}
			projShard[pk] = shardOf[i]
		}
		// (2) sharded answer == unsharded answer
		p := get(c.Set, c.Shards)
		ref := ask(p.plain, c)
		if ref.Err != "" {
			r.Add("reference_evaluation_fails", 1)
			return
		}
		got := ask(p.sharded, c)
		if len(ref.Series) > 0 && len(used) >= 2 {
			r.Nontrivial(fmt.Sprintf("%s|%d|%d|%v", c.Query, c.Set, c.Shards, c.Instant))
			if inPlaceRewrite(c.Query) {
				r.Add("inplace_nontrivial", 1)
			}
		}
		kind := "range"
		if c.Instant {
			kind = "instant"
		}
		ft := feature(c.Query)
		if strings.Contains(ft, "without") && strings.Contains(ft, "multi-name-selector") {
			// one root cause, whatever else the program contains: a "without" scope over series of several metric names
			ft = "without-grouping-over-several-metric-names"
		}
		if got.Err != "" {
			r.Violation("sharded-evaluation-fails:"+ft, fmt.Sprintf("%s query %q: unsharded succeeds, sharded: %s", kind, c.Query, got.Err), c)
			return
		}
		var names []string
		for n := range ref.Series {
			names = append(names, n)
		}
		for n := range got.Series {
			if _, ok := ref.Series[n]; !ok {
				names = append(names, n)
			}
		}
		sort.Strings(names)
		for _, n := range names {
			rv, gv := ref.Series[n], got.Series[n]
			if strings.Join(rv, " ") == strings.Join(gv, " ") {
				continue
			}
			what := "values-differ"
			if rv == nil {
				what = "extra-series"
			} else if gv == nil {
				what = "series-missing"
			}
			r.Violation("sharded-result-differs:"+ft, what+": "+fmt.Sprintf("%s query %q (sharded by=%v %v into %d): series %s unsharded %v, sharded %v", kind, c.Query, by, lbls, c.Shards, n, rv, gv), c)
			return
		}
	})
}
